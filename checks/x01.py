"""X01 codecs (specification growth): mess.IntCypher (number / base58 token / Ex token, 24 byte orders),
compress.Snappy and the jsonx snappy envelope.  Codecs.tla (denotations: XOR pad + byte order, canonical
base-R numerals, the Snappy block format, the marker-byte envelope) is model-checked on a scaled-down
universe with three named deviations as non-vacuity witnesses; plans from Codecs_Gen and seeded histories
are executed on the real code and every recorded call is judged by TLC (Codecs_Trace.tla)."""
import json
import os
import re

import vlib


def _own_findings():
    p = os.path.join(vlib.ROOT, "extras", "known_findings_x01.json")
    if not os.path.exists(p):
        return []
    doc = json.load(open(p))
    return [f for f in doc.get("findings", []) if f.get("property") == "X01" and f.get("status") == "open"]


def text(codes):
    return bytes(c % 256 for c in codes).decode("latin-1")


def describe(rj):
    ev = rj["event"]
    pad = rj["trace"][0].get("pad")
    if ev.get("ev") == "call":
        a = ev["a"]
        op = a.get("op")
        if op in ("enc", "dec"):
            return ("IntCypher (pad %s) %s[%d](%s) returned %s (%s): not the value the byte-order/XOR contract "
                    "gives" % (pad, "EncU32" if op == "enc" else "DecU32", a["v"], a.get("n", a.get("m")),
                               ev.get("r"), ev.get("out")))
        if op == "encs":
            return ("IntCypher (pad %s) EncU32ToStr%s[%d](%s) returned %r (%s): not the base58 numeral of the "
                    "obfuscated bytes" % (pad, "Ex" if a["ex"] else "", a["v"], a["n"], text(ev.get("r", [])),
                                          ev.get("out")))
        if op == "decs":
            return ("IntCypher (pad %s) DecStrToU32%s[%d](%r) returned %s (%s): a string must decode to the "
                    "number whose token it is, any other string to 0" %
                    (pad, "Ex" if a["ex"] else "", a["v"], text(a["s"]), ev.get("r"), ev.get("out")))
        if op == "zip":
            return ("Snappy.Compress of %d bytes returned %d bytes (%s) that do not denote the input (or exceed "
                    "the size bound)" % (len(a["b"]), len(ev.get("r", [])), ev.get("out")))
        if op == "unz":
            return ("Snappy.DeCompress(%s) gave %s / %d bytes: not what the block denotes" %
                    (a["blk"][:40], ev.get("out"), len(ev.get("r", []))))
        if op == "zipp":
            return ("Snappy.CompressWithPrefix(src of %d bytes, prefix %s) gave %s / %s...: not prefix ++ a block "
                    "denoting src" % (len(a["b"]), a["p"], ev.get("out"), ev.get("r", [])[:24]))
        if op == "wrap":
            return ("jsonx.TrySnappyCompress of %d bytes gave %s / %d bytes: enlarged, compressed below the "
                    "threshold, or does not unwrap to the input" % (len(a["b"]), ev.get("out"), len(ev.get("r", []))))
    if ev.get("ev") == "msnap":
        return ("JSONFastMarshalSnappy gave %s / %d bytes for a %d-byte text: enlarged, compressed below the "
                "threshold, or does not unwrap to the text" % (ev.get("out"), len(ev.get("r", [])), len(ev["plain"])))
    if ev.get("ev") == "usnap":
        return ("JSONFastUnmarshalSnappy(%s...) ended %s with %s; plain reading %s, enveloped reading %s" %
                (ev["data"][:24], ev.get("out"), ev.get("res"), ev.get("plain"),
                 {k: v for k, v in ev.get("inner", {}).items() if k != "pay"}))
    return "event not explained by Codecs_Trace: %r" % (ev,)


def run(ctx):
    fam = "codecs"
    ctx.findings = _own_findings()
    # 1. the denotations and the reference design on the scaled-down universe
    ctx.tlc_mc(fam, "Codecs_MC", "Codecs_MC.cfg", workers=4, coverage=ctx.thorough)
    ctx.tlc_mc(fam, "Codecs_MC", "Codecs_MC_bug_zeros.cfg", workers=1, expect_violation="RoundTrip",
               label="DropLeadingZeros (numerals without leading-zero digits)")
    ctx.tlc_mc(fam, "Codecs_MC", "Codecs_MC_bug_lenient.cfg", workers=1, expect_violation="NeverMisdecode",
               label="LenientLen (token decoder pads short byte strings)")
    ctx.tlc_mc(fam, "Codecs_MC", "Codecs_MC_bug_overlap.cfg", workers=1, expect_violation="SnappyExact",
               label="NaiveOverlap (overlapping copy as a block move)")
    if ctx.thorough:
        ctx.tlc_mc(fam, "Codecs_MC", "Codecs_MC_big.cfg", workers=8, timeout=1500)
    # 2. plans out of the spec at the real sizes
    pdir, plans = ctx.tlc_plans(fam, "Codecs_Gen", "Codecs_Gen.cfg", num=ctx.q(150, 1500), depth=12)
    # 3. execute on the real code
    binary = ctx.go_build("x01")
    tf = ctx.path("codecs.ndjson")
    out = ctx.harness(binary, ["-plans", pdir, "-out", tf, "-seed", ctx.seed,
                               "-ncy", ctx.q(150, 1500), "-cycalls", 40,
                               "-nsn", ctx.q(25, 250), "-sncalls", 40, "-snmax", ctx.q(1500, 4000),
                               "-njs", ctx.q(20, 200), "-jscalls", 30,
                               "-npar", ctx.q(6, 60), "-scope", ctx.q(4, 5), "-nbig", ctx.q(0, 1)], traces=[tf])
    traces = ctx.load_traces(tf)
    # 4. validate what the real code did
    rj = ctx.validate(fam, "Codecs_Trace", "Codecs_Trace.cfg", traces, label="codecs", chunk=ctx.q(8000, 12000))
    ctx.judge(rj, describe=describe)
    m = re.search(r"^x01: (.*)$", out, re.M)
    if m:
        ctx.extra["calls_per_operation"] = {k: int(v) for k, v in (kv.split("=") for kv in m.group(1).split())}
    ctx.extra["plans"] = len(plans)
    ctx.assumptions += [
        "the pad of a cypher instance (first four AES-CTR key-stream bytes) is computed by the harness with "
        "crypto/aes directly; keys of 16/24/32 bytes and 16-byte initial vectors only (anything else makes "
        "the constructor or the first call panic, which the property does not speak about)",
        "Snappy: a block that announces 2^28 bytes or more is taken to be invalid (no block built here can "
        "denote that much); a non-minimal length varint may be accepted or refused; error identity is open; "
        "which block a compressor emits is open (any block denoting the input within 32+n+n/6 bytes)",
        "the decoder allocates the announced length before it reads the elements (a 5-byte input can ask for "
        "4 GiB): inputs with announced lengths above 2^28 are generated only beyond 32 bits or rarely",
        "jsonx: JSON parsing itself is opaque (json-iterator called directly gives the reference outcome of "
        "the text TLC derives from the envelope); values with deterministic fast-JSON text only (no "
        "multi-key maps); texts handed to TrySnappyCompress never start with byte 128 (no JSON text does)",
    ]
    return ctx.finish(
        rule="plans = TLC simulation of Codecs.tla at the real sizes over edge-rich argument sets (distinct by "
             "content); histories = per cypher instance (random 16/24/32-byte key) 40 calls over all 24 byte "
             "orders with boundary-biased numbers, numbers chosen to give leading-zero tokens, genuine / "
             "mutated / foreign / random / small-scope-exhaustive tokens, cross-form and cross-order decoding, "
             "parallel use; Snappy inputs of 6 compressibility classes and boundary lengths, hand-built and "
             "damaged blocks; envelope values around the 256-byte threshold, damaged and foreign envelopes; a "
             "trace is one cypher instance / one batch of package-level calls",
        explanation="Codecs.tla model-checked (reference design meets the denotations; each named deviation "
                    "breaks the named property); every recorded call of the real code must be explained by the "
                    "denotation of its input under the instance's pad")


if __name__ == "__main__":
    vlib.main("X01", run)
