"""C12 queues - order, capacity, close semantics: Queue.tla (q.Q, async.Q, mux.Q, mq.MQ, SyncQueue)
and PriQueue.tla (binary heap as the code keeps it, related to the ideal order) model-checked
exhaustively with non-vacuity witnesses; plans from both specs and seeded boundary-biased histories
are executed call by call on the six real types; every reply (and Len / IsClosed / IsCleared where
the type has them) is validated by Queue_Trace / PriQueue_Trace.  Overlapping calls: race rounds on
fresh queues (control calls x adds; sleeping consumers, adds racing other consumers' Pops; k sleepers fed
by m adds) run on real goroutines released together; QueueWake_Trace must find an order of the calls that
explains every reply - also an error reply of a blocked Pop - and the final drain."""


def _load(ctx, name):
    """A harness that recorded a `hang` (a call of the code under test that neither returns nor blocks)
    ends early: trace files of later phases do not exist then."""
    import os
    p = ctx.path(name)
    return ctx.load_traces(p) if os.path.exists(p) else []


def run(ctx):
    fam = "queue"
    # 1. the design, exhaustively within small constants
    ctx.tlc_mc(fam, "Queue", "Queue_MC.cfg", workers=4, coverage=ctx.thorough)
    ctx.tlc_mc(fam, "Queue", "Queue_MC_bug_gt.cfg", workers=1, expect_violation="Capacity")
    ctx.tlc_mc(fam, "Queue", "Queue_MC_bug_req_first.cfg", workers=1, expect_violation="Order")
    ctx.tlc_mc(fam, "Queue", "Queue_MC_bug_pop_drains.cfg", workers=1, expect_violation="CloseSem")
    ctx.tlc_mc(fam, "PriQueue", "PriQueue_MC.cfg", workers=4, coverage=ctx.thorough)
    ctx.tlc_mc(fam, "PriQueue", "PriQueue_MC_bug.cfg", workers=1, expect_violation="PopOrder")
    if ctx.thorough:
        ctx.tlc_mc(fam, "Queue", "Queue_MC_big.cfg", workers=16, timeout=3000, heap="16g")
        ctx.tlc_mc(fam, "PriQueue", "PriQueue_MC_big.cfg", workers=16, timeout=3000, heap="16g")
    # 2. plans out of the specs
    pdir, plans = ctx.tlc_plans(fam, "Queue_Gen", "Queue_Gen.cfg", num=ctx.q(700, 5000), depth=22)
    ppdir, pplans = ctx.tlc_plans(fam, "PriQueue_Gen", "PriQueue_Gen.cfg", num=ctx.q(250, 2000), depth=24,
                                  sub="pplans", seed_off=1)
    # 3. execute against the real code
    binary = ctx.go_build("c12")
    ctx.harness(binary, ["-plans", pdir, "-pplans", ppdir, "-out", ctx.path("list.ndjson"),
                         "-pout", ctx.path("priq.ndjson"), "-seed", ctx.seed,
                         "-hist", ctx.q(400, 5000), "-phist", ctx.q(120, 1500), "-maxops", ctx.q(60, 90)],
                traces=[ctx.path("list.ndjson"), ctx.path("priq.ndjson")])
    # 4. validate what the real code did
    lst = _load(ctx, "list.ndjson")
    pri = _load(ctx, "priq.ndjson")
    rj = ctx.validate(fam, "Queue_Trace", "Queue_Trace.cfg", lst, label="list-queues", chunk=40000)
    rj += ctx.validate(fam, "PriQueue_Trace", "PriQueue_Trace.cfg", pri, label="priq", chunk=40000)
    # 5. overlapping calls must still be explained by SOME order of them: {close | try-close | try-clear}
    #    racing 1-3 adds on empty / one-item queues; 1-2 consumers asleep in Pop, then adds racing the Pops
    #    of other consumers; k sleepers and m adds issued together (the C13 executor: calls released together by a spin
    #    barrier, global quiescence, then a sequential observation of contents and flags), validated by
    #    QueueWake_Trace, which compares every reply with the order TLC chooses
    b13 = ctx.go_build("c13")
    ctx.harness(b13, ["-out", ctx.path("races.ndjson"), "-pout", ctx.path("x1.ndjson"),
                      "-stress", ctx.path("x2.ndjson"), "-pstress", ctx.path("x3.ndjson"), "-seed", ctx.seed,
                      "-rand", 0, "-prand", 0, "-race", ctx.q(480, 3600), "-rounds", "ctl,ctl,ctl,take,feed,prod"],
                traces=[ctx.path("races.ndjson")])
    races = _load(ctx, "races.ndjson")
    rj += ctx.validate(fam, "QueueWake_Trace", "QueueWake_Trace.cfg", races, label="races", chunk=40000)
    ctx.extra["race_traces"] = len(races)
    ctx.judge(rj)
    ctx.extra["plans"] = len(plans) + len(pplans)
    ctx.extra["list_queue_traces"] = len(lst)
    ctx.extra["priq_traces"] = len(pri)
    kinds = {}
    for t in lst + pri:
        k = "%s/c%d/r%d" % (t[0]["kind"], t[0]["ccap"], t[0]["rcap"])
        kinds[k] = kinds.get(k, 0) + 1
    ctx.extra["configurations"] = kinds
    ctx.assumptions += [
        "only calls that return are issued (a Pop goes out when the harness's own count model of the "
        "property says non-empty or closed - never the implementation's replies); a call that parks all the "
        "same is logged as reply 'blocked' and rejected",
        "priq priorities are logged as RANKS among the priorities of the trace (harness-side integer "
        "comparison); the real entries carry MinInt, MinInt+1, -1, 0, 1, MaxInt-1, MaxInt, random 64-bit "
        "values and small ones (only the order of priorities matters to the property)",
        "list-queue capacities 0 (unbounded) and 1..5",
        "on a closed lane that also holds its capacity either refusal (closed / full) is accepted; "
        "TryClose on a closed non-empty queue may answer either way (state unchanged)",
        "race rounds (step 5) are executed by the C13 harness and judged by QueueWake_Trace: the calls of a "
        "round are applied in any order with wake-ups in between, every reply (a blocked Pop's error reply is "
        "logged as reply 'err', which no action of the spec has) and the final drain / accessors must fit it; "
        "kinds of rounds: ctl (x2), take, feed - see cmd/c13 raceCtl / raceParked",
        "every call runs on a watched helper goroutine: a call that parks (or sleeps in AddAnyway's retry "
        "loop) is logged as reply 'blocked', one that keeps running for a minute as 'hang' - both rejected",
        "about half of the histories are 'late': every item a call handed out is kept AS RETURNED and decoded "
        "into the trace only when the history is over; the other half is written call by call",
        "configuration extremes: 'unbounded' is configured as 0, -1, MinInt and MaxInt (logged clamped to "
        "+-2^30, never reached); priq capacities 0 / negative (every Push refused: len >= capacity, as "
        "DESIGN 4/C12 states) and MaxInt; AddAnyway (issued while the lane is not full), async.Q.Size, "
        "WaitClose / WaitClear with a live context (issued once closed / cleared) and with an ended one",
        "the item value is a dimension: about a fifth of the adds carry an untyped nil (not for SyncQueue, whose "
        "Pop reports 'closed' as nil), a typed nil pointer, 0, \"\", a slice / map / func (uncomparable), a "
        "plain struct, or the very pointer of an earlier item; the trace logs the value class (val) and a pop is "
        "compared by class; priq entries also come as plain and uncomparable values",
        "race rounds 'prod': producers asleep in AddAnyway on a full lane, then Pops / close / another producer "
        "released together (QueueWake models blocked producers: they get on when there is room, are refused "
        "once closed)",
        "q.Q / priq expose no IsClosed: their state is bound through replies and the final drain only",
    ]
    return ctx.finish(
        rule="plans = TLC simulation of Queue.tla / PriQueue.tla (distinct by content); histories = seeded "
             "random over 6 types, capacities 0..5 per lane, prior adds, close at a random point, ops after "
             "close, final drain; 4 item representations; a trace is one queue lifetime",
        explanation="Queue.tla / PriQueue.tla model-checked exhaustively; every call's reply and the "
                    "accessor projection recorded from the real queues must be a step of the spec")
