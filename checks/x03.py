"""X03 timex + randx (specification growth): Timex.tla (Stop/Reset contract of timex.Timer, one controller, one
receiver goroutine, the runtime's Fire as internal action), Days.tla (civil calendar by table vs by formula;
DayBegin / DayDeltaBegin(s) / DayDelta / Today*, LocalDiff, LocalTime), Randx.tla (range contract on limbs,
shuffle as a distribution over arrangements) are model-checked; the real code is driven by TLC-simulated timer
plans, seeded microsecond histories, boundary-biased instants / deltas / locations, boundary ranges and a
complete enumeration of Shuffle's random choices; every recorded trace is validated by the *_Trace specs."""
import json
import os
import re

import vlib

MAXI = 2 ** 63 - 1


def _unlimb(l):
    v = 0
    for x in l:
        v = v * 65536 + x
    return v - 2 ** 63


def m_wide_span(f, rj):
    """Rand*Between*(min, max) panics although min <= max, and the range holds more than MaxInt values."""
    ev = rj["event"]
    if ev.get("ev") != "between" or ev["r"]["kind"] != "panic":
        return False
    mn, mx = _unlimb(ev["a"]["min"]), _unlimb(ev["a"]["max"])
    return mn <= mx and mx - mn >= MAXI


def m_cli_sign(f, rj):
    """LocalTime is off by exactly twice the zone offset (offset added instead of subtracted)."""
    ev = rj["event"]
    if ev.get("ev") != "clitime" or ev["a"]["off"] == 0:
        return False
    a, r = ev["a"], ev["r"]
    import datetime
    want = (datetime.date(a["y"], a["m"], a["d"]).toordinal() - datetime.date(1970, 1, 1).toordinal()) * 86400 \
        + a["hh"] * 3600 + a["mm"] * 60 + a["ss"] - a["off"]
    got = r["ed"] * 86400 + r["sod"]
    return got - want == 2 * a["off"]


def m_inflight_tick(f, rj):
    """A tick of the arming that Stop/Reset cancelled surfaces after the call returned, and the call was made
    within `window_us` of that arming's deadline with no sign of the tick before the call (the runtime was in
    the middle of delivering it when time.Timer.Stop reported 'not pending' and the non-blocking drain found
    the channel still empty).  A tick that was demonstrably delivered before the call, or that belongs to a
    deadline long past, is NOT this finding."""
    tr, line = rj["trace"], rj["line"]
    win = f.get("window_us", 20000)
    arm = [(tr[0]["t"], tr[0]["d"])]          # armings so far: (time of the call, d)
    cancels = []                              # (index of the cancelling call, its time, arming it cancelled, seen)
    seen_since_arm = False                    # a tick / len=1 was observed since the latest arming
    for i, e in enumerate(tr[1:line + 1], 1):
        if e["ev"] == "len":
            if e["n"] > 0 and i < line:
                seen_since_arm = True
        elif e["ev"] == "call":
            a = e["a"]
            if e["r"]["got"] and i < line:
                seen_since_arm = True
            if a["op"] in ("stop", "reset"):
                cancels.append((i, a["t"], arm[-1], seen_since_arm))
                if a["op"] == "reset":
                    arm.append((a["t"], a["d"]))
                    seen_since_arm = False
    if not cancels:
        return False
    # the value of the surfaced tick: at the rejected line or the first tick received after it
    at = None
    for k, e in enumerate(tr[line:]):
        if e["ev"] == "call" and e["r"]["got"]:
            at = e["r"]["at"]
            break
        if k > 0 and e["ev"] == "call" and e["a"]["op"] in ("stop", "reset"):
            break                             # drained again: later ticks say nothing about this one
    bad = tr[line]
    if not (bad["ev"] == "len" and bad["n"] == 1) and not (bad["ev"] == "call" and bad["r"]["got"]):
        return False
    for n, (i, tc, (ta, d), seen) in enumerate(reversed(cancels)):
        due = ta + d
        if seen or not (-2000 <= tc - due <= win):
            continue
        if at is None:
            # no value to attribute: only the latest cancelling call can be blamed
            return n == 0
        if due <= at <= due + 2000:           # the runtime back-dates the value to the deadline
            return True
    return False


MATCHERS = {"wide_span": m_wide_span, "cli_sign": m_cli_sign, "inflight_tick": m_inflight_tick}


def load_findings():
    p = os.path.join(vlib.ROOT, "extras", "known_findings_x03.json")
    return [f for f in json.load(open(p)).get("findings", []) if f.get("status") == "open"]


def judge(ctx, rejections, findings):
    """KNOWN-FINDING for rejections of a known class (matched on the failing input class and the observed
    deviation), everything else goes to vlib's judge and becomes a VIOLATION."""
    rest = []
    for rj in rejections:
        hit = None
        for f in findings:
            if f.get("label") == rj.get("label") and MATCHERS[f["matcher"]](f, rj):
                hit = f
                break
        if hit is None:
            rest.append(rj)
            continue
        ctx.extra.setdefault("known_finding_rejections", {})
        ctx.extra["known_finding_rejections"][hit["id"]] = ctx.extra["known_finding_rejections"].get(hit["id"], 0) + 1
        if hit["id"] not in [k["id"] for k in ctx.known_hits]:
            ctx.known_hits.append(hit)
            vlib.log("KNOWN-FINDING: property=%s %s" % (ctx.pid, hit["what"]))
            os.makedirs(os.path.join(vlib.ROOT, "extras", "replays"), exist_ok=True)
            rp = os.path.join(vlib.ROOT, "extras", "replays", "%s.json" % hit["id"])
            if not os.path.exists(rp):
                with open(rp, "w") as fh:
                    json.dump({"property": ctx.pid, "finding": hit["id"], "seed": ctx.seed, "rejected_line": rj["line"],
                               "rejected_event": rj["event"], "label": rj.get("label", ""),
                               "validate_with": rj.get("how", {}), "trace": rj["trace"]}, fh, indent=1)
    ctx.judge(rest)


def run(ctx):
    fam = "timex"
    findings = load_findings()
    # 1. the designs, exhaustively within small constants; named deviations as non-vacuity witnesses
    ctx.tlc_mc(fam, "Timex", "Timex_MC.cfg", workers=4, coverage=ctx.thorough, label="timer: 3 durations, clock 0..4, 3 armings")
    ctx.tlc_mc(fam, "Timex", "Timex_MC_bug.cfg", workers=1, expect_violation="NoStale",
               label="witness: bare time.Timer discipline (no drain)")
    ctx.tlc_mc(fam, "Days", "Days_MC.cfg", workers=4, label="calendar by table = by formula, every day 1895..2106")
    ctx.tlc_mc(fam, "Days", "Days_MC_bug.cfg", workers=1, expect_violation="Agree", label="witness: Julian leap rule")
    ctx.tlc_mc(fam, "Randx", "Randx_MC.cfg", workers=4, label="range contract, all 4-bit (min,max)")
    ctx.tlc_mc(fam, "Randx", "Randx_MC_bug.cfg", workers=1, expect_violation="RangeContract",
               label="witness: span computed in wrapping arithmetic (the code today)")
    ctx.tlc_mc(fam, "Randx", "Randx_MC_shuffle.cfg", workers=2, label="Fisher-Yates distribution, n = 1..5")
    ctx.tlc_mc(fam, "Randx", "Randx_MC_bug_sattolo.cfg", workers=1, expect_violation="UniformAtEnd",
               label="witness: Sattolo (j < i)")
    if ctx.thorough:
        ctx.tlc_mc(fam, "Randx", "Randx_MC_bug_naive.cfg", workers=1, expect_violation="UniformAtEnd",
                   label="witness: naive shuffle (j < n)")
        ctx.tlc_mc(fam, "Timex", "Timex_MC_big.cfg", workers=8, label="timer: 4 durations, clock 0..7, 5 armings")
        ctx.tlc_mc(fam, "Days", "Days_MC_big.cfg", workers=16, timeout=1200, label="every day of the years 0..2811")
    # 2. timer plans out of the spec
    pdir, plans = ctx.tlc_plans(fam, "Timex_Gen", "Timex_Gen.cfg", num=ctx.q(40, 400), depth=14)
    # 3. the real code
    binary = ctx.go_build("x03")
    f = {k: ctx.path(k + ".ndjson") for k in ("timer", "days", "cli", "rand", "wide")}
    args = ["-plans", pdir, "-seed", ctx.seed, "-maxplans", ctx.q(110, 1000), "-nhist", ctx.q(150, 1500),
            "-ndays", ctx.q(300, 4000), "-npairs", ctx.q(150, 1500), "-nshuf", ctx.q(40, 400), "-census", ctx.q(5, 6)]
    for k, p in f.items():
        args += ["-" + k, p]
    out = ctx.harness(binary, args, traces=list(f.values()), timeout=1500)
    rj = []
    t = {k: ctx.load_traces(p) for k, p in f.items()}
    rj += ctx.validate(fam, "Timex_Trace", "Timex_Trace.cfg", t["timer"], label="timer", chunk=ctx.q(30000, 8000),
                       max_rejections=ctx.q(8, 40))
    rj += ctx.validate(fam, "Days_Trace", "Days_Trace.cfg", t["days"], label="days", chunk=40000)
    rj += ctx.validate(fam, "Days_Trace", "Days_Trace.cfg", t["cli"], label="cli", max_rejections=20)
    rj += ctx.validate(fam, "Randx_Trace", "Randx_Trace.cfg", t["rand"], label="rand", chunk=40000)
    rj += ctx.validate(fam, "Randx_Trace", "Randx_Trace.cfg", t["wide"], label="wide", max_rejections=10)
    judge(ctx, rj, findings)
    if ctx.thorough:
        # the same timer schedules under the Go >= 1.23 channel semantics (GODEBUG asynctimerchan=0)
        f2 = ctx.path("timer-sync.ndjson")
        ctx.harness(binary, ["-plans", pdir, "-seed", ctx.seed + 1, "-maxplans", 400, "-nhist", 600, "-timer", f2],
                    traces=[f2], env={"GODEBUG": "asynctimerchan=0"}, timeout=1500)
        t2 = ctx.load_traces(f2)
        judge(ctx, ctx.validate(fam, "Timex_Trace", "Timex_Trace.cfg", t2, label="timer-sync", chunk=8000), findings)
        ctx.extra["timer_traces_sync_channel"] = len(t2)
    for m in re.finditer(r"(\w+)=(\d+)", out):
        ctx.extra[m.group(1)] = int(m.group(2))
    ctx.extra["plans"] = len(plans)
    ctx.extra["traces_by_part"] = {k: len(v) for k, v in t.items()}
    ctx.assumptions += [
        "timer: an armed timer delivers within 2 s of its deadline (the harness waits that long only when the "
        "tick fails to come); tick time values and call times are readings of one monotonic clock; the harness "
        "module is built with go 1.19 semantics (asynctimerchan=1: t.C has capacity 1), thorough also with 0",
        "days: civil fields and the Unix second of arguments and results are read with time.Time's accessors; "
        "the instant is demanded only where the location has a single offset (UTC, fixed zones, Asia/Shanghai "
        "1993.., Asia/Kolkata); daylight-saving zones only where every midnight exists, fields only",
        "randx: 'every value of a 2..4 value range occurs in 400 calls' and 'every bit varies in 300 calls' are "
        "probabilistic (false-alarm probability < 1e-40); 64-bit values are logged as 4 limbs of value+2^63",
        "shuffle census: the random function is replaced through SetShuffleRand by a scripted one; the scripts "
        "enumerate every branch, mass of a branch = 1/product of the requested range sizes",
    ]
    return ctx.finish(
        rule="timer: one trace = one timex.Timer driven through a TLC-simulated plan (time unit 1.5 ms) or a "
             "seeded history (durations 0..3 ms); days: one trace per location, boundary-biased instants x deltas; "
             "cli: one trace per (zone, text); rand: boundary + random (min,max) pairs x 3 functions, 54 small "
             "ranges, 12 typed generators, random shuffles, complete censuses for n = 0..5(6)",
        explanation="every call's reply / tick time / len(t.C) / calendar fields / instant / range membership / "
                    "swap list / census mass recorded from the real code must be explained by Timex.tla, Days.tla, "
                    "Randx.tla")
