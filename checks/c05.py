"""C05 TTL cache: TTL.tla (contract + models of ttlmem.go and of the redis commands of ttlrds.go)
model-checked exhaustively (the repaired algorithm conforms to the contract, redis agrees inside
the comparison region; the three pinned rules are named deviations and violate them); plans
simulated from the spec and seeded boundary-biased histories are executed on the real in-memory
cache, on the redis-backed cache over a fake server and by racing goroutines under a virtual
clock; every recorded reply must be explained by the contract (TTL_Trace).

Hardening (generic): returned value slices are kept as returned and rendered when the history is
over in half of the histories, every slice handed to Set is compared with a private copy (`inmut`,
`end` event); configuration extremes (size 2^31..MaxInt, ttl -2^63..2^62, empty key / empty value /
70 kB values / exotic key bytes, empty redis prefix) carried as clamped numbers; a decoy cache of the
same kind (same key names, other redis prefix) is used by the same caller between the judged calls;
every call runs under a watchdog and a call that never returns is a `stuck` observation (rejected),
a panic is a reply the contract cannot explain, a command the fake server lacks is exit 2; failures
are inputs on the redis-backed cache (server error on the call's first command, caller context
cancelled / past its deadline, also for racing callers): failure reply, no effect; in-memory races
include every call of the interface (Clear of a filled cache against readers) and cold-start rounds
on a fresh cache.

Hardening 2 (generic): one-byte values and values of 63..65537 bytes around powers of two; the very
same call twice; rendered results and released inputs are scribbled over by the caller as soon as the
store cannot hold them any more (at once on redis, after a one-shot read / after Clear on the
in-memory cache) and again before later calls; sizes and ttls around 2^8 / 2^16 / 2^32, key counts
around multiples of SCAN's page; one call repeated 255..65537 times as ONE run-length-encoded `run`
event; shape classes (never used, exactly full, one over, emptied by removals / clear / one-shot reads,
one element, all expired in place) followed by the structural calls; every error either side knows
(server replies, redis.ErrClosed / TxFailedErr, io.EOF, context errors, net timeouts, plain and wrapped;
missing-key replies sometimes as a wrapped redis.Nil); the fake implements the EXPIRE family with
NX|XX|GT|LT, SET with every option, GETEX etc. and answers anything else "ERR unknown command";
update-ttl reads shorter and longer than the remaining ttl with the clock moved in between;
thousands of remove-after-get bursts (parked spinning workers, one compact `burst` event each)."""


def run(ctx):
    fam = "ttl"
    # 1. the design
    ctx.tlc_mc(fam, "TTL", "TTL_MC.cfg", workers=ctx.q(6, 16), coverage=ctx.thorough)
    ctx.tlc_mc(fam, "TTL", "TTL_MC_bug_expired.cfg", workers=1, expect_violation="Conforms")
    ctx.tlc_mc(fam, "TTL", "TTL_MC_bug_zero.cfg", workers=1, expect_violation="Conforms")
    ctx.tlc_mc(fam, "TTL", "TTL_MC_bug_unit.cfg", workers=1, expect_violation="Agree")
    if ctx.thorough:
        ctx.tlc_mc(fam, "TTL", "TTL_MC_never.cfg", workers=16)
        ctx.tlc_mc(fam, "TTL", "TTL_MC_big.cfg", workers=16, timeout=3000, heap="16g")
        ctx.tlc_mc(fam, "TTL", "TTL_MC_3k.cfg", workers=16, timeout=3000, heap="16g")
    # 2. plans out of the spec: whole space for the in-memory cache, comparison region for both
    pdir, plans = ctx.tlc_plans(fam, "TTL_Gen", "TTL_Gen.cfg", num=ctx.q(110, 1500), depth=26)
    rdir, rplans = ctx.tlc_plans(fam, "TTL_Gen", "TTL_GenR.cfg", num=ctx.q(80, 1000), depth=26,
                                 sub="plansr", seed_off=1)
    # 3. execute on the real code
    binary = ctx.go_build("c05")
    files = [ctx.path("mem.ndjson"), ctx.path("both.ndjson"), ctx.path("conc.ndjson")]
    ctx.harness(binary, ["-plans", pdir, "-plansr", rdir, "-out", files[0], "-both", files[1],
                         "-conc", files[2], "-seed", ctx.seed, "-hist", ctx.q(250, 4000),
                         "-nboth", ctx.q(150, 2500), "-nconc", ctx.q(80, 1000), "-nrconc", ctx.q(80, 1000), "-nrds", ctx.q(70, 800), "-ncold", ctx.q(120, 1500), "-nburst", ctx.q(2000, 40000),
                         "-maxops", ctx.q(60, 120)], traces=files)
    # 4. validate what the real code did
    mem = ctx.load_traces(files[0])
    both = ctx.load_traces(files[1])
    conc = ctx.load_traces(files[2])
    rj = ctx.validate(fam, "TTL_Trace", "TTL_Trace.cfg", mem, label="mem", chunk=25000)
    rj += ctx.validate(fam, "TTL_Trace", "TTL_Trace.cfg", both, label="mem+redis", chunk=25000)
    rj += ctx.validate(fam, "TTL_Trace", "TTL_Trace.cfg", conc, label="concurrent", chunk=8000)
    ctx.judge(rj, describe=describe)
    ctx.extra["plans"] = len(plans)
    ctx.extra["region_plans"] = len(rplans)
    ctx.extra["mem_traces"] = len(mem)
    ctx.extra["mem_redis_traces"] = len(both)
    ctx.extra["concurrent_traces"] = len(conc)
    ctx.assumptions += [
        "clock injected through cache.VerifSetNow (build tag verif); whole seconds; ttls and clocks stay "
        "far below 2^31 (no overflow of now+ttl is exercised)",
        "redis is an in-memory fake of the seven commands ttlrds.go issues, with go-redis v9.0.4's "
        "duration formatting (usePrecise/formatMs/formatSec) and redis' expire-at-deadline rule",
        "contract freedoms: a key may vanish only when >= size other distinct keys were touched since its "
        "own last touch (failed must-not-exist Sets and consuming reads count as touches of the other "
        "key) or while the clock stands exactly on its deadline",
        "concurrent histories: inv/res logged outside the cache lock; TLC searches for a linearization",
        "numbers beyond +-10^9 (sizes, ttls) are logged clamped to +-10^9: clocks stay below 2*10^6 and key "
        "counts below 100, so the contract cannot tell the difference; ttls whose deadline now+ttl would "
        "overflow int64 (and, on redis, ttls beyond time.Duration's 292 years) are not generated",
        "injected failures: the fake refuses the call's FIRST command (or the caller's context has ended); "
        "the call must then report a failure (Clear has no result) and change nothing - what a failure of a "
        "later command (EXPIRE after GET, DEL in the middle of Clear) leaves behind is left open",
        "redis-backed races: every command reaching the fake server is a gate; the driver serves the parked "
        "callers' commands one at a time in a seeded order (commands atomic, interleaving controlled); "
        "no update-ttl in these programs (Get+Expire is not atomic by design), clock far from deadlines",
    ]
    return ctx.finish(
        rule="plans = TLC simulation of TTL.tla (4 keys, size 0..3, ttl {<=0,1,2,4}, ticks 1..2, fresh value "
             "per Set, every plan ends with a probe of all keys; region plans with size >= keys); histories = "
             "seeded random over 2..12 keys, size 0..9, default ttl -3..8, option ttl -3..9, ticks aimed at "
             "deadline-1/deadline/deadline+1; extremes of size/ttl/keys/values; redis-only region histories "
             "with injected failures; mem races, cold-start races and scheduled redis races; a trace is one "
             "cache lifetime ending with an `end` observation",
        explanation="every reply (ok/exists/hit+value/miss) of Set/Get/Remove/Clear/probe recorded from the "
                    "real caches under the virtual clock must keep the set of compatible contract states of "
                    "TTL.tla non-empty; mem+redis traces additionally require equal replies")


def describe(rj):
    ev = rj["event"]
    a = ev.get("a", {})
    txt = "event #%d (%s %s) of this trace recorded from the real code is not explained by the TTL " \
          "contract" % (rj["line"], ev.get("ev"), a.get("op"))
    if ev.get("ev") == "call2" and ev.get("r") != ev.get("rr"):
        txt += ": in-memory reply %s, redis-backed reply %s" % (ev.get("r"), ev.get("rr"))
    else:
        txt += ": reply %s" % (ev.get("r"),)
    return txt
