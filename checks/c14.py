"""C14 actor lanes: Lanes.tla model-checked (every interleaving of callers, consumers, Stop and
cancellation for small constants; the slot formula on 3-bit two's-complement integers), three
named deviations as non-vacuity witnesses, liveness under fairness; plans from TLC simulation and
seeded schedules executed step by step on the real line.Line / mline.MultiLine / async.RunnerQ /
async.ProcChan with global quiescence, plus free-running stress and life-cycle rounds (every order
of calls / Run / Stop on a fresh executor, sequential and released together by a spin barrier; each
termination signal - wait group, WaitStop - watched by a goroutine of its own that logs `term`);
every recorded trace validated by Lanes_Trace (acceptance order, skips, lane closing and lane exit
inferred by TLC).  Panics in Run/Stop, a callee entered with a parameter nobody submitted and a
process death inside neptune are events of their own kind that the spec rejects."""

from vlib import MachineryError, log

# a TLC tool race (two workers sorting the fields of one shared record object), nothing about neptune
TLC_RACE = ("occurs multiple times in record", "Attempted to select nonexistent field")


def mc(ctx, *a, **kw):
    for attempt in range(3):
        try:
            return ctx.tlc_mc(*a, **kw)
        except MachineryError as e:
            if attempt < 2 and any(m in str(e) for m in TLC_RACE):
                log("[tlc-mc] TLC record-normalisation race, running %s again" % a[2])
                continue
            raise


def run(ctx):
    fam = "lanes"
    mc(ctx, fam, "Lanes", "Lanes_MC.cfg", workers=4, coverage=ctx.thorough)
    mc(ctx, fam, "Lanes", "Lanes_MC_pchan.cfg", workers=4, coverage=ctx.thorough)
    mc(ctx, fam, "Lanes", "Lanes_MC_mline.cfg", workers=4, coverage=ctx.thorough)
    mc(ctx, fam, "Lanes", "Lanes_MC_bug.cfg", workers=1, expect_violation="SlotInRange")
    mc(ctx, fam, "Lanes", "Lanes_MC_bug2.cfg", workers=1, expect_violation="NoLateAccept")
    mc(ctx, fam, "Lanes", "Lanes_MC_bug3.cfg", workers=1, expect_violation="NoOrphan")
    mc(ctx, fam, "Lanes", "Lanes_MC_live.cfg", workers=4)
    if ctx.thorough:
        mc(ctx, fam, "Lanes", "Lanes_MC_live_big.cfg", workers=8, timeout=3000)
        mc(ctx, fam, "Lanes", "Lanes_MC_big.cfg", workers=16, timeout=3000, heap="16g")
        mc(ctx, fam, "Lanes", "Lanes_MC_big_mline.cfg", workers=16, timeout=3000, heap="16g")
        mc(ctx, fam, "Lanes", "Lanes_MC_big4.cfg", workers=16, timeout=3000, heap="16g")
    pdir, plans = ctx.tlc_plans(fam, "Lanes_Gen", "Lanes_Gen.cfg", num=ctx.q(200, 3500), depth=44)
    binary = ctx.go_build("c14")
    tfile = ctx.path("traces.ndjson")
    # one trace file, flushed per event: if the process dies inside neptune, vlib appends a `crash`
    # event to the history that led to it and the spec rejects it
    ctx.harness(binary, ["-plans", pdir, "-out", tfile, "-seed", ctx.seed, "-rand", ctx.q(48, 800),
                         "-nstress", ctx.q(16, 300), "-nlife", ctx.q(112, 1120), "-nmicro", ctx.q(120, 2000),
                         "-nlong", ctx.q(1, 4), "-nwide", ctx.q(4, 10), "-nrace", ctx.q(2000, 20000)],
                timeout=2400, traces=[tfile])
    alltr = ctx.load_traces(tfile)
    mode = lambda t: t[0]["src"].split(":")[0]
    steps = [t for t in alltr if mode(t) in ("plan", "rand")]
    life = [t for t in alltr if mode(t) in ("life", "long", "wide", "race")]
    stress = [t for t in alltr if mode(t) == "stress"]
    if len(steps) + len(life) + len(stress) != len(alltr):
        raise MachineryError("trace with an unknown src")
    rj = ctx.validate(fam, "Lanes_Trace", "Lanes_Trace.cfg", life + stress, label="free-running", chunk=6000,
                      max_rejections=8)
    rj += ctx.validate(fam, "Lanes_Trace", "Lanes_Trace.cfg", steps, label="steps", chunk=20000,
                       max_rejections=8)
    ctx.judge(rj, describe=describe)
    ctx.extra["plans"] = len(plans)
    ctx.extra["step_traces"] = len(steps)
    ctx.extra["stress_traces"] = len(stress)
    ctx.extra["life_cycle_rounds"] = len(life)
    kinds = {}
    for t in alltr:
        k = "%s/lanes=%d/q=%d" % (t[0]["kind"], t[0]["nl"], t[0]["qsize"])
        kinds[k] = kinds.get(k, 0) + 1
    ctx.extra["configurations"] = kinds
    ctx.assumptions += [
        "global quiescence is read from runtime.Stack wait reasons (internal/qx)",
        "`alive` = some goroutine other than this harness's callers has a frame of the executor's package on its "
        "stack (no function name assumed); a `term` event = one of the owner's termination signals "
        "(sync.WaitGroup after Run returned; MultiLine.WaitStop / RunnerQ.WaitStop at any time) has returned; "
        "ProcChan.WaitStop is not used as a termination signal (it returns when Stop is called)",
        "queue size options outside TLC's range are carried clamped (MaxInt as 1000000, negative = unbounded "
        "as 0, option not given as 8192)",
        "events are logged in an order consistent with real time (inv/cancel/stopi before, ret/stopr after "
        "the call; start/end by the callee itself), so an overlap or inversion in the log is real",
        "the trace spec leaves open: hash->lane map (any function into [0,lanes), learned from IndexOf or first "
        "use), when `full` is answered (only: not without pressure), executing or skipping a call whose context "
        "ended, result vs context error when both are available, pchan backlog after Stop",
    ]
    return ctx.finish(
        rule="plans = TLC simulation of Lanes.tla (7 calls, lanes 1,2,3,7, queue sizes 0,1,2, hashes incl. MinInt, "
             "MinInt+1, MaxInt, +-lanes; Stop by the owner or by the callee of a running call, before or after "
             "Run), each applied to line/mline/runq/pchan in turn + seeded schedules (12 calls, queue sizes "
             "0,1,2,8, random 63-bit hashes, same-hash bursts that fill a lane, submissions right behind Stop) + "
             "free-running stress (2-4 callers, concurrent cancel, Stop from a goroutine or from a callee, a reader "
             "of the getters) + life-cycle rounds (14 families: the six orders of calls/Run/Stop with quiescence "
             "between, and calls, Run, Stop, Run+Stop back to back released together by a spin barrier; Stop twice, "
             "Run twice where guarded by a once, WaitStop from the very beginning; every family on every executor). "
             "Further plan dimensions: queue size -1 / MaxInt / option not given, lanes 1..7, RunnerQ without wait "
             "group, callee returning value and error together, a running callee submitting a call to its own "
             "executor (released through that call's context if it queued behind itself), getters as events, a slow "
             "submitter (its context's first Done() is held until a `done` step / yields in free-running mode, so "
             "that the lane's answer - or skip - for a pre-ended context is there before the caller looks; such "
             "callers are exempt from 'reply delivered' at a quiet point while held, never at the final one); the "
             "dynamic kind of parameter / result / error (struct, pointer, int, string, slice, map, func, nil, typed "
             "nil pointer; error value, pointer, wrapped, typed nil; the executor's own closed/full sentinels and "
             "context.Canceled, DeadlineExceeded, q.ErrClosed, ErrSync returned by the callee as ITS error; typed "
             "function signatures for the reflective call) with kind+identity in the trace, returned aggregates "
             "scribbled over after rendering; one context shared by several calls; a lane filled to the brim at "
             "Stop; 257 / 65537 calls in a row as one run-length `burst` event; MultiLines of 8..1025 lanes (IndexOf "
             "boundary hashes, getters, life cycle; no calls); 120 caller-less Run/Stop micro rounds; 2000 Stop || Stop race rounds (fresh started executor, 2-3 "
             "goroutines call Stop together and each submits a call to a high lane as soon as ITS Stop returned; "
             "MultiLines of 2..4096 lanes and the single-lane executors; one `late` event per round: accepted, "
             "executed, other, stuck - all must be 0). Stop "
             "is never called on the driver: `stopr` is logged when it returns, a parked Stop is legal until the "
             "final quiescent point (consumers started, Stop called, every gate opened), where Final must hold",
        explanation="callee start/end with the lane index handed over, every caller's reply, and at each quiescent "
                    "point 'nothing is pending', live executor goroutines and termination must be explained by "
                    "Lanes.tla (same actions as the exhaustive runs; acceptance moments, skips and lane closing "
                    "are inferred)")


def describe(rj):
    ev = rj["event"]
    cfg = rj["trace"][0]
    return ("executor %s (lanes=%s, qsize=%s): event #%d %s cannot be explained by Lanes.tla after the "
            "preceding events of this trace" % (cfg.get("kind"), cfg.get("nl"), cfg.get("qsize"), rj["line"],
                                                ev))
