"""X06 vcode over an evicting cache (specification growth): VCodeLRU.tla = C19's property layer (VCode.tla,
by EXTENDS) + an abstract recency-ordered store of Config.CacheSize pairs with the eviction rule of LRU.tla
(by INSTANCE).  Model-checked exhaustively (mechanism = VCode's entries in an LRU; every reply legal for the
composed property layer; evicted = never sent to; recent pairs keep their state; touch contract; isolation),
three named deviations refuted (evict the warm end, verify does not refresh, refused send refreshes), plans
from VCodeLRU_Gen and seeded histories run on the real vcode.VCLogic with CacheSize 0..4 over 2..6 pairs,
every recorded call validated by VCodeLRU_Trace."""
import json
import os
import shutil

import vlib


def _s(codes):
    try:
        return "".join(chr(c) for c in codes)
    except Exception:
        return repr(codes)


def describe(rj):
    ev, reset = rj["event"], rj["trace"][0]
    cfg = {k: reset.get(k) for k in ("cache", "npairs", "mock", "len", "ttl", "gap", "win", "maxCount", "maxVerify")}
    a = ev.get("a")
    if not a:
        return "event #%d cannot be explained by VCodeLRU.tla" % rj["line"]
    p = "(%r, %r)" % (_s(a["p"]["area"]), _s(a["p"]["phone"]))
    if a["op"] == "send":
        what = "SendSMSCode%s -> %s [%s]" % (p, a["r"], a["err"])
    else:
        what = "VerifySMSCode%s code=%r (%s) hash=%r (%s) -> %s [%s]" % (
            p, _s(a["code"]), a.get("cref"), _s(a["hash"]), a.get("href"), a["r"], a["err"])
    hist = []
    for e in rj["trace"][1:rj["line"]]:
        b = e.get("a")
        if b:
            hist.append("%s%s%s->%s" % ("S" if b["op"] == "send" else "V", _s(b["p"]["area"]) + "-" + _s(b["p"]["phone"]),
                                       "" if b["op"] == "send" else "(%s,%s)" % (b.get("cref"), b.get("href")), b["r"]))
    return ("config %s (%s): %s is not a reply the composed contract allows after the history %s" %
            (cfg, reset.get("src"), what, hist[-16:]))


def run(ctx):
    fam = "vcodelru"
    kf = os.path.join(vlib.ROOT, "extras", "known_findings_x06.json")
    ctx.findings = [f for f in json.load(open(kf))["findings"]
                    if f.get("property") == ctx.pid and f.get("status") == "open"]
    # the composition REUSES the two finished specs: they are copied beside VCodeLRU.tla for TLC's module
    # lookup at run time (the sources stay specs/vcode/VCode.tla and specs/lru/LRU.tla)
    d = ctx._specdir(fam)
    for src in (("vcode", "VCode.tla"), ("lru", "LRU.tla")):
        shutil.copyfile(os.path.join(vlib.ROOT, "specs", *src), os.path.join(d, src[1]))
    # 1. the design, exhaustively: 3 pairs x CacheSize 1..2, all 16 regimes, mock and real
    ctx.tlc_mc(fam, "VCodeLRU", "VCodeLRU_MC.cfg", workers=4, coverage=ctx.thorough)
    # non-vacuity: each named deviation of the store makes a reply illegal for the composed property layer
    ctx.tlc_mc(fam, "VCodeLRU", "VCodeLRU_MC_bug_mru.cfg", workers=1, expect_violation="VerifiesWhenDue")
    ctx.tlc_mc(fam, "VCodeLRU", "VCodeLRU_MC_bug_notouch.cfg", workers=1, expect_violation="VerifiesWhenDue")
    ctx.tlc_mc(fam, "VCodeLRU", "VCodeLRU_MC_bug_refused.cfg", workers=1, expect_violation="RefusalsJustified")
    if ctx.thorough:
        ctx.tlc_mc(fam, "VCodeLRU", "VCodeLRU_MC_mid.cfg", workers=8, timeout=1200, label="3 pairs, 4 sends")
        ctx.tlc_mc(fam, "VCodeLRU", "VCodeLRU_MC_big.cfg", workers=16, timeout=3000, heap="12g",
                   label="4 pairs x CacheSize 3")
    # 2. plans out of the spec
    pdir, plans = ctx.tlc_plans(fam, "VCodeLRU_Gen", "VCodeLRU_Gen.cfg", num=ctx.q(300, 3000), depth=24)
    # 3. execute on the real code
    binary = ctx.go_build("x06")
    tf = ctx.path("t.ndjson")
    out = ctx.harness(binary, ["-plans", pdir, "-out", tf, "-seed", ctx.seed, "-rand", ctx.q(300, 4000),
                               "-shape", ctx.q(250, 3000), "-maxops", ctx.q(60, 140)], traces=[tf])
    # 4. validate what the real code did
    traces = ctx.load_traces(tf)
    rj = ctx.validate(fam, "VCodeLRU_Trace", "VCodeLRU_Trace.cfg", traces, label="calls", chunk=30000)
    ctx.judge(rj, describe)
    ctx.extra["plans"] = len(plans)
    ctx.extra["traces"] = len(traces)
    ctx.extra["evicting_traces"] = sum(1 for t in traces if t[0].get("cache", 0) < t[0].get("npairs", 0))
    ctx.extra["harness"] = out.strip().split("\n")[-1]
    ctx.assumptions += [
        "time enters only through regimes, as in C19 (durations huge or non-positive)",
        "the touch contract is read from vcode/vlogic.go: a send that puts a code in force and every verification "
        "of a pair with state refresh recency; a refused send and a verification of a pair without state do not",
        "a send whose gateway failed either left nothing (no touch) or left the new code in force (touch); TLC "
        "searches both continuations",
        "callers are sequential; CacheSize 0 is a store that holds nothing (every pair is always fresh)",
    ]
    return ctx.finish(
        rule="plans = TLC simulation of VCodeLRU.tla (4 pairs, CacheSize 0..4, all regimes, limits -1..3); histories "
             "= seeded: free mixes over a drifting working set of 2..6 pairs with CacheSize 0..4 (sometimes >= "
             "pairs), and shaped input patterns (round-robin thrash, keep-warm by good verify / bad verify / "
             "re-send, fill then probe); a trace is one VCLogic lifetime",
        explanation="VCodeLRU.tla model-checked exhaustively (mechanism replies legal for the composed property "
                    "layer, three deviations refuted); every reply recorded from vcode.VCLogic must be Legal (C19) "
                    "in the property state that the preceding calls, touches and trims leave")
