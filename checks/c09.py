"""C09 bitmap1024 serialization and block integers: specs/bitmapcodec/BitmapCodec.tla (denotation of a
byte string, Marshal's two encodings, blocks as base-1024 digit arithmetic + a model of the code with the
deviations of the pinned tree as named constants) model-checked exhaustively with scaled-down widths;
plans from BitmapCodec_Gen and boundary-biased inputs executed on the real Marshal/Unmarshal, BigU32,
U32BitTip and list forms; every recorded call validated by BitmapCodec_Trace."""


def _short(x, n=24):
    if isinstance(x, list):
        if len(x) > n and all(isinstance(i, int) for i in x):
            return x[:n] + ["... %d more" % (len(x) - n)]
        if len(x) > n:
            return [_short(i, n) for i in x[:n]] + ["... %d more" % (len(x) - n)]
        return [_short(i, n) for i in x]
    if isinstance(x, dict):
        return {k: _short(v, n) for k, v in x.items()}
    return x


def run(ctx):
    fam = "bitmapcodec"
    # 1. the design, scaled down (12-element bitmaps with 2-bit bytes; blocks of 4, 3-bit "uint32")
    ctx.tlc_mc(fam, "BitmapCodec", "BitmapCodec_MC.cfg", workers=4, coverage=ctx.thorough,
               label="codec: all 4096 bitmaps, all 87381 byte strings of length 0..8")
    ctx.tlc_mc(fam, "BitmapCodec", "BitmapCodec_MC_block.cfg", workers=4, coverage=ctx.thorough,
               label="blocks: all 511 integers of 4 base-4 digits, both kinds")
    ctx.tlc_mc(fam, "BitmapCodec", "BitmapCodec_MC_list.cfg", workers=4, label="list forms: all pairs of blocks with 0-2 or all members")
    if ctx.thorough:
        ctx.tlc_mc(fam, "BitmapCodec", "BitmapCodec_MC_big.cfg", workers=16, timeout=3000, heap="8g",
                   label="codec: all 65536 bitmaps of 16 elements, all 349525 byte strings of length 0..9")
        ctx.tlc_mc(fam, "BitmapCodec", "BitmapCodec_MC_block_big.cfg", workers=16, timeout=3000, heap="8g",
                   label="blocks: all 2047 integers of 5 base-4 digits (5-bit 'uint32'), both kinds")
    # non-vacuity: the two deviations of the pinned tree, and two of the codec
    ctx.tlc_mc(fam, "BitmapCodec", "BitmapCodec_MC_bug.cfg", workers=1, expect_violation="Conforms",
               label="deviation wrapmul: uint32(Start*1024)")
    ctx.tlc_mc(fam, "BitmapCodec", "BitmapCodec_MC_bug2.cfg", workers=1, expect_violation="Conforms",
               label="deviation swapdir: U32BitTip GetN/RGetN dispatch inverted")
    if ctx.thorough:
        ctx.tlc_mc(fam, "BitmapCodec", "BitmapCodec_MC_bug3.cfg", workers=1, expect_violation="Conforms",
                   label="deviation le64: sparse encoding for n <= 64")
        ctx.tlc_mc(fam, "BitmapCodec", "BitmapCodec_MC_bug4.cfg", workers=1, expect_violation="Conforms",
                   label="deviation norange: no range check in sparse decode")
    # 2. plans out of the spec (real geometry, boundary integers)
    pdir, plans = ctx.tlc_plans(fam, "BitmapCodec_Gen", "BitmapCodec_Gen.cfg", num=ctx.q(80, 1200), depth=13,
                                timeout=1500)
    # 3. execute on the real code
    binary = ctx.go_build("c09")
    out = ctx.path("codec.ndjson")
    # cold starts: a fresh process whose first use of the package is a concurrent read round
    cold = []
    for i in range(ctx.q(6, 40)):
        cf = ctx.path("cold%d.ndjson" % i)
        ctx.harness(binary, ["-cold", "-out", cf, "-seed", ctx.seed * 100 + i], traces=[cf])
        cold.append(cf)
    ctx.harness(binary, ["-plans", pdir, "-out", out, "-seed", ctx.seed, "-roundtrips", ctx.q(30, 600),
                         "-perlen", ctx.q(2, 12), "-blocks", ctx.q(30, 600), "-race", ctx.q(10, 150)],
                traces=[out])
    # 4. validate
    traces = []
    for cf in cold:
        traces += ctx.load_traces(cf)
    traces += ctx.load_traces(out)
    rj = ctx.validate(fam, "BitmapCodec_Trace", "BitmapCodec_Trace.cfg", traces, label="codec",
                      chunk=ctx.q(20000, 15000), timeout=1800)
    ctx.judge(rj)
    ctx.samples = [_short(s) for s in ctx.samples]
    ctx.extra["plans"] = len(plans)
    src = {}
    for t in traces:
        k = t[0].get("src", "?").split(":")[0]
        src[k] = src.get(k, 0) + 1
    ctx.extra["traces_by_source"] = src
    ctx.assumptions += [
        "integers are logged as sign + 7 base-1024 digits; the real state is read off raw words and Start fields",
        "Unmarshal is only exercised on a fresh bitmap; after a failed Unmarshal the bitmap is dropped",
        "an Unmarshal failure is accepted for bytes that denote nothing or that no Marshal produces (the property "
        "says 'either fails or yields exactly the set'); for a Marshal output it is a violation",
        "reverse list forms: the order in which the blocks are visited is left open (BigU32s walks the list "
        "forwards, U32BitTips backwards); per-block order, truncation to n and completeness are checked",
        "list forms and GetN with negative n (make panics) are outside the property",
        "the byte string given to Unmarshal / New...FromData is compared with a private copy after the call "
        "(`inmut` must be true); for arbitrary bytes the caller's buffer is one reused region overwritten right "
        "after the call, before the decoded bitmap is read",
        "degenerate inputs: no bytes as nil and as empty slice, empty non-nil lists, empty blocks inside lists, nil zero-length iterator slices; member counts around k*64 +- 1; lists of 255/256/257/300 blocks; a block filled by runs of Set calls cut at 255/256/257 (bsetrun: one run-length-encoded event), then emptied by Reverse",
        "the caller owns what it was given: every returned slice (list forms, Marshal bytes, block lists) is overwritten by the harness (elements flipped, capacity refilled through s[:0]) once it has been rendered; equal values are encoded / listed repeatedly in one process with that in between, later calls are judged as usual",
        "late traces (about half): Marshal's bytes, list-form results and iterator slices are kept as returned and "
        "rendered when the trace is over; a call that does not return within 40 s is a rejected `hang` event",
        "concurrent read rounds (also as the first use of the package in 6 fresh processes): a bitmap, its bytes "
        "and two blocks nobody writes are shared by 8 goroutines (Marshal, Unmarshal into own bitmaps, GetN, lists)",
    ]
    return ctx.finish(
        rule="round trips for member counts 0,1,2,3,31,62..66,100,127..129,512,1000,1022..1024 + seeded random "
             "(random / extremes forced / dense runs); byte strings of every length 0..130 (valid sparse unsorted "
             "with repeats, one element out of range at first/last/random position incl. int16-negative values, "
             "odd, too long, 128 random / sparse-looking / all ones / single bit), three entry points; block "
             "scenarios for 44 int64 and 20 uint32 boundary integers + seeded random in and out of range: build, "
             "iterate both ways, extend with members / neighbours / other blocks / out-of-range, complement, "
             "list forms; every round trip decoded twice from the same source through two entry points and once "
             "more as New...FromData with block numbers 0, 1, 2^22-1, 2^22, 2^32-2, then iterated; two Marshals "
             "before the first result is used; parameterless constructors filled by Set; 64-bit extremes of the "
             "iterator budget; byte lengths up to 65537; concurrent read-only and cold-start rounds; "
             "plans = TLC simulation of BitmapCodec.tla over boundary integers",
        explanation="BitmapCodec.tla model-checked (denotation, round trip, digit arithmetic against true "
                    "integers, code model conforms, 4 deviations caught); every reply, error flag, Start and "
                    "raw-word projection recorded from the real code must be allowed by the spec")
