"""C15 mux worker group: MuxCache.tla (the seven handlers of worker.go, queues, routing, both cache
facades, every failure placement and interleaving) model-checked; plans with failure and gate
patterns replayed step by step on the real mux.WorkerGrp with instrumented store callbacks and
cache facades; store calls, cache updates, replies and quiescent cache/store observations
validated by MuxCache_Trace (contract level: coherence, one-at-a-time in acceptance order,
delete invalidates, add on a cached key is a duplicate that does not touch the store, an abandoned
call - caller context ended - is still applied exactly once and later calls get their own results)."""


def run(ctx):
    fam = "muxcache"
    ctx.tlc_mc(fam, "MuxCache", "MuxCache_MC.cfg", workers=ctx.q(4, 16), coverage=ctx.thorough)
    # non-vacuity: named deviations of the handlers / the routing break the named property
    ctx.tlc_mc(fam, "MuxCache", "MuxCache_MC_bug.cfg", workers=1, expect_violation="Coherent")
    ctx.tlc_mc(fam, "MuxCache", "MuxCache_MC_bug_split.cfg", workers=1, expect_violation="InOrder")
    ctx.tlc_mc(fam, "MuxCache", "MuxCache_MC_bug_add.cfg", workers=1, expect_violation="AddDup")
    ctx.tlc_mc(fam, "MuxCache", "MuxCache_MC_bug_addfast.cfg", workers=1, expect_violation="AddDup")
    if ctx.thorough:
        ctx.tlc_mc(fam, "MuxCache", "MuxCache_MC_bug_utl.cfg", workers=1, expect_violation="Coherent")
        ctx.tlc_mc(fam, "MuxCache", "MuxCache_MC_bug_del.cfg", workers=1, expect_violation="Coherent")
        ctx.tlc_mc(fam, "MuxCache", "MuxCache_MC_map.cfg", workers=16)
        ctx.tlc_mc(fam, "MuxCache", "MuxCache_MC_big.cfg", workers=16, timeout=3000, heap="16g")
    pdir, plans = ctx.tlc_plans(fam, "MuxCache_Gen", "MuxCache_Gen.cfg", num=ctx.q(160, 2000), depth=48,
                                timeout=1200)
    binary = ctx.go_build("c15")
    steps_f, stress_f = ctx.path("steps.ndjson"), ctx.path("stress.ndjson")
    ctx.harness(binary, ["-plans", pdir, "-out", steps_f, "-stress", stress_f, "-seed", ctx.seed,
                         "-rand", ctx.q(110, 2600), "-nstress", ctx.q(25, 500),
                         "-ncold", ctx.q(50, 800), "-nexit", ctx.q(1000, 20000), "-nlong", ctx.q(1, 8)],
                traces=[steps_f, stress_f])
    steps = ctx.load_traces(steps_f)
    stress = ctx.load_traces(stress_f)
    rj = ctx.validate(fam, "MuxCache_Trace", "MuxCache_Trace.cfg", steps, label="steps", chunk=30000)
    rj += ctx.validate(fam, "MuxCache_Trace", "MuxCache_Trace.cfg", stress, label="stress", chunk=30000)
    ctx.judge(rj)
    ctx.extra["plans"] = len(plans)
    ctx.extra["step_traces"] = len(steps)
    ctx.extra["stress_traces"] = len(stress)
    ctx.assumptions += [
        "store callbacks are the harness' in-memory store: a failed callback leaves it unchanged; "
        "an upsert without the existing item answers a marker, only a load shows the stored row",
        "global quiescence is read from runtime.Stack wait reasons (internal/qx); gated callbacks "
        "hold a handler inside an operation",
        "serial (step-by-step) runs: submission order is acceptance order; stress runs: only "
        "real-time precedence is used",
        "a caller whose context ends returns at once; its operation stays accepted and is applied by "
        "the worker as if the caller still waited (what the unchanged code does)",
        "life cycle as the unchanged code defines it: calls made before Start wait in the queues, calls "
        "accepted before Stop are still applied, later calls are refused (closed) without touching the "
        "store; worker count 0 / negative and Start twice are not exercised (the unchanged code panics)",
    ]
    return ctx.finish(
        rule="dynamic kinds of rows / data / injected errors (sentinels of mux and context, wrapped), run-length "
             "encoded long runs around 2^8 and 2^16, 257-call queues, simultaneous-exit batches; life-cycle orders (late Start, Stop with accepted calls, Stop before/after Start, racing Start/Stop in "
             "cold-start rounds behind a spin barrier), configuration extremes (depth 0/negative/1, LRU capacity 0, "
             "row sizes 0..3, up to 300 workers), pointer rows rendered late, nested reads from callbacks; plans = TLC simulation of MuxCache.tla (3 keys, 1..3 workers, map/LRU, 16 operations with "
             "failure / gate patterns and cancellations of outstanding calls incl. a gate before the handler's cache Set/Delete, distinct by content) + "
             "seeded random plans (1..6 keys, 11 key schemes incl. extreme hash values and schemes in which "
             "distinct keys have equal HashedInt(): mixed wrapper types, CRC-32 collisions, constant hash; workers 1,2,3,5,8,127, queue depth 1,2,4,8192, LRU "
             "capacity 1..100, sized values, built-in and instrumented facades) + free-running stress "
             "histories of 2..6 callers; a trace is one worker group's lifetime",
        explanation="every store call (begin/end, arguments, result), cache Set/Delete, submission, "
                    "reply and quiescent Peek of every facade recorded from the real group must satisfy "
                    "the contract of MuxCache_Trace; the store is replayed with the shared MuxStore module")
