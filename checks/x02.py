"""X02 containers (specification growth): tex map helpers (MapClone / MapMerge / MapVal2* getters), tex.To*
conversions, genericx/slicex and stringx against finite maps, sequences and exact numbers.

  Containers.tla  trees (contract, value semantics) + heap of map objects (design, deviation ShareDiff)
  Slices.tla      sequences (contract) + storage groups (design, deviation CloneShares), pure string functions
  Conv.tla        exactness of conversions on arbitrary-precision digits; Conv_MC = scaled-down design
                  (deviation SignedRoute)

Plans from Containers_Gen / Slices_Gen and seeded histories are executed on the real code by
harness/cmd/x02; every recorded trace is judged by TLC.  Known findings are listed in
extras/known_findings_x02.json; traces that CAN contain a known finding (decided from the inputs
alone) are judged twice: by the contract (rejections of the known class => KNOWN-FINDING, anything
else => VIOLATION) and by the `pinned` configuration, which describes the known deviation and
therefore still reports every other disagreement in those traces."""
import json
import os
import re

FAM = "containers"
ROOT = os.path.dirname(os.path.dirname(os.path.abspath(__file__)))


def load_known():
    p = os.path.join(ROOT, "extras", "known_findings_x02.json")
    if not os.path.exists(p):
        return []
    return [f for f in json.load(open(p)).get("findings", []) if f.get("status") == "open"]


# ------------------------------------------------------------------ maps: who may share a nested map
class Taint:
    """Book-keeping over the ACTIONS of a trace (never over observations): after MapMerge(b, d) the
    result may share nested maps with d and with everything d shares with."""

    def __init__(self):
        self.pairs = set()

    def partners(self, h):
        return {y for p in self.pairs for y in p if h in p and y != h}

    def drop(self, h):
        self.pairs = {p for p in self.pairs if h not in p}

    def step(self, a):
        """returns True if this action writes through a possibly shared nested map"""
        op = a["op"]
        if op in ("set", "mkmap", "del"):
            return len(a["p"]) >= 1 and bool(self.partners(a["h"]))
        if op in ("new",):
            self.drop(a["h"])
        elif op == "clone":
            if a["to"] != a["h"]:
                self.drop(a["to"])
        elif op == "merge":
            to, d = a["to"], a["d"]
            ps = self.partners(d) | {d}
            self.drop(to)
            for z in ps:
                if z != to:
                    self.pairs.add(frozenset((to, z)))
        return False


def map_exposed(trace):
    t = Taint()
    for ev in trace[1:]:
        if ev.get("ev") == "call" and t.step(ev["a"]):
            return "merge-shares-diff"
    return None


def map_class(rj):
    """Is the rejected event a write through a nested map that MapMerge left shared with its diff
    argument, with nothing else wrong in the observation?"""
    trace, line = rj["trace"], rj["line"]
    t = Taint()
    for ev in trace[1:line]:
        if ev.get("ev") == "call":
            t.step(ev["a"])
    ev = trace[line]
    if ev.get("ev") != "call" or line < 2:
        return None
    a = ev["a"]
    if a["op"] not in ("set", "mkmap", "del") or len(a["p"]) < 1 or ev.get("r") != 0:
        return None
    prev = trace[line - 1].get("obs")
    if prev is None or len(prev) != len(ev["obs"]):
        return None
    changed = {h + 1 for h in range(len(prev)) if prev[h] != ev["obs"][h]}
    others = changed - {a["h"]}
    if others and others <= t.partners(a["h"]):
        return "merge-shares-diff"
    return None


# ------------------------------------------------------------------ conversions
UNSIGNED = ("u64", "uint", "jsu")
I64MAX = 2 ** 63 - 1


def conv_value(src):
    if src["k"] == "num":
        n = int("".join(map(str, src["d"])) or "0")
        return -n if src["neg"] else n
    s = bytes(src["txt"]).decode("latin-1")
    if re.match(r"^[+-]?[0-9]+$", s):
        return int(s)
    return None


def conv_known(src, to):
    v = conv_value(src)
    if v is None or v <= I64MAX:
        return None
    if to == "str" and src["ty"] in UNSIGNED:
        return "unsigned-above-int64-to-string"
    if to in UNSIGNED and (src["k"] == "txt" or src["ty"] in ("f32", "f64")):
        return "text-or-float-above-int64-to-unsigned"
    return None


def conv_exposed(trace):
    for ev in trace[1:]:
        c = ev.get("ev") == "conv" and conv_known(ev["src"], ev["to"])
        if c:
            return c
    return None


def describe(rj):
    ev = rj["event"]
    if ev.get("ev") == "conv":
        src = ev["src"]
        v = conv_value(src)
        return ("tex conversion to %s of the %s %s returned %s: not the number the argument denotes although "
                "it is representable in the target" % (ev["to"], src["ty"],
                                                       v if src["k"] == "num" else repr(bytes(src["txt"])), json.dumps(ev["r"])))
    if ev.get("ev") == "panic":
        return "the call %s panicked: %s" % (json.dumps(ev.get("a", ev.get("src"))), ev.get("msg"))
    if ev.get("ev") == "call" and "obs" in ev:
        return ("after %s (reply %s) the handles hold %s; the specification cannot explain this step "
                "(event #%d of the trace)" % (json.dumps(ev["a"]), json.dumps(ev["r"]), json.dumps(ev["obs"])[:600],
                                              rj["line"]))
    return "event not explained: %s" % json.dumps(ev)[:400]


def judge_twice(ctx, module, cfg, cfg_pinned, traces, exposure, label, classify, chunk):
    """Traces that cannot contain a known finding: contract only.  Traces exposed to a known finding, per
    class: contract (a rejection of the known class => KNOWN-FINDING, any other => VIOLATION); if the
    contract rejected something, all exposed traces are judged again by the pinned configuration (any
    rejection => VIOLATION)."""
    groups = {}
    for t in traces:
        groups.setdefault(exposure(t), []).append(t)
    rj = ctx.validate(FAM, module, cfg, groups.pop(None, []), label=label, chunk=chunk)
    exposed, hit = [], False
    saved = (ctx.traces_validated, ctx.events_validated)
    for c in sorted(groups):
        r1 = ctx.validate(FAM, module, cfg, groups[c], label="%s (exposed to known finding class %s)" % (label, c),
                          chunk=chunk, max_rejections=2)
        for r in r1:
            k = classify(r)
            if k:
                r["event"] = dict(r["event"], **{"class": k})
        rj += r1
        hit = hit or bool(r1)
        exposed += groups[c]
    if hit:
        ctx.traces_validated, ctx.events_validated = saved
        rj += ctx.validate(FAM, module, cfg_pinned, exposed, label=label + " (pinned: known deviation described)",
                           chunk=chunk)
    return rj, len(exposed)


def keep_known_replays(ctx, rj):
    """The rejected trace of every known finding is kept as a replay (extras/replays/<id>.json, written
    only if absent): `./check X02 --replay extras/replays/X02-F1.json` re-validates it."""
    d = os.path.join(ROOT, "extras", "replays")
    for r in rj:
        c = r["event"].get("class")
        f = [k for k in ctx.findings if k.get("match", {}).get("event", {}).get("class") == c]
        if not c or not f:
            continue
        path = os.path.join(d, f[0]["id"] + ".json")
        if os.path.exists(path):
            continue
        os.makedirs(d, exist_ok=True)
        ev = {k: v for k, v in r["event"].items() if k != "class"}
        with open(path, "w") as fh:
            json.dump({"property": ctx.pid, "finding": f[0]["id"], "seed": ctx.seed, "tier": ctx.tier,
                       "rejected_line": r["line"], "rejected_event": ev, "label": r.get("label", ""),
                       "validate_with": r.get("how", {}), "explanation": describe(r), "trace": r["trace"]},
                      fh, indent=1)


def run(ctx):
    ctx.findings = load_known()
    # 1. the designs against their contracts, exhaustively within small constants
    ctx.tlc_mc(FAM, "Containers", "Containers_MC.cfg", workers=6, coverage=ctx.thorough)
    ctx.tlc_mc(FAM, "Containers", "Containers_MC_bug.cfg", workers=1, expect_violation="Isolation",
               label="ShareDiff=TRUE (merge stores the diff's nested map by reference: tex as pinned)")
    ctx.tlc_mc(FAM, "Slices", "Slices_MC.cfg", workers=4, coverage=ctx.thorough)
    ctx.tlc_mc(FAM, "Slices", "Slices_MC_bug.cfg", workers=1, expect_violation="Isolation",
               label="CloneShares=TRUE (Clone returns its argument)")
    ctx.tlc_mc(FAM, "Conv_MC", "Conv_MC.cfg", workers=2)
    ctx.tlc_mc(FAM, "Conv_MC", "Conv_MC_bug.cfg", workers=1, expect_violation="Exact",
               label="SignedRoute=TRUE (unsigned results via a signed word: tex as pinned)")
    ctx.tlc_mc(FAM, "Conv_MC", "Conv_MC_pinned.cfg", workers=2,
               label="SignedRoute=TRUE satisfies the contract once the known-finding classes are open")
    if ctx.thorough:
        ctx.tlc_mc(FAM, "Containers", "Containers_MC_big.cfg", workers=16, timeout=3000)
        ctx.tlc_mc(FAM, "Slices", "Slices_MC_big.cfg", workers=16, timeout=3000)
        ctx.tlc_mc(FAM, "Conv_MC", "Conv_MC_big.cfg", workers=8, timeout=3000)
    # 2. plans out of the specs
    mdir, mplans = ctx.tlc_plans(FAM, "Containers_Gen", "Containers_Gen.cfg", num=ctx.q(250, 2500), depth=18,
                                 sub="mplans")
    sdir, splans = ctx.tlc_plans(FAM, "Slices_Gen", "Slices_Gen.cfg", num=ctx.q(200, 2500), depth=16,
                                 sub="splans", seed_off=1)
    # 3. execute against the real code
    binary = ctx.go_build("x02")
    mt, st, ct = ctx.path("maps.ndjson"), ctx.path("seqs.ndjson"), ctx.path("conv.ndjson")
    out = ctx.harness(binary, ["-mplans", mdir, "-splans", sdir, "-mout", mt, "-sout", st, "-cout", ct,
                               "-seed", ctx.seed, "-nmap", ctx.q(150, 3000), "-nseq", ctx.q(150, 3000),
                               "-nconv", ctx.q(40, 900), "-maxops", ctx.q(40, 80)],
                      traces=[mt, st, ct])
    maps, seqs, conv = ctx.load_traces(mt), ctx.load_traces(st), ctx.load_traces(ct)
    # 4. validate what the real code did
    rj, m_exp = judge_twice(ctx, "Containers_Trace", "Containers_Trace.cfg", "Containers_Trace_pinned.cfg",
                            maps, map_exposed, "maps", map_class, 12000)
    rj += ctx.validate(FAM, "Slices_Trace", "Slices_Trace.cfg", seqs, label="slices+strings", chunk=20000)
    r2, c_exp = judge_twice(ctx, "Conv_Trace", "Conv_Trace.cfg", "Conv_Trace_pinned.cfg", conv, conv_exposed,
                            "conversions",
                            lambda r: (conv_known(r["event"]["src"], r["event"]["to"])
                                       if r["event"].get("ev") == "conv" else None), 30000)
    rj += r2
    keep_known_replays(ctx, rj)
    ctx.judge(rj, describe=describe)
    ctx.extra["plans"] = {"maps": len(mplans), "slices": len(splans)}
    ctx.extra["traces"] = {"maps": len(maps), "maps_exposed_to_known_finding": m_exp, "slices_strings": len(seqs),
                           "conversions": len(conv), "conversions_exposed_to_known_finding": c_exp}
    ctx.extra["harness_summary"] = out.strip().splitlines()[-1] if out.strip() else ""
    ctx.assumptions += [
        "maps: the harness never stores one handle's nested map in another handle itself, so every sharing "
        "between handles is the library's doing; list leaves are never mutated (MapClone documents them as shared)",
        "getters/conversions: kinds without an evident conversion (bool->int, junk text->number, float->text, "
        "Duration->text, value outside the target range) are left open by the contract",
        "strings: valid UTF-8 only, compared as code point sequences",
        "exposed traces are selected from the recorded ACTIONS / inputs alone (which handle pairs a merge may "
        "have left sharing; source value above MaxInt64), never from what the code answered",
    ]
    return ctx.finish(
        rule="plans = TLC simulation of Containers.tla / Slices.tla (distinct by content); seeded histories over "
             "2-4 handles, up to 8 keys, nesting up to 4, 7 leaf kinds with 14 Go integer types; conversions: every "
             "source type x boundary and random values up to 2^70 x 13 targets, one trace per source value",
        explanation="designs (heap of map objects, slice storage, wrap-around conversions) model-checked against the "
                    "value-semantics contracts; every reply and the contents of ALL handles after every call on the "
                    "real code must be a step of the contract")
