"""C11 tex.Buffer == bytes.Buffer: the contract of bytes.Buffer (+ ReWrite, NewSizedBuffer) is
specs/bytebuffer/ByteBuffer.tla, model-checked exhaustively; TLC plans and seeded boundary-biased
histories are executed on tex.Buffer AND on the real bytes.Buffer; both recordings are validated by
ByteBuffer_Trace.  A rejected bytes.Buffer trace means the spec mis-states the reference (exit 2);
a rejected tex.Buffer trace is the violation."""
import json

from vlib import MachineryError, log


def run(ctx):
    fam = "bytebuffer"
    # 1. the contract is coherent: exhaustive within small constants; the named deviation is visible
    ctx.tlc_mc(fam, "ByteBuffer", "ByteBuffer_MC.cfg", workers=4, coverage=ctx.thorough)
    ctx.tlc_mc(fam, "ByteBuffer", "ByteBuffer_MC_bug.cfg", workers=1, expect_violation="WriteRuneSound")
    if ctx.thorough:
        ctx.tlc_mc(fam, "ByteBuffer", "ByteBuffer_MC_big.cfg", workers=16, timeout=3000, heap="16g")
    # 2. operation sequences out of the spec (two simulation levels per operation, see ByteBuffer_Gen)
    # depth 62 = Depth in the cfg = 30 operations
    pdir, plans = ctx.tlc_plans(fam, "ByteBuffer_Gen", "ByteBuffer_Gen.cfg", num=ctx.q(250, 1500), depth=62)
    # 3. execute on both implementations
    binary = ctx.go_build("c11")
    tex_f, std_f = ctx.path("tex.ndjson"), ctx.path("std.ndjson")
    out = ctx.harness(binary, ["-plans", pdir, "-out", tex_f, "-ref", std_f, "-seed", ctx.seed,
                               "-hist", ctx.q(400, 4000), "-maxops", ctx.q(80, 150)],
                      traces=[tex_f])
    stats = {}
    for ln in out.split("\n"):
        if ln.startswith("STATS "):
            stats = json.loads(ln[6:])
    if getattr(ctx, "crash", None):
        # the process died inside tex.Buffer: vlib closed the tex trace with a `crash` event (rejected by the
        # trace spec); the reference file may end in a torn line
        raw = open(std_f, "rb").read()
        open(std_f, "wb").write(raw[:raw.rfind(b"\n") + 1])
    tex = ctx.load_traces(tex_f)
    std = ctx.load_traces(std_f)
    # 4a. the reference: bytes.Buffer itself must satisfy the spec, otherwise the spec is wrong
    tv, ev = ctx.traces_validated, ctx.events_validated
    rj_std = ctx.validate(fam, "ByteBuffer_Trace", "ByteBuffer_Trace.cfg", std, label="bytes.Buffer(reference)",
                          chunk=30000, max_rejections=1)
    ctx.extra["reference_traces_validated"] = ctx.traces_validated - tv
    ctx.extra["reference_events_validated"] = ctx.events_validated - ev
    ctx.traces_validated, ctx.events_validated = tv, ev
    if rj_std:
        rj = rj_std[0]
        raise MachineryError("ByteBuffer.tla disagrees with the real bytes.Buffer (spec error, says nothing "
                             "about tex.Buffer): event #%d %s" % (rj["line"], json.dumps(rj["event"])[:600]))
    # 4b. the verdict: what tex.Buffer did
    rj = ctx.validate(fam, "ByteBuffer_Trace", "ByteBuffer_Trace.cfg", tex, label="tex.Buffer", chunk=30000)
    ctx.judge(rj)
    if stats and not getattr(ctx, "crash", None):
        missing = [p for p in ("small-buffer", "first-alloc", "reslice", "slide-down", "reallocate", "recycle-empty")
                   if not stats.get("paths", {}).get(p)]
        if missing:
            raise MachineryError("grow() paths never taken by any history: %s" % missing)
    ctx.extra["plans"] = len(plans)
    ctx.extra["histories"] = len(tex)
    ctx.extra["grow_paths_taken_by_tex"] = stats.get("paths", {})
    ctx.extra["calls_per_operation"] = stats.get("ops", {})
    ctx.extra["max_unread_len"] = stats.get("max_len", 0)
    ctx.extra["unread_directly_after_grow_calls"] = stats.get("unread_after_grow", 0)
    ctx.extra["histories_where_replies_differ_from_bytes_Buffer"] = stats.get("histories_where_tex_and_std_differ", 0)
    ctx.assumptions += [
        "UTF-8 decoding/encoding is specified in ByteBuffer.tla; the real bytes.Buffer is validated against it in "
        "the same run, so a mistake there is a machinery error, not a verdict",
        "Unread* directly after a Grow that returned: restored / not restored / refused are all accepted "
        "(capacity-policy dependent in bytes.Buffer itself); Cap() only checked for NewSizedBuffer(n) >= n",
        "ReWrite is only issued while nothing has been consumed since construction/Reset/Truncate(0); outside "
        "0..Len a panic or a no-op are both accepted",
        "grow-path classification (reslice/slide/reallocate) is derived from Cap() and the address of Bytes() "
        "for coverage statistics only",
    ]
    return ctx.finish(
        rule="plans = TLC simulation of ByteBuffer.tla (one ticket per operation kind, payloads up to 512 bytes); "
             "histories = seeded random over all 21 operations with sizes at the free-space / half-capacity / 64 / "
             "512 thresholds, UTF-8 edge runes incl. negative, surrogates, > U+10FFFF; 4 constructors; a trace is "
             "one buffer lifetime",
        explanation="every call's result/error/panic and (Len, Bytes) afterwards, recorded from tex.Buffer, must be "
                    "an outcome the bytes.Buffer contract (ByteBuffer.tla) allows; the same operations recorded "
                    "from the real bytes.Buffer are validated against the same spec")
