"""C11 tex.Buffer == bytes.Buffer: the contract of bytes.Buffer (+ ReWrite, NewSizedBuffer) is
specs/bytebuffer/ByteBuffer.tla, model-checked exhaustively; TLC plans and seeded boundary-biased
histories are executed on tex.Buffer AND on the real bytes.Buffer; both recordings are validated by
ByteBuffer_Trace.  A rejected bytes.Buffer trace means the spec mis-states the reference (exit 2);
a rejected tex.Buffer trace is the violation.
Beyond plain call sequences: half of the histories keep what calls handed back (String(), the slice
filled by Read) as returned and render it when the history is over; input slices are reused across calls,
checked for modification and overwritten after the call; writes through Bytes(); two buffers of the type
feeding each other; readers/writers that end with every error kind (io.EOF, wrapped EOF, other errors,
with or without data, negative count, panic); arguments at the ends of the int range; a call that does
not return, a panicking observer/constructor and out-of-range results are events TLC rejects.
Systematic part: every operation with degenerate (nil, empty, 0, len, len+1, MaxInt) and ordinary arguments in
every shape class of the buffer (never used, one byte, partly read, drained, Reset, Truncate(0), exactly full,
full and partly read, just reallocated, after Grow, after a short WriteTo, after ReadFrom), followed by
Unread*/ReadRune/WriteString/String; run-length encoded runs of 255..257 and 65535..65537 WriteByte/ReadByte
calls and payloads; every io sentinel (plain and wrapped) and the type's own ErrTooLarge entering through
the reader and the writer; real readers (bytes.Reader, strings.Reader, iotest Half/OneByte/DataErr) as
ReadFrom sources; NewSizedBuffer sizes and Grow amounts around 4096 / 64 KiB / 128 KiB / 1 MiB
(Cap() >= requested; Cap() >= Len()+n after Grow(n)), each buffer Reset / drained and used again."""
import json

from vlib import MachineryError, log


def run(ctx):
    fam = "bytebuffer"
    # 1. the contract is coherent: exhaustive within small constants; the named deviation is visible
    ctx.tlc_mc(fam, "ByteBuffer", "ByteBuffer_MC.cfg", workers=4, coverage=ctx.thorough)
    ctx.tlc_mc(fam, "ByteBuffer", "ByteBuffer_MC_bug.cfg", workers=1, expect_violation="WriteRuneSound")
    if ctx.thorough:
        ctx.tlc_mc(fam, "ByteBuffer", "ByteBuffer_MC_big.cfg", workers=16, timeout=3000, heap="16g")
    # 2. operation sequences out of the spec (two simulation levels per operation, see ByteBuffer_Gen)
    # depth 62 = Depth in the cfg = 30 operations
    pdir, plans = ctx.tlc_plans(fam, "ByteBuffer_Gen", "ByteBuffer_Gen.cfg", num=ctx.q(150, 1200), depth=62)
    # 3. execute on both implementations
    binary = ctx.go_build("c11")
    tex_f, std_f = ctx.path("tex.ndjson"), ctx.path("std.ndjson")
    out = ctx.harness(binary, ["-plans", pdir, "-out", tex_f, "-ref", std_f, "-seed", ctx.seed,
                               "-hist", ctx.q(350, 3000), "-maxops", ctx.q(80, 150), "-hang", "20s"],
                      traces=[tex_f])
    stats = {}
    for ln in out.split("\n"):
        if ln.startswith("STATS "):
            stats = json.loads(ln[6:])
    if getattr(ctx, "crash", None):
        # the process died inside tex.Buffer: vlib closed the tex trace with a `crash` event (rejected by the
        # trace spec); the reference file may end in a torn line
        raw = open(std_f, "rb").read()
        open(std_f, "wb").write(raw[:raw.rfind(b"\n") + 1])
    tex = ctx.load_traces(tex_f)
    std = ctx.load_traces(std_f)
    # 4a. the reference: bytes.Buffer itself must satisfy the spec, otherwise the spec is wrong
    tv, ev = ctx.traces_validated, ctx.events_validated
    rj_std = ctx.validate(fam, "ByteBuffer_Trace", "ByteBuffer_Trace.cfg", std, label="bytes.Buffer(reference)",
                          chunk=45000, max_rejections=1)
    ctx.extra["reference_traces_validated"] = ctx.traces_validated - tv
    ctx.extra["reference_events_validated"] = ctx.events_validated - ev
    ctx.traces_validated, ctx.events_validated = tv, ev
    if rj_std:
        rj = rj_std[0]
        raise MachineryError("ByteBuffer.tla disagrees with the real bytes.Buffer (spec error, says nothing "
                             "about tex.Buffer): event #%d %s" % (rj["line"], json.dumps(rj["event"])[:600]))
    # 4b. the verdict: what tex.Buffer did
    rj = ctx.validate(fam, "ByteBuffer_Trace", "ByteBuffer_Trace.cfg", tex, label="tex.Buffer", chunk=45000)
    ctx.judge(rj)
    # which way tex's grow() went is a property of the implementation under test: a path that no history
    # took is reported in the evidence, it is not a machinery error (a refactored grow() may not have it)
    missing = [p for p in ("small-buffer", "first-alloc", "reslice", "slide-down", "reallocate", "recycle-empty")
               if not stats.get("paths", {}).get(p)]
    if missing:
        log("[note] grow() paths not taken by tex.Buffer in this run: %s" % missing)
    ctx.extra["grow_paths_not_taken"] = missing
    if stats.get("hang"):
        log("[exec] a call into tex.Buffer did not return within 20s: recorded as a `hang` event")
    ctx.extra["plans"] = len(plans)
    ctx.extra["histories"] = len(tex)
    ctx.extra["grow_paths_taken_by_tex"] = stats.get("paths", {})
    ctx.extra["calls_per_operation"] = stats.get("ops", {})
    ctx.extra["max_unread_len"] = stats.get("max_len", 0)
    ctx.extra["unread_directly_after_grow_calls"] = stats.get("unread_after_grow", 0)
    ctx.extra["histories_where_replies_differ_from_bytes_Buffer"] = stats.get("histories_where_tex_and_std_differ", 0)
    ctx.extra["histories_rendered_at_their_end"] = stats.get("lazy_histories", 0)
    ctx.assumptions += [
        "UTF-8 decoding/encoding is specified in ByteBuffer.tla; the real bytes.Buffer is validated against it in "
        "the same run, so a mistake there is a machinery error, not a verdict",
        "Unread* directly after a Grow that returned: restored / not restored / refused are all accepted "
        "(capacity-policy dependent in bytes.Buffer itself); Cap() only checked for NewSizedBuffer(n) >= n",
        "ReWrite is only issued while nothing has been consumed since construction/Reset/Truncate(0); outside "
        "0..Len a panic or a no-op are both accepted",
        "grow-path classification (reslice/slide/reallocate) is derived from Cap() and the address of Bytes() "
        "for coverage statistics only",
        "Bytes()/Next() results alias the buffer by contract and are rendered at once; String() and the slice "
        "filled by Read are the caller's and are rendered at the end of every second history",
        "math.MaxInt/MinInt arguments are carried as +-2147483647 (to the model: beyond any length); sizes that "
        "would really allocate (Read, successful Grow, NewSizedBuffer) stay <= 65536",
        "not goroutine-safe by contract (as bytes.Buffer): no concurrent histories",
        "runs of n WriteByte / ReadByte calls are one event: replies are summarised in the harness as (calls that "
        "succeeded, bytes in order, calls that failed, last error) and the model applies the closed form",
    ]
    return ctx.finish(
        rule="plans = TLC simulation of ByteBuffer.tla (one ticket per operation kind, payloads up to 512 bytes); "
             "histories = seeded random over all 24 operations with sizes at the free-space / half-capacity / 64 / "
             "512 thresholds and the ends of the int range, UTF-8 edge runes incl. negative, surrogates, > U+10FFFF, "
             "15 reader / 12 writer endings, 6 kinds of ReadFrom source; shape x probe sweep (17 x 54 histories) and three "
             "long-run histories (65535..65537); 4 constructors (+ NewBuffer(nil), spare capacity 0..600, sizes below the "
             "small-buffer size); a trace is one buffer lifetime",
        explanation="every call's result/error/panic and (Len, Bytes) afterwards, recorded from tex.Buffer, must be "
                    "an outcome the bytes.Buffer contract (ByteBuffer.tla) allows; the same operations recorded "
                    "from the real bytes.Buffer are validated against the same spec")
