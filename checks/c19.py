"""C19 vcode: VCode.tla (property layer + mechanism as the code implements it) model-checked
exhaustively, with the code's known deviations as named constants that TLC refutes; send/verify
plans simulated from the spec and seeded histories executed on the real vcode.VCLogic with a fake
SMS gateway; alphabet samples of the codes and of idgen/random's generators; every recorded call
validated by VCode_Trace against the property layer.

Hardening (audit classes): every Config field is a dimension incl. its extremes (CacheSize exactly
the number of pairs / MaxInt64, CodeLen 0 / 33 / 100, MaxCount and MaxVerifyCount -1 / MinInt /
MaxInt carried clamped, durations 0 / 1ns / 100ns / MinInt64 / MaxInt64); the gateway callback also
fails (plain error, grpc status, one of vcode's own errors, panic; reply class "gw" with the
statement's freedom about what such a send leaves behind); returned hashes and delivered codes are
retained as handed over and, for half of the histories, rendered (and compared with a private copy,
`stable`) only when the history is over; two logics on one Config value and one gateway are
interleaved (twins); a panic is a reply of its own class, a call that does not return within the
watchdog time is a `hang` reply - both rejected by the spec, never exit 2.

Long histories: runs of 255/256/257 and 65535/65536/65537 identical calls (wrong code, right code,
wrong hash, refused sends, unknown pair) against one sent code with the limit small, around the width
or MaxInt are logged as one `run` event with run-length encoded replies and judged by a closed form
that TLC proves equal to the single steps (RunAgrees); send bursts of MaxCount+4 with MaxCount around
256 (thorough: 65536).  The alphabet clause is judged PER POSITION: for code lengths 1..40 (quick: 11
of them incl. 9, 10, 11, 20, 33) and for the generators over 5 alphabets and lengths 1, 7, 33, 70 the
harness logs, per position, the set of characters seen in 45*|alphabet| draws; every set must be the
whole alphabet (false-alarm probability < 1e-12 per run).

Audit 2: degenerate strings (empty area / phone / both, empty code and hash, empty alphabet with
length 0, one-character alphabets), lengths around the powers of two for code lengths, phones, areas
and generator outputs (7..257, 1023..4097); the gateway returns every sentinel error either side
knows (vcode's own seven, cache, tex, context, io, grpc statuses; plain and wrapped); twins are also
built on DIFFERENT configurations and interleaved call by call; the generators are called back to
back A, B, A with equal-size disjoint alphabets and equal lengths, then with random alphabets and
lengths, every output logged."""


def _s(codes):
    try:
        return "".join(chr(c) for c in codes)
    except Exception:
        return repr(codes)


def describe(rj):
    ev, reset = rj["event"], rj["trace"][0]
    cfg = {k: reset.get(k) for k in ("mock", "len", "ttl", "gap", "win", "maxCount", "maxVerify")}
    def _rle(e):
        return "x%d:%s" % (e["times"], "+".join("%s*%d" % (g["r"], g["c"]) for g in e["rle"]))

    if ev.get("ev") in ("call", "run"):
        a = ev["a"]
        p = "(%r, %r)" % (_s(a["p"]["area"]), _s(a["p"]["phone"]))
        if ev["ev"] == "run" and a["op"] == "send":
            what = "%d times SendSMSCode%s -> %s" % (ev["times"], p, _rle(ev))
        elif ev["ev"] == "run":
            what = "%d times VerifySMSCode%s code=%r (%s) hash=%r (%s) -> %s" % (
                ev["times"], p, _s(a["code"]), a.get("cref"), _s(a["hash"]), a.get("href"), _rle(ev))
        elif a["op"] == "send":
            what = "SendSMSCode%s -> %s [%s], sms=%s" % (
                p, a["r"], a["err"], [_s(m["code"]) for m in a["sms"]])
        else:
            what = "VerifySMSCode%s code=%r (%s) hash=%r (%s) -> %s [%s]" % (
                p, _s(a["code"]), a.get("cref"), _s(a["hash"]), a.get("href"), a["r"], a["err"])
        prior = []
        for e in rj["trace"][1:rj["line"]]:
            b = e.get("a")
            if b and b["p"] == a["p"]:
                prior.append("%s->%s" % (b["op"] if b["op"] == "send" else
                                         "verify(%s,%s)" % (b.get("cref"), b.get("href")),
                                         b["r"] if "r" in b else _rle(e)))
        return ("config %s: %s is not a reply the property allows after this pair's history %s" %
                (cfg, what, prior[-12:]))
    if ev.get("ev") == "alpha":
        want = set(ev["alpha"])
        miss = {i + 1: _s(sorted(want - set(s))) for i, s in enumerate(ev["pos"]) if want - set(s)}
        return ("%d outputs of length %d over alphabet %r (%s): %d malformed; characters never seen at "
                "position: %r" % (ev["n"], ev["len"], _s(ev["alpha"]), reset.get("src"), ev["bad"], miss))
    if ev.get("ev") == "cover":
        seen = set()
        for e in rj["trace"][1:rj["line"]]:
            if e.get("ev") == "nonce":
                seen |= set(e["out"])
            elif e.get("ev") == "call" and e["a"]["op"] == "send":
                for m in e["a"]["sms"]:
                    seen |= set(m["code"])
        return ("sample of %d characters over alphabet %r (%s): characters never produced: %r" %
                (ev.get("chars", -1), _s(ev["alpha"]), reset.get("src"),
                 _s(sorted(set(ev["alpha"]) - seen))))
    if ev.get("ev") == "nonce":
        return "nonce generator %s(alphabet %r, %d) -> %r %s" % (
            ev["fn"], _s(ev["alpha"]), ev["n"], _s(ev["out"]), ev.get("msg", ""))
    return "event #%d cannot be explained by VCode.tla" % rj["line"]


def run(ctx):
    fam = "vcode"
    # 1. the design: mechanism replies are always legal for the property layer ...
    ctx.tlc_mc(fam, "VCode", "VCode_MC.cfg", workers=4, coverage=ctx.thorough)
    # ... and not with the code's deviations switched on (non-vacuity witnesses)
    ctx.tlc_mc(fam, "VCode", "VCode_MC_bug_key.cfg", workers=1, expect_violation="VerifiesWhenDue")
    ctx.tlc_mc(fam, "VCode", "VCode_MC_bug_nonce.cfg", workers=1, expect_violation="AlphabetCovered")
    ctx.tlc_mc(fam, "VCode", "VCode_MC_bug_count.cfg", workers=1, expect_violation="RejectsUnlessDue")
    ctx.tlc_mc(fam, "VCode", "VCode_MC_reach_ok.cfg", workers=1, expect_violation="NeverOk")
    # the closed form by which runs of identical calls are judged agrees with the single steps
    ctx.tlc_mc(fam, "VCode", "VCode_MC_run.cfg", workers=4)
    if ctx.thorough:
        ctx.tlc_mc(fam, "VCode", "VCode_MC_bug_concat.cfg", workers=1, expect_violation="RefusalsJustified")
        ctx.tlc_mc(fam, "VCode", "VCode_MC_reach_limit.cfg", workers=1, expect_violation="NeverLimit")
        ctx.tlc_mc(fam, "VCode", "VCode_MC_reach_refused.cfg", workers=1, expect_violation="NeverRefused")
        ctx.tlc_mc(fam, "VCode", "VCode_MC_big.cfg", workers=16, timeout=3000, heap="16g")
        ctx.tlc_mc(fam, "VCode", "VCode_MC_big3.cfg", workers=16, timeout=3000, heap="16g")
    # 2. plans out of the spec
    pdir, plans = ctx.tlc_plans(fam, "VCode_Gen", "VCode_Gen.cfg", num=ctx.q(300, 4000), depth=16)
    # 3. execute on the real code
    binary = ctx.go_build("c19")
    calls_f, sample_f = ctx.path("calls.ndjson"), ctx.path("sample.ndjson")
    out = ctx.harness(binary, ["-plans", pdir, "-out", calls_f, "-sample", sample_f, "-seed", ctx.seed,
                               "-rand", ctx.q(300, 5000), "-guess", ctx.q(100, 1500),
                               "-maxops", ctx.q(60, 150), "-nsample", ctx.q(1, 4),
                               "-twin", ctx.q(60, 800), "-long", ctx.q(40, 600),
                               "-burst", ctx.q(2, 12)] + (["-full"] if ctx.thorough else []),
                      traces=[calls_f, sample_f])
    # 4. validate what the real code did
    calls = ctx.load_traces(calls_f)
    sample = ctx.load_traces(sample_f)
    rj = ctx.validate(fam, "VCode_Trace", "VCode_Trace.cfg", calls, label="calls", chunk=40000)
    rj += ctx.validate(fam, "VCode_Trace", "VCode_Trace.cfg", sample, label="alphabet", chunk=40000)
    ctx.judge(rj, describe)
    ctx.extra["plans"] = len(plans)
    ctx.extra["call_traces"] = len(calls)
    ctx.extra["alphabet_traces"] = len(sample)
    ctx.extra["harness"] = out.strip().split("\n")[-1]
    ctx.assumptions += [
        "time enters only through regimes: TTL / MinInterval / CounterDuration are huge or non-positive "
        "(negative for the strict comparisons), so every comparison with the clock has one outcome",
        "CacheSize is never below the number of distinct pairs of a history (tight fit, 65536 or "
        "MaxInt64): the statement knows no eviction",
        "a send whose gateway failed may leave nothing behind, or the new code in force with or without "
        "being charged to the window (TLC searches the three continuations); it must not have been due "
        "for refusal and must have handed over exactly one well-formed message",
        "callers are sequential (the property quantifies over sequences; vcode documents no thread-safety), "
        "separators inside area codes / phones are outside the generated domain",
        "alphabet coverage is statistical: pooled samples of >= 300*|alphabet| characters (miss probability "
        "< 1e-100) and per-position samples of 45*|alphabet| outputs (miss probability < 1e-17 per position "
        "and character, < 1e-12 per run); per-position samples log the histogram only, not every send",
        "error kinds are not compared except verify.code.retry.limit, which may only be returned when the "
        "attempts are exhausted; the send that meets exactly MaxCount sends in the window may go either way",
    ]
    return ctx.finish(
        rule="plans = TLC simulation of VCode.tla (3 pairs incl. two that concatenate alike, code length "
             "1..3, limits 0..3, all 16 regime combinations, mock and real); histories = seeded random over "
             "2..8 pairs (several families that concatenate alike), code length 0..100, MaxCount / MaxVerify "
             "-1, 0..5, MinInt, MaxInt, tight / huge CacheSize, sub-microsecond and extreme durations, right / "
             "stale / foreign / extended / malformed codes and hashes, failing gateway; guessing runs; twin "
             "logics on one Config; a trace is one VCLogic lifetime; alphabet samples of "
             ">= 12000 code characters per code length and >= 300*|alphabet| per generator and alphabet",
        explanation="VCode.tla model-checked exhaustively (mechanism replies legal for the property layer; "
                    "the code's three deviations refuted); every reply recorded from vcode.VCLogic must be "
                    "Legal in the property state reached by the preceding calls, every sampled alphabet "
                    "must be covered")
