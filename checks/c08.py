"""C08 bitmap1024 set algebra and ordered, bounded iteration: specs/bitmap/Bitmap.tla (the property
as a set per handle + a model of the code's word/guard/dense-sparse/chain algorithm that must refine
it) model-checked exhaustively with 4-bit words; plans from Bitmap_Gen and seeded sweeps/histories run
on the real Bit1024 / Bit64 under several sparse thresholds; every recorded call validated by
Bitmap_Trace."""


def _short(x, n=24):
    """evidence samples: cut long integer lists"""
    if isinstance(x, list):
        if len(x) > n and all(isinstance(i, int) for i in x):
            return x[:n] + ["... %d more" % (len(x) - n)]
        return [_short(i, n) for i in x]
    if isinstance(x, dict):
        return {k: _short(v, n) for k, v in x.items()}
    return x


def run(ctx):
    fam = "bitmap"
    # 1. the design: all 2^8 sets (2 words of 4 bits) and all 2^4 (word layer), every action
    ctx.tlc_mc(fam, "Bitmap", "Bitmap_MC.cfg", workers=4, coverage=ctx.thorough)
    # binary algebra on every ordered pair of sets
    ctx.tlc_mc(fam, "Bitmap", "Bitmap_MC_alg.cfg", workers=4)
    # non-vacuity: a chain that forgets `left`, a Set guard `i < 63`
    ctx.tlc_mc(fam, "Bitmap", "Bitmap_MC_bug.cfg", workers=1, expect_violation="IterRefines")
    ctx.tlc_mc(fam, "Bitmap", "Bitmap_MC_bug2.cfg", workers=1, expect_violation="SetExact")
    if ctx.thorough:
        ctx.tlc_mc(fam, "Bitmap", "Bitmap_MC_big.cfg", workers=16, timeout=3000, heap="8g")
    # 2. plans out of the spec (real geometry)
    pdir, plans = ctx.tlc_plans(fam, "Bitmap_Gen", "Bitmap_Gen.cfg", num=ctx.q(50, 600), depth=15,
                                timeout=1500)
    # 3. execute on the real code
    binary = ctx.go_build("c08")
    out = ctx.path("bitmap.ndjson")
    # cold starts: a fresh process whose first use of the package is a concurrent read round
    cold = []
    for i in range(ctx.q(6, 40)):
        cf = ctx.path("cold%d.ndjson" % i)
        ctx.harness(binary, ["-cold", "-out", cf, "-seed", ctx.seed * 100 + i], traces=[cf])
        cold.append(cf)
    ctx.harness(binary, ["-plans", pdir, "-out", out, "-seed", ctx.seed,
                         "-shapes", ctx.q(10, 120), "-words", ctx.q(40, 1000),
                         "-hist", ctx.q(20, 300), "-ops", ctx.q(40, 60), "-per", ctx.q(1, 2),
                         "-race", ctx.q(6, 40)],
                traces=[out])
    # 4. validate what the real code did
    traces = []
    for cf in cold:
        traces += ctx.load_traces(cf)
    traces += ctx.load_traces(out)
    rj = ctx.validate(fam, "Bitmap_Trace", "Bitmap_Trace.cfg", traces, label="bitmap", chunk=ctx.q(20000, 12000),
                      timeout=1800)
    ctx.judge(rj)
    ctx.samples = [_short(s) for s in ctx.samples]
    ctx.extra["plans"] = len(plans)
    src = {}
    for t in traces:
        k = t[0].get("src", "?").split(":")[0]
        src[k] = src.get(k, 0) + 1
    ctx.extra["traces_by_source"] = src
    ctx.extra["sparse_thresholds"] = "0, 9, 64 and one at the popcount of a word of the bitmap at hand"
    ctx.assumptions += [
        "the projection of the real state is read off the raw words (bit j of word k <=> member 64k+j); "
        "only handles whose words changed during a call are logged (delta), the spec checks the others are unchanged",
        "iterator calls get a slice with room for min(n, Len) elements after pos (plus 0..2 slack); a negative "
        "length for the list forms is outside the property",
        "values are compared as two's-complement bit patterns of their width (16-bit limbs)",
        "n beyond +-2^30 is logged clamped (only min(max(n,0),Len) matters), the real 64-bit argument beside it",
        "degenerate inputs: a zero-length caller slice is nil every other time; Len and n around k*64 +- 1; runs of 255/256/257, 1023/1024/1025 and 65535/65536/65537 Set / Unset calls are one run-length-encoded event (setrun / unsetrun: the spec adds / removes the in-range indices of lo, lo+step, ...) and build the shape classes never used / filled by Set / exactly full / emptied by Unset / one member left / refilled, in each of which iteration, list forms, Reverse, Equal, Len are taken",
        "the caller owns what it was given: every returned slice (list forms, Marshal bytes, block lists) is overwritten by the harness (elements flipped, capacity refilled through s[:0]) once it has been rendered; equal values are encoded / listed repeatedly in one process with that in between, later calls are judged as usual",
        "late traces (about half): every returned list and every caller slice is kept as returned and rendered "
        "when the trace is over; a call that does not return within 40 s is logged as a `hang` event and rejected",
        "concurrent read rounds (also as the first use of the package in 6 fresh processes): values nobody "
        "writes are shared by 8 goroutines while another one flips the sparse threshold; no mutation is concurrent",
    ]
    return ctx.finish(
        rule="plans = TLC simulation of Bitmap.tla with 64-bit words (universes 64/1024, 3 handles, boundary "
             "indices, patterned fills, n around Len); sweeps = fixed boundary bitmaps + one word of every "
             "popcount + seeded random densities, every width x direction, n in {-1,0,1,Len-1,Len,Len+1,2000,"
             "random}, pos 0..7, add at the width's boundaries, each call under 4 sparse thresholds; histories = "
             "seeded random mutations/reads over 3 handles with indices from the whole int32 range, incl. chains of "
             "2-3 iterator calls accumulating in one caller slice; 64-bit extremes of n (MaxInt, MaxInt-pos+1, MinInt, "
             "2^40 ...) at pos 0,1,3,7; threshold extremes (-1, 1, 63, 65, MinInt32, MaxInt32); concurrent read-only "
             "rounds and cold-start rounds in fresh processes",
        explanation="Bitmap.tla model-checked (property + refinement of the code's algorithm, all sets of 8 "
                    "elements); every reply, the caller's whole slice after each iterator call and the raw-word "
                    "projection of every changed bitmap recorded from the real code must be a step of the spec, "
                    "which never sees the sparse threshold")
