// Package qx executes a schedule on real goroutines one step at a time.  After each step the
// driver waits for *global quiescence*: every goroutine of the process except the driver is
// parked in a wait state reported by the Go runtime (chan receive, select, sync.Cond.Wait,
// sync.Mutex.Lock, ...) on two consecutive identical snapshots.  At that point every worker has
// either returned (its reply is in its mailbox) or is blocked inside its call, which is a fact
// about goroutine states, not a timeout guess.
package qx

import (
	"bytes"
	"fmt"
	"runtime"
	"sort"
	"strconv"
	"strings"
	"time"
)

// Worker is one spec process.
type Worker struct {
	ID   int
	cmd  chan func() interface{}
	res  chan interface{}
	busy bool
	gid  int
}

// Exec drives workers.
type Exec struct {
	W      []*Worker
	Budget time.Duration
	// Ignore lists goroutine states that do not prevent quiescence in addition to the defaults
	// (e.g. "IO wait" for a listener that nobody dials).
	Ignore map[string]bool
}

func goid() int {
	var buf [64]byte
	n := runtime.Stack(buf[:], false)
	f := strings.Fields(string(buf[:n]))
	id, _ := strconv.Atoi(f[1])
	return id
}

// New starts n workers (ids 1..n).
func New(n int) *Exec {
	x := &Exec{Budget: 20 * time.Second}
	for i := 1; i <= n; i++ {
		x.Add()
	}
	return x
}

// Add starts one more worker and returns it.
func (x *Exec) Add() *Worker {
	w := &Worker{ID: len(x.W) + 1, cmd: make(chan func() interface{}), res: make(chan interface{}, 1)}
	ready := make(chan int)
	go func() {
		ready <- goid()
		for f := range w.cmd {
			w.res <- f()
		}
	}()
	w.gid = <-ready
	x.W = append(x.W, w)
	return w
}

// Issue hands f to worker p (1-based); p must be free.
func (x *Exec) Issue(p int, f func() interface{}) {
	w := x.W[p-1]
	if w.busy {
		panic(fmt.Sprintf("qx: worker %d is busy", p))
	}
	w.busy = true
	w.cmd <- f
}

// Busy reports whether p has an outstanding call (issued, reply not taken).
func (x *Exec) Busy(p int) bool { return x.W[p-1].busy }

// Take returns p's reply if its call has returned.
func (x *Exec) Take(p int) (interface{}, bool) {
	w := x.W[p-1]
	if !w.busy {
		return nil, false
	}
	select {
	case r := <-w.res:
		w.busy = false
		return r, true
	default:
		return nil, false
	}
}

// Stop ends all free workers (busy ones stay parked; the process exits anyway).
func (x *Exec) Stop() {
	for _, w := range x.W {
		if !w.busy {
			close(w.cmd)
		}
	}
}

type gstate struct {
	id    int
	state string
	top   string // first function of the stack that is not in package runtime
}

var waiting = map[string]bool{
	"chan receive": true, "chan send": true, "select": true, "select (no cases)": true,
	"sync.Cond.Wait": true, "sync.Mutex.Lock": true, "sync.RWMutex.RLock": true,
	"sync.RWMutex.Lock": true, "semacquire": true, "sync.WaitGroup.Wait": true,
	"chan receive (nil chan)": true, "chan send (nil chan)": true,
	"finalizer wait": true, "GC worker (idle)": true, "GC sweep wait": true, "GC scavenge wait": true,
	"force gc (idle)": true, "debug call": false,
}

func snapshot() []gstate {
	buf := make([]byte, 1<<16)
	for {
		n := runtime.Stack(buf, true)
		if n < len(buf) {
			buf = buf[:n]
			break
		}
		buf = make([]byte, 2*len(buf))
	}
	var out []gstate
	cur := -1
	for _, line := range bytes.Split(buf, []byte("\n")) {
		if !bytes.HasPrefix(line, []byte("goroutine ")) {
			if cur >= 0 && out[cur].top == "" && len(line) > 0 && line[0] != '\t' && line[0] != ' ' {
				fn := string(line)
				if !strings.HasPrefix(fn, "runtime.") {
					if i := strings.LastIndexByte(fn, '('); i > 0 {
						fn = fn[:i]
					}
					out[cur].top = fn
				}
			}
			continue
		}
		s := string(line)
		l := strings.IndexByte(s, '[')
		r := strings.LastIndexByte(s, ']')
		if l < 0 || r < l {
			cur = -1
			continue
		}
		id, _ := strconv.Atoi(strings.TrimSpace(s[len("goroutine "):l]))
		st := s[l+1 : r]
		if c := strings.IndexByte(st, ','); c >= 0 {
			st = st[:c]
		}
		out = append(out, gstate{id: id, state: st})
		cur = len(out) - 1
	}
	sort.Slice(out, func(i, j int) bool { return out[i].id < out[j].id })
	return out
}

// Settle waits for global quiescence.  It returns an error if the process is still active when
// the budget is exhausted (the caller must treat that as inconclusive, never as a verdict).
func (x *Exec) Settle() error {
	self := goid()
	deadline := time.Now().Add(x.Budget)
	var prev string
	stable := 0
	var firstStable time.Time
	var lastBusy string
	pending := map[int]*Worker{} // goroutine id -> worker with an issued call whose reply is not in yet
	for i := 0; ; i++ {
		runtime.Gosched()
		for k := range pending {
			delete(pending, k)
		}
		for _, w := range x.W {
			if w.busy && len(w.res) == 0 {
				pending[w.gid] = w
			}
		}
		snap := snapshot()
		quiet := true
		var sb strings.Builder
		for _, g := range snap {
			if g.id == self {
				continue
			}
			fmt.Fprintf(&sb, "%d:%s;", g.id, g.state)
			if !(waiting[g.state] || x.Ignore[g.state]) {
				quiet = false
				lastBusy = fmt.Sprintf("goroutine %d [%s]", g.id, g.state)
			}
			// a worker whose call has produced no reply must be parked *inside* the call; parked in
			// its own command loop it has either not picked the command up or not delivered the reply
			if _, ok := pending[g.id]; ok && strings.HasSuffix(g.top, "qx.(*Exec).Add.func1") {
				quiet = false
				lastBusy = fmt.Sprintf("worker goroutine %d idle in its loop with a call outstanding", g.id)
			}
		}
		cur := sb.String()
		if quiet && cur == prev {
			if stable == 0 {
				firstStable = time.Now()
			}
			stable++
			// three identical all-parked snapshots, the first and the last at least 300us apart
			if stable >= 2 && time.Since(firstStable) >= 300*time.Microsecond {
				// a reply may have arrived between the bookkeeping and the snapshot: re-check
				ok := true
				for _, w := range pending {
					if len(w.res) != 0 {
						ok = false
					}
				}
				if ok {
					return nil
				}
				stable = 0
			}
		} else {
			stable = 0
		}
		prev = cur
		if time.Now().After(deadline) {
			return fmt.Errorf("no quiescence within %v: %s", x.Budget, lastBusy)
		}
		if i > 1 {
			d := 20 * (i - 1)
			if d > 400 {
				d = 400
			}
			time.Sleep(time.Duration(d) * time.Microsecond)
		}
	}
}

// WaitState returns the runtime wait state of worker p's goroutine ("" if not found).
func (x *Exec) WaitState(p int) string {
	for _, g := range snapshot() {
		if g.id == x.W[p-1].gid {
			return g.state
		}
	}
	return ""
}

// Goroutines returns the states of all goroutines except the caller's (diagnostics, leak checks).
func Goroutines() map[int]string {
	self := goid()
	m := map[int]string{}
	for _, g := range snapshot() {
		if g.id != self {
			m[g.id] = g.state
		}
	}
	return m
}

// StacksContaining counts goroutines whose stack mentions the given function-name fragment.
func StacksContaining(frag string) int {
	buf := make([]byte, 1<<20)
	n := runtime.Stack(buf, true)
	cnt := 0
	for _, blk := range strings.Split(string(buf[:n]), "\n\n") {
		if strings.Contains(blk, frag) {
			cnt++
		}
	}
	return cnt
}
