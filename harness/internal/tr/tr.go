// Package tr writes ndjson traces that TLC's Json module can read back faithfully:
// no null, no integer outside int32 (TLC silently truncates those), no floats.
package tr

import (
	"bufio"
	"encoding/json"
	"fmt"
	"math"
	"os"
	"reflect"
	"sort"
)

// E is one trace event.
type E map[string]interface{}

// W is a trace writer.
type W struct {
	// NoSync disables the flush after every event (set it only for huge single-threaded traces).
	NoSync bool
	f      *os.File
	b *bufio.Writer
	n int
}

// Create opens a trace file.
func Create(path string) *W {
	f, err := os.Create(path)
	if err != nil {
		Fatal("create trace: %v", err)
	}
	return &W{f: f, b: bufio.NewWriterSize(f, 1<<20)}
}

// Fatal reports a harness (not neptune) problem: exit code 2.
func Fatal(format string, a ...interface{}) {
	fmt.Fprintf(os.Stderr, "HARNESS-ERROR: "+format+"\n", a...)
	os.Exit(2)
}

// Emit writes one event after checking it is TLC-safe.
func (w *W) Emit(e E) {
	if err := check(reflect.ValueOf(map[string]interface{}(e)), "$"); err != nil {
		Fatal("unsafe trace event %v: %v", e, err)
	}
	bs, err := json.Marshal(e)
	if err != nil {
		Fatal("marshal: %v", err)
	}
	w.b.Write(bs)
	w.b.WriteByte('\n')
	w.n++
	if !w.NoSync {
		// flushed per event so that a trace survives a runtime fatal error in the code under test
		w.b.Flush()
	}
}

// N is the number of events written.
func (w *W) N() int { return w.n }

// Close flushes.
func (w *W) Close() {
	if err := w.b.Flush(); err != nil {
		Fatal("flush: %v", err)
	}
	w.f.Close()
}

func check(v reflect.Value, path string) error {
	switch v.Kind() {
	case reflect.Invalid:
		return fmt.Errorf("%s: null", path)
	case reflect.Interface, reflect.Ptr:
		if v.IsNil() {
			return fmt.Errorf("%s: null", path)
		}
		return check(v.Elem(), path)
	case reflect.Bool, reflect.String:
		return nil
	case reflect.Int, reflect.Int8, reflect.Int16, reflect.Int32, reflect.Int64:
		if i := v.Int(); i > math.MaxInt32 || i < math.MinInt32 {
			return fmt.Errorf("%s: integer %d outside int32", path, i)
		}
		return nil
	case reflect.Uint, reflect.Uint8, reflect.Uint16, reflect.Uint32, reflect.Uint64, reflect.Uintptr:
		if u := v.Uint(); u > math.MaxInt32 {
			return fmt.Errorf("%s: integer %d outside int32", path, u)
		}
		return nil
	case reflect.Slice, reflect.Array:
		if v.Kind() == reflect.Slice && v.IsNil() {
			return fmt.Errorf("%s: nil slice (would be null)", path)
		}
		if v.Type().Elem().Kind() == reflect.Uint8 && v.Kind() == reflect.Slice {
			return fmt.Errorf("%s: []byte would be base64; convert to []int", path)
		}
		for i := 0; i < v.Len(); i++ {
			if err := check(v.Index(i), fmt.Sprintf("%s[%d]", path, i)); err != nil {
				return err
			}
		}
		return nil
	case reflect.Map:
		if v.IsNil() {
			return fmt.Errorf("%s: nil map", path)
		}
		keys := v.MapKeys()
		sort.Slice(keys, func(i, j int) bool { return keys[i].String() < keys[j].String() })
		for _, k := range keys {
			if k.Kind() != reflect.String {
				return fmt.Errorf("%s: non-string map key", path)
			}
			if err := check(v.MapIndex(k), path+"."+k.String()); err != nil {
				return err
			}
		}
		return nil
	case reflect.Struct:
		for i := 0; i < v.NumField(); i++ {
			if v.Type().Field(i).PkgPath != "" {
				continue
			}
			if err := check(v.Field(i), path+"."+v.Type().Field(i).Name); err != nil {
				return err
			}
		}
		return nil
	default:
		return fmt.Errorf("%s: unsupported kind %s", path, v.Kind())
	}
}

// Ints converts bytes to a JSON-safe int slice (never nil).
func Ints(b []byte) []int {
	r := make([]int, len(b))
	for i, x := range b {
		r[i] = int(x)
	}
	return r
}

// Bits64 renders a 64-bit value as 64 bits, most significant first.
func Bits64(u uint64) []int {
	r := make([]int, 64)
	for i := 0; i < 64; i++ {
		r[i] = int((u >> uint(63-i)) & 1)
	}
	return r
}

// Limbs renders a 64-bit value as 4 16-bit limbs, most significant first
// (cheap to compare lexicographically in TLA+).
func Limbs(u uint64) []int {
	return []int{int(u >> 48), int((u >> 32) & 0xffff), int((u >> 16) & 0xffff), int(u & 0xffff)}
}

// Str renders a string as its byte codes (TLC strings cannot be indexed).
func Str(s string) []int { return Ints([]byte(s)) }
