// c18: drives gormx.Transact (and gormx.Combine) on a real gorm.DB whose MySQL dialector sits on
// an in-process database/sql driver.  The driver injects begin / exec / commit / rollback
// failures as planned and records every call that reaches it; the step closures record when
// they run and how they end.  One ndjson trace per Transact call, validated by TLC
// (specs/transact/Transact_Trace.tla).
//
// Events of one trace (all in the order in which they really happened, one goroutine):
//
//	reset  {cfg:{n, steps:[{out,ex,fin,fl}], begin, commit, rollback, cancel}, src, shape, bfl}
//	begin  {ok}          driver: BeginTx reached the driver (or connecting for it failed)
//	step   {i}           closure i entered
//	exec   {i, tx}       driver: statement of closure i executed; tx = on a connection inside the
//	                     open transaction
//	end    {i, out}      closure i is about to return nil / return its error / panic / Goexit
//	commit {ok}          driver: Tx.Commit   (asked for by Transact or by a step with fin=commit)
//	rollback {ok}        driver: Tx.Rollback (asked for by Transact, by a step with fin=rollback, or
//	                     by database/sql itself after the handle's context was cancelled)
//	ret    {r:{kind,i}}  Transact returned: nil | step i's error | an error describing step i's
//	                     panic | begin/commit/rollback sentinel | other | raised (panic escaped)
//	gone   {}            the calling goroutine ended without Transact returning (Goexit)
//
// A step with fin = commit|rollback ends the transaction on the handle it was given (after its
// statements, before its outcome).  cfg.cancel = k cancels the context the db handle is bound to:
// 0 before the call, k > 0 inside step k (after its statements and its own fin); the closure then
// waits until database/sql's rollback has reached the driver (an event of the environment, not an
// oracle), so the log order is the real order.
//
// A step with out = err returns an error of the kind named by its flavour `fl`: plain (the harness'
// own), exec (the driver's statement error), wrap, notfound (gorm.ErrRecordNotFound), nfwrap (wrapped
// with %w), dup1062 / dup1105 (*mysql.MySQLError duplicate key, plain and vitess), mysql1213, grpcnf /
// grpcdup (what ToGRPC...Err produce), txdone, canceled, invalidtx.  The specification does not look
// at the kind: any non-nil error stops the list, rolls back and comes back as it is.  `ret` reports
// step i when the returned error is (or wraps) the very value closure i returned.
//
// neptune declares `go 1.19`: panic(nil) keeps its pre-1.21 meaning (recover() returns nil) for a
// program built at that language level.  Pin it, whatever the harness module's go line says.

//go:debug panicnil=1
package main

import (
	"bufio"
	"context"
	"database/sql"
	"database/sql/driver"
	"encoding/json"
	"errors"
	"flag"
	"fmt"
	"math/rand"
	"os"
	"path/filepath"
	"runtime"
	"sort"
	"strings"
	"sync"
	"time"

	mysqldrv "github.com/go-sql-driver/mysql"
	"github.com/pinealctx/neptune/store/gormx"
	"github.com/pinealctx/neptune/ulog"
	"go.uber.org/zap"
	"google.golang.org/grpc/codes"
	"google.golang.org/grpc/status"
	"gorm.io/driver/mysql"
	"gorm.io/gorm"
	"gorm.io/gorm/logger"

	"verif/harness/internal/tr"
)

// ---------------------------------------------------------------------------- plan

type step struct {
	Out string `json:"out"` // ok | err | panic | pnil | exit
	Ex  int    `json:"ex"`  // statements executed before the outcome
	Fin string `json:"fin"` // none | commit | rollback: the step ends the transaction itself
	Fl  string `json:"fl"`  // flavour (harness only; the spec ignores it)
	Fl2 string `json:"-"`   // fin flavour: "direct" on the handle | "sess" on a session of it
}

type plan struct {
	N        int    `json:"n"` // number of arguments handed to Transact (0 = no steps at all)
	Steps    []step `json:"steps"`
	Begin    bool   `json:"begin"`
	Commit   bool   `json:"commit"`
	Rollback bool   `json:"rollback"`
	Cancel   int    `json:"cancel"` // -1 never | 0 before the call | k inside step k
}

func (p plan) rec() tr.E {
	st := make([]tr.E, 0, len(p.Steps))
	for _, s := range p.Steps {
		st = append(st, tr.E{"out": s.Out, "ex": s.Ex, "fin": s.Fin, "fl": s.Fl})
	}
	return tr.E{"n": p.N, "steps": st, "begin": p.Begin, "commit": p.Commit, "rollback": p.Rollback,
		"cancel": p.Cancel}
}

// ---------------------------------------------------------------------------- event log

type evlog struct {
	mu       sync.Mutex
	evs      []tr.E
	returned []retErr // the error values the step closures really returned, in order
}

type retErr struct {
	i int
	e error
}

// fails records the error value step i is about to return.
func (l *evlog) fails(i int, e error) error {
	l.mu.Lock()
	l.returned = append(l.returned, retErr{i, e})
	l.mu.Unlock()
	return e
}

func (l *evlog) add(e tr.E) {
	l.mu.Lock()
	l.evs = append(l.evs, e)
	l.mu.Unlock()
}

func (l *evlog) count(ev string) int {
	l.mu.Lock()
	defer l.mu.Unlock()
	n := 0
	for _, e := range l.evs {
		if e["ev"] == ev {
			n++
		}
	}
	return n
}

// ---------------------------------------------------------------------------- fake driver

type stepErr struct{ i int }

func (e stepErr) Error() string { return fmt.Sprintf("step-%d-failed", e.i) }

var (
	errBegin    = errors.New("fake: begin refused")
	errConnect  = errors.New("fake: cannot connect")
	errCommit   = errors.New("fake: commit refused")
	errRollback = errors.New("fake: rollback refused")
)

// script is what the fake database does during one Transact call.
type script struct {
	log        *evlog
	beginOK    bool
	connectOK  bool
	commitOK   bool
	rollbackOK bool
	execFail   map[int]bool // step index -> its last statement fails
	execLeft   map[int]int  // statements still to come per step (to find the last one)
	nconn      int
}

type connector struct{ s *script }

func (c connector) Driver() driver.Driver { return fakeDriver{} }
func (c connector) Connect(context.Context) (driver.Conn, error) {
	if !c.s.connectOK {
		c.s.log.add(tr.E{"ev": "begin", "ok": false})
		return nil, errConnect
	}
	c.s.nconn++
	return &conn{s: c.s}, nil
}

type fakeDriver struct{}

func (fakeDriver) Open(string) (driver.Conn, error) {
	return nil, errors.New("fake: use the connector")
}

type conn struct {
	s    *script
	intx bool
}

func (c *conn) Prepare(q string) (driver.Stmt, error) { return nil, errors.New("fake: no prepare") }
func (c *conn) Close() error                          { return nil }
func (c *conn) Begin() (driver.Tx, error)             { return c.BeginTx(context.Background(), driver.TxOptions{}) }
func (c *conn) BeginTx(context.Context, driver.TxOptions) (driver.Tx, error) {
	c.s.log.add(tr.E{"ev": "begin", "ok": c.s.beginOK})
	if !c.s.beginOK {
		return nil, errBegin
	}
	c.intx = true
	return &ftx{c}, nil
}

type result struct{}

func (result) LastInsertId() (int64, error) { return 0, nil }
func (result) RowsAffected() (int64, error) { return 1, nil }

func (c *conn) ExecContext(_ context.Context, q string, _ []driver.NamedValue) (driver.Result, error) {
	var i int
	k := strings.Index(q, "/*S")
	if k < 0 {
		tr.Fatal("fake driver: foreign statement %q", q)
	}
	if _, err := fmt.Sscanf(q[k:], "/*S%d*/", &i); err != nil {
		tr.Fatal("fake driver: foreign statement %q", q)
	}
	c.s.log.add(tr.E{"ev": "exec", "i": i, "tx": c.intx})
	c.s.execLeft[i]--
	if c.s.execFail[i] && c.s.execLeft[i] == 0 {
		return nil, stepErr{i}
	}
	return result{}, nil
}

type ftx struct{ c *conn }

func (t *ftx) Commit() error {
	t.c.s.log.add(tr.E{"ev": "commit", "ok": t.c.s.commitOK})
	t.c.intx = false
	if !t.c.s.commitOK {
		return errCommit
	}
	return nil
}

func (t *ftx) Rollback() error {
	t.c.s.log.add(tr.E{"ev": "rollback", "ok": t.c.s.rollbackOK})
	t.c.intx = false
	if !t.c.s.rollbackOK {
		return errRollback
	}
	return nil
}

// ---------------------------------------------------------------------------- steps

type boom struct {
	I int
	S string
}

func token(i int, s step) string {
	switch s.Out {
	case "pnil":
		return "nil"
	case "panic":
		switch s.Fl {
		case "rt":
			return "nil map"
		case "perr":
			return fmt.Sprintf("boomerr-%d!", i)
		case "pval":
			return fmt.Sprintf("boomval-%d!", i)
		}
		return fmt.Sprintf("boom-%d!", i)
	}
	return ""
}

// over: the transaction of this call has been ended at the database (by whomever).
func (l *evlog) over() bool { return l.count("commit")+l.count("rollback") > 0 }

// open: a transaction was begun at the database and has not been ended there.
func (l *evlog) open() bool {
	l.mu.Lock()
	begun := false
	for _, e := range l.evs {
		if e["ev"] == "begin" && e["ok"] == true {
			begun = true
		}
	}
	l.mu.Unlock()
	return begun && !l.over()
}

// errOf is the error value a failing step of the given kind returns.  The kinds are the classes of
// errors the package (err.go: IsNotFoundErr, IsDupError, ToGRPC...) and its users distinguish; for
// Transact they are all the same thing: a step that did not return nil.
func errOf(i int, kind string) error {
	tok := stepErr{i}.Error()
	switch kind {
	case "wrap":
		return fmt.Errorf("wrapped: %w", stepErr{i})
	case "notfound":
		return gorm.ErrRecordNotFound
	case "nfwrap":
		return fmt.Errorf("%s lookup: %w", tok, gorm.ErrRecordNotFound)
	case "dup1062":
		return &mysqldrv.MySQLError{Number: 1062, Message: "Duplicate entry '" + tok + "' for key 'PRIMARY'"}
	case "dup1105":
		return &mysqldrv.MySQLError{Number: 1105, Message: "vttablet: duplicate entry '" + tok + "' for key"}
	case "mysql1213":
		return &mysqldrv.MySQLError{Number: 1213, Message: "Deadlock found when trying to get lock; " + tok}
	case "grpcnf":
		return status.Error(codes.NotFound, "db.item.not.exist "+tok)
	case "grpcdup":
		return status.Error(codes.AlreadyExists, "db.item.already.exist "+tok)
	case "txdone":
		return sql.ErrTxDone
	case "canceled":
		return context.Canceled
	case "invalidtx":
		return gorm.ErrInvalidTransaction
	}
	return stepErr{i}
}

func mkStep(l *evlog, i int, s step, cancel func()) gormx.GormProcFn {
	return func(txn *gorm.DB) error {
		l.add(tr.E{"ev": "step", "i": i})
		var xerr error
		wasOver := l.over()
		for e := 0; e < s.Ex; e++ {
			xerr = txn.Exec(fmt.Sprintf("UPDATE t SET v = v + 1 /*S%d*/", i)).Error
		}
		// the step ends the transaction itself, on the handle it got or on a session of it
		var h = txn
		if s.Fl2 == "sess" {
			h = txn.Session(&gorm.Session{NewDB: true})
		}
		switch s.Fin {
		case "commit":
			h.Commit()
		case "rollback":
			h.Rollback()
		}
		if cancel != nil {
			alive := l.open()
			cancel()
			if alive { // database/sql rolls back on its own goroutine: wait for it to reach the driver
				for n := 0; !l.over(); n++ {
					if n > 200000 {
						tr.Fatal("step %d: database/sql did not roll back after cancellation", i)
					}
					time.Sleep(50 * time.Microsecond)
				}
			}
		}
		l.add(tr.E{"ev": "end", "i": i, "out": s.Out})
		switch s.Out {
		case "ok":
			return nil
		case "err":
			switch s.Fl {
			case "exec":
				if wasOver { // the statement never reached the driver: the step fails all the same
					return l.fails(i, stepErr{i})
				}
				if xerr == nil {
					tr.Fatal("step %d: planned statement failure did not happen", i)
				}
				return l.fails(i, xerr)
			}
			return l.fails(i, errOf(i, s.Fl))
		case "panic":
			switch s.Fl {
			case "rt":
				var m map[int]int
				m[i] = 1 // runtime error: assignment to entry in nil map
			case "perr":
				panic(errors.New(token(i, s)))
			case "pval":
				panic(boom{i, token(i, s)})
			}
			panic(token(i, s))
		case "pnil":
			var none interface{}
			panic(none)
		case "exit":
			runtime.Goexit()
		}
		tr.Fatal("unknown outcome %q", s.Out)
		return nil
	}
}

// group builds the argument list of Transact: the flat closures are distributed over n
// arguments; an argument holding anything but exactly one closure is a Combine (possibly
// nested, possibly empty); a single closure is passed raw or as Combine of one.
func group(rng *rand.Rand, n int, fns []gormx.GormProcFn) ([]gormx.GormProcFn, []interface{}) {
	cuts := make([]int, 0, n+1)
	cuts = append(cuts, 0)
	for j := 1; j < n; j++ {
		cuts = append(cuts, rng.Intn(len(fns)+1))
	}
	cuts = append(cuts, len(fns))
	sort.Ints(cuts)
	args := make([]gormx.GormProcFn, 0, n)
	shape := make([]interface{}, 0, n)
	for j := 0; j < n; j++ {
		f, sh := combine(rng, fns[cuts[j]:cuts[j+1]], cuts[j], 0)
		args = append(args, f)
		shape = append(shape, sh)
	}
	return args, shape
}

func combine(rng *rand.Rand, fns []gormx.GormProcFn, base, depth int) (gormx.GormProcFn, interface{}) {
	if len(fns) == 1 && rng.Intn(3) > 0 {
		return fns[0], base + 1
	}
	if len(fns) <= 1 || depth >= 2 || rng.Intn(2) == 0 {
		sh := make([]interface{}, 0, len(fns))
		for k := range fns {
			sh = append(sh, base+k+1)
		}
		return gormx.Combine(fns...), sh
	}
	// nested: split in two or three parts, each a Combine again
	parts := 2 + rng.Intn(2)
	cuts := []int{0}
	for j := 1; j < parts; j++ {
		cuts = append(cuts, rng.Intn(len(fns)+1))
	}
	cuts = append(cuts, len(fns))
	sort.Ints(cuts)
	var sub []gormx.GormProcFn
	sh := make([]interface{}, 0, parts)
	for j := 0; j < parts; j++ {
		f, s := combine(rng, fns[cuts[j]:cuts[j+1]], base+cuts[j], depth+1)
		sub = append(sub, f)
		sh = append(sh, s)
	}
	return gormx.Combine(sub...), sh
}

// ---------------------------------------------------------------------------- one call

func classify(err error, p plan, l *evlog) tr.E {
	if err == nil {
		return tr.E{"kind": "nil", "i": 0}
	}
	// the very value a step returned (or something that wraps it): that step's error.  Several
	// steps may return the same singleton (gorm.ErrRecordNotFound ...): the first one that did.
	l.mu.Lock()
	returned := append([]retErr{}, l.returned...)
	l.mu.Unlock()
	for e := err; e != nil; e = errors.Unwrap(e) {
		for _, r := range returned {
			if e == r.e {
				return tr.E{"kind": "step", "i": r.i}
			}
		}
	}
	var se stepErr
	if errors.As(err, &se) {
		return tr.E{"kind": "step", "i": se.i}
	}
	// an error that describes a step's panic may mention more (a failed rollback, say)
	for k, s := range p.Steps {
		if t := token(k+1, s); t != "" && strings.Contains(err.Error(), t) {
			return tr.E{"kind": "panic", "i": k + 1}
		}
	}
	switch {
	case errors.Is(err, errBegin), errors.Is(err, errConnect):
		return tr.E{"kind": "begin", "i": 0}
	case errors.Is(err, errCommit):
		return tr.E{"kind": "commit", "i": 0}
	case errors.Is(err, errRollback):
		return tr.E{"kind": "rollback", "i": 0}
	}
	return tr.E{"kind": "other", "i": 0}
}

func runOne(w *tr.W, rng *rand.Rand, src string, p plan) {
	for k := range p.Steps {
		s := &p.Steps[k]
		if s.Fl == "" { // plans out of TLC fix outcome and statements; the flavour is ours
			s.Fl = "plain"
			switch s.Out {
			case "ok":
				if s.Ex > 0 && rng.Intn(6) == 0 {
					s.Fl = "swallow"
				}
			case "err":
				s.Fl = errFl[rng.Intn(len(errFl))]
			case "panic":
				s.Fl = panicFl[rng.Intn(len(panicFl))]
			}
		}
		if s.Out == "err" && s.Fl == "exec" && s.Ex == 0 {
			s.Fl = "plain"
		}
		if s.Fin == "" {
			s.Fin = "none"
		}
		s.Fl2 = []string{"direct", "sess"}[rng.Intn(2)]
	}
	if p.Cancel > len(p.Steps) || p.Cancel < -1 {
		tr.Fatal("plan cancels in step %d of %d", p.Cancel, len(p.Steps))
	}
	if p.N == 0 && len(p.Steps) > 0 {
		tr.Fatal("plan with steps but no arguments")
	}
	l := &evlog{}
	sc := &script{log: l, beginOK: p.Begin, connectOK: true, commitOK: p.Commit, rollbackOK: p.Rollback,
		execFail: map[int]bool{}, execLeft: map[int]int{}}
	bfl := "driver"
	if !p.Begin && rng.Intn(3) == 0 {
		sc.connectOK = false
		bfl = "connect"
	}
	// the context the db handle is bound to (none at all for most calls that never cancel)
	ctx, cancel := context.WithCancel(context.Background())
	defer cancel()
	withCtx := p.Cancel >= 0 || rng.Intn(4) == 0
	fns := make([]gormx.GormProcFn, 0, len(p.Steps))
	for k, s := range p.Steps {
		sc.execLeft[k+1] = s.Ex
		if s.Fl == "exec" || s.Fl == "swallow" {
			sc.execFail[k+1] = true
		}
		var cf func()
		if p.Cancel == k+1 {
			cf = cancel
		}
		fns = append(fns, mkStep(l, k+1, s, cf))
	}
	args, shape := group(rng, p.N, fns)

	sqlDB := sql.OpenDB(connector{sc})
	defer sqlDB.Close()
	db, err := gorm.Open(mysql.New(mysql.Config{Conn: sqlDB, SkipInitializeWithVersion: true}),
		&gorm.Config{DisableAutomaticPing: true, Logger: logger.Discard})
	if err != nil {
		tr.Fatal("gorm.Open on the fake driver: %v", err)
	}

	if withCtx {
		db = db.WithContext(ctx)
	}
	if p.Cancel == 0 {
		cancel()
	}

	done := make(chan tr.E, 1)
	go func() {
		returned := false
		defer func() {
			if c := recover(); c != nil {
				done <- tr.E{"ev": "ret", "r": tr.E{"kind": "raised", "i": 0}, "what": fmt.Sprint(c)}
			} else if !returned {
				done <- tr.E{"ev": "gone"}
			}
		}()
		e := gormx.Transact(db, args...)
		returned = true
		done <- tr.E{"ev": "ret", "r": classify(e, p, l), "what": fmt.Sprint(e)}
	}()
	fin := <-done

	w.Emit(tr.E{"ev": "reset", "cfg": p.rec(), "src": src, "shape": shape, "bfl": bfl, "ctx": withCtx})
	l.mu.Lock()
	for _, e := range l.evs {
		w.Emit(e)
	}
	l.mu.Unlock()
	w.Emit(fin)
}

// ---------------------------------------------------------------------------- generators

func readPlan(path string) plan {
	f, err := os.Open(path)
	if err != nil {
		tr.Fatal("%v", err)
	}
	defer f.Close()
	sc := bufio.NewScanner(f)
	if !sc.Scan() {
		tr.Fatal("empty plan %s", path)
	}
	var first struct {
		Ev  string `json:"ev"`
		Cfg plan   `json:"cfg"`
	}
	if err := json.Unmarshal(sc.Bytes(), &first); err != nil || first.Ev != "init" {
		tr.Fatal("plan %s: first line is not the init record: %v", path, err)
	}
	if first.Cfg.Steps == nil {
		first.Cfg.Steps = []step{}
	}
	if !strings.Contains(sc.Text(), `"cancel"`) {
		first.Cfg.Cancel = -1
	}
	return first.Cfg
}

var (
	errFl = []string{"plain", "exec", "wrap", "notfound", "nfwrap", "dup1062", "dup1105", "mysql1213",
		"grpcnf", "grpcdup", "txdone", "canceled", "invalidtx"}
	panicFl = []string{"plain", "perr", "pval", "rt"}
)

func st(out string, ex int, fl, fin string) step { return step{Out: out, Ex: ex, Fl: fl, Fin: fin} }

// variants of one step for the exhaustive enumeration
func variants(full bool) []step {
	v := []step{
		st("ok", 0, "plain", "none"), st("ok", 1, "plain", "none"),
		st("err", 0, "plain", "none"), st("err", 1, "exec", "none"),
		st("err", 0, "notfound", "none"), st("err", 1, "dup1062", "none"), // kinds of error: all alike
		st("panic", 1, "plain", "none"), st("panic", 0, "rt", "none"),
		st("pnil", 1, "plain", "none"),
		st("exit", 1, "plain", "none"),
		// the step ends the transaction itself
		st("ok", 0, "plain", "rollback"), st("ok", 1, "plain", "commit"), st("err", 1, "plain", "rollback"),
	}
	if full {
		v = append(v, st("err", 1, "nfwrap", "none"), st("err", 0, "dup1105", "none"), st("err", 0, "mysql1213", "none"),
			st("err", 0, "grpcnf", "none"), st("err", 1, "txdone", "none"))
		v = append(v, st("ok", 1, "swallow", "none"), st("err", 1, "wrap", "none"), st("panic", 0, "perr", "none"),
			st("panic", 1, "pval", "none"), st("pnil", 0, "plain", "none"), st("exit", 0, "plain", "none"),
			st("ok", 0, "plain", "commit"), st("ok", 1, "plain", "rollback"), st("err", 0, "plain", "commit"),
			st("panic", 0, "plain", "commit"), st("pnil", 1, "plain", "rollback"), st("exit", 0, "plain", "rollback"))
	}
	return v
}

// enumerate every step list up to length maxLen over the variants, with every fault
// placement that can matter for it.
func enumerate(w *tr.W, rng *rand.Rand, maxLen int, full bool) int {
	vs := variants(full)
	n := 0
	var rec func(cur []step)
	emit := func(cur []step) {
		steps := append([]step{}, cur...)
		allok := true
		for _, s := range steps {
			if s.Out != "ok" {
				allok = false
			}
		}
		nargs := 1 + rng.Intn(len(steps)+1)
		if allok {
			for _, c := range []bool{true, false} {
				runOne(w, rng, "enum", plan{nargs, append([]step{}, steps...), true, c, rng.Intn(2) == 0, -1})
				n++
			}
		} else {
			for _, r := range []bool{true, false} {
				runOne(w, rng, "enum", plan{nargs, append([]step{}, steps...), true, rng.Intn(2) == 0, r, -1})
				n++
			}
		}
		if len(steps) <= 1 || rng.Intn(8) == 0 {
			runOne(w, rng, "enum", plan{nargs, append([]step{}, steps...), false, rng.Intn(2) == 0, rng.Intn(2) == 0, -1})
			n++
		}
		// the handle's context is cancelled: before the call, inside each step (short lists: every
		// point; longer ones: one point now and then)
		for k := 0; k <= len(steps); k++ {
			if len(steps) <= 2 || (rng.Intn(3) == 0 && k == 1+rng.Intn(len(steps))) {
				runOne(w, rng, "enum", plan{nargs, append([]step{}, steps...), true, rng.Intn(4) != 0, rng.Intn(2) == 0, k})
				n++
			}
		}
	}
	rec = func(cur []step) {
		emit(cur)
		if len(cur) == maxLen {
			return
		}
		for _, v := range vs {
			rec(append(cur, v))
		}
	}
	// no arguments at all
	runOne(w, rng, "enum", plan{0, []step{}, true, true, true, -1})
	runOne(w, rng, "enum", plan{0, []step{}, false, false, false, 0})
	n += 2
	rec([]step{})
	return n
}

func randStep(rng *rand.Rand, pfail int) step {
	ex := rng.Intn(3)
	fin := "none"
	if rng.Intn(12) == 0 {
		fin = []string{"commit", "rollback"}[rng.Intn(2)]
	}
	if rng.Intn(100) >= pfail {
		if ex > 0 && rng.Intn(10) == 0 {
			return st("ok", ex, "swallow", fin)
		}
		return st("ok", ex, "plain", fin)
	}
	switch rng.Intn(5) {
	case 0, 1:
		return st("err", ex, errFl[rng.Intn(len(errFl))], fin)
	case 2:
		return st("panic", ex, panicFl[rng.Intn(len(panicFl))], fin)
	case 3:
		return st("pnil", ex, "plain", fin)
	}
	return st("exit", ex, "plain", fin)
}

func randPlan(rng *rand.Rand, maxLen int) plan {
	m := rng.Intn(maxLen + 1)
	pfail := []int{0, 5, 15, 40}[rng.Intn(4)]
	steps := make([]step, 0, m)
	for i := 0; i < m; i++ {
		steps = append(steps, randStep(rng, pfail))
	}
	if m > 0 && rng.Intn(3) == 0 { // bias: exactly the last step fails
		for i := range steps {
			steps[i].Out, steps[i].Fl = "ok", "plain"
		}
		steps[m-1] = randStep(rng, 100)
	}
	n := rng.Intn(m + 3)
	if n == 0 && m > 0 {
		n = 1
	}
	cancel := -1
	if rng.Intn(4) == 0 {
		cancel = rng.Intn(m + 1)
		if m > 0 && rng.Intn(2) == 0 { // bias: while / after the last step
			cancel = m
		}
	}
	return plan{n, steps, rng.Intn(8) != 0, rng.Intn(3) != 0, rng.Intn(3) != 0, cancel}
}

func main() {
	plans := flag.String("plans", "", "directory of TLC plans")
	out := flag.String("out", "", "trace file")
	seed := flag.Int64("seed", 1, "seed")
	enumLen := flag.Int("enum", 3, "exhaustive enumeration over 13 step variants (+ cancellation points): maximal number of steps")
	enumFull := flag.Int("enumfull", 2, "same over all 30 step variants (flavours): maximal number of steps")
	nrand := flag.Int("rand", 300, "number of random long plans")
	maxLen := flag.Int("maxlen", 12, "maximal number of steps of a random plan")
	flag.Parse()
	if *out == "" {
		tr.Fatal("-out required")
	}
	// Transact logs panics and rollback failures through ulog: keep that off the console
	ulog.SetDefaultLogger(&ulog.Logger{Logger: zap.NewNop()})
	rng := rand.New(rand.NewSource(*seed))
	w := tr.Create(*out)
	np := 0
	if *plans != "" {
		files, _ := filepath.Glob(filepath.Join(*plans, "*.ndjson"))
		sort.Strings(files)
		for _, f := range files {
			runOne(w, rng, "plan", readPlan(f))
			np++
		}
	}
	ne := enumerate(w, rng, *enumLen, false)
	ne += enumerate(w, rng, *enumFull, true)
	for i := 0; i < *nrand; i++ {
		runOne(w, rng, "rand", randPlan(rng, *maxLen))
	}
	w.Close()
	fmt.Printf("c18: %d plans, %d enumerated, %d random, %d events\n", np, ne, *nrand, w.N())
}
