// c18: drives gormx.Transact (and gormx.Combine) on a real gorm.DB whose MySQL dialector sits on
// an in-process database/sql driver.  The driver injects begin / exec / commit / rollback
// failures as planned and records every call that reaches it; the step closures record when
// they run and how they end.  One ndjson trace per Transact call, validated by TLC
// (specs/transact/Transact_Trace.tla).
//
// Events of one trace (all in the order in which they really happened, one goroutine):
//
//	reset  {cfg:{n, steps:[{out,ex,fin,fl}], begin, commit, rollback, cancel}, src, shape, bfl}
//	begin  {ok}          driver: BeginTx reached the driver (or connecting for it failed)
//	step   {i}           closure i entered
//	exec   {i, tx}       driver: statement of closure i executed; tx = on a connection inside the
//	                     open transaction
//	end    {i, out}      closure i is about to return nil / return its error / panic / Goexit
//	commit {ok}          driver: Tx.Commit   (asked for by Transact or by a step with fin=commit)
//	rollback {ok}        driver: Tx.Rollback (asked for by Transact, by a step with fin=rollback, or
//	                     by database/sql itself after the handle's context was cancelled)
//	ret    {r:{kind,i}}  Transact returned: nil | step i's error | an error describing step i's
//	                     panic | begin/commit/rollback sentinel | other | raised (panic escaped)
//	gone   {}            the calling goroutine ended without Transact returning (Goexit)
//
// A step with fin = commit|rollback ends the transaction on the handle it was given (after its
// statements, before its outcome).  cfg.cancel = k cancels the context the db handle is bound to:
// 0 before the call, k > 0 inside step k (after its statements and its own fin); the closure then
// waits until database/sql's rollback has reached the driver (an event of the environment, not an
// oracle), so the log order is the real order.
//
// A step with out = err returns an error of the kind named by its flavour `fl`: plain (the harness'
// own), exec (the driver's statement error), wrap, notfound (gorm.ErrRecordNotFound), nfwrap (wrapped
// with %w), dup1062 / dup1105 (*mysql.MySQLError duplicate key, plain and vitess), mysql1213, grpcnf /
// grpcdup (what ToGRPC...Err produce), txdone, canceled, invalidtx, and "s:<name>" / "w:<name>": every
// error value database/sql, database/sql/driver, gorm, go-sql-driver/mysql, context, io, net know by
// name (table `sentinels`), plain and wrapped with %w.  The same table is what a refused begin /
// commit / rollback may be answered with.  The specification does not look
// at the kind: any non-nil error stops the list, rolls back and comes back as it is.  `ret` reports
// step i when the returned error is (or wraps) the very value closure i returned.
//
// neptune declares `go 1.19`: panic(nil) keeps its pre-1.21 meaning (recover() returns nil) for a
// program built at that language level.  Pin it, whatever the harness module's go line says.

//go:debug panicnil=1
package main

import (
	"bufio"
	"context"
	"database/sql"
	"database/sql/driver"
	"encoding/json"
	"errors"
	"flag"
	"fmt"
	"io"
	"math/rand"
	"net"
	"os"
	"path/filepath"
	"runtime"
	"sort"
	"strings"
	"sync"
	"sync/atomic"
	"syscall"
	"time"
	"unsafe"

	mysqldrv "github.com/go-sql-driver/mysql"
	"github.com/pinealctx/neptune/store/gormx"
	"github.com/pinealctx/neptune/ulog"
	"go.uber.org/zap"
	"google.golang.org/grpc/codes"
	"google.golang.org/grpc/status"
	"gorm.io/driver/mysql"
	"gorm.io/gorm"
	"gorm.io/gorm/logger"

	"verif/harness/internal/tr"
)

// ---------------------------------------------------------------------------- plan

type step struct {
	Out string `json:"out"` // ok | err | panic | pnil | exit
	Ex  int    `json:"ex"`  // statements executed before the outcome
	Fin string `json:"fin"` // none | commit | rollback: the step ends the transaction itself
	Fl  string `json:"fl"`  // flavour (harness only; the spec ignores it)
	Fl2 string `json:"-"`   // fin flavour: "direct" on the handle | "sess" on a session of it
	Do  int    `json:"-"`   // statements the closure really issues (= Ex unless the handle is a dry run)
}

type plan struct {
	N        int    `json:"n"` // number of arguments handed to Transact (0 = no steps at all)
	Steps    []step `json:"steps"`
	Begin    bool   `json:"begin"`
	Commit   bool   `json:"commit"`
	Rollback bool   `json:"rollback"`
	Cancel   int    `json:"cancel"` // -1 never | 0 before the call | k inside step k
	Db       string `json:"db"`     // ok | nobegin | err | zero: class of the handle given to Transact
	Pad      int    `json:"pad"`    // that many uneventful steps precede Steps (not listed)
	// harness only (logged beside cfg, ignored by the spec)
	Dbst string `json:"-"` // the concrete state of the handle
	Ffl  string `json:"-"` // kind of error a refused begin / commit / rollback is answered with
	Nfl  string `json:"-"` // how "no steps" is passed: none | nilslice | empty
}

func (p plan) rec() tr.E {
	st := make([]tr.E, 0, len(p.Steps))
	for _, s := range p.Steps {
		st = append(st, tr.E{"out": s.Out, "ex": s.Ex, "fin": s.Fin, "fl": s.Fl})
	}
	return tr.E{"n": p.N, "steps": st, "begin": p.Begin, "commit": p.Commit, "rollback": p.Rollback,
		"cancel": p.Cancel, "db": p.Db, "pad": p.Pad}
}

// ---------------------------------------------------------------------------- event log

type evlog struct {
	mu       sync.Mutex
	evs      []tr.E
	returned []retErr // the error values the step closures really returned, in order
	rle      bool     // very long lists: consecutive uneventful steps are recorded as one `steps` event
	from, to int      // the pending run (to = 0: none)
}

// flush writes the pending run (l.mu held).
func (l *evlog) flush() {
	if l.to != 0 {
		l.evs = append(l.evs, tr.E{"ev": "steps", "from": l.from, "to": l.to})
		l.to = 0
	}
}

// quiet records that step i was entered and returned nil without anything else happening.
func (l *evlog) quiet(i int) {
	l.mu.Lock()
	if l.to != 0 && i == l.to+1 {
		l.to = i
	} else {
		l.flush()
		l.from, l.to = i, i
	}
	l.mu.Unlock()
}

type retErr struct {
	i int
	e error
}

// fails records the error value step i is about to return.
func (l *evlog) fails(i int, e error) error {
	l.mu.Lock()
	l.returned = append(l.returned, retErr{i, e})
	l.mu.Unlock()
	return e
}

func (l *evlog) add(e tr.E) {
	l.mu.Lock()
	l.flush()
	l.evs = append(l.evs, e)
	l.mu.Unlock()
}

func (l *evlog) count(ev string) int {
	l.mu.Lock()
	defer l.mu.Unlock()
	n := 0
	for _, e := range l.evs {
		if e["ev"] == ev {
			n++
		}
	}
	return n
}

// ---------------------------------------------------------------------------- fake driver

type stepErr struct{ i int }

func (e stepErr) Error() string { return fmt.Sprintf("step-%d-failed", e.i) }

var (
	errBegin    = errors.New("fake: begin refused")
	errConnect  = errors.New("fake: cannot connect")
	errCommit   = errors.New("fake: commit refused")
	errRollback = errors.New("fake: rollback refused")
)

// kinds of error the database answers a refused begin / commit / rollback with.  For Transact they
// are all alike.  (driver.ErrBadConn is left to commit/rollback: on begin database/sql would retry
// on a fresh connection, which is a different plan.)
var failKinds = append([]string{"plain", "mysql1213", "mysql1205"}, sentinelKinds(false)...)

func failErr(kind string, plain error, begin bool) error {
	switch kind {
	case "mysql1213":
		return &mysqldrv.MySQLError{Number: 1213, Message: "Deadlock found when trying to get lock"}
	case "mysql1205":
		return &mysqldrv.MySQLError{Number: 1205, Message: "Lock wait timeout exceeded"}
	}
	if e := sentinelOf(kind); e != nil && !(begin && e == driver.ErrBadConn) {
		return e
	}
	return plain
}

// Every error value either side of Transact knows by name: database/sql, database/sql/driver, gorm,
// go-sql-driver/mysql, context, io, net / os / syscall.  A step may return any of them, plain
// ("s:<name>") or wrapped with %w ("w:<name>"); the database may answer a refused begin / commit /
// rollback with any of them.  For Transact they are all the same thing: not nil.
type netTimeout struct{}

func (netTimeout) Error() string   { return "i/o timeout (fake)" }
func (netTimeout) Timeout() bool   { return true }
func (netTimeout) Temporary() bool { return true }

var sentinels = []struct {
	name string
	e    error
}{
	{"sql.ErrNoRows", sql.ErrNoRows}, {"sql.ErrTxDone", sql.ErrTxDone}, {"sql.ErrConnDone", sql.ErrConnDone},
	{"driver.ErrBadConn", driver.ErrBadConn}, {"driver.ErrSkip", driver.ErrSkip},
	{"driver.ErrRemoveArgument", driver.ErrRemoveArgument},
	{"gorm.ErrRecordNotFound", gorm.ErrRecordNotFound}, {"gorm.ErrInvalidTransaction", gorm.ErrInvalidTransaction},
	{"gorm.ErrNotImplemented", gorm.ErrNotImplemented}, {"gorm.ErrMissingWhereClause", gorm.ErrMissingWhereClause},
	{"gorm.ErrUnsupportedRelation", gorm.ErrUnsupportedRelation}, {"gorm.ErrPrimaryKeyRequired", gorm.ErrPrimaryKeyRequired},
	{"gorm.ErrModelValueRequired", gorm.ErrModelValueRequired},
	{"gorm.ErrModelAccessibleFieldsRequired", gorm.ErrModelAccessibleFieldsRequired},
	{"gorm.ErrSubQueryRequired", gorm.ErrSubQueryRequired}, {"gorm.ErrInvalidData", gorm.ErrInvalidData},
	{"gorm.ErrUnsupportedDriver", gorm.ErrUnsupportedDriver}, {"gorm.ErrRegistered", gorm.ErrRegistered},
	{"gorm.ErrInvalidField", gorm.ErrInvalidField}, {"gorm.ErrEmptySlice", gorm.ErrEmptySlice},
	{"gorm.ErrDryRunModeUnsupported", gorm.ErrDryRunModeUnsupported}, {"gorm.ErrInvalidDB", gorm.ErrInvalidDB},
	{"gorm.ErrInvalidValue", gorm.ErrInvalidValue}, {"gorm.ErrInvalidValueOfLength", gorm.ErrInvalidValueOfLength},
	{"gorm.ErrPreloadNotAllowed", gorm.ErrPreloadNotAllowed}, {"gorm.ErrDuplicatedKey", gorm.ErrDuplicatedKey},
	{"mysql.ErrInvalidConn", mysqldrv.ErrInvalidConn}, {"mysql.ErrMalformPkt", mysqldrv.ErrMalformPkt},
	{"mysql.ErrNoTLS", mysqldrv.ErrNoTLS}, {"mysql.ErrCleartextPassword", mysqldrv.ErrCleartextPassword},
	{"mysql.ErrNativePassword", mysqldrv.ErrNativePassword}, {"mysql.ErrOldPassword", mysqldrv.ErrOldPassword},
	{"mysql.ErrUnknownPlugin", mysqldrv.ErrUnknownPlugin}, {"mysql.ErrOldProtocol", mysqldrv.ErrOldProtocol},
	{"mysql.ErrPktSync", mysqldrv.ErrPktSync}, {"mysql.ErrPktSyncMul", mysqldrv.ErrPktSyncMul},
	{"mysql.ErrPktTooLarge", mysqldrv.ErrPktTooLarge}, {"mysql.ErrBusyBuffer", mysqldrv.ErrBusyBuffer},
	{"mysql.1040", &mysqldrv.MySQLError{Number: 1040, Message: "Too many connections"}},
	{"mysql.1146", &mysqldrv.MySQLError{Number: 1146, Message: "Table 't' doesn't exist"}},
	{"mysql.1205", &mysqldrv.MySQLError{Number: 1205, Message: "Lock wait timeout exceeded"}},
	{"mysql.1290", &mysqldrv.MySQLError{Number: 1290, Message: "The MySQL server is running with the --read-only option"}},
	{"mysql.1105", &mysqldrv.MySQLError{Number: 1105, Message: "unknown error"}},
	{"context.Canceled", context.Canceled}, {"context.DeadlineExceeded", context.DeadlineExceeded},
	{"io.EOF", io.EOF}, {"io.ErrUnexpectedEOF", io.ErrUnexpectedEOF}, {"io.ErrClosedPipe", io.ErrClosedPipe},
	{"io.ErrShortWrite", io.ErrShortWrite},
	{"net.ErrClosed", net.ErrClosed}, {"os.ErrDeadlineExceeded", os.ErrDeadlineExceeded},
	{"net.timeout", netTimeout{}},
	{"net.OpError", &net.OpError{Op: "read", Net: "tcp", Err: netTimeout{}}},
	{"net.OpError.reset", &net.OpError{Op: "write", Net: "tcp", Err: syscall.ECONNRESET}},
	{"syscall.ECONNRESET", syscall.ECONNRESET}, {"syscall.EPIPE", syscall.EPIPE},
	{"syscall.ECONNREFUSED", syscall.ECONNREFUSED},
	{"net.DNSError", &net.DNSError{Err: "no such host", Name: "db", IsTemporary: true}},
}

func sentinelKinds(wrapped bool) []string {
	r := make([]string, 0, 2*len(sentinels))
	for _, x := range sentinels {
		r = append(r, "s:"+x.name)
		if wrapped {
			r = append(r, "w:"+x.name)
		}
	}
	return r
}

func sentinelOf(kind string) error {
	if len(kind) < 2 || kind[1] != ':' {
		return nil
	}
	for _, x := range sentinels {
		if x.name == kind[2:] {
			return x.e
		}
	}
	return nil
}

// script is what the fake database does during one Transact call.
type script struct {
	log        *evlog
	beginOK    bool
	connectOK  bool
	commitOK   bool
	rollbackOK bool
	ffl        string       // kind of error a refused begin / commit / rollback is answered with
	execFail   map[int]bool // step index -> its last statement fails
	execLeft   map[int]int  // statements still to come per step (to find the last one)
	quiet      bool         // harness' own preparation / clean-up: nothing is recorded, nothing fails
}

func (s *script) add(e tr.E) {
	if !s.quiet {
		s.log.add(e)
	}
}

// The script of a driver call is the one bound to the call's context (calls running side by side on
// one database), else the current one of the database.
type ctxKey struct{}

type box struct {
	mu  sync.Mutex
	cur *script
}

func (b *box) of(ctx context.Context) *script {
	if ctx != nil {
		if s, ok := ctx.Value(ctxKey{}).(*script); ok {
			return s
		}
	}
	b.mu.Lock()
	defer b.mu.Unlock()
	return b.cur
}

func (b *box) set(s *script) {
	b.mu.Lock()
	b.cur = s
	b.mu.Unlock()
}

type connector struct{ b *box }

func (c connector) Driver() driver.Driver { return fakeDriver{} }
func (c connector) Connect(ctx context.Context) (driver.Conn, error) {
	if s := c.b.of(ctx); !s.connectOK && !s.quiet {
		s.add(tr.E{"ev": "begin", "ok": false})
		return nil, errConnect
	}
	return &conn{b: c.b}, nil
}

type fakeDriver struct{}

func (fakeDriver) Open(string) (driver.Conn, error) {
	return nil, errors.New("fake: use the connector")
}

type conn struct {
	b    *box
	intx bool
	txs  *script // script of the transaction open on this connection
}

func (c *conn) Close() error              { return nil }
func (c *conn) Begin() (driver.Tx, error) { return c.BeginTx(context.Background(), driver.TxOptions{}) }
func (c *conn) BeginTx(ctx context.Context, _ driver.TxOptions) (driver.Tx, error) {
	s := c.b.of(ctx)
	ok := s.beginOK || s.quiet
	s.add(tr.E{"ev": "begin", "ok": ok})
	if !ok {
		return nil, failErr(s.ffl, errBegin, true)
	}
	c.intx, c.txs = true, s
	return &ftx{c, s}, nil
}

type result struct{}

func (result) LastInsertId() (int64, error) { return 0, nil }
func (result) RowsAffected() (int64, error) { return 1, nil }

// a statement reached the database.  One that no step closure issued has index 0: whoever sent it,
// the specification has no place for it.
func (c *conn) exec(ctx context.Context, q string) (driver.Result, error) {
	s := c.b.of(ctx)
	if c.intx && c.txs != nil {
		s = c.txs
	}
	var i int
	if k := strings.Index(q, "/*S"); k >= 0 {
		fmt.Sscanf(q[k:], "/*S%d*/", &i)
	}
	s.add(tr.E{"ev": "exec", "i": i, "tx": c.intx})
	if s.quiet || i == 0 {
		return result{}, nil
	}
	s.log.mu.Lock()
	s.execLeft[i]--
	fail := s.execFail[i] && s.execLeft[i] == 0
	s.log.mu.Unlock()
	if fail {
		return nil, stepErr{i}
	}
	return result{}, nil
}

func (c *conn) ExecContext(ctx context.Context, q string, _ []driver.NamedValue) (driver.Result, error) {
	return c.exec(ctx, q)
}

// the rest of the driver's interface family: queries count as statements like executions do, the
// pool's housekeeping calls are answered and leave no trace
func (c *conn) QueryContext(ctx context.Context, q string, _ []driver.NamedValue) (driver.Rows, error) {
	if _, err := c.exec(ctx, q); err != nil {
		return nil, err
	}
	return &frows{}, nil
}
func (c *conn) PrepareContext(_ context.Context, q string) (driver.Stmt, error) { return c.Prepare(q) }
func (c *conn) Ping(context.Context) error                                      { return nil }
func (c *conn) ResetSession(context.Context) error                              { return nil }
func (c *conn) IsValid() bool                                                   { return true }
func (c *conn) CheckNamedValue(*driver.NamedValue) error                        { return nil }

type frows struct{}

func (*frows) Columns() []string         { return []string{"v"} }
func (*frows) Close() error              { return nil }
func (*frows) Next([]driver.Value) error { return io.EOF }

// prepared statements (gorm's PrepareStmt mode): only the execution counts
type fstmt struct {
	c *conn
	q string
}

func (c *conn) Prepare(q string) (driver.Stmt, error) { return &fstmt{c, q}, nil }
func (st *fstmt) Close() error                        { return nil }
func (st *fstmt) NumInput() int                       { return -1 }
func (st *fstmt) Exec([]driver.Value) (driver.Result, error) {
	return st.c.exec(context.Background(), st.q)
}
func (st *fstmt) ExecContext(ctx context.Context, _ []driver.NamedValue) (driver.Result, error) {
	return st.c.exec(ctx, st.q)
}
func (st *fstmt) Query([]driver.Value) (driver.Rows, error) {
	return st.c.QueryContext(context.Background(), st.q, nil)
}
func (st *fstmt) QueryContext(ctx context.Context, _ []driver.NamedValue) (driver.Rows, error) {
	return st.c.QueryContext(ctx, st.q, nil)
}

type ftx struct {
	c *conn
	s *script
}

func (t *ftx) Commit() error {
	ok := t.s.commitOK || t.s.quiet
	t.s.add(tr.E{"ev": "commit", "ok": ok})
	t.c.intx = false
	if !ok {
		return failErr(t.s.ffl, errCommit, false)
	}
	return nil
}

func (t *ftx) Rollback() error {
	ok := t.s.rollbackOK || t.s.quiet
	t.s.add(tr.E{"ev": "rollback", "ok": ok})
	t.c.intx = false
	if !ok {
		return failErr(t.s.ffl, errRollback, false)
	}
	return nil
}

// ---------------------------------------------------------------------------- steps

type boom struct {
	I int
	S string
}

func token(i int, s step) string {
	switch s.Out {
	case "pnil":
		return "nil"
	case "nilfn":
		return "nil pointer dereference"
	case "panic":
		switch s.Fl {
		case "rt":
			return "nil map"
		case "perr":
			return fmt.Sprintf("boomerr-%d!", i)
		case "pval", "pslice", "pmap", "pptr":
			return fmt.Sprintf("boomval-%d!", i)
		case "pint":
			return fmt.Sprint(7000 + i)
		case "pnilptr":
			return "nil"
		case "pfunc":
			return "0x"
		case "perrnil":
			return "typed-nil-error"
		}
		return fmt.Sprintf("boom-%d!", i)
	}
	return ""
}

// over: the transaction of this call has been ended at the database (by whomever).
func (l *evlog) over() bool { return l.count("commit")+l.count("rollback") > 0 }

// open: a transaction was begun at the database and has not been ended there.
func (l *evlog) open() bool {
	l.mu.Lock()
	begun := false
	for _, e := range l.evs {
		if e["ev"] == "begin" && e["ok"] == true {
			begun = true
		}
	}
	l.mu.Unlock()
	return begun && !l.over()
}

// errOf is the error value a failing step of the given kind returns.  The kinds are the classes of
// errors the package (err.go: IsNotFoundErr, IsDupError, ToGRPC...) and its users distinguish; for
// Transact they are all the same thing: a step that did not return nil.
type nilErr struct{ msg string }

func (e *nilErr) Error() string {
	if e == nil {
		return "typed-nil-error"
	}
	return e.msg
}

type sliceErr struct {
	i     int
	parts []string
}

func (e sliceErr) Error() string { return strings.Join(e.parts, " ") }

type ptrErr struct{ msg string }

func (e *ptrErr) Error() string { return e.msg }

func errOf(i int, kind string) error {
	tok := stepErr{i}.Error()
	switch kind {
	case "wrap":
		return fmt.Errorf("wrapped: %w", stepErr{i})
	case "notfound":
		return gorm.ErrRecordNotFound
	case "nfwrap":
		return fmt.Errorf("%s lookup: %w", tok, gorm.ErrRecordNotFound)
	case "dup1062":
		return &mysqldrv.MySQLError{Number: 1062, Message: "Duplicate entry '" + tok + "' for key 'PRIMARY'"}
	case "dup1105":
		return &mysqldrv.MySQLError{Number: 1105, Message: "vttablet: duplicate entry '" + tok + "' for key"}
	case "mysql1213":
		return &mysqldrv.MySQLError{Number: 1213, Message: "Deadlock found when trying to get lock; " + tok}
	case "grpcnf":
		return status.Error(codes.NotFound, "db.item.not.exist "+tok)
	case "grpcdup":
		return status.Error(codes.AlreadyExists, "db.item.already.exist "+tok)
	case "txdone":
		return sql.ErrTxDone
	case "canceled":
		return context.Canceled
	case "invalidtx":
		return gorm.ErrInvalidTransaction
	case "typednil": // a non-nil error holding a nil pointer
		var e *nilErr
		return e
	case "uncmp": // an error whose dynamic type cannot be compared with ==
		return sliceErr{i, []string{tok}}
	case "ptrerr":
		return &ptrErr{tok}
	}
	if e := sentinelOf(kind); e != nil {
		if kind[0] == 'w' {
			return fmt.Errorf("%s: %w", tok, e)
		}
		return e
	}
	return stepErr{i}
}

// mkStep builds the closure of the steps at positions pos (one position, or several consecutive ones
// with equal step records: the very same function value then stands at all of them and its n-th
// invocation is step pos[n]).  hook runs inside the step after its statements.
func mkStep(l *evlog, pos []int, s step, cancel, hook func()) gormx.GormProcFn {
	if s.Out == "nilfn" {
		return nil
	}
	var calls int32
	uneventful := s.Out == "ok" && s.Do == 0 && s.Fin == "none" && s.Fl == "plain" && cancel == nil && hook == nil
	return func(txn *gorm.DB) error {
		n := int(atomic.AddInt32(&calls, 1)) - 1
		i := pos[len(pos)-1] + n - (len(pos) - 1) // more invocations than positions: indices nobody planned
		if n < len(pos) {
			i = pos[n]
		}
		if l.rle && uneventful {
			l.quiet(i)
			return nil
		}
		l.add(tr.E{"ev": "step", "i": i})
		var xerr error
		wasOver := l.over()
		for e := 0; e < s.Do; e++ {
			if s.Fl2 == "sess" && e%2 == 0 { // a query is a statement too
				var vs []int
				xerr = txn.Raw(fmt.Sprintf("SELECT v FROM t WHERE id = ? /*S%d*/", i), e).Scan(&vs).Error
			} else {
				xerr = txn.Exec(fmt.Sprintf("UPDATE t SET v = v + 1 /*S%d*/", i)).Error
			}
		}
		// the step ends the transaction itself, on the handle it got or on a session of it
		var h = txn
		if s.Fl2 == "sess" {
			h = txn.Session(&gorm.Session{NewDB: true})
		}
		switch s.Fin {
		case "commit":
			h.Commit()
		case "rollback":
			h.Rollback()
		}
		if cancel != nil {
			alive := l.open()
			cancel()
			if alive { // database/sql rolls back on its own goroutine: wait for it to reach the driver
				// (watchdog: a transaction that is not bound to the handle's context never does;
				// then no rollback is recorded and the specification has no `end` for this step)
				for t0 := time.Now(); !l.over() && time.Since(t0) < 2*time.Second; {
					time.Sleep(50 * time.Microsecond)
				}
			}
		}
		if hook != nil {
			hook()
		}
		// the step uses Transact again on the handle it was given: gorm refuses to begin inside a
		// transaction (no savepoints here), the inner steps do not run, nothing reaches the database
		var nerr error
		if s.Fl == "nested" || s.Fl == "nestedok" {
			nerr = gormx.Transact(txn, func(*gorm.DB) error {
				l.add(tr.E{"ev": "step", "i": 0})
				return nil
			})
			if nerr == nil { // cannot be: make it visible
				l.add(tr.E{"ev": "commit", "ok": true})
			}
		}
		l.add(tr.E{"ev": "end", "i": i, "out": s.Out})
		switch s.Out {
		case "ok":
			return nil
		case "err":
			switch s.Fl {
			case "exec":
				if wasOver { // the statement never reached the driver: the step fails all the same
					return l.fails(i, stepErr{i})
				}
				if xerr == nil { // the statement did not reach the driver (its absence is in the log)
					return l.fails(i, stepErr{i})
				}
				return l.fails(i, xerr)
			case "nested":
				if nerr == nil {
					return l.fails(i, stepErr{i})
				}
				return l.fails(i, nerr)
			}
			return l.fails(i, errOf(i, s.Fl))
		case "panic":
			switch s.Fl {
			case "rt":
				var m map[int]int
				m[i] = 1 // runtime error: assignment to entry in nil map
			case "perr":
				panic(errors.New(token(i, s)))
			case "pval":
				panic(boom{i, token(i, s)})
			case "pptr":
				panic(&boom{i, token(i, s)})
			case "pslice":
				panic([]string{token(i, s)})
			case "pmap":
				panic(map[string]int{token(i, s): i})
			case "pint":
				panic(7000 + i)
			case "pnilptr": // a typed nil pointer: recover() is not nil
				panic((*boom)(nil))
			case "pfunc":
				panic(func() {})
			case "perrnil":
				var e *nilErr
				panic(error(e))
			}
			panic(token(i, s))
		case "pnil":
			var none interface{}
			panic(none)
		case "exit":
			runtime.Goexit()
		}
		tr.Fatal("unknown outcome %q", s.Out)
		return nil
	}
}

// group builds the argument list of Transact: the flat closures are distributed over n
// arguments; an argument holding anything but exactly one closure is a Combine (possibly
// nested, possibly empty); a single closure is passed raw or as Combine of one.
func group(rng *rand.Rand, n int, fns []gormx.GormProcFn) ([]gormx.GormProcFn, []interface{}) {
	cuts := make([]int, 0, n+1)
	cuts = append(cuts, 0)
	for j := 1; j < n; j++ {
		cuts = append(cuts, rng.Intn(len(fns)+1))
	}
	cuts = append(cuts, len(fns))
	sort.Ints(cuts)
	args := make([]gormx.GormProcFn, 0, n)
	shape := make([]interface{}, 0, n)
	for j := 0; j < n; j++ {
		f, sh := combine(rng, fns[cuts[j]:cuts[j+1]], cuts[j], 0)
		args = append(args, f)
		shape = append(shape, sh)
	}
	return args, shape
}

func combine(rng *rand.Rand, fns []gormx.GormProcFn, base, depth int) (gormx.GormProcFn, interface{}) {
	if len(fns) == 1 && rng.Intn(3) > 0 {
		return fns[0], base + 1
	}
	if len(fns) <= 1 || depth >= 2 || rng.Intn(2) == 0 {
		sh := make([]interface{}, 0, len(fns))
		for k := range fns {
			sh = append(sh, base+k+1)
		}
		return gormx.Combine(fns...), sh
	}
	// nested: split in two or three parts, each a Combine again
	parts := 2 + rng.Intn(2)
	cuts := []int{0}
	for j := 1; j < parts; j++ {
		cuts = append(cuts, rng.Intn(len(fns)+1))
	}
	cuts = append(cuts, len(fns))
	sort.Ints(cuts)
	var sub []gormx.GormProcFn
	sh := make([]interface{}, 0, parts)
	for j := 0; j < parts; j++ {
		f, s := combine(rng, fns[cuts[j]:cuts[j+1]], base+cuts[j], depth+1)
		sub = append(sub, f)
		sh = append(sh, s)
	}
	return gormx.Combine(sub...), sh
}

// ---------------------------------------------------------------------------- one call

// same: e is the very value r (values of uncomparable dynamic type: same type and same step).
func same(e, r error) (eq bool) {
	if a, ok := e.(sliceErr); ok {
		b, ok2 := r.(sliceErr)
		return ok2 && a.i == b.i
	}
	defer func() {
		if recover() != nil {
			eq = false
		}
	}()
	return e == r
}

func classify(err error, p plan, l *evlog) tr.E {
	if err == nil {
		return tr.E{"kind": "nil", "i": 0}
	}
	// the very value a step returned (or something that wraps it): that step's error.  Several
	// steps may return the same singleton (gorm.ErrRecordNotFound ...): the first one that did.
	l.mu.Lock()
	returned := append([]retErr{}, l.returned...)
	l.mu.Unlock()
	for e := err; e != nil; e = errors.Unwrap(e) {
		for _, r := range returned {
			if same(e, r.e) {
				return tr.E{"kind": "step", "i": r.i}
			}
		}
	}
	var se stepErr
	if errors.As(err, &se) {
		return tr.E{"kind": "step", "i": se.i}
	}
	// an error that describes a step's panic may mention more (a failed rollback, say)
	for k, s := range p.Steps {
		if t := token(k+1, s); t != "" && strings.Contains(err.Error(), t) {
			return tr.E{"kind": "panic", "i": k + 1}
		}
	}
	switch {
	case errors.Is(err, errBegin), errors.Is(err, errConnect):
		return tr.E{"kind": "begin", "i": 0}
	case errors.Is(err, errCommit):
		return tr.E{"kind": "commit", "i": 0}
	case errors.Is(err, errRollback):
		return tr.E{"kind": "rollback", "i": 0}
	}
	return tr.E{"kind": "other", "i": 0}
}

// handle states gorm permits, by the class the specification knows
var (
	okStates = []string{"plain", "plain", "plain", "ctx", "session", "newdb", "debug", "where", "prepare",
		"sessprep", "skipdef", "dryrun", "maxconn1"}
	noBeginStates = []string{"intx", "closed"}
	zeroStates    = []string{"nilptr", "zerodb"}
	sharable      = map[string]bool{"plain": true, "ctx": true, "session": true, "newdb": true, "debug": true, "where": true,
		"sessprep": true, "dryrun": true}
)

// database = pool + gorm handle on the fake driver
type database struct {
	b     *box
	sqlDB *sql.DB
	db    *gorm.DB
}

func openDB(cfg *gorm.Config) *database {
	b := &box{cur: &script{quiet: true}}
	sqlDB := sql.OpenDB(connector{b})
	cfg.DisableAutomaticPing = true
	cfg.Logger = logger.Discard
	db, err := gorm.Open(mysql.New(mysql.Config{Conn: sqlDB, SkipInitializeWithVersion: true}), cfg)
	if err != nil {
		tr.Fatal("gorm.Open on the fake driver: %v", err)
	}
	return &database{b, sqlDB, db}
}

// one pool is used again by later calls, like a service would, as long as it is healthy
var shared *database

// call is one prepared Transact call.
type call struct {
	p      plan
	l      *evlog
	sc     *script
	args   []gormx.GormProcFn
	shape  []interface{}
	bfl    string
	ctx    context.Context
	cancel func()
	full   plan // p with the padding spelled out
	fin    tr.E // ret / gone / hang
	hung   bool
}

func normalize(rng *rand.Rand, p *plan, dberr bool) {
	for k := range p.Steps {
		s := &p.Steps[k]
		if s.Fl == "" { // plans out of TLC fix outcome and statements; the flavour is ours
			s.Fl = "plain"
			switch s.Out {
			case "ok":
				if s.Ex > 0 && rng.Intn(6) == 0 {
					s.Fl = "swallow"
				} else if rng.Intn(12) == 0 {
					s.Fl = "nestedok"
				}
			case "err":
				s.Fl = errFl[rng.Intn(len(errFl))]
			case "panic":
				s.Fl = panicFl[rng.Intn(len(panicFl))]
			}
		}
		if s.Out == "err" && s.Fl == "exec" && s.Ex == 0 {
			s.Fl = "plain"
		}
		if s.Fin == "" {
			s.Fin = "none"
		}
		if s.Out == "nilfn" {
			s.Ex, s.Fin, s.Fl = 0, "none", "plain"
		}
		s.Fl2 = []string{"direct", "sess"}[rng.Intn(2)]
	}
	if p.Cancel > p.Pad+len(p.Steps) || p.Cancel < -1 || (p.Cancel > 0 && p.Cancel <= p.Pad) {
		tr.Fatal("plan cancels in step %d of %d", p.Cancel, len(p.Steps))
	}
	if p.N == 0 && len(p.Steps)+p.Pad > 0 {
		tr.Fatal("plan with steps but no arguments")
	}
	if p.Db == "" {
		p.Db = "ok"
	}
	if p.Db == "err" && !dberr { // see -dberr
		p.Db = "ok"
	}
	if p.Dbst == "" {
		switch p.Db {
		case "ok":
			p.Dbst = okStates[rng.Intn(len(okStates))]
		case "nobegin":
			p.Dbst = noBeginStates[rng.Intn(len(noBeginStates))]
		case "zero":
			p.Dbst = zeroStates[rng.Intn(len(zeroStates))]
		case "err":
			p.Dbst = "witherr"
		}
	}
	if p.Cancel >= 0 && p.Db != "ok" {
		p.Cancel = -1
	}
	if p.Cancel >= 0 && p.Dbst == "plain" {
		p.Dbst = "ctx"
	}
	if p.Ffl == "" {
		p.Ffl = failKinds[rng.Intn(len(failKinds))]
		if rng.Intn(2) == 0 {
			p.Ffl = "plain"
		}
	}
	if p.Nfl == "" {
		p.Nfl = []string{"none", "nilslice", "empty"}[rng.Intn(3)]
	}
	for k := range p.Steps {
		s := &p.Steps[k]
		s.Do = s.Ex
		if p.Dbst == "dryrun" { // statements of a dry-run handle never reach the database
			if s.Fl == "exec" || s.Fl == "swallow" {
				s.Fl = "plain"
			}
			s.Ex = 0
		}
	}
}

// prepare builds script, closures and arguments of a call (p must be normalized).
func prepare(rng *rand.Rand, p plan, hooks map[int]func()) *call {
	l := &evlog{}
	sc := &script{log: l, beginOK: p.Begin, connectOK: true, commitOK: p.Commit, rollbackOK: p.Rollback,
		ffl: p.Ffl, execFail: map[int]bool{}, execLeft: map[int]int{}}
	c := &call{p: p, l: l, sc: sc, bfl: "driver"}
	if p.Pad > 0 { // the closures and the classification see the whole list
		all := make([]step, 0, p.Pad+len(p.Steps))
		for k := 0; k < p.Pad; k++ {
			all = append(all, step{Out: "ok", Fin: "none", Fl: "plain", Fl2: "direct"})
		}
		p.Steps = append(all, p.Steps...)
	}
	c.full = p
	l.rle = len(p.Steps) > 200
	c.ctx, c.cancel = context.WithCancel(context.WithValue(context.Background(), ctxKey{}, sc))
	fns := make([]gormx.GormProcFn, 0, len(p.Steps))
	for k := 0; k < len(p.Steps); k++ {
		s := p.Steps[k]
		sc.execLeft[k+1] = s.Ex
		if s.Fl == "exec" || s.Fl == "swallow" {
			sc.execFail[k+1] = true
		}
		var cf func()
		if p.Cancel == k+1 {
			cf = c.cancel
		}
		pos := []int{k + 1}
		// the same function value twice (or more) in a row, when the plan has equal steps there
		for cf == nil && hooks[k+1] == nil && !l.rle && k+1 < len(p.Steps) && p.Steps[k+1] == s &&
			p.Cancel != k+2 && hooks[k+2] == nil && rng.Intn(2) == 0 {
			k++
			sc.execLeft[k+1] = s.Ex
			sc.execFail[k+1] = sc.execFail[k]
			pos = append(pos, k+1)
		}
		f := mkStep(l, pos, s, cf, hooks[pos[0]])
		for range pos {
			fns = append(fns, f)
		}
	}
	c.args, c.shape = group(rng, p.N, fns)
	if p.Pad > 0 {
		c.shape = []interface{}{} // (as long as the list itself)
	}
	if p.N == 0 {
		switch p.Nfl {
		case "nilslice":
			c.args = nil
		case "empty":
			c.args = []gormx.GormProcFn{}
		}
	}
	return c
}

// closure identity of a func value (reflect's Pointer is the code, shared by all closures of a literal)
func fnID(f gormx.GormProcFn) uintptr { return *(*uintptr)(unsafe.Pointer(&f)) }

// run calls Transact on handle h and waits for its end (watchdog: a call that does not come back is
// an observation, `hang`).  Reports whether the argument list is still what was passed.
func (c *call) run(h *gorm.DB) {
	before := make([]uintptr, len(c.args))
	for i, f := range c.args {
		before[i] = fnID(f)
	}
	done := make(chan tr.E, 1)
	go func() {
		returned := false
		defer func() {
			if x := recover(); x != nil {
				done <- tr.E{"ev": "ret", "r": tr.E{"kind": "raised", "i": 0}, "what": fmt.Sprint(x)}
			} else if !returned {
				done <- tr.E{"ev": "gone"}
			}
		}()
		var e error
		if c.p.N == 0 && c.p.Nfl == "none" {
			e = gormx.Transact(h)
		} else {
			e = gormx.Transact(h, c.args...)
		}
		returned = true
		done <- tr.E{"ev": "ret", "r": classify(e, c.full, c.l), "what": fmt.Sprint(e)}
	}()
	select {
	case c.fin = <-done:
	case <-time.After(10 * time.Second):
		c.fin, c.hung = tr.E{"ev": "hang"}, true
	}
	inmut := true
	for i, f := range c.args {
		if before[i] != fnID(f) {
			inmut = false
		}
	}
	c.fin["inmut"] = inmut
}

func (c *call) emit(w *tr.W, src string, inuse int) {
	c.fin["inuse"] = inuse
	w.Emit(tr.E{"ev": "reset", "cfg": c.p.rec(), "src": src, "shape": c.shape, "bfl": c.bfl, "dbst": c.p.Dbst,
		"ffl": c.p.Ffl, "nfl": c.p.Nfl})
	c.l.mu.Lock()
	c.l.flush()
	for _, e := range c.l.evs {
		w.Emit(e)
	}
	c.l.mu.Unlock()
	w.Emit(c.fin)
}

// connections still checked out of the pool (a release may lag a moment behind the driver call)
func inUse(sqlDB *sql.DB) int {
	for t0 := time.Now(); sqlDB.Stats().InUse != 0 && time.Since(t0) < 300*time.Millisecond; {
		time.Sleep(100 * time.Microsecond)
	}
	return sqlDB.Stats().InUse
}

var dbErrOn bool

func runOne(w *tr.W, rng *rand.Rand, src string, p plan) {
	normalize(rng, &p, dbErrOn)
	c := prepare(rng, p, nil)
	defer c.cancel()
	if !p.Begin && rng.Intn(3) == 0 && p.Db == "ok" {
		c.sc.connectOK = false
		c.bfl = "connect"
	}
	// the database: a fresh one, or the one earlier calls used
	var d *database
	own := true
	switch {
	case sharable[p.Dbst] && c.bfl == "driver" && rng.Intn(2) == 0:
		if shared == nil {
			shared = openDB(&gorm.Config{})
		}
		d, own = shared, false
	case p.Dbst == "prepare":
		d = openDB(&gorm.Config{PrepareStmt: true})
	case p.Dbst == "skipdef":
		d = openDB(&gorm.Config{SkipDefaultTransaction: true})
	default:
		d = openDB(&gorm.Config{})
	}
	// the handle in the state the plan asks for (the harness' own preparation is not recorded)
	h := d.db
	var outer *gorm.DB
	switch p.Dbst {
	case "ctx":
		h = h.WithContext(c.ctx)
	case "session":
		h = h.Session(&gorm.Session{})
	case "newdb":
		h = h.Session(&gorm.Session{NewDB: true, SkipHooks: true})
	case "debug":
		h = h.Debug()
	case "where":
		h = h.Table("t").Where("v > ?", 1)
	case "sessprep":
		h = h.Session(&gorm.Session{PrepareStmt: true})
	case "dryrun":
		h = h.Session(&gorm.Session{DryRun: true})
	case "maxconn1":
		d.sqlDB.SetMaxOpenConns(1)
	case "intx":
		outer = h.Begin()
		h = outer
	case "closed":
		d.sqlDB.Close()
	case "nilptr":
		h = nil
	case "zerodb":
		h = &gorm.DB{}
	case "witherr":
		h = h.Session(&gorm.Session{})
		_ = h.AddError(errors.New("an earlier error on the handle"))
	}
	if p.Cancel >= 0 && p.Dbst != "ctx" { // whatever else the handle is, it is bound to the context
		h = h.WithContext(c.ctx)
	}
	if p.Cancel == 0 {
		c.cancel()
	}
	d.b.set(c.sc)
	c.run(h)
	d.b.set(&script{quiet: true})
	if outer != nil {
		outer.Rollback()
	}
	n := inUse(d.sqlDB)
	c.emit(w, src, n)
	if own {
		go d.sqlDB.Close()
	} else if n != 0 || c.hung {
		go shared.sqlDB.Close()
		shared = nil
	}
}

// queued: a pool of one connection; call A holds it, call B is parked in the pool waiting to begin when
// its context ends (A's first step sees to that): B's begin never reaches the database, B gets an
// error, runs nothing; A is not disturbed.  Two traces.
func runQueued(w *tr.W, rng *rand.Rand, maxLen int) {
	d := openDB(&gorm.Config{})
	d.sqlDB.SetMaxOpenConns(1)
	pa := randPlan(rng, maxLen)
	if len(pa.Steps) == 0 || pa.Steps[0].Out == "nilfn" {
		pa.Steps = append([]step{st("ok", 1, "plain", "none")}, pa.Steps...)
		if pa.Cancel > 0 {
			pa.Cancel++
		}
	}
	if pa.N == 0 {
		pa.N = 1
	}
	if pa.Cancel == 0 {
		pa.Cancel = -1
	}
	pa.Begin, pa.Db, pa.Dbst = true, "ok", "ctx"
	pb := randPlan(rng, maxLen)
	if pb.N == 0 {
		pb.N = 1
	}
	pb.Db, pb.Dbst, pb.Cancel = "ok", "ctx", 0
	normalize(rng, &pa, false)
	normalize(rng, &pb, false)
	b := prepare(rng, pb, nil)
	parked := true
	bdone := make(chan struct{})
	a := prepare(rng, pa, map[int]func(){1: func() {
		w0 := d.sqlDB.Stats().WaitCount
		go func() {
			b.run(d.db.WithContext(b.ctx))
			close(bdone)
		}()
		for t0 := time.Now(); d.sqlDB.Stats().WaitCount == w0; {
			if time.Since(t0) > 2*time.Second {
				parked = false // B did not get as far as the pool: this round says nothing
				break
			}
			time.Sleep(20 * time.Microsecond)
		}
		b.cancel()
		select {
		case <-bdone:
		case <-time.After(2 * time.Second):
			parked = false
		}
	}})
	a.run(d.db.WithContext(a.ctx))
	if !parked {
		<-bdone
	}
	n := inUse(d.sqlDB)
	a.emit(w, "queued", n)
	if parked {
		b.emit(w, "queued", n)
	}
	a.cancel()
	go d.sqlDB.Close()
}

// round: several calls released together on one fresh database (first use under contention, calls
// side by side on one pool).  Every call is bound to its own context, through which the driver finds
// the call's script; each call is one trace.
func runRound(w *tr.W, rng *rand.Rand, k, maxLen int) {
	d := openDB(&gorm.Config{PrepareStmt: rng.Intn(4) == 0})
	if rng.Intn(3) == 0 { // fewer connections than callers: begins queue up in the pool
		d.sqlDB.SetMaxOpenConns(1 + rng.Intn(2))
	}
	calls := make([]*call, k)
	for i := range calls {
		p := randPlan(rng, maxLen)
		p.Db, p.Dbst = "ok", "ctx"
		normalize(rng, &p, false)
		calls[i] = prepare(rng, p, nil)
		if p.Cancel == 0 {
			calls[i].cancel()
		}
	}
	var ready, wg sync.WaitGroup
	var goFlag int32
	ready.Add(k)
	wg.Add(k)
	for _, c := range calls {
		go func(c *call) {
			defer wg.Done()
			h := d.db.WithContext(c.ctx)
			ready.Done()
			for atomic.LoadInt32(&goFlag) == 0 { // spin barrier
			}
			c.run(h)
		}(c)
	}
	ready.Wait()
	atomic.StoreInt32(&goFlag, 1)
	wg.Wait()
	n := inUse(d.sqlDB)
	for _, c := range calls {
		c.emit(w, "round", n)
		c.cancel()
	}
	go d.sqlDB.Close()
}

// ---------------------------------------------------------------------------- generators

func readPlan(path string) plan {
	f, err := os.Open(path)
	if err != nil {
		tr.Fatal("%v", err)
	}
	defer f.Close()
	sc := bufio.NewScanner(f)
	if !sc.Scan() {
		tr.Fatal("empty plan %s", path)
	}
	var first struct {
		Ev  string `json:"ev"`
		Cfg plan   `json:"cfg"`
	}
	if err := json.Unmarshal(sc.Bytes(), &first); err != nil || first.Ev != "init" {
		tr.Fatal("plan %s: first line is not the init record: %v", path, err)
	}
	if first.Cfg.Steps == nil {
		first.Cfg.Steps = []step{}
	}
	if !strings.Contains(sc.Text(), `"cancel"`) {
		first.Cfg.Cancel = -1
	}
	return first.Cfg
}

var (
	errFl = append([]string{"plain", "exec", "wrap", "nested", "notfound", "nfwrap", "dup1062", "dup1105", "mysql1213",
		"grpcnf", "grpcdup", "txdone", "canceled", "invalidtx", "typednil", "uncmp", "ptrerr"}, sentinelKinds(true)...)
	panicFl = []string{"plain", "perr", "pval", "rt", "pptr", "pslice", "pmap", "pint", "pnilptr", "pfunc", "perrnil"}
)

func mkPlan(n int, steps []step, begin, commit, rollback bool, cancel int) plan {
	return plan{N: n, Steps: steps, Begin: begin, Commit: commit, Rollback: rollback, Cancel: cancel, Db: "ok"}
}

func st(out string, ex int, fl, fin string) step { return step{Out: out, Ex: ex, Fl: fl, Fin: fin} }

// variants of one step for the exhaustive enumeration
func variants(full bool) []step {
	v := []step{
		st("ok", 0, "plain", "none"), st("ok", 1, "plain", "none"),
		st("err", 0, "plain", "none"), st("err", 1, "exec", "none"),
		st("err", 0, "notfound", "none"), st("err", 1, "dup1062", "none"), // kinds of error: all alike
		st("panic", 1, "plain", "none"), st("panic", 0, "rt", "none"),
		st("pnil", 1, "plain", "none"),
		st("exit", 1, "plain", "none"),
		st("nilfn", 0, "plain", "none"), // a nil function in the list
		// the step ends the transaction itself
		st("ok", 0, "plain", "rollback"), st("ok", 1, "plain", "commit"), st("err", 1, "plain", "rollback"),
	}
	if full {
		// the step calls Transact again on the handle it got
		v = append(v, st("err", 0, "nested", "none"), st("ok", 1, "nestedok", "none"), st("ok", 0, "nestedok", "rollback"))
		v = append(v, st("err", 1, "nfwrap", "none"), st("err", 0, "dup1105", "none"), st("err", 0, "mysql1213", "none"),
			st("err", 0, "grpcnf", "none"), st("err", 1, "txdone", "none"))
		v = append(v, st("ok", 1, "swallow", "none"), st("err", 1, "wrap", "none"), st("panic", 0, "perr", "none"), st("panic", 0, "pnilptr", "none"),
			st("panic", 1, "pval", "none"), st("pnil", 0, "plain", "none"), st("exit", 0, "plain", "none"),
			st("ok", 0, "plain", "commit"), st("ok", 1, "plain", "rollback"), st("err", 0, "plain", "commit"),
			st("panic", 0, "plain", "commit"), st("pnil", 1, "plain", "rollback"), st("exit", 0, "plain", "rollback"))
	}
	return v
}

// enumerate every step list up to length maxLen over the variants, with every fault
// placement that can matter for it.
func enumerate(w *tr.W, rng *rand.Rand, maxLen int, full bool) int {
	vs := variants(full)
	n := 0
	var rec func(cur []step)
	emit := func(cur []step) {
		steps := append([]step{}, cur...)
		allok := true
		for _, s := range steps {
			if s.Out != "ok" {
				allok = false
			}
		}
		nargs := 1 + rng.Intn(len(steps)+1)
		if allok {
			for _, c := range []bool{true, false} {
				runOne(w, rng, "enum", mkPlan(nargs, append([]step{}, steps...), true, c, rng.Intn(2) == 0, -1))
				n++
			}
		} else {
			for _, r := range []bool{true, false} {
				runOne(w, rng, "enum", mkPlan(nargs, append([]step{}, steps...), true, rng.Intn(2) == 0, r, -1))
				n++
			}
		}
		if len(steps) <= 1 || rng.Intn(8) == 0 {
			runOne(w, rng, "enum", mkPlan(nargs, append([]step{}, steps...), false, rng.Intn(2) == 0, rng.Intn(2) == 0, -1))
			n++
		}
		// the handle's context is cancelled: before the call, inside each step (short lists: every
		// point; longer ones: one point now and then)
		for k := 0; k <= len(steps); k++ {
			if len(steps) <= 2 || (rng.Intn(3) == 0 && k == 1+rng.Intn(len(steps))) {
				runOne(w, rng, "enum", mkPlan(nargs, append([]step{}, steps...), true, rng.Intn(4) != 0, rng.Intn(2) == 0, k))
				n++
			}
		}
	}
	rec = func(cur []step) {
		emit(cur)
		if len(cur) == maxLen {
			return
		}
		for _, v := range vs {
			rec(append(cur, v))
		}
	}
	rec([]step{})
	return n
}

// enumStates: every state of the handle x no steps passed in every way / every one-step list, with
// begin succeeding and failing; every kind of refusal for begin, commit and rollback.
func enumStates(w *tr.W, rng *rand.Rand) int {
	n := 0
	states := [][2]string{}
	seen := map[string]bool{}
	for _, s := range okStates {
		if !seen[s] {
			seen[s] = true
			states = append(states, [2]string{"ok", s})
		}
	}
	for _, s := range noBeginStates {
		states = append(states, [2]string{"nobegin", s})
	}
	for _, s := range zeroStates {
		states = append(states, [2]string{"zero", s})
	}
	if dbErrOn {
		states = append(states, [2]string{"err", "witherr"})
	}
	run := func(p plan, cl, st string) {
		p.Db, p.Dbst = cl, st
		runOne(w, rng, "state", p)
		n++
	}
	for _, cs := range states {
		for _, nfl := range []string{"none", "nilslice", "empty"} {
			p := mkPlan(0, []step{}, rng.Intn(2) == 0, true, true, -1)
			p.Nfl = nfl
			run(p, cs[0], cs[1])
		}
		run(mkPlan(1+rng.Intn(2), []step{}, true, true, true, -1), cs[0], cs[1]) // only empty Combines
		for _, v := range variants(false) {
			run(mkPlan(1, []step{v}, true, rng.Intn(4) != 0, rng.Intn(4) != 0, -1), cs[0], cs[1])
			if rng.Intn(3) == 0 {
				run(mkPlan(1, []step{v}, false, true, true, -1), cs[0], cs[1])
			}
		}
		run(mkPlan(2, []step{st("ok", 1, "plain", "none"), st("ok", 2, "plain", "none")}, true, true, true, -1), cs[0], cs[1])
	}
	for _, k := range failKinds {
		for _, which := range []int{0, 1, 2} {
			var p plan
			switch which {
			case 0:
				p = mkPlan(1, []step{st("ok", 1, "plain", "none")}, false, true, true, -1)
			case 1:
				p = mkPlan(1, []step{st("ok", 1, "plain", "none")}, true, false, true, -1)
			case 2:
				p = mkPlan(1, []step{st("err", 1, "plain", "none")}, true, true, false, -1)
			}
			p.Ffl, p.Dbst = k, "plain"
			runOne(w, rng, "state", p)
			n++
		}
	}
	return n
}

// enumErrKinds: every kind of step error, plain and wrapped, as the only step, followed by a step that
// would succeed, and after one that succeeded - with the rollback accepted and refused.
func enumErrKinds(w *tr.W, rng *rand.Rand) int {
	n := 0
	ok := func() step { return st("ok", rng.Intn(2), "plain", "none") }
	kinds := [][2]string{}
	for _, k := range errFl {
		if k != "exec" {
			kinds = append(kinds, [2]string{"err", k})
		}
	}
	for _, k := range panicFl { // and every kind of panic value
		kinds = append(kinds, [2]string{"panic", k})
	}
	for _, ok2 := range kinds {
		e := st(ok2[0], rng.Intn(2), ok2[1], "none")
		for _, steps := range [][]step{{e}, {e, ok()}, {ok(), e}, {ok(), e, ok()}} {
			runOne(w, rng, "errkind", mkPlan(1+rng.Intn(len(steps)), steps, true, true, n%3 != 0, -1))
			n++
		}
	}
	return n
}

// enumWidths: lists whose length sits on the edge of an integer width (a narrowed index or counter
// wraps there): all steps uneventful, the last one of three kinds.
func enumWidths(w *tr.W, rng *rand.Rand, widths []int) int {
	n := 0
	for _, width := range widths {
		for _, m := range []int{width - 1, width, width + 1} {
			for _, last := range []step{st("ok", 0, "plain", "none"), st("err", 1, "plain", "none"), st("ok", 1, "plain", "none")} {
				p := mkPlan(1, []step{last}, true, true, true, -1)
				p.Pad, p.Dbst = m-1, "plain"
				runOne(w, rng, "width", p)
				n++
			}
		}
	}
	return n
}

// long lists: all steps succeed up to a last one of every basic variant
func enumLong(w *tr.W, rng *rand.Rand, count, length int) int {
	n := 0
	vs := variants(false)
	for i := 0; i < count; i++ {
		m := length/2 + rng.Intn(length/2+1)
		steps := make([]step, 0, m)
		for k := 0; k < m-1; k++ {
			steps = append(steps, st("ok", rng.Intn(2), "plain", "none"))
		}
		steps = append(steps, vs[i%len(vs)])
		runOne(w, rng, "long", mkPlan(1+rng.Intn(m), steps, true, rng.Intn(4) != 0, true, -1))
		n++
	}
	return n
}

func randStep(rng *rand.Rand, pfail int) step {
	ex := rng.Intn(3)
	fin := "none"
	if rng.Intn(12) == 0 {
		fin = []string{"commit", "rollback"}[rng.Intn(2)]
	}
	if rng.Intn(100) >= pfail {
		if ex > 0 && rng.Intn(10) == 0 {
			return st("ok", ex, "swallow", fin)
		}
		if rng.Intn(15) == 0 {
			return st("ok", ex, "nestedok", fin)
		}
		return st("ok", ex, "plain", fin)
	}
	if rng.Intn(10) == 0 {
		return st("nilfn", 0, "plain", "none")
	}
	switch rng.Intn(5) {
	case 0, 1:
		return st("err", ex, errFl[rng.Intn(len(errFl))], fin)
	case 2:
		return st("panic", ex, panicFl[rng.Intn(len(panicFl))], fin)
	case 3:
		return st("pnil", ex, "plain", fin)
	}
	return st("exit", ex, "plain", fin)
}

func randPlan(rng *rand.Rand, maxLen int) plan {
	m := rng.Intn(maxLen + 1)
	pfail := []int{0, 5, 15, 40}[rng.Intn(4)]
	steps := make([]step, 0, m)
	for i := 0; i < m; i++ {
		steps = append(steps, randStep(rng, pfail))
	}
	if m > 0 && rng.Intn(3) == 0 { // bias: exactly the last step fails
		for i := range steps {
			steps[i].Out, steps[i].Fl = "ok", "plain"
		}
		steps[m-1] = randStep(rng, 100)
	}
	n := rng.Intn(m + 3)
	if n == 0 && m > 0 {
		n = 1
	}
	cancel := -1
	if rng.Intn(4) == 0 {
		cancel = rng.Intn(m + 1)
		if m > 0 && rng.Intn(2) == 0 { // bias: while / after the last step
			cancel = m
		}
	}
	p := mkPlan(n, steps, rng.Intn(8) != 0, rng.Intn(3) != 0, rng.Intn(3) != 0, cancel)
	switch x := rng.Intn(24); {
	case x == 0:
		p.Db = "nobegin"
	case x == 1 && dbErrOn:
		p.Db = "err"
	case x == 2:
		p.Db = "zero"
	}
	return p
}

func main() {
	plans := flag.String("plans", "", "directory of TLC plans")
	out := flag.String("out", "", "trace file")
	seed := flag.Int64("seed", 1, "seed")
	enumLen := flag.Int("enum", 3, "exhaustive enumeration over 14 step variants (+ cancellation points): maximal number of steps")
	enumFull := flag.Int("enumfull", 2, "same over all 34 step variants (flavours): maximal number of steps")
	nrand := flag.Int("rand", 300, "number of random long plans")
	maxLen := flag.Int("maxlen", 12, "maximal number of steps of a random plan")
	nlong := flag.Int("long", 14, "number of very long lists")
	longLen := flag.Int("longlen", 300, "their maximal length")
	widths := flag.String("widths", "256", "list lengths w-1, w, w+1 for these w (run-length encoded traces)")
	rounds := flag.Int("rounds", 60, "rounds of 2..6 calls released together on one fresh database")
	flag.BoolVar(&dbErrOn, "dberr", false, "also pass handles that already carry an error "+
		"(the unchanged tree leaves the transaction open: known finding, see checks/c18.py)")
	flag.Parse()
	if *out == "" {
		tr.Fatal("-out required")
	}
	// Transact logs panics and rollback failures through ulog: keep that off the console
	ulog.SetDefaultLogger(&ulog.Logger{Logger: zap.NewNop()})
	rng := rand.New(rand.NewSource(*seed))
	w := tr.Create(*out)
	np := 0
	if *plans != "" {
		files, _ := filepath.Glob(filepath.Join(*plans, "*.ndjson"))
		sort.Strings(files)
		for _, f := range files {
			runOne(w, rng, "plan", readPlan(f))
			np++
		}
	}
	ne := enumerate(w, rng, *enumLen, false)
	ne += enumerate(w, rng, *enumFull, true)
	ns := enumStates(w, rng)
	ns += enumErrKinds(w, rng)
	nl := enumLong(w, rng, *nlong, *longLen)
	if *widths != "" {
		var ws []int
		for _, x := range strings.Split(*widths, ",") {
			var v int
			fmt.Sscan(x, &v)
			ws = append(ws, v)
		}
		nl += enumWidths(w, rng, ws)
	}
	for i := 0; i < *nrand; i++ {
		runOne(w, rng, "rand", randPlan(rng, *maxLen))
	}
	for i := 0; i < *rounds; i++ {
		if i%4 == 3 {
			runQueued(w, rng, 3)
		} else {
			runRound(w, rng, 2+rng.Intn(5), 4)
		}
	}
	w.Close()
	fmt.Printf("c18: %d plans, %d enumerated, %d handle states / refusal kinds, %d long, %d random, %d rounds, %d events\n",
		np, ne, ns, nl, *nrand, *rounds, w.N())
}
