// c03: executes B-tree plans and seeded histories against ds/tree.BTree (the locked wrapper) and
// ds/tree/btree.BTree (the vendored tree with neptune's two exclusive scans), recording one
// ndjson event per call for validation by TLC (specs/btree/BTree_Trace.tla).
//
// Logged per call: the action, the real reply and - after every write - the ascending contents
// and Len() of EVERY live handle (clone isolation) plus the node dump of the verif hook
// (well-formedness).  Nothing is judged here: a panic is logged as an event the spec has no
// arm for, everything else is just recorded.
package main

import (
	"bufio"
	"encoding/json"
	"flag"
	"fmt"
	"math/rand"
	"os"
	"os/exec"
	"path/filepath"
	"runtime"
	"runtime/debug"
	"sort"
	"strings"
	"sync"
	"sync/atomic"
	"time"

	"github.com/pinealctx/neptune/ds/tree"
	"github.com/pinealctx/neptune/ds/tree/btree"

	"verif/harness/internal/tr"
)

// Items are ordered by key only; the version tells which stored item is in the tree.  The tree
// takes any btree.Item, so the dynamic KIND of the items is a dimension of a trace: a struct value
// (== compares contents), a pointer (== compares identity; lookup keys are fresh pointers) and a
// slice type (not comparable at all: == on two of them panics).  One tree holds one kind.
type kv interface {
	btree.Item
	key() int
	ver() int
}
type item struct{ k, v int }
type pitem struct{ k, v int }
type litem []int

func (a item) Less(b btree.Item) bool   { return a.k < b.(kv).key() }
func (a item) key() int                 { return a.k }
func (a item) ver() int                 { return a.v }
func (a *pitem) Less(b btree.Item) bool { return a.k < b.(kv).key() }
func (a *pitem) key() int               { return a.k }
func (a *pitem) ver() int               { return a.v }
func (a litem) Less(b btree.Item) bool  { return a[0] < b.(kv).key() }
func (a litem) key() int                { return a[0] }
func (a litem) ver() int                { return a[1] }

var kindNames = []string{"struct", "pointer", "slice"}

func mkItem(kind, k, v int) btree.Item {
	switch kind {
	case 1:
		return &pitem{k, v}
	case 2:
		return litem{k, v}
	}
	return item{k, v}
}

type act struct {
	Op   string `json:"op"`
	H    int    `json:"h"`
	H2   int    `json:"h2"`
	K    int    `json:"k"`
	V    int    `json:"v"`
	O    int    `json:"o"`
	Fn   string `json:"fn"`
	P    int    `json:"p"`
	Q    int    `json:"q"`
	Fm   int    `json:"fm"`
	Fr   []int  `json:"fr"`
	N    int    `json:"n"`
	Fl   bool   `json:"fl"`
	Pn   bool   `json:"pn"` // p / q passed as nil (no bound on that side)
	Qn   bool   `json:"qn"`
	Max  bool   `json:"max"`
	Keys []int  `json:"-"` // refill: the keys the generator believes the handle to hold (ascending)
	Api  string `json:"api"`
	Deg  int    `json:"deg"`
}

func (a act) rec() tr.E {
	switch a.Op {
	case "ins", "roi":
		return tr.E{"op": a.Op, "h": a.H, "k": a.K, "v": a.V}
	case "upd", "upsert":
		return tr.E{"op": a.Op, "h": a.H, "o": a.O, "k": a.K, "v": a.V}
	case "del", "idel", "get", "has":
		return tr.E{"op": a.Op, "h": a.H, "k": a.K}
	case "delmin", "delmax", "len", "min", "max":
		return tr.E{"op": a.Op, "h": a.H}
	case "clear":
		return tr.E{"op": a.Op, "h": a.H, "fl": a.Fl}
	case "clone":
		return tr.E{"op": a.Op, "h": a.H, "h2": a.H2}
	case "scan", "pscan":
		fr := a.Fr
		if fr == nil {
			fr = []int{}
		}
		return tr.E{"op": a.Op, "h": a.H, "fn": a.Fn, "p": a.P, "q": a.Q, "pn": a.Pn, "qn": a.Qn, "fm": a.Fm, "fr": fr, "n": a.N}
	case "fill":
		return tr.E{"op": a.Op, "h": a.H, "k": a.K, "n": a.N, "v": a.V}
	case "drain":
		return tr.E{"op": a.Op, "h": a.H, "n": a.N, "max": a.Max}
	case "refill":
		return tr.E{"op": a.Op, "h": a.H, "v": a.V}
	}
	return tr.E{"op": a.Op}
}

func isWrite(op string) bool {
	switch op {
	case "ins", "roi", "upd", "upsert", "del", "idel", "delmin", "delmax", "clear", "clone", "fill", "drain", "refill":
		return true
	}
	return false
}

var wrapScans = []string{"AscendGte", "AscendGt", "DescendLte", "DescendLt"}
var innerScans = []string{"AscendRange", "AscendLessThan", "AscendGreaterOrEqual", "Ascend",
	"DescendRange", "DescendLessOrEqual", "DescendGreaterThan", "Descend", "AscendGreater", "DescendLess"}

func twoPivot(fn string) bool { return fn == "AscendRange" || fn == "DescendRange" }
func noPivot(fn string) bool  { return fn == "Ascend" || fn == "Descend" }

// ------------------------------------------------------------------ system under test

type sut struct {
	api  string
	deg  int
	wrap *tree.BTree
	hs   []*btree.BTree   // handle h is hs[h-1]; for the wrapper hs[0] is the wrapped tree (read only)
	hook func(btree.Item) // called by the scan callbacks for every item visited (compound use)
	kind int              // dynamic kind of the items (see kv)
}

// sharedFree: one free list used by many trees of this process, one after the other and - in the
// parallel-clone phase - at the same time ("Two Btrees using the same freelist are safe for
// concurrent write access").
var sharedFree = btree.NewFreeList(4)
var handedFree = btree.NewFreeList(32)

// newSut: fl selects the node free list of an inner tree: < 0 btree.New (default size), otherwise
// NewWithFreeList with a list of that size (0 = nothing is ever recycled), 1000 = the shared list.
func newSut(api string, deg int, fl int, kind int) *sut {
	s := &sut{api: api, deg: deg, kind: kind}
	switch {
	case api == "wrap":
		s.wrap = tree.NewBTree()
		s.hs = []*btree.BTree{s.wrap.VerifInner()}
	case fl < 0:
		s.hs = []*btree.BTree{btree.New(deg)}
	case fl == 1000:
		s.hs = []*btree.BTree{btree.NewWithFreeList(deg, sharedFree)}
	case fl == 2000: // a list handed from one configuration to the next (edgeRuns)
		s.hs = []*btree.BTree{btree.NewWithFreeList(deg, handedFree)}
	case fl == 3000: // the zero value of the type: no degree, no context; reads and deletes only
		s.hs = []*btree.BTree{new(btree.BTree)}
	default:
		s.hs = []*btree.BTree{btree.NewWithFreeList(deg, btree.NewFreeList(fl))}
	}
	return s
}

// pscan: a scan whose callback panics (the harness's sentinel) after a.N items.  The panic
// unwinds through the library; what the clean code guarantees is that nothing changed and that
// the object stays usable (the wrapper releases its read lock in a defer).  Any other panic is
// the library's and goes on to safeDo.
func (s *sut) pscan(a act) (r interface{}) {
	defer func() {
		if p := recover(); p != nil {
			if _, mine := p.(sentinel); !mine {
				panic(p)
			}
			r = 0
		}
	}()
	if s.api == "wrap" {
		wrapScan(s.wrap, a, s.kind, nil)
	} else {
		innerScan(s.hs[a.H-1], a, s.kind, nil)
	}
	return 0
}

func pair(x btree.Item) []int { it := x.(kv); return []int{it.key(), it.ver()} }

func opt(x btree.Item) tr.E {
	if x == nil {
		return tr.E{"ok": false, "it": []int{0, 0}}
	}
	return tr.E{"ok": true, "it": pair(x)}
}

func passes(k, fm int, fr []int) bool {
	r := ((k % fm) + fm) % fm
	for _, x := range fr {
		if x == r {
			return true
		}
	}
	return false
}

// innerScan calls one of the ten range scans with an iterator that collects what passes the
// filter and asks to stop once n items are collected.  It keeps appending if it is called
// again after having returned false, so a scan that does not stop is visible in the reply.
// pivots of a scan: nil when the action says so
func pivotsOf(a act, kind int) (p, q btree.Item) {
	if !a.Pn {
		p = mkItem(kind, a.P, 0)
	}
	if !a.Qn {
		q = mkItem(kind, a.Q, 0)
	}
	return p, q
}

func innerScan(t *btree.BTree, a act, kind int, hook func(btree.Item)) [][]int {
	out := make([][]int, 0, 8)
	calls := 0
	it := func(x btree.Item) bool {
		calls++
		if a.Op == "pscan" {
			if calls > a.N {
				panic(sentinel{})
			}
			return true
		}
		if hook != nil {
			hook(x)
		}
		if a.N > 0 && passes(x.(kv).key(), a.Fm, a.Fr) {
			out = append(out, pair(x))
		}
		return len(out) < a.N && calls < runaway
	}
	p, q := pivotsOf(a, kind)
	switch a.Fn {
	case "AscendRange":
		t.AscendRange(p, q, it)
	case "AscendLessThan":
		t.AscendLessThan(p, it)
	case "AscendGreaterOrEqual":
		t.AscendGreaterOrEqual(p, it)
	case "Ascend":
		t.Ascend(it)
	case "DescendRange":
		t.DescendRange(p, q, it)
	case "DescendLessOrEqual":
		t.DescendLessOrEqual(p, it)
	case "DescendGreaterThan":
		t.DescendGreaterThan(p, it)
	case "Descend":
		t.Descend(it)
	case "AscendGreater":
		t.AscendGreater(p, it)
	case "DescendLess":
		t.DescendLess(p, it)
	default:
		tr.Fatal("unknown inner scan %q", a.Fn)
	}
	return out
}

// held: the slice a wrapper scan returned, kept AS RETURNED (no copy).  It is rendered into the
// trace by resolve() - at once, or only when the history / round is over (retained results: a
// later call must not change what an earlier call handed out).
type held struct{ ns []tree.Node }

func resolve(rep interface{}) interface{} {
	h, ok := rep.(held)
	if !ok {
		return rep
	}
	out := make([][]int, 0, len(h.ns))
	for _, n := range h.ns {
		it, ok := n.(kv)
		if !ok {
			out = append(out, []int{-999999, -999999}) // a foreign / nil node in a result: visible to the spec
			continue
		}
		out = append(out, []int{it.key(), it.ver()})
	}
	return out
}

// scribble: the caller owns the slice a scan returned.  Once it has been rendered the harness
// overwrites every element and appends into it up to its capacity, like a caller that recycles
// the buffer; the tree and every later result must be unaffected.
func scribble(rep interface{}) {
	h, ok := rep.(held)
	if !ok || h.ns == nil {
		return
	}
	for i := range h.ns {
		h.ns[i] = item{-777777, -777777}
	}
	b := h.ns[:0]
	for len(b) < cap(h.ns) && len(b) < 4096 {
		b = append(b, item{-888888, -888888})
	}
}

// sentinel: the harness's own panic thrown from inside a callback (op "pscan")
type sentinel struct{}

func wrapScan(b *tree.BTree, a act, kind int, hook func(btree.Item)) interface{} {
	calls := 0
	f := func(n tree.Node) bool {
		calls++
		if a.Op == "pscan" && calls > a.N {
			panic(sentinel{})
		}
		if hook != nil {
			hook(n)
		}
		return passes(n.(kv).key(), a.Fm, a.Fr)
	}
	lim := a.N
	if a.Op == "pscan" {
		lim = 1000
	}
	var ns []tree.Node
	p, _ := pivotsOf(a, kind)
	switch a.Fn {
	case "AscendGte":
		ns = b.AscendGte(p, f, lim)
	case "AscendGt":
		ns = b.AscendGt(p, f, lim)
	case "DescendLte":
		ns = b.DescendLte(p, f, lim)
	case "DescendLt":
		ns = b.DescendLt(p, f, lim)
	default:
		tr.Fatal("unknown wrapper scan %q", a.Fn)
	}
	return held{ns}
}

func (s *sut) do(a act) interface{} {
	mk := func(k, v int) btree.Item { return mkItem(s.kind, k, v) }
	if s.api == "wrap" {
		b := s.wrap
		switch a.Op {
		case "ins":
			b.Insert(mk(a.K, a.V))
			return 0
		case "upd":
			return b.Update(mk(a.O, 0), mk(a.K, a.V))
		case "upsert":
			return b.UpdateOrInsert(mk(a.O, 0), mk(a.K, a.V))
		case "del":
			return b.Delete(mk(a.K, 0))
		case "get":
			return opt(b.Get(mk(a.K, 0)))
		case "scan":
			return wrapScan(b, a, s.kind, s.hook)
		case "pscan":
			return s.pscan(a)
		case "nop":
			return 0
		}
		tr.Fatal("wrapper has no op %q", a.Op)
	}
	if a.Op == "nop" {
		return 0
	}
	if a.H < 1 || a.H > len(s.hs) {
		tr.Fatal("handle %d not live", a.H)
	}
	t := s.hs[a.H-1]
	switch a.Op {
	case "roi":
		return opt(t.ReplaceOrInsert(mk(a.K, a.V)))
	case "idel":
		return opt(t.Delete(mk(a.K, 0)))
	case "delmin":
		return opt(t.DeleteMin())
	case "delmax":
		return opt(t.DeleteMax())
	case "get":
		return opt(t.Get(mk(a.K, 0)))
	case "has":
		return t.Has(mk(a.K, 0))
	case "len":
		return t.Len()
	case "min":
		return opt(t.Min())
	case "max":
		return opt(t.Max())
	case "fill": // run-length encoded: ReplaceOrInsert of a.N ascending keys
		rep := 0
		for i := 0; i < a.N; i++ {
			if t.ReplaceOrInsert(mk(a.K+i, a.V+i)) != nil {
				rep++
			}
		}
		return rep
	case "refill": // run-length encoded: a new item under every key the handle is believed to hold
		rep := 0
		for i, k := range a.Keys {
			if t.ReplaceOrInsert(mk(k, a.V+i)) != nil {
				rep++
			}
		}
		return rep
	case "drain": // run-length encoded: a.N times DeleteMin / DeleteMax
		got := 0
		for i := 0; i < a.N; i++ {
			var x btree.Item
			if a.Max {
				x = t.DeleteMax()
			} else {
				x = t.DeleteMin()
			}
			if x != nil {
				got++
			}
		}
		return got
	case "clear":
		t.Clear(a.Fl)
		return 0
	case "clone":
		s.hs = append(s.hs, t.Clone())
		return 0
	case "scan":
		return innerScan(t, a, s.kind, s.hook)
	case "pscan":
		return s.pscan(a)
	}
	tr.Fatal("inner tree has no op %q", a.Op)
	return nil
}

// safeDo converts a panic inside the library into an event the spec cannot explain.
func (s *sut) safeDo(a act) (r interface{}, panicked bool) {
	atomic.AddInt64(&inCall, 1)
	defer func() {
		atomic.AddInt64(&inCall, -1)
		atomic.AddInt64(&progress, 1)
		if p := recover(); p != nil {
			r = fmt.Sprintf("panic: %v", p)
			panicked = true
		}
	}()
	return s.do(a), false
}

// progress / inCall: read by the watchdog (see main): a call into the library that does not come
// back is an observation (`stuck` event), not a hang of the harness.
var progress, inCall int64

// runaway: no tree of this harness holds that many items; an iteration that delivers more is
// going round in circles and is cut (what was collected is logged and rejected).
const runaway = 20000

func contents(t *btree.BTree) [][]int {
	out := make([][]int, 0, 64)
	t.Ascend(func(x btree.Item) bool { out = append(out, pair(x)); return len(out) < runaway })
	return out
}

func conv(n *btree.VerifNode) tr.E {
	if n == nil {
		return tr.E{"items": [][]int{}, "ch": []tr.E{}}
	}
	its := make([][]int, 0, len(n.Items))
	for _, x := range n.Items {
		its = append(its, pair(x))
	}
	ch := make([]tr.E, 0, len(n.Children))
	for _, c := range n.Children {
		ch = append(ch, conv(c))
	}
	return tr.E{"items": its, "ch": ch}
}

func dumpOf(h int, t *btree.BTree) tr.E {
	d, l, root := t.VerifDump()
	return tr.E{"h": h, "deg": d, "len": l, "root": conv(root)}
}

// signature of the inner structure: node arities and separator keys (changes on split, merge,
// steal, root growth/collapse, separator replacement)
func sig(n *btree.VerifNode, sb *strings.Builder) {
	if n == nil {
		return
	}
	if len(n.Children) == 0 {
		fmt.Fprintf(sb, "%d", len(n.Items))
		return
	}
	sb.WriteByte('(')
	for i, c := range n.Children {
		sig(c, sb)
		if i < len(n.Items) {
			fmt.Fprintf(sb, "|%d|", n.Items[i].(kv).key())
		}
	}
	sb.WriteByte(')')
}

func safeShape(t *btree.BTree) (sg string, height int, seps []int, ok bool) {
	defer func() {
		if p := recover(); p != nil {
			ok = false
		}
	}()
	sg, height, seps = shape(t)
	return sg, height, seps, true
}

func shape(t *btree.BTree) (string, int, []int) {
	_, _, root := t.VerifDump()
	var sb strings.Builder
	sig(root, &sb)
	height := 0
	var seps []int
	var walk func(n *btree.VerifNode, d int)
	walk = func(n *btree.VerifNode, d int) {
		if n == nil {
			return
		}
		if d > height {
			height = d
		}
		if len(n.Children) > 0 {
			for _, x := range n.Items {
				seps = append(seps, x.(kv).key())
			}
		}
		for _, c := range n.Children {
			walk(c, d+1)
		}
	}
	walk(root, 1)
	return sb.String(), height, seps
}

// obs: contents + Len of the listed handles (all live ones when full), dumps of the listed ones
func (s *sut) obs(full bool, hs []int, dumps []int) tr.E {
	if full {
		hs = hs[:0]
		for h := 1; h <= len(s.hs); h++ {
			hs = append(hs, h)
		}
	}
	all := make([]tr.E, 0, len(hs))
	for _, h := range hs {
		t := s.hs[h-1]
		all = append(all, tr.E{"h": h, "items": contents(t), "len": t.Len()})
	}
	ds := make([]tr.E, 0, len(dumps))
	for _, h := range dumps {
		ds = append(ds, dumpOf(h, s.hs[h-1]))
	}
	return tr.E{"full": full, "all": all, "dumps": ds}
}

// ------------------------------------------------------------------ statistics (evidence only)

type stats struct {
	Events, Writes, Scans, Sweeps, Changes, MaxHeight, MaxKeys, Clones, Panics, RaceRounds, RaceKept, Compound, Cold, Stuck, Retained, CloneShapes, Drains, Duels, ReplaceSweeps, Scribbles, Gates, ShapeStates, ShapeClasses, ShapeTraces int
	Heights                                                                                                                                                                                                                                map[int]int
	Degrees                                                                                                                                                                                                                                map[int]int
}

var st = stats{Heights: map[int]int{}, Degrees: map[int]int{}}

// ------------------------------------------------------------------ sequential runner

type runner struct {
	w       *tr.W
	s       *sut
	rng     *rand.Rand
	lo, hi  int // key domain (pivots are drawn from lo-1..hi+1)
	ver     int
	sweep   int            // probability (percent) of a scan sweep when the node structure changed
	dumpK   int            // dump / full contents every dumpK-th write (1 = every write)
	nw      int            // writes so far
	last    map[int]string // structure signature per handle after its latest write
	dead    bool
	done    act // the action as executed (version / new handle filled in)
	cur     act // the action being executed (for the watchdog's stuck event)
	retain  bool
	buf     []pending
	dumpOwn bool
	// sh: the generator's own idea of which keys each handle holds, computed from the calls it
	// issued (never from the tree's answers); used only to bias key choice towards present keys.
	sh []map[int]bool
}

func (r *runner) shadow(a act) {
	for len(r.sh) < 1 {
		r.sh = append(r.sh, map[int]bool{})
	}
	if a.Op == "clone" {
		c := map[int]bool{}
		for k := range r.sh[a.H-1] {
			c[k] = true
		}
		r.sh = append(r.sh, c)
		return
	}
	if a.H < 1 || a.H > len(r.sh) {
		return
	}
	m := r.sh[a.H-1]
	ext := func(max bool) (int, bool) {
		best, ok := 0, false
		for k := range m {
			if !ok || (max && k > best) || (!max && k < best) {
				best, ok = k, true
			}
		}
		return best, ok
	}
	switch a.Op {
	case "fill":
		for i := 0; i < a.N; i++ {
			m[a.K+i] = true
		}
	case "drain":
		ks := make([]int, 0, len(m))
		for k := range m {
			ks = append(ks, k)
		}
		sort.Ints(ks)
		for i := 0; i < a.N && i < len(ks); i++ {
			if a.Max {
				delete(m, ks[len(ks)-1-i])
			} else {
				delete(m, ks[i])
			}
		}
	case "ins", "roi":
		m[a.K] = true
	case "upd":
		if m[a.O] {
			delete(m, a.O)
			m[a.K] = true
		}
	case "upsert":
		delete(m, a.O)
		m[a.K] = true
	case "del", "idel":
		delete(m, a.K)
	case "delmin":
		if k, ok := ext(false); ok {
			delete(m, k)
		}
	case "delmax":
		if k, ok := ext(true); ok {
			delete(m, k)
		}
	case "clear":
		r.sh[a.H-1] = map[int]bool{}
	}
}

// out: every event of the runner goes through here.  With retain the events of the whole trace
// are kept in memory and written when it is over, so that aggregates returned by calls (wrapper
// scan results) are rendered only then - as a caller that keeps its results would see them.
// Without retain an event is written (and flushed) at once, which keeps crash evidence.
type pending struct {
	e   tr.E
	rep interface{}
}

func (r *runner) out(e tr.E, rep interface{}) {
	if r.retain {
		r.buf = append(r.buf, pending{e, rep})
		return
	}
	if rep != nil {
		e["r"] = resolve(rep)
	}
	r.w.Emit(e)
}

func (r *runner) flush() {
	for _, p := range r.buf {
		if p.rep != nil {
			p.e["r"] = resolve(p.rep)
		}
		r.w.Emit(p.e)
	}
	r.buf = nil
}

// die: the trace ends with an event the spec has no arm for (panic / stuck)
func (r *runner) die(kind string, a act, msg string) {
	st.Panics++
	r.flush()
	r.w.Emit(tr.E{"ev": kind, "a": a.rec(), "msg": tr.Str(msg)})
	r.dead = true // the tree may be in any state; the trace ends here (and is rejected)
}

// safeObs: reading the tree for the observation runs library code too (Ascend, the dump hook):
// a panic there is an observation about the tree, not a crash of the harness.
func (r *runner) safeObs(full bool, hs []int, dumps []int) (o tr.E, msg string) {
	atomic.AddInt64(&inCall, 1)
	defer func() {
		atomic.AddInt64(&inCall, -1)
		atomic.AddInt64(&progress, 1)
		if p := recover(); p != nil {
			msg = fmt.Sprintf("panic while observing: %v", p)
		}
	}()
	return r.s.obs(full, hs, dumps), ""
}

func (r *runner) emitCall(a act, withObs bool) {
	if r.dead {
		return
	}
	if a.Op == "ins" || a.Op == "roi" || a.Op == "upd" || a.Op == "upsert" {
		r.ver++
		a.V = r.ver
	}
	if a.Op == "fill" {
		a.V = r.ver + 1
		r.ver += a.N
	}
	if a.Op == "refill" {
		a.Keys = a.Keys[:0]
		if a.H >= 1 && a.H <= len(r.sh) {
			for k := range r.sh[a.H-1] {
				a.Keys = append(a.Keys, k)
			}
		}
		sort.Ints(a.Keys)
		a.V = r.ver + 1
		r.ver += len(a.Keys)
	}
	if a.Op == "clone" {
		a.H2 = len(r.s.hs) + 1
		st.Clones++
	}
	r.cur = a
	rep, panicked := r.s.safeDo(a)
	r.done = a
	if r.dead { // a nested call (compound use) already ended the trace
		return
	}
	if panicked {
		r.die("panic", a, rep.(string))
		return
	}
	if a.Op == "scan" {
		st.Scans++
	}
	if !withObs {
		r.out(tr.E{"ev": "callr", "a": a.rec()}, rep)
		if _, isHeld := rep.(held); isHeld && !r.retain {
			scribble(rep) // rendered above: now the buffer is the caller's to reuse
			st.Scribbles++
			if r.rng.Intn(3) == 0 { // the same call again must give the same answer
				rep2, p2 := r.s.safeDo(a)
				if p2 {
					r.die("panic", a, rep2.(string))
					return
				}
				r.out(tr.E{"ev": "callr", "a": a.rec()}, rep2)
				scribble(rep2)
			}
		}
		return
	}
	r.nw++
	st.Writes++
	full := r.dumpK <= 1 || r.nw%r.dumpK == 0
	var dumps []int
	if full {
		for h := 1; h <= len(r.s.hs); h++ {
			dumps = append(dumps, h)
		}
	}
	hs := []int{}
	if a.Op != "nop" && a.H >= 1 {
		hs = append(hs, a.H)
	}
	if a.Op == "clone" {
		hs = append(hs, a.H2)
	}
	if r.dumpOwn {
		// the structure of what was written (each clone was dumped after its own write; a closing
		// observation dumps the original only: many dumps in one event are slow to validate)
		dumps = hs
		if len(hs) == 0 {
			dumps = []int{1}
		}
	}
	o, msg := r.safeObs(full, hs, dumps)
	if msg != "" {
		r.out(tr.E{"ev": "callr", "a": a.rec()}, rep)
		r.die("panic", act{Op: "nop"}, msg)
		return
	}
	r.out(tr.E{"ev": "call", "a": a.rec(), "obs": o}, rep)
}

func (r *runner) step(a act) {
	if r.dead {
		return
	}
	if !isWrite(a.Op) {
		r.emitCall(a, false)
		return
	}
	r.emitCall(a, true)
	if r.dead {
		return
	}
	a = r.done
	r.shadow(a)
	h := a.H
	if a.Op == "clone" {
		h = a.H2
	}
	t := r.s.hs[h-1]
	sg, height, _, ok := safeShape(t)
	if !ok {
		return // the dump of this tree panics; the observation of the next write will say so
	}
	st.Heights[height]++
	if height > st.MaxHeight {
		st.MaxHeight = height
	}
	if t.Len() > st.MaxKeys {
		st.MaxKeys = t.Len()
	}
	if sg != r.last[h] { // the node structure changed (split, merge, steal, root growth / collapse, new separator)
		r.last[h] = sg
		st.Changes++
		if r.rng.Intn(100) < r.sweep {
			r.doSweep(h)
		}
	}
}

var filterMenu = []struct {
	fm int
	fr []int
}{{1, []int{0}}, {1, []int{0}}, {2, []int{0}}, {2, []int{1}}, {3, []int{0, 2}}, {3, []int{1}}, {1, []int{}}, {5, []int{1, 2, 3}}}

func (r *runner) randFilterN(a *act) {
	f := filterMenu[r.rng.Intn(len(filterMenu))]
	a.Fm, a.Fr = f.fm, f.fr
	switch r.rng.Intn(6) {
	case 0:
		a.N = 0
	case 1:
		a.N = 1
	case 2:
		a.N = 2 + r.rng.Intn(3)
	default:
		a.N = 1000 // more than any tree here: the unbounded scan
	}
}

// pivots worth scanning from: every key and gap of a small domain; for a large one the
// boundaries, every separator key of an inner node with its neighbours, and a random sample
func (r *runner) pivots(h int) []int {
	set := map[int]bool{r.lo - 1: true, r.hi + 1: true, r.lo: true, r.hi: true}
	if r.hi-r.lo <= 16 {
		for p := r.lo - 1; p <= r.hi+1; p++ {
			set[p] = true
		}
	} else {
		_, _, seps, _ := safeShape(r.s.hs[h-1])
		if len(seps) > 6 {
			r.rng.Shuffle(len(seps), func(i, j int) { seps[i], seps[j] = seps[j], seps[i] })
			seps = seps[:6]
		}
		for _, k := range seps {
			set[k-1], set[k], set[k+1] = true, true, true
		}
		for i := 0; i < 5; i++ {
			set[r.lo+r.rng.Intn(r.hi-r.lo+1)] = true
		}
	}
	if r.rng.Intn(3) == 0 { // far beyond every key, both sides
		set[-(1<<30)], set[1<<30] = true, true
	}
	out := make([]int, 0, len(set))
	for p := range set {
		out = append(out, p)
	}
	sort.Ints(out)
	return out
}

// doSweep: the exclusive scans added by neptune and their inclusive counterparts from EVERY
// chosen pivot; the other upstream entry points from a random quarter of them (all of them from
// the boundary pivots); filter and limit drawn per scan.
func (r *runner) doSweep(h int) {
	st.Sweeps++
	ps := r.pivots(h)
	scan := func(fn string, p, q int) {
		a := act{Op: "scan", H: h, Fn: fn, P: p, Q: q}
		r.randFilterN(&a)
		r.emitCall(a, false)
	}
	nilscan := func(fn string, pn, qn bool, q int) { // a nil pivot = no bound on that side
		a := act{Op: "scan", H: h, Fn: fn, Pn: pn, Qn: qn, Q: q}
		r.randFilterN(&a)
		r.emitCall(a, false)
	}
	if r.s.api == "wrap" {
		for _, fn := range wrapScans {
			for _, p := range ps {
				scan(fn, p, 0)
			}
			if r.rng.Intn(3) == 0 {
				nilscan(fn, true, false, 0)
			}
		}
		return
	}
	if r.rng.Intn(3) == 0 { // the nil-pivot block in one sweep out of three
		for _, fn := range innerScans {
			if !noPivot(fn) {
				nilscan(fn, true, false, 0)
			}
		}
		mid := ps[len(ps)/2]
		for _, fn := range []string{"AscendRange", "DescendRange"} {
			nilscan(fn, true, false, mid)
			nilscan(fn, true, true, 0)
			a := act{Op: "scan", H: h, Fn: fn, P: mid, Qn: true}
			r.randFilterN(&a)
			r.emitCall(a, false)
			scan(fn, mid, mid) // the same pivot twice: the empty range
		}
	}
	for _, fn := range []string{"AscendGreater", "DescendLess", "AscendGreaterOrEqual", "DescendLessOrEqual"} {
		for _, p := range ps {
			scan(fn, p, 0)
		}
	}
	scan("Ascend", 0, 0)
	scan("Descend", 0, 0)
	for i, p := range ps {
		edge := i == 0 || i == len(ps)-1
		for _, fn := range []string{"AscendLessThan", "DescendGreaterThan"} {
			if edge || r.rng.Intn(4) == 0 {
				scan(fn, p, 0)
			}
		}
		for _, fn := range []string{"AscendRange", "DescendRange"} {
			if edge || r.rng.Intn(4) == 0 {
				scan(fn, p, ps[r.rng.Intn(len(ps))])
			}
		}
	}
}

func (r *runner) finish() {
	if r.dead {
		curRunner = nil
		return
	}
	for h := 1; h <= len(r.s.hs); h++ {
		r.doSweep(h)
	}
	// closing observation of everything (full, with dumps)
	k := r.dumpK
	r.dumpK = 1
	r.emitCall(act{Op: "nop"}, true)
	r.dumpK = k
	r.flush()
	curRunner = nil
}

// curRunner: the sequential runner at work (the watchdog ends its trace with a stuck event)
var curRunner *runner

type cfg struct {
	api, src                            string
	deg, fl, lo, hi, sweep, dumpK, kind int
	retain                              bool
}

func newRunner(w *tr.W, rng *rand.Rand, c cfg) *runner {
	w.Emit(tr.E{"ev": "reset", "api": c.api, "deg": c.deg, "threads": 1, "src": c.src, "lo": c.lo, "hi": c.hi,
		"freelist": c.fl, "retain": c.retain, "kind": kindNames[c.kind]})
	st.Degrees[c.deg]++
	r := &runner{w: w, s: newSut(c.api, c.deg, c.fl, c.kind), rng: rng, lo: c.lo, hi: c.hi, sweep: c.sweep, dumpK: c.dumpK,
		last: map[int]string{}, retain: c.retain}
	curRunner = r
	return r
}

// ------------------------------------------------------------------ life cycle, compound use, callback panics

// coldPrologue: everything the API permits on a tree that never held an item (no root yet), in
// the order a caller may well use: readers, deletes, scans, a panicking callback, Clone and
// Clear of the empty tree, Clear twice, then first writes into the clone and the original.
func (r *runner) coldPrologue() {
	if r.s.api == "wrap" {
		r.step(act{Op: "get", H: 1, K: r.lo})
		r.step(act{Op: "del", H: 1, K: r.lo})
		r.step(act{Op: "upd", H: 1, O: r.lo, K: r.lo + 1})
		for _, fn := range wrapScans {
			r.step(act{Op: "scan", H: 1, Fn: fn, P: r.lo, Fm: 1, Fr: []int{0}, N: []int{0, 1, 1000}[r.rng.Intn(3)]})
		}
		r.step(act{Op: "pscan", H: 1, Fn: wrapScans[r.rng.Intn(4)], P: r.lo, Fm: 1, Fr: []int{0}, N: 0})
		r.step(act{Op: "upsert", H: 1, O: r.lo, K: r.lo + 1})
		r.step(act{Op: "del", H: 1, K: r.lo + 1})
		r.step(act{Op: "get", H: 1, K: r.lo + 1})
		return
	}
	for _, op := range []string{"len", "min", "max", "get", "has", "delmin", "delmax", "idel"} {
		r.step(act{Op: op, H: 1, K: r.lo})
	}
	for _, fn := range innerScans {
		r.step(act{Op: "scan", H: 1, Fn: fn, P: r.lo, Q: r.hi, Fm: 1, Fr: []int{0}, N: []int{0, 1, 1000}[r.rng.Intn(3)]})
	}
	r.step(act{Op: "pscan", H: 1, Fn: "Ascend", Fm: 1, Fr: []int{0}, N: 0})
	r.step(act{Op: "clear", H: 1, Fl: true})
	r.step(act{Op: "clone", H: 1})
	r.step(act{Op: "clear", H: 2, Fl: r.rng.Intn(2) == 0})
	r.step(act{Op: "clear", H: 2, Fl: true})
	r.step(act{Op: "roi", H: 2, K: r.lo})
	r.step(act{Op: "len", H: 1})
	r.step(act{Op: "roi", H: 1, K: r.lo + 1})
	r.step(act{Op: "idel", H: 2, K: r.lo})
	r.step(act{Op: "delmin", H: 2})
	r.step(act{Op: "clear", H: 1, Fl: false})
	r.step(act{Op: "min", H: 1})
}

// compound: ONE caller using the object from inside its own scan callback, as far as the clean
// code guarantees it: (mode 0) point reads and a nested scan of the SAME tree for the first items
// visited - on the wrapper this re-enters the read lock, which is safe while no writer waits, i.e.
// in a single goroutine; (mode 1, inner tree) writes to ANOTHER handle (a clone sharing nodes with
// the tree being iterated): copy-on-write promises the running iteration does not notice.  Nested
// calls are ordinary recorded calls (they precede the outer call in the log: reads change nothing,
// and a write to another handle commutes with the scan in the model).
func (r *runner) compound(a act, mode int, other int) {
	n := 0
	r.s.hook = func(x btree.Item) {
		n++
		xi, ok := x.(kv)
		if n > 3 || !ok || r.dead {
			return
		}
		it := item{xi.key(), xi.ver()}
		hk := r.s.hook
		r.s.hook = nil
		defer func() { r.s.hook = hk }()
		switch {
		case mode == 1 && other >= 1:
			if n%2 == 1 {
				r.emitCall(act{Op: "roi", H: other, K: it.k}, true)
			} else {
				r.emitCall(act{Op: "idel", H: other, K: it.k}, true)
			}
			if !r.dead {
				r.shadow(r.done)
			}
		case r.s.api == "wrap":
			r.emitCall(act{Op: "get", H: 1, K: it.k}, false)
			r.emitCall(act{Op: "scan", H: 1, Fn: wrapScans[n%4], P: it.k, Fm: 1, Fr: []int{0}, N: 2}, false)
		default:
			r.emitCall(act{Op: []string{"get", "has", "min", "max", "len"}[n%5], H: a.H, K: it.k}, false)
			r.emitCall(act{Op: "scan", H: a.H, Fn: []string{"AscendGreater", "DescendLess", "AscendGreaterOrEqual"}[n%3],
				P: it.k, Fm: 1, Fr: []int{0}, N: 2}, false)
		}
	}
	r.emitCall(a, false)
	r.s.hook = nil
	st.Compound++
}

// ------------------------------------------------------------------ plans

func readPlan(path string) []act {
	f, err := os.Open(path)
	if err != nil {
		tr.Fatal("%v", err)
	}
	defer f.Close()
	var out []act
	sc := bufio.NewScanner(f)
	sc.Buffer(make([]byte, 1<<20), 1<<20)
	for sc.Scan() {
		var a act
		if err := json.Unmarshal(sc.Bytes(), &a); err != nil {
			tr.Fatal("plan %s: %v", path, err)
		}
		out = append(out, a)
	}
	return out
}

// ------------------------------------------------------------------ seeded histories

// randHistory: grow / churn / shrink phases with ascending, descending and random key orders so
// that splits at every level, steals from both siblings, merges and root collapse occur.
func randHistory(w *tr.W, rng *rand.Rand, idx, maxops, sweep int) {
	api := "inner"
	deg := []int{2, 2, 3, 4, 8, 5, 16, 2, 3}[rng.Intn(9)]
	fl := []int{-1, -1, 0, 1, 2, 1000, 1000}[rng.Intn(7)] // node free list: default, none, tiny, shared
	if idx%3 == 0 {
		api, deg, fl = "wrap", 2, -1
	}
	var nkeys int
	switch rng.Intn(5) {
	case 0:
		nkeys = 6 + rng.Intn(6)
	case 1, 2:
		nkeys = 14 + rng.Intn(20)
	default:
		nkeys = 30 + rng.Intn(31) // <= 60
	}
	dumpK := 1
	if idx%11 == 10 { // a large one: keys 0..200, observations every 6th write, also wide nodes
		nkeys, dumpK = 201, 6
		if api == "inner" {
			deg = []int{2, 3, 8, 9, 15, 16, 17, 32, 33, 64}[rng.Intn(10)]
		}
	}
	lo := rng.Intn(3) // domain lo..lo+nkeys-1, pivots from lo-1 (may be -1: below every key)
	hi := lo + nkeys - 1
	retain := idx%2 == 1 // half of the histories keep what calls returned until the history is over
	if retain {
		st.Retained++
	}
	r := newRunner(w, rng, cfg{api: api, src: "rand", deg: deg, fl: fl, lo: lo, hi: hi, sweep: sweep, dumpK: dumpK, retain: retain, kind: rng.Intn(3)})
	if idx%4 == 1 {
		st.Cold++
		r.coldPrologue()
	}
	far := idx%8 == 5 // keys at the far ends of the integer range TLC can hold
	nops := maxops/2 + rng.Intn(maxops/2+1)
	if dumpK > 1 {
		nops = maxops * 2
	}
	key := func() int {
		if far && rng.Intn(30) == 0 {
			return []int{-(1 << 30), 1 << 30, -(1 << 30) + 1, (1 << 30) - 1}[rng.Intn(4)]
		}
		return lo + rng.Intn(nkeys)
	}
	present := func(h int) (int, bool) { // a key the generator believes to be in handle h
		if h > len(r.sh) || len(r.sh[h-1]) == 0 {
			return 0, false
		}
		ks := make([]int, 0, len(r.sh[h-1]))
		for k := range r.sh[h-1] {
			ks = append(ks, k)
		}
		sort.Ints(ks)
		return ks[rng.Intn(len(ks))], true
	}
	believed := func(h int) int {
		if h > len(r.sh) {
			return 0
		}
		return len(r.sh[h-1])
	}
	handle := func() int { return 1 + rng.Intn(len(r.s.hs)) }
	mode := rng.Intn(4) // 0 random, 1 ascending run, 2 descending run, 3 random
	cursor := lo
	if mode == 2 {
		cursor = hi
	}
	drainAt := -1
	if api == "inner" && idx%3 != 1 {
		drainAt = nops/3 + rng.Intn(nops/2+1)
	}
	for i := 0; i < nops && !r.dead; i++ {
		if i == drainAt {
			// empty one handle completely by deletes (from the generator's own bookkeeping of what it
			// holds), clone it, and let the ORIGINAL write first, then the clone
			h := handle()
			st.Drains++
			how := rng.Intn(4)
			for guard := 0; believed(h) > 0 && guard < 400 && !r.dead; guard++ {
				switch how {
				case 0:
					r.step(act{Op: "delmin", H: h})
				case 1:
					r.step(act{Op: "delmax", H: h})
				default:
					pk, _ := present(h)
					r.step(act{Op: "idel", H: h, K: pk})
				}
			}
			if len(r.s.hs) < 5 && !r.dead {
				r.step(act{Op: "clone", H: h})
				c := len(r.s.hs)
				x, y := h, c
				if rng.Intn(4) == 0 {
					x, y = c, h
				}
				r.step(act{Op: "roi", H: x, K: key()})
				r.step(act{Op: "len", H: y})
				r.step(act{Op: "roi", H: y, K: key()})
				r.step(act{Op: "roi", H: x, K: key()})
			}
		}
		if (i == nops/3 || i == (2*nops)/3) && idx%2 == 0 && !r.dead {
			// replace sweep: store a new item under EVERY key the handle holds (up to 64), in ascending
			// or descending order: a replace walks every root-to-leaf path, whatever is full on it
			h := handle()
			if api == "wrap" {
				h = 1
			}
			if h <= len(r.sh) {
				ks := make([]int, 0, len(r.sh[h-1]))
				for k := range r.sh[h-1] {
					ks = append(ks, k)
				}
				sort.Ints(ks)
				if rng.Intn(2) == 0 {
					for a, b := 0, len(ks)-1; a < b; a, b = a+1, b-1 {
						ks[a], ks[b] = ks[b], ks[a]
					}
				}
				if len(ks) > 64 {
					ks = ks[:64]
				}
				st.ReplaceSweeps++
				for _, k := range ks {
					if api == "wrap" {
						r.step(act{Op: "ins", H: 1, K: k})
					} else {
						r.step(act{Op: "roi", H: h, K: k})
					}
				}
			}
		}
		phase := (i * 3) / nops // 0 grow, 1 churn, 2 shrink
		pIns := []int{70, 45, 20}[phase]
		h := handle()
		x := rng.Intn(100)
		k := key()
		if x < pIns && mode != 0 && mode != 3 && rng.Intn(4) > 0 {
			k = cursor
			if mode == 1 {
				cursor++
				if cursor > hi {
					cursor = lo
				}
			} else {
				cursor--
				if cursor < lo {
					cursor = hi
				}
			}
		}
		if api == "wrap" {
			switch {
			case x < pIns:
				switch rng.Intn(6) {
				case 0:
					o := key()
					if pk, ok := present(1); ok && rng.Intn(3) > 0 {
						o = pk
					}
					r.step(act{Op: "upd", H: 1, O: o, K: k})
				case 1:
					o := key()
					if pk, ok := present(1); ok && rng.Intn(2) > 0 {
						o = pk
					}
					r.step(act{Op: "upsert", H: 1, O: o, K: k})
				default:
					r.step(act{Op: "ins", H: 1, K: k})
				}
			case x < 88:
				if pk, ok := present(1); ok && rng.Intn(5) > 0 {
					k = pk
				}
				r.step(act{Op: "del", H: 1, K: k})
			case x < 93:
				r.step(act{Op: "get", H: 1, K: k})
			default:
				a := act{Op: "scan", H: 1, Fn: wrapScans[rng.Intn(4)], P: lo - 1 + rng.Intn(nkeys+2)}
				r.randFilterN(&a)
				a.Pn = rng.Intn(10) == 0
				switch rng.Intn(5) {
				case 0:
					r.compound(a, 0, 0)
				case 1:
					a.Op, a.N = "pscan", rng.Intn(4)
					r.step(a)
				default:
					r.step(a)
				}
			}
			continue
		}
		switch {
		case x < pIns:
			r.step(act{Op: "roi", H: h, K: k})
		case x < 84:
			if pk, ok := present(h); ok && rng.Intn(5) > 0 {
				k = pk
			}
			switch rng.Intn(8) {
			case 0:
				r.step(act{Op: "delmin", H: h})
			case 1:
				r.step(act{Op: "delmax", H: h})
			default:
				r.step(act{Op: "idel", H: h, K: k})
			}
		case x < 87:
			if len(r.s.hs) < 4 && believed(h) > 2 {
				r.step(act{Op: "clone", H: h})
			} else {
				r.step(act{Op: "len", H: h})
			}
		case x < 88:
			if rng.Intn(4) == 0 {
				r.step(act{Op: "clear", H: h, Fl: rng.Intn(2) == 0})
			} else {
				r.step(act{Op: "min", H: h})
			}
		case x < 94:
			op := []string{"get", "has", "len", "min", "max"}[rng.Intn(5)]
			r.step(act{Op: op, H: h, K: k})
		default:
			fn := innerScans[rng.Intn(len(innerScans))]
			a := act{Op: "scan", H: h, Fn: fn}
			if !noPivot(fn) {
				a.P = lo - 1 + rng.Intn(nkeys+2)
			}
			if twoPivot(fn) {
				a.Q = lo - 1 + rng.Intn(nkeys+2)
				a.Qn = rng.Intn(10) == 0
			}
			if !noPivot(fn) {
				a.Pn = rng.Intn(10) == 0
			}
			r.randFilterN(&a)
			switch rng.Intn(6) {
			case 0:
				r.compound(a, 0, 0)
			case 1:
				other := 1 + rng.Intn(len(r.s.hs))
				if other != h {
					r.compound(a, 1, other)
				} else {
					r.step(a)
				}
			case 2:
				a.Op, a.N = "pscan", rng.Intn(4)
				r.step(a)
			default:
				r.step(a)
			}
		}
	}
	r.finish()
}

// ------------------------------------------------------------------ clone in every shape class

// cloneShapes enumerates: a tree brought into one SHAPE CLASS (never used; emptied by Delete /
// DeleteMin / DeleteMax / Clear; one item; root exactly full; just split; just borrowed from a
// sibling; just merged + root collapsed), then Clone (optionally a second clone), then the FIRST
// write on the original or on the clone (a new key, a replace, a delete), then reads and a write
// on the other side, then again on the first.  The shapes are reached by fixed call sequences
// (ascending inserts 1..2d split a root of degree d; deleting 1 then borrows, deleting 2 merges),
// nothing is read from the tree to get there.  Every write is followed by the contents of ALL
// handles, so a write that shows up in the wrong handle is inexplicable at once.
var shapeClasses = []string{"fresh", "drain-del", "drain-min", "drain-max", "cleared", "cleared-free", "one",
	"full-root", "split", "borrowed", "merged", "drain-del-big"}

func cloneShapes(w *tr.W, rng *rand.Rand, only int) int {
	n := 0
	for _, deg := range []int{2, 3, 4} {
		for ci, class := range shapeClasses {
			for first := 0; first < 2; first++ { // who writes first: 0 the original, 1 the clone
				for kind := 0; kind < 3; kind++ { // 0 new key, 1 a key both hold (replace), 2 delete
					n++
					if only > 0 && n%only != 0 {
						continue
					}
					r := newRunner(w, rng, cfg{api: "inner", src: "cloneshape:" + class, deg: deg, kind: n % 3,
						fl: []int{-1, 0, 1000}[(ci+first+kind)%3], lo: 1, hi: 2*deg + 3, dumpK: 1, retain: n%2 == 0})
					full := 2*deg - 1
					ins := func(lo, hi int) {
						for k := lo; k <= hi; k++ {
							r.step(act{Op: "roi", H: 1, K: k})
						}
					}
					switch class {
					case "fresh":
					case "drain-del":
						ins(1, 2)
						r.step(act{Op: "idel", H: 1, K: 2})
						r.step(act{Op: "idel", H: 1, K: 1})
					case "drain-del-big": // through a split, a borrow, a merge and a root collapse down to nothing
						ins(1, 2*deg)
						for k := 1; k <= 2*deg; k++ {
							r.step(act{Op: "idel", H: 1, K: k})
						}
					case "drain-min":
						ins(1, 3)
						for i := 0; i < 3; i++ {
							r.step(act{Op: "delmin", H: 1})
						}
					case "drain-max":
						ins(1, 3)
						for i := 0; i < 3; i++ {
							r.step(act{Op: "delmax", H: 1})
						}
					case "cleared", "cleared-free":
						ins(1, 2*deg)
						r.step(act{Op: "clear", H: 1, Fl: class == "cleared-free"})
					case "one":
						ins(1, 1)
					case "full-root":
						ins(1, full)
					case "split":
						ins(1, full+1)
					case "borrowed":
						ins(1, full+1)
						r.step(act{Op: "idel", H: 1, K: 1})
					case "merged":
						ins(1, full+1)
						r.step(act{Op: "idel", H: 1, K: 1})
						r.step(act{Op: "idel", H: 1, K: 2})
					}
					r.step(act{Op: "clone", H: 1})
					a, b := 1, 2
					if first == 1 {
						a, b = 2, 1
					}
					if (ci+kind)%2 == 1 { // a second clone of the original before anybody writes
						r.step(act{Op: "clone", H: 1})
					}
					wr := func(h, k int) {
						switch kind {
						case 0:
							r.step(act{Op: "roi", H: h, K: 2*deg + 2 + k})
						case 1:
							r.step(act{Op: "roi", H: h, K: deg + k}) // present in the non-empty classes
						default:
							r.step(act{Op: "idel", H: h, K: deg + k})
							r.step(act{Op: "roi", H: h, K: deg + k})
						}
					}
					wr(a, 0)
					r.step(act{Op: "len", H: b})
					r.step(act{Op: "get", H: b, K: 2*deg + 2})
					r.step(act{Op: "scan", H: b, Fn: "Ascend", Fm: 1, Fr: []int{0}, N: 1000})
					r.step(act{Op: "min", H: b})
					wr(b, 1)
					r.step(act{Op: "len", H: a})
					r.step(act{Op: "scan", H: a, Fn: "Descend", Fm: 1, Fr: []int{0}, N: 1000})
					wr(a, 1)
					r.step(act{Op: "delmin", H: b})
					r.step(act{Op: "delmax", H: a})
					// closing observation only (the sweeps of finish() are not the point here)
					r.emitCall(act{Op: "nop"}, true)
					r.flush()
					curRunner = nil
					st.CloneShapes++
				}
			}
		}
	}
	return n
}

// ------------------------------------------------------------------ sizes, long runs, reuse, zero value

// edgeRuns: (a) the zero value of btree.BTree: everything that does not need a degree or a context;
// (b) node sizes around the constants of the code (the 16-entry clearing blocks of truncate, the
// 32-entry default free list): degrees 8, 9, 15, 16, 17, 32, 33 filled until nodes split, drained,
// cleared into free lists of 31 / 32 / 33 / 0 entries and refilled; a tree of ~100 nodes cleared
// into its free list and rebuilt; (c) one free list handed through trees of degree 2 -> 8 -> 2;
// (d) runs of 255 / 256 / 257 (and 65535 / 65536 / 65537) items around counter widths, logged as
// run-length encoded fill / drain events.
func edgeRuns(w *tr.W, rng *rand.Rand, long bool) {
	reads := func(r *runner, lo, hi int) {
		for _, op := range []string{"len", "min", "max"} {
			r.step(act{Op: op, H: 1})
		}
		for _, k := range []int{lo - 1, lo, lo + 1, (lo + hi) / 2, hi - 1, hi, hi + 1} {
			r.step(act{Op: "get", H: 1, K: k})
		}
		for _, fn := range []string{"AscendGreater", "DescendLess", "AscendGreaterOrEqual", "DescendLessOrEqual"} {
			for _, p := range []int{lo - 1, lo, (lo + hi) / 2, hi, hi + 1} {
				r.step(act{Op: "scan", H: 1, Fn: fn, P: p, Fm: 1, Fr: []int{0}, N: 3})
			}
		}
		r.step(act{Op: "scan", H: 1, Fn: "AscendRange", P: hi - 2, Qn: true, Fm: 1, Fr: []int{0}, N: 1000})
		r.step(act{Op: "scan", H: 1, Fn: "DescendRange", P: lo + 2, Qn: true, Fm: 1, Fr: []int{0}, N: 1000})
	}
	end := func(r *runner) {
		if !r.dead {
			r.emitCall(act{Op: "nop"}, true)
		}
		r.flush()
		curRunner = nil
	}
	// (a) zero value: replies only (its dump has no degree)
	{
		r := newRunner(w, rng, cfg{api: "inner", src: "zero-value", deg: 2, fl: 3000, lo: 1, hi: 3, dumpK: 1, kind: rng.Intn(3)})
		for rep := 0; rep < 2; rep++ {
			for _, op := range []string{"len", "min", "max", "get", "has", "delmin", "delmax", "idel"} {
				r.emitCall(act{Op: op, H: 1, K: 2}, false)
			}
			for _, fn := range innerScans {
				r.emitCall(act{Op: "scan", H: 1, Fn: fn, P: 1, Q: 3, Pn: rep == 1, Fm: 1, Fr: []int{0}, N: 1000}, false)
			}
			r.emitCall(act{Op: "pscan", H: 1, Fn: "Descend", Fm: 1, Fr: []int{0}, N: 0}, false)
			r.emitCall(act{Op: "clear", H: 1, Fl: rep == 1}, false)
		}
		r.flush()
		curRunner = nil
	}
	// (b) block sizes
	for i, deg := range []int{8, 9, 15, 16, 17, 32, 33} {
		fl := []int{31, 32, 33, 0, -1, 1000, 32}[i]
		n := 5 * deg
		r := newRunner(w, rng, cfg{api: "inner", src: "blocks", deg: deg, fl: fl, lo: 1, hi: n, dumpK: 1, kind: i % 3})
		r.step(act{Op: "fill", H: 1, K: 1, N: 2*deg - 1}) // the root exactly full
		r.step(act{Op: "roi", H: 1, K: 2 * deg})          // ... and split
		r.step(act{Op: "fill", H: 1, K: 2*deg + 1, N: n - 2*deg})
		reads(r, 1, n)
		r.step(act{Op: "drain", H: 1, N: n / 2, Max: i%2 == 0})
		r.step(act{Op: "clone", H: 1})
		r.step(act{Op: "fill", H: 1, K: 1, N: n})
		r.step(act{Op: "clear", H: 1, Fl: true})
		r.step(act{Op: "fill", H: 1, K: 3, N: n})
		r.step(act{Op: "drain", H: 2, N: n, Max: false})
		r.step(act{Op: "clear", H: 2, Fl: true})
		r.step(act{Op: "fill", H: 2, K: 1, N: 2 * deg})
		end(r)
	}
	for i, fl := range []int{31, 32, 33, 1000} { // ~100 nodes into a free list of about 32, and back
		r := newRunner(w, rng, cfg{api: "inner", src: "bigclear", deg: 2, fl: fl, lo: 1, hi: 150, dumpK: 1, kind: i % 3})
		r.step(act{Op: "fill", H: 1, K: 1, N: 150})
		r.step(act{Op: "clear", H: 1, Fl: true})
		r.step(act{Op: "fill", H: 1, K: 1, N: 150})
		r.step(act{Op: "drain", H: 1, N: 140, Max: i%2 == 1})
		r.step(act{Op: "fill", H: 1, K: 50, N: 60})
		reads(r, 1, 150)
		end(r)
	}
	// (c) one free list through consecutive configurations
	for round := 0; round < 2; round++ {
		for _, deg := range []int{2, 8, 2, 3} {
			r := newRunner(w, rng, cfg{api: "inner", src: "handed-freelist", deg: deg, fl: 2000, lo: 1, hi: 60, dumpK: 1, kind: round})
			r.step(act{Op: "fill", H: 1, K: 1, N: 60})
			r.step(act{Op: "drain", H: 1, N: 25, Max: deg == 8})
			r.step(act{Op: "fill", H: 1, K: 10, N: 30})
			reads(r, 1, 60)
			r.step(act{Op: "clear", H: 1, Fl: true}) // its nodes go to the list the next tree allocates from
			end(r)
		}
	}
	// (e) saturation: a dense key domain inserted in random order; after EVERY insert two stored keys
	// are replaced (a root that an insert has just filled stays full only until the next new key, and
	// a replace walks its root-to-leaf path in that state, whatever else on it is full); every item is
	// replaced at the end (one refill event).
	for i, deg := range []int{2, 2, 2, 2, 2, 2, 2, 2, 3, 3, 3, 3, 3, 3, 4, 4, 4, 4} {
		m := (9 + i%6) * deg
		r := newRunner(w, rng, cfg{api: "inner", src: "saturate", deg: deg, fl: []int{-1, 0}[i%2], lo: 1, hi: m, dumpK: 1, kind: i % 3})
		perm := rng.Perm(m)
		for j, k := range perm {
			r.step(act{Op: "roi", H: 1, K: k + 1})
			for x := 0; x < 2 && !r.dead; x++ {
				r.step(act{Op: "roi", H: 1, K: perm[rng.Intn(j+1)] + 1}) // one of the keys inserted so far
			}
		}
		r.step(act{Op: "refill", H: 1})
		end(r)
	}
	// (d) long runs
	runs := []int{255, 256, 257}
	for i, n := range runs {
		r := newRunner(w, rng, cfg{api: "inner", src: "run", deg: []int{2, 3, 16}[i], fl: -1, lo: 1, hi: n, dumpK: 1, kind: i})
		r.step(act{Op: "fill", H: 1, K: 1, N: n - 1})
		r.step(act{Op: "len", H: 1})
		r.step(act{Op: "roi", H: 1, K: n})
		r.step(act{Op: "len", H: 1})
		r.step(act{Op: "clone", H: 1})
		r.step(act{Op: "roi", H: 2, K: n + 1})
		r.step(act{Op: "len", H: 2})
		r.step(act{Op: "fill", H: 1, K: 1, N: n}) // n replacements
		reads(r, 1, n)
		r.step(act{Op: "drain", H: 1, N: n - 1, Max: i == 1})
		r.step(act{Op: "len", H: 1})
		r.step(act{Op: "drain", H: 2, N: n + 2, Max: false})
		end(r)
	}
	if long {
		for i, n := range []int{65535, 65536, 65537} {
			// replies only while the tree is large (an observation would be 65 000 pairs per event)
			r := newRunner(w, rng, cfg{api: "inner", src: "longrun", deg: []int{2, 32, 4}[i], fl: -1, lo: 1, hi: n, dumpK: 1, kind: i})
			q := func(a act) { r.emitCall(a, false); r.shadow(r.done) }
			q(act{Op: "fill", H: 1, K: 1, N: n - 1})
			r.step(act{Op: "len", H: 1})
			q(act{Op: "roi", H: 1, K: n})
			r.step(act{Op: "len", H: 1})
			q(act{Op: "roi", H: 1, K: n + 1})
			r.step(act{Op: "len", H: 1})
			for _, k := range []int{0, 1, 255, 256, 257, 32767, 32768, 65535, 65536, 65537, n, n + 1, n + 2} {
				r.step(act{Op: "get", H: 1, K: k})
			}
			r.step(act{Op: "scan", H: 1, Fn: "AscendGreater", P: n - 3, Fm: 1, Fr: []int{0}, N: 1000})
			r.step(act{Op: "scan", H: 1, Fn: "DescendLess", P: 65537, Fm: 1, Fr: []int{0}, N: 3})
			r.step(act{Op: "min", H: 1})
			r.step(act{Op: "max", H: 1})
			q(act{Op: "idel", H: 1, K: 70000})
			q(act{Op: "idel", H: 1, K: 256})
			r.step(act{Op: "len", H: 1})
			q(act{Op: "drain", H: 1, N: n - 3, Max: i == 1})
			r.step(act{Op: "len", H: 1})
			r.step(act{Op: "roi", H: 1, K: 7}) // small again: observed in full
			end(r)
		}
	}
}

// ------------------------------------------------------------------ every reachable shape, small scope

// shapeBFS explores, breadth first on the real tree (Clone() branches the exploration), every node
// structure reachable at degree 2 with the keys 1..K by ReplaceOrInsert (new key or replace) and
// Delete, identified by its full structural signature.  For the selected states (all of them, or a
// sample stratified by shape class: height x root occupancy x full / minimal children) one trace
// each is RECORDED on a fresh tree: the shortest call sequence that leads there, the state itself
// (contents + dump), and then EVERY single operation from that state, each on a clone of its own:
// ReplaceOrInsert of every key 1..K, Delete of every stored key, DeleteMin, DeleteMax - with the
// structure of the written clone after each, and all handles at the end.  The exploration only
// decides which sequences are recorded; what is recorded is judged by TLC like everything else.
func fullSig(n *btree.VerifNode, sb *strings.Builder) {
	if n == nil {
		return
	}
	sb.WriteByte('(')
	for i, x := range n.Items {
		if i < len(n.Children) {
			fullSig(n.Children[i], sb)
		}
		fmt.Fprintf(sb, " %d ", x.(kv).key())
	}
	if len(n.Children) > len(n.Items) {
		fullSig(n.Children[len(n.Children)-1], sb)
	}
	sb.WriteByte(')')
}

func shapeClass(root *btree.VerifNode, deg int) string {
	if root == nil {
		return "nil"
	}
	max, min := 2*deg-1, deg-1
	height, fullChild, fullLeaf, minNode := 0, false, false, false
	var walk func(n *btree.VerifNode, d int, isRoot bool)
	walk = func(n *btree.VerifNode, d int, isRoot bool) {
		if d > height {
			height = d
		}
		if !isRoot && len(n.Items) <= min {
			minNode = true
		}
		if len(n.Children) == 0 && len(n.Items) >= max && !isRoot {
			fullLeaf = true
		}
		for _, c := range n.Children {
			if isRoot && len(c.Items) >= max {
				fullChild = true
			}
			walk(c, d+1, false)
		}
	}
	walk(root, 1, true)
	occ := "mid"
	switch {
	case len(root.Items) >= max:
		occ = "full"
	case len(root.Items) <= 1:
		occ = "one"
	}
	return fmt.Sprintf("h%d-%s-fc%v-fl%v-min%v", height, occ, fullChild, fullLeaf, minNode)
}

func shapeBFS(w *tr.W, rng *rand.Rand, K, perClass int) {
	const deg = 2
	type state struct {
		t    *btree.BTree
		path []act
	}
	crashed := false
	sigOf := func(t *btree.BTree) (sg, class string) {
		defer func() {
			if p := recover(); p != nil {
				crashed = true
			}
		}()
		_, _, root := t.VerifDump()
		var sb strings.Builder
		fullSig(root, &sb)
		return sb.String(), shapeClass(root, deg)
	}
	seen := map[string]bool{}
	var all []state
	classes := map[string][]int{}
	queue := []state{{t: btree.New(deg)}}
	sg0, _ := sigOf(queue[0].t)
	seen[sg0] = true
	for len(queue) > 0 && len(all) < 20000 && !crashed {
		cur := queue[0]
		queue = queue[1:]
		_, cl := sigOf(cur.t)
		classes[cl] = append(classes[cl], len(all))
		all = append(all, cur)
		for k := 1; k <= K; k++ {
			for _, op := range []string{"roi", "idel"} {
				var nt *btree.BTree
				func() {
					defer func() {
						if p := recover(); p != nil {
							nt = nil // the recorded traces will show the panic where it belongs
						}
					}()
					nt = cur.t.Clone()
					if op == "roi" {
						nt.ReplaceOrInsert(item{k, 0})
					} else {
						nt.Delete(item{k, 0})
					}
				}()
				if nt == nil {
					continue
				}
				sg, _ := sigOf(nt)
				if seen[sg] {
					continue
				}
				seen[sg] = true
				np := append(append([]act{}, cur.path...), act{Op: op, H: 1, K: k})
				queue = append(queue, state{nt, np})
			}
		}
	}
	st.ShapeStates = len(all)
	st.ShapeClasses = len(classes)
	pick := map[int]bool{}
	if perClass <= 0 {
		for i := range all {
			pick[i] = true
		}
	} else {
		names := make([]string, 0, len(classes))
		for c := range classes {
			names = append(names, c)
		}
		sort.Strings(names)
		for _, c := range names {
			idx := classes[c]
			rng.Shuffle(len(idx), func(i, j int) { idx[i], idx[j] = idx[j], idx[i] })
			for i := 0; i < len(idx) && i < perClass; i++ {
				pick[idx[i]] = true
			}
		}
	}
	for i, stt := range all {
		if !pick[i] {
			continue
		}
		r := newRunner(w, rng, cfg{api: "inner", src: "shape-bfs", deg: deg, fl: -1, lo: 1, hi: K, dumpK: 1 << 30, kind: 0})
		r.dumpOwn = true
		for _, a := range stt.path {
			r.emitCall(a, false)
			if r.dead {
				break
			}
			r.shadow(r.done)
		}
		if !r.dead {
			r.dumpK = 1
			r.emitCall(act{Op: "nop"}, true) // the state itself
			r.dumpK = 1 << 30
		}
		one := func(a act) { // the operation on a clone of its own
			if r.dead {
				return
			}
			r.emitCall(act{Op: "clone", H: 1}, false)
			if r.dead {
				return
			}
			r.shadow(r.done)
			a.H = len(r.s.hs)
			r.emitCall(a, true)
			if !r.dead {
				r.shadow(r.done)
			}
		}
		for k := 1; k <= K; k++ {
			one(act{Op: "roi", K: k})
			if r.sh != nil && len(r.sh) > 0 && r.sh[0][k] {
				one(act{Op: "idel", K: k})
			}
		}
		one(act{Op: "delmin"})
		one(act{Op: "delmax"})
		if !r.dead {
			r.dumpK = 1
			r.emitCall(act{Op: "nop"}, true) // every handle: the original must be as it was
		}
		r.flush()
		curRunner = nil
		st.ShapeTraces++
	}
}

// ------------------------------------------------------------------ clones in parallel

// pevent: an event of the parallel phase; handle numbers of clones made inside the phase are
// assigned when the per-goroutine logs are written out one after the other (the spec numbers
// handles in log order; trees of different goroutines never interact, so any merge order of
// the per-goroutine logs is a faithful sequential history iff each of them is one).
type phandle struct {
	id int
	t  *btree.BTree
}
type pevent struct {
	a     act
	h, h2 *phandle
	r     interface{}
	panic bool
	own   []*phandle
	items [][][]int
	lens  []int
}

// waitFor: a join with a watchdog.  false = some goroutine is still inside the library after
// stuckAfter (blocked or spinning): the caller logs a `stuck` event, which the spec rejects.
var stuckAfter = 20 * time.Second

// guard runs harness code that reads the tree (library code: Ascend, the dump hook); a panic
// there is reported as a message, to be logged as a panic event.
func guard(f func()) (msg string) {
	defer func() {
		if p := recover(); p != nil {
			msg = fmt.Sprintf("panic while observing: %v", p)
		}
	}()
	f()
	return ""
}

func finalObs(w *tr.W, s *sut) {
	var o tr.E
	if msg := guard(func() { o = s.obs(true, nil, []int{1}) }); msg != "" {
		st.Panics++
		w.Emit(tr.E{"ev": "panic", "a": tr.E{"op": "nop"}, "msg": tr.Str(msg)})
		return
	}
	w.Emit(tr.E{"ev": "final", "obs": o})
}

func waitFor(wg *sync.WaitGroup) bool {
	done := make(chan struct{})
	go func() { wg.Wait(); close(done) }()
	select {
	case <-done:
		return true
	case <-time.After(stuckAfter):
		return false
	}
}

func runParallel(w *tr.W, rng *rand.Rand, nthreads, opsPer int) {
	deg := []int{2, 2, 3, 4}[rng.Intn(4)]
	nkeys := 12 + rng.Intn(30)
	r := newRunner(w, rng, cfg{api: "inner", src: "parallel", deg: deg, kind: rng.Intn(3), fl: []int{-1, 0, 1, 1000}[rng.Intn(4)],
		lo: 0, hi: nkeys - 1, dumpK: 1})
	// base tree, sequentially (one time in six it stays empty: clones of a tree without a root,
	// first written by several goroutines at once)
	if rng.Intn(6) > 0 {
		for i := 0; i < nkeys; i++ {
			if rng.Intn(4) > 0 {
				r.step(act{Op: "roi", H: 1, K: rng.Intn(nkeys)})
			}
		}
	}
	for i := 0; i < nthreads-1; i++ { // one clone per further goroutine, some of them clones of clones
		r.step(act{Op: "clone", H: 1 + rng.Intn(len(r.s.hs))})
	}
	// one more clone that nobody writes: every goroutine READS it while all of them write their own
	// trees (readers of one tree in parallel, sharing nodes with trees under modification)
	r.step(act{Op: "clone", H: 1 + rng.Intn(len(r.s.hs))})
	r.flush()
	curRunner = nil
	if r.dead {
		return
	}
	ver := r.ver
	hs := make([]*phandle, len(r.s.hs))
	for i, t := range r.s.hs {
		hs[i] = &phandle{id: i + 1, t: t}
	}
	logs := make([][]pevent, nthreads)
	seeds := make([]int64, nthreads)
	for i := range seeds {
		seeds[i] = rng.Int63()
	}
	var wg sync.WaitGroup
	start := make(chan struct{})
	for g := 0; g < nthreads; g++ {
		wg.Add(1)
		go func(g int) {
			defer wg.Done()
			lr := rand.New(rand.NewSource(seeds[g]))
			mine := []*phandle{hs[g]}
			frozen := hs[nthreads]
			v := ver + g*100000
			<-start
			for i := 0; i < opsPer; i++ {
				ph := mine[lr.Intn(len(mine))]
				k := lr.Intn(nkeys)
				var a act
				x := lr.Intn(100)
				if lr.Intn(4) == 0 { // a read of the tree everybody reads
					ph = frozen
					x = 80 + lr.Intn(20)
				}
				switch {
				case x < 40:
					v++
					a = act{Op: "roi", K: k, V: v}
				case x < 70:
					a = act{Op: "idel", K: k}
				case x < 74:
					a = act{Op: []string{"delmin", "delmax"}[lr.Intn(2)]}
				case x < 78 && len(mine) < 3:
					a = act{Op: "clone"}
				case x < 80 && ph != frozen:
					a = act{Op: "clear", Fl: lr.Intn(2) == 0}
				case x < 80:
					a = act{Op: "len"}
				case x < 88:
					a = act{Op: []string{"get", "has", "len", "min", "max"}[lr.Intn(5)], K: k}
				default:
					fn := innerScans[lr.Intn(len(innerScans))]
					a = act{Op: "scan", Fn: fn, P: lr.Intn(nkeys+2) - 1, Q: lr.Intn(nkeys+2) - 1, Fm: 1 + lr.Intn(3), Fr: []int{0}, N: []int{0, 1, 3, 1000}[lr.Intn(4)]}
					if noPivot(fn) {
						a.P = 0
					}
					if !twoPivot(fn) {
						a.Q = 0
					}
				}
				ev := pevent{a: a, h: ph}
				func() {
					defer func() {
						if p := recover(); p != nil {
							ev.r, ev.panic = fmt.Sprintf("panic: %v", p), true
						}
					}()
					if a.Op == "clone" {
						nh := &phandle{t: ph.t.Clone()}
						mine = append(mine, nh)
						ev.h2, ev.r = nh, 0
					} else {
						one := &sut{api: "inner", deg: deg, hs: []*btree.BTree{ph.t}, kind: r.s.kind}
						b := a
						b.H = 1
						ev.r = one.do(b)
					}
				}()
				if !ev.panic && isWrite(a.Op) {
					func() {
						defer func() {
							if p := recover(); p != nil {
								ev.r, ev.panic = fmt.Sprintf("panic while observing: %v", p), true
							}
						}()
						for _, m := range mine { // everything this goroutine owns: isolation among its own clones
							ev.own = append(ev.own, m)
							ev.items = append(ev.items, contents(m.t))
							ev.lens = append(ev.lens, m.t.Len())
						}
					}()
				}
				logs[g] = append(logs[g], ev)
				if ev.panic {
					return
				}
			}
		}(g)
	}
	close(start)
	if !waitFor(&wg) {
		// a call did not come back: what is logged so far cannot be read safely; the observation is
		// the stuck call itself
		st.Stuck++
		w.Emit(tr.E{"ev": "stuck", "src": "parallel"})
		return
	}
	next := len(hs) + 1
	final := append([]*phandle{}, hs...)
	for g := range logs {
		for _, ev := range logs[g] {
			a := ev.a
			a.H = ev.h.id
			if ev.panic {
				st.Panics++
				w.Emit(tr.E{"ev": "panic", "a": a.rec(), "msg": tr.Str(ev.r.(string))})
				return
			}
			if a.Op == "clone" {
				ev.h2.id = next
				next++
				a.H2 = ev.h2.id
				final = append(final, ev.h2)
				st.Clones++
			}
			if !isWrite(a.Op) {
				w.Emit(tr.E{"ev": "callr", "a": a.rec(), "r": ev.r})
				continue
			}
			st.Writes++
			all := make([]tr.E, 0, len(ev.own))
			for i, m := range ev.own {
				all = append(all, tr.E{"h": m.id, "items": ev.items[i], "len": ev.lens[i]})
			}
			w.Emit(tr.E{"ev": "call", "a": a.rec(), "r": ev.r,
				"obs": tr.E{"full": false, "all": all, "dumps": []tr.E{}}})
		}
	}
	// after the join: every handle, contents and structure
	all := make([]tr.E, 0, len(final))
	ds := make([]tr.E, 0, len(final))
	msg := guard(func() {
		for _, m := range final {
			all = append(all, tr.E{"h": m.id, "items": contents(m.t), "len": m.t.Len()})
			ds = append(ds, dumpOf(m.id, m.t))
		}
	})
	if msg != "" {
		st.Panics++
		w.Emit(tr.E{"ev": "panic", "a": tr.E{"op": "nop"}, "msg": tr.Str(msg)})
		return
	}
	w.Emit(tr.E{"ev": "call", "a": tr.E{"op": "nop"}, "r": 0, "obs": tr.E{"full": true, "all": all, "dumps": ds}})
}

// ------------------------------------------------------------------ the locked wrapper, concurrently

// runConc: T goroutines call the wrapper freely; inv/res are appended to one log under a mutex
// taken outside the wrapper's lock, so the log order is consistent with real time and the
// effect of a call lies between its inv and its res.  TLC searches for a linearization.
func runConc(w *tr.W, rng *rand.Rand, threads, opsPer, nkeys int) bool {
	s := newSut("wrap", 2, -1, rng.Intn(3))
	var mu sync.Mutex
	var evs []tr.E
	logf := func(e tr.E) {
		mu.Lock()
		evs = append(evs, e)
		mu.Unlock()
	}
	// a few keys first (sequentially, logged as inv/res of thread 1) so that the tree has inner nodes
	ver := 0
	pre := 2 + rng.Intn(nkeys)
	for i := 0; i < pre; i++ {
		ver++
		a := act{Op: "ins", H: 1, K: rng.Intn(nkeys), V: ver}
		logf(tr.E{"ev": "inv", "t": 1, "a": a.rec()})
		r, _ := s.safeDo(a)
		logf(tr.E{"ev": "res", "t": 1, "r": r})
	}
	progs := make([][]act, threads)
	for t := range progs {
		writer := t < (threads+1)/2
		for i := 0; i < opsPer; i++ {
			k := rng.Intn(nkeys)
			x := rng.Intn(100)
			var a act
			switch {
			case writer && x < 35:
				ver++
				a = act{Op: "ins", H: 1, K: k, V: ver}
			case writer && x < 50:
				ver++
				a = act{Op: []string{"upd", "upsert"}[rng.Intn(2)], H: 1, O: rng.Intn(nkeys), K: k, V: ver}
			case writer && x < 80:
				a = act{Op: "del", H: 1, K: k}
			case x < 60 || (writer && x < 90):
				a = act{Op: "get", H: 1, K: k}
			default:
				a = act{Op: "scan", H: 1, Fn: wrapScans[rng.Intn(4)], P: rng.Intn(nkeys+2) - 1,
					Fm: 1 + rng.Intn(2), Fr: []int{0}, N: []int{1, 2, 1000}[rng.Intn(3)]}
			}
			progs[t] = append(progs[t], a)
		}
	}
	var wg sync.WaitGroup
	start := make(chan struct{})
	var pmu sync.Mutex
	panicked := false
	for t := 0; t < threads; t++ {
		wg.Add(1)
		go func(t int) {
			defer wg.Done()
			<-start
			for _, a := range progs[t] {
				logf(tr.E{"ev": "inv", "t": t + 1, "a": a.rec()})
				r, p := s.safeDo(a)
				if p {
					pmu.Lock()
					panicked = true
					pmu.Unlock()
					logf(tr.E{"ev": "panic", "a": a.rec(), "msg": tr.Str(r.(string))})
					return
				}
				logf(tr.E{"ev": "res", "t": t + 1, "r": r})
			}
		}(t)
	}
	close(start)
	stuck := !waitFor(&wg)
	mu.Lock() // a goroutine that is stuck inside the wrapper does not hold the log mutex
	defer mu.Unlock()
	w.Emit(tr.E{"ev": "reset", "api": "wrap", "deg": 2, "threads": threads, "src": "conc", "lo": 0, "hi": nkeys - 1})
	for _, e := range evs {
		if rep, ok := e["r"]; ok {
			e["r"] = resolve(rep) // scan results were kept as returned until every thread was done
			scribble(rep)         // ... and are the caller's to overwrite before the final observation
		}
		w.Emit(e)
	}
	if stuck {
		st.Stuck++
		w.Emit(tr.E{"ev": "stuck", "src": "conc"})
		return false
	}
	pmu.Lock()
	defer pmu.Unlock()
	if panicked {
		st.Panics++
		return true
	}
	finalObs(w, s)
	return true
}

// ------------------------------------------------------------------ gated reader against a writer

// runGates: a call that has to WAIT is a first-class part of the history.  A wrapper scan is
// stopped inside its filter callback after a few items (it holds the read lock there); only then a
// second goroutine issues a writer that MOVES a node across the scan's cursor (Update /
// UpdateOrInsert from ahead of the cursor to behind it, or the other way).  The harness waits until
// the writer came back or 2 ms passed, then lets the scan go on.  On the unchanged code the writer
// is parked until the scan returns; whatever happens is logged as inv/res with the global sequence
// number and TLC looks for a linearization (a scan that saw the node twice, or not at all, has
// none).  Nothing is judged here.
func runGates(w *tr.W, rng *rand.Rand, rounds int) {
	for r := 0; r < rounds; r++ {
		s := newSut("wrap", 2, -1, rng.Intn(3))
		nk := 6 + rng.Intn(8)
		ver := 0
		var prelog []tr.E
		for i := 1; i <= nk; i++ { // even keys 2..2nk
			ver++
			a := act{Op: "ins", H: 1, K: 2 * i, V: ver}
			rep, p := s.safeDo(a)
			if p {
				return
			}
			prelog = append(prelog, tr.E{"ev": "callr", "a": a.rec(), "r": rep})
		}
		asc := rng.Intn(2) == 0
		stopAt := 2 + rng.Intn(nk-3) // the scan is held inside its stopAt-th filter call
		// keys in scan order; visited = the first stopAt-1, ahead = the rest (the stopAt-th is under the cursor)
		order := make([]int, 0, nk)
		for i := 1; i <= nk; i++ {
			if asc {
				order = append(order, 2*i)
			} else {
				order = append(order, 2*(nk+1-i))
			}
		}
		behind, ahead := order[:stopAt-1], order[stopAt:]
		odd := func(k int) int { // a free (odd) key next to k
			return k + 1 - 2*rng.Intn(2)
		}
		ver++
		var wa act
		from, to := ahead[rng.Intn(len(ahead))], odd(behind[rng.Intn(len(behind))])
		if rng.Intn(2) == 0 {
			from, to = behind[rng.Intn(len(behind))], odd(ahead[rng.Intn(len(ahead))])
		}
		wa = act{Op: []string{"upd", "upsert"}[rng.Intn(2)], H: 1, O: from, K: to, V: ver}
		fn := "AscendGte"
		piv := 0
		if !asc {
			fn, piv = "DescendLte", 2*nk+2
		}
		ra := act{Op: "scan", H: 1, Fn: fn, P: piv, Fm: 1, Fr: []int{0}, N: 1000}

		type sev struct {
			seq int64
			e   tr.E
		}
		var seq int64
		var rlog, wlog []sev
		atGate, release, wdone := make(chan struct{}), make(chan struct{}), make(chan struct{})
		var wg sync.WaitGroup
		wg.Add(2)
		go func() { // the reader
			defer wg.Done()
			calls := 0
			s2 := *s
			s2.hook = func(btree.Item) {
				calls++
				if calls == stopAt {
					close(atGate)
					<-release
				}
			}
			rlog = append(rlog, sev{atomic.AddInt64(&seq, 1), tr.E{"ev": "inv", "t": 1, "a": ra.rec()}})
			rep, p := s2.safeDo(ra)
			if calls < stopAt { // the scan never reached the gate (nobody must wait for it)
				close(atGate)
			}
			if p {
				rlog = append(rlog, sev{atomic.AddInt64(&seq, 1), tr.E{"ev": "panic", "a": ra.rec(), "msg": tr.Str(rep.(string))}})
				return
			}
			rlog = append(rlog, sev{atomic.AddInt64(&seq, 1), tr.E{"ev": "res", "t": 1, "r": rep}})
		}()
		go func() { // the writer, issued while the scan is held
			defer wg.Done()
			defer close(wdone)
			<-atGate
			wlog = append(wlog, sev{atomic.AddInt64(&seq, 1), tr.E{"ev": "inv", "t": 2, "a": wa.rec()}})
			rep, p := s.safeDo(wa)
			if p {
				wlog = append(wlog, sev{atomic.AddInt64(&seq, 1), tr.E{"ev": "panic", "a": wa.rec(), "msg": tr.Str(rep.(string))}})
				return
			}
			wlog = append(wlog, sev{atomic.AddInt64(&seq, 1), tr.E{"ev": "res", "t": 2, "r": rep}})
		}()
		<-atGate
		select {
		case <-wdone: // the writer did not wait for the scan
		case <-time.After(2 * time.Millisecond):
		}
		close(release)
		w.Emit(tr.E{"ev": "reset", "api": "wrap", "deg": 2, "threads": 2, "src": "gate", "lo": 1, "hi": 2*nk + 2, "kind": kindNames[s.kind]})
		for _, e := range prelog {
			w.Emit(e)
		}
		if !waitFor(&wg) {
			st.Stuck++
			w.Emit(tr.E{"ev": "stuck", "src": "gate"})
			return
		}
		all := append(append([]sev{}, rlog...), wlog...)
		sort.Slice(all, func(i, j int) bool { return all[i].seq < all[j].seq })
		bad := false
		for _, x := range all {
			if rep, ok := x.e["r"]; ok {
				x.e["r"] = resolve(rep)
				scribble(rep)
			}
			if x.e["ev"] == "panic" {
				bad = true
			}
			w.Emit(x.e)
		}
		st.Gates++
		if bad {
			st.Panics++
			continue
		}
		finalObs(w, s)
	}
}

// ------------------------------------------------------------------ race rounds on the wrapper

// runRaces: many tiny rounds.  A fresh wrapper holding 2..6 keys; 2 or 3 goroutines, released
// together by a spin barrier, each issue one (sometimes two) wrapper calls that all concern ONE hot
// key: every writer (Insert, Update, UpdateOrInsert, Delete) against every writer and against Get
// and the four scans, on a present and on an absent hot key, plus random mixes.  inv/res carry a
// global atomic sequence number drawn before the call starts / after it returned, so the merged
// order is consistent with real time without any lock of the harness in the way.  Only rounds in
// which calls really overlapped are kept; each ends with the sequential contents + dump.  TLC
// searches for a linearization; nothing is judged here.
func runRaces(w *tr.W, rng *rand.Rand, rounds, keep int, budget time.Duration) (int, int) {
	t0 := time.Now()
	writers := []string{"ins", "upd", "upsert", "del"}
	every := []string{"ins", "upd", "upsert", "del", "get", "AscendGte", "AscendGt", "DescendLte", "DescendLt",
		"ins", "upd", "upsert", "del"} // writer against writer twice as often as writer against reader
	kept, ran := 0, 0
	const hot = 5
	for r := 0; r < rounds && kept < keep; r++ {
		// the budget only bounds the run on a loaded machine; half of the rounds asked for is
		// collected even then (up to three times the budget)
		if el := time.Since(t0); (el > budget && kept >= keep/2) || el > 3*budget {
			break
		}
		ran++
		s := newSut("wrap", 2, -1, rng.Intn(3))
		ver := 0
		mk := func(kind string, t int) act {
			ver++
			nk := 10 + t // the key a thread moves the hot node to: distinct per thread ...
			if rng.Intn(4) == 0 {
				nk = 10 // ... or contended as well
			}
			switch kind {
			case "ins":
				return act{Op: "ins", H: 1, K: hot, V: ver}
			case "upd", "upsert":
				return act{Op: kind, H: 1, O: hot, K: nk, V: ver}
			case "del":
				return act{Op: "del", H: 1, K: hot}
			case "get":
				return act{Op: "get", H: 1, K: hot}
			}
			return act{Op: "scan", H: 1, Fn: kind, P: hot, Fm: 1, Fr: []int{0}, N: []int{1, 2, 1000}[rng.Intn(3)]}
		}
		// prefill (sequential, recorded): 2..6 keys around the hot key, hot itself present or not
		var hotIn bool
		threads := 2
		progs := make([][]act, 0, 3)
		var pre []act
		cold := r%8 == 3 // a fresh wrapper (no root yet) first touched by all goroutines at once
		big := r%16 == 7 // a tree of some size: one call that works for a while against short ones
		nfill, span := 2+rng.Intn(5), 9
		if big {
			nfill, span = 12+rng.Intn(19), 60
		}
		if cold {
			nfill = 0
			st.Cold++
		}
		for _, k := range rng.Perm(span)[:nfill] {
			if k+1 != hot {
				ver++
				pre = append(pre, act{Op: "ins", H: 1, K: k + 1, V: ver})
			}
		}
		if r%2 == 0 {
			c := r / 2
			a, b := writers[c%len(writers)], every[(c/len(writers))%len(every)]
			hotIn = (c/(len(writers)*len(every)))%3 != 2 // two rounds in three on a present key
			progs = append(progs, []act{mk(a, 0)}, []act{mk(b, 1)})
		} else if r%4 == 1 {
			// duel: two goroutines, each a run of calls that keep moving, removing and re-creating the
			// hot node (hot -> own key -> hot ...), so that the calls of the two overlap for the whole
			// round even when the goroutines are not released at the same instant (loaded machine)
			hotIn = true
			st.Duels++
			for t := 0; t < 2; t++ {
				var pr []act
				own := 10 + t
				for i, n := 0, 6+rng.Intn(5); i < n; i++ {
					ver++
					switch rng.Intn(8) {
					case 0, 1:
						pr = append(pr, act{Op: "upd", H: 1, O: hot, K: own, V: ver})
					case 2, 3:
						pr = append(pr, act{Op: "upd", H: 1, O: own, K: hot, V: ver})
					case 4:
						pr = append(pr, act{Op: "upsert", H: 1, O: hot, K: []int{own, hot}[rng.Intn(2)], V: ver})
					case 5:
						pr = append(pr, act{Op: "del", H: 1, K: []int{hot, own}[rng.Intn(2)]})
					case 6:
						pr = append(pr, act{Op: "ins", H: 1, K: hot, V: ver})
					default:
						pr = append(pr, mk([]string{"get", "AscendGte", "DescendLte"}[rng.Intn(3)], t))
					}
				}
				progs = append(progs, pr)
			}
		} else {
			threads = 2 + rng.Intn(2)
			hotIn = rng.Intn(3) > 0
			for t := 0; t < threads; t++ {
				var pr []act
				for i := 0; i < 1+rng.Intn(2); i++ {
					kind := every[rng.Intn(len(every))]
					if t == 0 && i == 0 {
						kind = writers[rng.Intn(len(writers))]
					}
					pr = append(pr, mk(kind, t))
				}
				progs = append(progs, pr)
			}
		}
		if hotIn && !cold {
			ver++
			pre = append(pre, act{Op: "ins", H: 1, K: hot, V: ver})
		}
		type sev struct {
			seq int64
			e   tr.E
		}
		prelog := make([]tr.E, 0, len(pre))
		dead := false
		for _, a := range pre {
			rep, p := s.safeDo(a)
			if p {
				prelog = append(prelog, tr.E{"ev": "panic", "a": a.rec(), "msg": tr.Str(rep.(string))})
				dead = true
				break
			}
			prelog = append(prelog, tr.E{"ev": "callr", "a": a.rec(), "r": rep})
		}
		per := make([][]sev, threads)
		if !dead {
			var seq int64
			var goFlag, readyCnt int32
			var wg sync.WaitGroup
			for t := 0; t < threads; t++ {
				wg.Add(1)
				go func(t int) {
					defer wg.Done()
					atomic.AddInt32(&readyCnt, 1)
					for atomic.LoadInt32(&goFlag) == 0 {
					}
					for _, a := range progs[t] {
						per[t] = append(per[t], sev{atomic.AddInt64(&seq, 1), tr.E{"ev": "inv", "t": t + 1, "a": a.rec()}})
						rep, p := s.safeDo(a)
						if p {
							per[t] = append(per[t], sev{atomic.AddInt64(&seq, 1), tr.E{"ev": "panic", "a": a.rec(), "msg": tr.Str(rep.(string))}})
							return
						}
						per[t] = append(per[t], sev{atomic.AddInt64(&seq, 1), tr.E{"ev": "res", "t": t + 1, "r": rep}})
					}
				}(t)
			}
			for atomic.LoadInt32(&readyCnt) < int32(threads) {
				runtime.Gosched()
			}
			atomic.StoreInt32(&goFlag, 1)
			if !waitFor(&wg) {
				// a call did not come back (the per-thread logs are still owned by their goroutines)
				st.Stuck++
				kept++
				w.Emit(tr.E{"ev": "reset", "api": "wrap", "deg": 2, "threads": threads, "src": "race", "lo": 1, "hi": 60})
				for _, e := range prelog {
					w.Emit(e)
				}
				w.Emit(tr.E{"ev": "stuck", "src": "race", "progs": fmt.Sprint(progs)})
				return ran, kept
			}
		}
		var all []sev
		for _, p := range per {
			all = append(all, p...)
		}
		sort.Slice(all, func(i, j int) bool { return all[i].seq < all[j].seq })
		open, overlap, panicked := 0, false, dead
		for _, x := range all {
			switch x.e["ev"] {
			case "inv":
				open++
				if open > 1 {
					overlap = true
				}
			case "res":
				open--
			default:
				panicked = true
			}
		}
		if !overlap && !panicked {
			continue
		}
		kept++
		w.Emit(tr.E{"ev": "reset", "api": "wrap", "deg": 2, "threads": threads, "src": "race", "lo": 1, "hi": 60,
			"cold": cold, "big": big})
		for _, e := range prelog {
			w.Emit(e)
		}
		for _, x := range all {
			if rep, ok := x.e["r"]; ok {
				x.e["r"] = resolve(rep) // results kept as returned until the round was over
				scribble(rep)
			}
			w.Emit(x.e)
		}
		if panicked {
			st.Panics++
			continue
		}
		finalObs(w, s)
	}
	return ran, kept
}

// ------------------------------------------------------------------ supervisor

// A Go runtime fatal error (stack overflow in a cyclic node structure, "concurrent map writes",
// unlock of an unlocked mutex ...) cannot be recovered inside the process.  The harness therefore
// runs itself as a child; when the child dies inside neptune's code, the supervisor appends a
// `crash` event to the trace that was being written (events are flushed one by one) - the spec
// has no arm for it - and ends normally.  A failure of the harness itself stays exit 2.
type capWriter struct {
	buf []byte
	max int
}

func (c *capWriter) Write(p []byte) (int, error) {
	if room := c.max - len(c.buf); room > 0 {
		if len(p) < room {
			room = len(p)
		}
		c.buf = append(c.buf, p[:room]...)
	}
	return len(p), nil
}

// crashedInNeptune: the first function frame of the crashing goroutine that is neither the
// runtime's nor a standard package's decides: neptune -> the reason, the harness -> "".
func crashedInNeptune(out string) string {
	lines := strings.Split(out, "\n")
	reason, i := "", 0
	for ; i < len(lines); i++ {
		if strings.HasPrefix(lines[i], "fatal error: ") || strings.HasPrefix(lines[i], "panic: ") {
			reason = lines[i]
			break
		}
	}
	if reason == "" {
		return ""
	}
	for ; i < len(lines); i++ { // header of the first goroutine after the reason = the crashing one
		if strings.HasPrefix(lines[i], "goroutine ") && strings.HasSuffix(strings.TrimSpace(lines[i]), "]:") {
			break
		}
	}
	for i++; i < len(lines); i++ {
		l := lines[i]
		if strings.TrimSpace(l) == "" {
			break
		}
		if strings.HasPrefix(l, "\t") || strings.HasPrefix(l, " ") {
			continue
		}
		if strings.HasPrefix(l, "github.com/pinealctx/neptune") {
			return reason + " in " + strings.SplitN(l, "(", 2)[0]
		}
		if strings.HasPrefix(l, "main.") || strings.HasPrefix(l, "verif/harness") {
			// a callback of the harness on top of a runaway recursion of the library (iterate over a
			// cyclic node structure) is still the library's overflow
			if strings.Contains(reason, "stack overflow") {
				for j := i + 1; j < len(lines) && j < i+6; j++ {
					if strings.HasPrefix(lines[j], "github.com/pinealctx/neptune") {
						return reason + " in " + strings.SplitN(lines[j], "(", 2)[0]
					}
				}
			}
			return ""
		}
	}
	return ""
}

func supervise(outPath, concPath, statPath string) {
	cmd := exec.Command(os.Args[0], os.Args[1:]...)
	cmd.Env = append(os.Environ(), "C03_CHILD=1")
	cmd.Stdout = os.Stdout
	errw := &capWriter{max: 1 << 20}
	cmd.Stderr = errw
	err := cmd.Run()
	if err == nil {
		os.Exit(0)
	}
	out := string(errw.buf)
	why := ""
	if !strings.Contains(out, "HARNESS-ERROR") {
		why = crashedInNeptune(out)
	}
	if why == "" {
		os.Stderr.Write(errw.buf)
		code := 2
		if ee, ok := err.(*exec.ExitError); ok && ee.ExitCode() > 0 {
			code = ee.ExitCode()
		}
		os.Exit(code)
	}
	target := outPath
	if fi, e := os.Stat(concPath); e == nil && fi.Size() > 0 {
		target = concPath
	}
	f, e := os.OpenFile(target, os.O_APPEND|os.O_WRONLY|os.O_CREATE, 0o644)
	if e != nil {
		tr.Fatal("%v", e)
	}
	bs, _ := json.Marshal(tr.E{"ev": "crash", "msg": why})
	f.Write(append(bs, '\n'))
	f.Close()
	if _, e := os.Stat(concPath); e != nil {
		os.WriteFile(concPath, nil, 0o644)
	}
	if statPath != "" {
		bs, _ := json.Marshal(map[string]interface{}{"Crashed": why})
		os.WriteFile(statPath, bs, 0o644)
	}
	fmt.Printf("the harness process died inside neptune: %s; crash event appended to %s\n", why, target)
	os.Exit(0)
}

// ------------------------------------------------------------------ main

func main() {
	plans := flag.String("plans", "", "directory of TLC-generated plans")
	out := flag.String("out", "seq.ndjson", "sequential traces (plans, histories, parallel clones)")
	conc := flag.String("conc", "conc.ndjson", "concurrent wrapper traces")
	seed := flag.Int64("seed", 1, "seed")
	nhist := flag.Int("hist", 100, "random histories")
	maxops := flag.Int("maxops", 160, "max ops per history")
	npar := flag.Int("npar", 20, "parallel-clone histories")
	nconc := flag.Int("nconc", 60, "concurrent wrapper histories")
	nstress := flag.Int("nstress", 6, "long concurrent wrapper histories")
	nrace := flag.Int("nrace", 20000, "race rounds on the wrapper (at most)")
	nracekeep := flag.Int("nracekeep", 1200, "race rounds with real overlap to keep")
	shapeEvery := flag.Int("shapeevery", 1, "run every k-th clone-in-shape-class scenario (1 = all 216)")
	bfsKeys := flag.Int("bfskeys", 9, "keys 1..K of the exhaustive shape exploration (degree 2)")
	bfsPer := flag.Int("bfsper", 4, "shape states recorded per shape class (0 = every state)")
	ngate := flag.Int("ngate", 150, "gated-reader rounds on the wrapper")
	longRuns := flag.Bool("longruns", false, "also runs of 65535 / 65536 / 65537 items")
	racesecs := flag.Int("racesecs", 12, "wall-clock budget of the race rounds (seconds)")
	sweep := flag.Int("sweep", 4, "probability (percent) of a scan sweep after a write that changed the node structure (always one per handle at the end of a trace)")
	statf := flag.String("stats", "", "write statistics (json) here")
	flag.Parse()
	if os.Getenv("C03_CHILD") == "" {
		supervise(*out, *conc, *statf)
	}
	debug.SetMaxStack(64 << 20) // a runaway recursion in a corrupted tree dies early, not after 1 GB
	rng := rand.New(rand.NewSource(*seed))

	w := tr.Create(*out)
	cw := tr.Create(*conc)
	finish := func() {
		w.Close()
		cw.Close()
		st.Events = w.N() + cw.N()
		if *statf != "" {
			bs, _ := json.Marshal(st)
			if err := os.WriteFile(*statf, bs, 0o644); err != nil {
				tr.Fatal("%v", err)
			}
		}
		fmt.Printf("seq_events=%d conc_events=%d max_height=%d panics=%d stuck=%d\n", w.N(), cw.N(), st.MaxHeight, st.Panics, st.Stuck)
	}
	// watchdog of the sequential phases: a call into the library that neither returns nor panics
	// (blocked on a lock it forgot to release, or looping) ends the current trace with a `stuck`
	// event - which the spec rejects - and the run; the concurrent phases have their own (waitFor).
	go func() {
		last, since := atomic.LoadInt64(&progress), time.Now()
		for {
			time.Sleep(500 * time.Millisecond)
			p := atomic.LoadInt64(&progress)
			if p != last || atomic.LoadInt64(&inCall) == 0 {
				last, since = p, time.Now()
				continue
			}
			if time.Since(since) < stuckAfter+10*time.Second {
				continue
			}
			st.Stuck++
			if r := curRunner; r != nil {
				r.flush()
				r.w.Emit(tr.E{"ev": "stuck", "src": "sequential", "a": r.cur.rec()})
			} else {
				cw.Emit(tr.E{"ev": "stuck", "src": "unknown"})
			}
			finish()
			os.Exit(0)
		}
	}()
	if *plans != "" {
		files, _ := filepath.Glob(filepath.Join(*plans, "*.ndjson"))
		sort.Strings(files)
		for pi, f := range files {
			p := readPlan(f)
			if len(p) == 0 || p[0].Op != "init" {
				tr.Fatal("plan %s does not start with init", f)
			}
			lo, hi := 1, 1
			for _, a := range p[1:] {
				for _, k := range []int{a.K, a.O, a.P - 1, a.Q - 1} {
					if k > hi {
						hi = k
					}
				}
			}
			r := newRunner(w, rng, cfg{api: p[0].Api, src: "plan:" + filepath.Base(f), deg: p[0].Deg, kind: (pi / 2) % 3, fl: []int{-1, 0, 1000}[pi%3],
				lo: lo, hi: hi, sweep: *sweep, dumpK: 1, retain: pi%2 == 1})
			for _, a := range p[1:] {
				r.step(a)
			}
			r.finish()
		}
	}
	for i := 0; i < *nhist; i++ {
		randHistory(w, rng, i, *maxops, *sweep)
	}
	cloneShapes(w, rng, *shapeEvery)
	edgeRuns(w, rng, *longRuns)
	shapeBFS(w, rng, *bfsKeys, *bfsPer)
	for i := 0; i < *npar; i++ {
		runParallel(w, rng, 2+i%3, 20+rng.Intn(30))
	}
	okc := true
	for i := 0; i < *nconc && okc; i++ {
		okc = runConc(cw, rng, 3, 4+i%3, 3+rng.Intn(4))
	}
	for i := 0; i < *nstress && okc; i++ {
		okc = runConc(cw, rng, 4, 40, 10+rng.Intn(8))
	}
	runGates(cw, rng, *ngate)
	ran, kept := runRaces(cw, rng, *nrace, *nracekeep, time.Duration(*racesecs)*time.Second)
	st.RaceRounds, st.RaceKept = ran, kept
	finish()
}
