// c03: executes B-tree plans and seeded histories against ds/tree.BTree (the locked wrapper) and
// ds/tree/btree.BTree (the vendored tree with neptune's two exclusive scans), recording one
// ndjson event per call for validation by TLC (specs/btree/BTree_Trace.tla).
//
// Logged per call: the action, the real reply and - after every write - the ascending contents
// and Len() of EVERY live handle (clone isolation) plus the node dump of the verif hook
// (well-formedness).  Nothing is judged here: a panic is logged as an event the spec has no
// arm for, everything else is just recorded.
package main

import (
	"bufio"
	"encoding/json"
	"flag"
	"fmt"
	"math/rand"
	"os"
	"path/filepath"
	"runtime"
	"sort"
	"strings"
	"sync"
	"sync/atomic"

	"github.com/pinealctx/neptune/ds/tree"
	"github.com/pinealctx/neptune/ds/tree/btree"

	"verif/harness/internal/tr"
)

// item: ordered by key only; the version tells which stored item is in the tree.
type item struct{ k, v int }

func (a item) Less(b btree.Item) bool { return a.k < b.(item).k }

type act struct {
	Op  string `json:"op"`
	H   int    `json:"h"`
	H2  int    `json:"h2"`
	K   int    `json:"k"`
	V   int    `json:"v"`
	O   int    `json:"o"`
	Fn  string `json:"fn"`
	P   int    `json:"p"`
	Q   int    `json:"q"`
	Fm  int    `json:"fm"`
	Fr  []int  `json:"fr"`
	N   int    `json:"n"`
	Fl  bool   `json:"fl"`
	Api string `json:"api"`
	Deg int    `json:"deg"`
}

func (a act) rec() tr.E {
	switch a.Op {
	case "ins", "roi":
		return tr.E{"op": a.Op, "h": a.H, "k": a.K, "v": a.V}
	case "upd", "upsert":
		return tr.E{"op": a.Op, "h": a.H, "o": a.O, "k": a.K, "v": a.V}
	case "del", "idel", "get", "has":
		return tr.E{"op": a.Op, "h": a.H, "k": a.K}
	case "delmin", "delmax", "len", "min", "max":
		return tr.E{"op": a.Op, "h": a.H}
	case "clear":
		return tr.E{"op": a.Op, "h": a.H, "fl": a.Fl}
	case "clone":
		return tr.E{"op": a.Op, "h": a.H, "h2": a.H2}
	case "scan":
		fr := a.Fr
		if fr == nil {
			fr = []int{}
		}
		return tr.E{"op": a.Op, "h": a.H, "fn": a.Fn, "p": a.P, "q": a.Q, "fm": a.Fm, "fr": fr, "n": a.N}
	}
	return tr.E{"op": a.Op}
}

func isWrite(op string) bool {
	switch op {
	case "ins", "roi", "upd", "upsert", "del", "idel", "delmin", "delmax", "clear", "clone":
		return true
	}
	return false
}

var wrapScans = []string{"AscendGte", "AscendGt", "DescendLte", "DescendLt"}
var innerScans = []string{"AscendRange", "AscendLessThan", "AscendGreaterOrEqual", "Ascend",
	"DescendRange", "DescendLessOrEqual", "DescendGreaterThan", "Descend", "AscendGreater", "DescendLess"}

func twoPivot(fn string) bool { return fn == "AscendRange" || fn == "DescendRange" }
func noPivot(fn string) bool  { return fn == "Ascend" || fn == "Descend" }

// ------------------------------------------------------------------ system under test

type sut struct {
	api  string
	deg  int
	wrap *tree.BTree
	hs   []*btree.BTree // handle h is hs[h-1]; for the wrapper hs[0] is the wrapped tree (read only)
}

func newSut(api string, deg int) *sut {
	s := &sut{api: api, deg: deg}
	if api == "wrap" {
		s.wrap = tree.NewBTree()
		s.hs = []*btree.BTree{s.wrap.VerifInner()}
	} else {
		s.hs = []*btree.BTree{btree.New(deg)}
	}
	return s
}

func pair(x btree.Item) []int { it := x.(item); return []int{it.k, it.v} }

func opt(x btree.Item) tr.E {
	if x == nil {
		return tr.E{"ok": false, "it": []int{0, 0}}
	}
	return tr.E{"ok": true, "it": pair(x)}
}

func passes(k, fm int, fr []int) bool {
	r := ((k % fm) + fm) % fm
	for _, x := range fr {
		if x == r {
			return true
		}
	}
	return false
}

// innerScan calls one of the ten range scans with an iterator that collects what passes the
// filter and asks to stop once n items are collected.  It keeps appending if it is called
// again after having returned false, so a scan that does not stop is visible in the reply.
func innerScan(t *btree.BTree, a act) [][]int {
	out := make([][]int, 0, 8)
	it := func(x btree.Item) bool {
		if a.N > 0 && passes(x.(item).k, a.Fm, a.Fr) {
			out = append(out, pair(x))
		}
		return len(out) < a.N
	}
	p, q := item{a.P, 0}, item{a.Q, 0}
	switch a.Fn {
	case "AscendRange":
		t.AscendRange(p, q, it)
	case "AscendLessThan":
		t.AscendLessThan(p, it)
	case "AscendGreaterOrEqual":
		t.AscendGreaterOrEqual(p, it)
	case "Ascend":
		t.Ascend(it)
	case "DescendRange":
		t.DescendRange(p, q, it)
	case "DescendLessOrEqual":
		t.DescendLessOrEqual(p, it)
	case "DescendGreaterThan":
		t.DescendGreaterThan(p, it)
	case "Descend":
		t.Descend(it)
	case "AscendGreater":
		t.AscendGreater(p, it)
	case "DescendLess":
		t.DescendLess(p, it)
	default:
		tr.Fatal("unknown inner scan %q", a.Fn)
	}
	return out
}

func wrapScan(b *tree.BTree, a act) [][]int {
	f := func(n tree.Node) bool { return passes(n.(item).k, a.Fm, a.Fr) }
	var ns []tree.Node
	p := item{a.P, 0}
	switch a.Fn {
	case "AscendGte":
		ns = b.AscendGte(p, f, a.N)
	case "AscendGt":
		ns = b.AscendGt(p, f, a.N)
	case "DescendLte":
		ns = b.DescendLte(p, f, a.N)
	case "DescendLt":
		ns = b.DescendLt(p, f, a.N)
	default:
		tr.Fatal("unknown wrapper scan %q", a.Fn)
	}
	out := make([][]int, 0, len(ns))
	for _, n := range ns {
		out = append(out, pair(n))
	}
	return out
}

func (s *sut) do(a act) interface{} {
	if s.api == "wrap" {
		b := s.wrap
		switch a.Op {
		case "ins":
			b.Insert(item{a.K, a.V})
			return 0
		case "upd":
			return b.Update(item{a.O, 0}, item{a.K, a.V})
		case "upsert":
			return b.UpdateOrInsert(item{a.O, 0}, item{a.K, a.V})
		case "del":
			return b.Delete(item{a.K, 0})
		case "get":
			return opt(b.Get(item{a.K, 0}))
		case "scan":
			return wrapScan(b, a)
		case "nop":
			return 0
		}
		tr.Fatal("wrapper has no op %q", a.Op)
	}
	if a.Op == "nop" {
		return 0
	}
	if a.H < 1 || a.H > len(s.hs) {
		tr.Fatal("handle %d not live", a.H)
	}
	t := s.hs[a.H-1]
	switch a.Op {
	case "roi":
		return opt(t.ReplaceOrInsert(item{a.K, a.V}))
	case "idel":
		return opt(t.Delete(item{a.K, 0}))
	case "delmin":
		return opt(t.DeleteMin())
	case "delmax":
		return opt(t.DeleteMax())
	case "get":
		return opt(t.Get(item{a.K, 0}))
	case "has":
		return t.Has(item{a.K, 0})
	case "len":
		return t.Len()
	case "min":
		return opt(t.Min())
	case "max":
		return opt(t.Max())
	case "clear":
		t.Clear(a.Fl)
		return 0
	case "clone":
		s.hs = append(s.hs, t.Clone())
		return 0
	case "scan":
		return innerScan(t, a)
	}
	tr.Fatal("inner tree has no op %q", a.Op)
	return nil
}

// safeDo converts a panic inside the library into an event the spec cannot explain.
func (s *sut) safeDo(a act) (r interface{}, panicked bool) {
	defer func() {
		if p := recover(); p != nil {
			r = fmt.Sprintf("panic: %v", p)
			panicked = true
		}
	}()
	return s.do(a), false
}

func contents(t *btree.BTree) [][]int {
	out := make([][]int, 0, t.Len())
	t.Ascend(func(x btree.Item) bool { out = append(out, pair(x)); return true })
	return out
}

func conv(n *btree.VerifNode) tr.E {
	if n == nil {
		return tr.E{"items": [][]int{}, "ch": []tr.E{}}
	}
	its := make([][]int, 0, len(n.Items))
	for _, x := range n.Items {
		its = append(its, pair(x))
	}
	ch := make([]tr.E, 0, len(n.Children))
	for _, c := range n.Children {
		ch = append(ch, conv(c))
	}
	return tr.E{"items": its, "ch": ch}
}

func dumpOf(h int, t *btree.BTree) tr.E {
	d, l, root := t.VerifDump()
	return tr.E{"h": h, "deg": d, "len": l, "root": conv(root)}
}

// signature of the inner structure: node arities and separator keys (changes on split, merge,
// steal, root growth/collapse, separator replacement)
func sig(n *btree.VerifNode, sb *strings.Builder) {
	if n == nil {
		return
	}
	if len(n.Children) == 0 {
		fmt.Fprintf(sb, "%d", len(n.Items))
		return
	}
	sb.WriteByte('(')
	for i, c := range n.Children {
		sig(c, sb)
		if i < len(n.Items) {
			fmt.Fprintf(sb, "|%d|", n.Items[i].(item).k)
		}
	}
	sb.WriteByte(')')
}

func shape(t *btree.BTree) (string, int, []int) {
	_, _, root := t.VerifDump()
	var sb strings.Builder
	sig(root, &sb)
	height := 0
	var seps []int
	var walk func(n *btree.VerifNode, d int)
	walk = func(n *btree.VerifNode, d int) {
		if n == nil {
			return
		}
		if d > height {
			height = d
		}
		if len(n.Children) > 0 {
			for _, x := range n.Items {
				seps = append(seps, x.(item).k)
			}
		}
		for _, c := range n.Children {
			walk(c, d+1)
		}
	}
	walk(root, 1)
	return sb.String(), height, seps
}

// obs: contents + Len of the listed handles (all live ones when full), dumps of the listed ones
func (s *sut) obs(full bool, hs []int, dumps []int) tr.E {
	if full {
		hs = hs[:0]
		for h := 1; h <= len(s.hs); h++ {
			hs = append(hs, h)
		}
	}
	all := make([]tr.E, 0, len(hs))
	for _, h := range hs {
		t := s.hs[h-1]
		all = append(all, tr.E{"h": h, "items": contents(t), "len": t.Len()})
	}
	ds := make([]tr.E, 0, len(dumps))
	for _, h := range dumps {
		ds = append(ds, dumpOf(h, s.hs[h-1]))
	}
	return tr.E{"full": full, "all": all, "dumps": ds}
}

// ------------------------------------------------------------------ statistics (evidence only)

type stats struct {
	Events, Writes, Scans, Sweeps, Changes, MaxHeight, MaxKeys, Clones, Panics, RaceRounds, RaceKept int
	Heights                                                                                          map[int]int
	Degrees                                                                                          map[int]int
}

var st = stats{Heights: map[int]int{}, Degrees: map[int]int{}}

// ------------------------------------------------------------------ sequential runner

type runner struct {
	w      *tr.W
	s      *sut
	rng    *rand.Rand
	lo, hi int // key domain (pivots are drawn from lo-1..hi+1)
	ver    int
	sweep  int            // probability (percent) of a scan sweep when the node structure changed
	dumpK  int            // dump / full contents every dumpK-th write (1 = every write)
	nw     int            // writes so far
	last   map[int]string // structure signature per handle after its latest write
	dead   bool
	done   act // the action as executed (version / new handle filled in)
	// sh: the generator's own idea of which keys each handle holds, computed from the calls it
	// issued (never from the tree's answers); used only to bias key choice towards present keys.
	sh []map[int]bool
}

func (r *runner) shadow(a act) {
	for len(r.sh) < 1 {
		r.sh = append(r.sh, map[int]bool{})
	}
	if a.Op == "clone" {
		c := map[int]bool{}
		for k := range r.sh[a.H-1] {
			c[k] = true
		}
		r.sh = append(r.sh, c)
		return
	}
	if a.H < 1 || a.H > len(r.sh) {
		return
	}
	m := r.sh[a.H-1]
	ext := func(max bool) (int, bool) {
		best, ok := 0, false
		for k := range m {
			if !ok || (max && k > best) || (!max && k < best) {
				best, ok = k, true
			}
		}
		return best, ok
	}
	switch a.Op {
	case "ins", "roi":
		m[a.K] = true
	case "upd":
		if m[a.O] {
			delete(m, a.O)
			m[a.K] = true
		}
	case "upsert":
		delete(m, a.O)
		m[a.K] = true
	case "del", "idel":
		delete(m, a.K)
	case "delmin":
		if k, ok := ext(false); ok {
			delete(m, k)
		}
	case "delmax":
		if k, ok := ext(true); ok {
			delete(m, k)
		}
	case "clear":
		r.sh[a.H-1] = map[int]bool{}
	}
}

func (r *runner) emitCall(a act, withObs bool) {
	if r.dead {
		return
	}
	if a.Op == "ins" || a.Op == "roi" || a.Op == "upd" || a.Op == "upsert" {
		r.ver++
		a.V = r.ver
	}
	if a.Op == "clone" {
		a.H2 = len(r.s.hs) + 1
		st.Clones++
	}
	rep, panicked := r.s.safeDo(a)
	r.done = a
	if panicked {
		st.Panics++
		r.w.Emit(tr.E{"ev": "panic", "a": a.rec(), "msg": tr.Str(rep.(string))})
		r.dead = true // the tree may be in any state; the trace ends here (and is rejected)
		return
	}
	if a.Op == "scan" {
		st.Scans++
	}
	if !withObs {
		r.w.Emit(tr.E{"ev": "callr", "a": a.rec(), "r": rep})
		return
	}
	r.nw++
	st.Writes++
	full := r.dumpK <= 1 || r.nw%r.dumpK == 0
	var dumps []int
	if full {
		for h := 1; h <= len(r.s.hs); h++ {
			dumps = append(dumps, h)
		}
	}
	hs := []int{}
	if a.Op != "nop" && a.H >= 1 {
		hs = append(hs, a.H)
	}
	if a.Op == "clone" {
		hs = append(hs, a.H2)
	}
	r.w.Emit(tr.E{"ev": "call", "a": a.rec(), "r": rep, "obs": r.s.obs(full, hs, dumps)})
}

func (r *runner) step(a act) {
	if r.dead {
		return
	}
	if !isWrite(a.Op) {
		r.emitCall(a, false)
		return
	}
	r.emitCall(a, true)
	if r.dead {
		return
	}
	a = r.done
	r.shadow(a)
	h := a.H
	if a.Op == "clone" {
		h = a.H2
	}
	t := r.s.hs[h-1]
	sg, height, _ := shape(t)
	st.Heights[height]++
	if height > st.MaxHeight {
		st.MaxHeight = height
	}
	if t.Len() > st.MaxKeys {
		st.MaxKeys = t.Len()
	}
	if sg != r.last[h] { // the node structure changed (split, merge, steal, root growth / collapse, new separator)
		r.last[h] = sg
		st.Changes++
		if r.rng.Intn(100) < r.sweep {
			r.doSweep(h)
		}
	}
}

var filterMenu = []struct {
	fm int
	fr []int
}{{1, []int{0}}, {1, []int{0}}, {2, []int{0}}, {2, []int{1}}, {3, []int{0, 2}}, {3, []int{1}}, {1, []int{}}, {5, []int{1, 2, 3}}}

func (r *runner) randFilterN(a *act) {
	f := filterMenu[r.rng.Intn(len(filterMenu))]
	a.Fm, a.Fr = f.fm, f.fr
	switch r.rng.Intn(6) {
	case 0:
		a.N = 0
	case 1:
		a.N = 1
	case 2:
		a.N = 2 + r.rng.Intn(3)
	default:
		a.N = 1000 // more than any tree here: the unbounded scan
	}
}

// pivots worth scanning from: every key and gap of a small domain; for a large one the
// boundaries, every separator key of an inner node with its neighbours, and a random sample
func (r *runner) pivots(h int) []int {
	set := map[int]bool{r.lo - 1: true, r.hi + 1: true, r.lo: true, r.hi: true}
	if r.hi-r.lo <= 16 {
		for p := r.lo - 1; p <= r.hi+1; p++ {
			set[p] = true
		}
	} else {
		_, _, seps := shape(r.s.hs[h-1])
		if len(seps) > 6 {
			r.rng.Shuffle(len(seps), func(i, j int) { seps[i], seps[j] = seps[j], seps[i] })
			seps = seps[:6]
		}
		for _, k := range seps {
			set[k-1], set[k], set[k+1] = true, true, true
		}
		for i := 0; i < 5; i++ {
			set[r.lo+r.rng.Intn(r.hi-r.lo+1)] = true
		}
	}
	out := make([]int, 0, len(set))
	for p := range set {
		out = append(out, p)
	}
	sort.Ints(out)
	return out
}

// doSweep: the exclusive scans added by neptune and their inclusive counterparts from EVERY
// chosen pivot; the other upstream entry points from a random quarter of them (all of them from
// the boundary pivots); filter and limit drawn per scan.
func (r *runner) doSweep(h int) {
	st.Sweeps++
	ps := r.pivots(h)
	scan := func(fn string, p, q int) {
		a := act{Op: "scan", H: h, Fn: fn, P: p, Q: q}
		r.randFilterN(&a)
		r.emitCall(a, false)
	}
	if r.s.api == "wrap" {
		for _, fn := range wrapScans {
			for _, p := range ps {
				scan(fn, p, 0)
			}
		}
		return
	}
	for _, fn := range []string{"AscendGreater", "DescendLess", "AscendGreaterOrEqual", "DescendLessOrEqual"} {
		for _, p := range ps {
			scan(fn, p, 0)
		}
	}
	scan("Ascend", 0, 0)
	scan("Descend", 0, 0)
	for i, p := range ps {
		edge := i == 0 || i == len(ps)-1
		for _, fn := range []string{"AscendLessThan", "DescendGreaterThan"} {
			if edge || r.rng.Intn(4) == 0 {
				scan(fn, p, 0)
			}
		}
		for _, fn := range []string{"AscendRange", "DescendRange"} {
			if edge || r.rng.Intn(4) == 0 {
				scan(fn, p, ps[r.rng.Intn(len(ps))])
			}
		}
	}
}

func (r *runner) finish() {
	if r.dead {
		return
	}
	for h := 1; h <= len(r.s.hs); h++ {
		r.doSweep(h)
	}
	// closing observation of everything (full, with dumps)
	k := r.dumpK
	r.dumpK = 1
	r.emitCall(act{Op: "nop"}, true)
	r.dumpK = k
}

func newRunner(w *tr.W, rng *rand.Rand, api string, deg, lo, hi, sweep, dumpK int, src string) *runner {
	w.Emit(tr.E{"ev": "reset", "api": api, "deg": deg, "threads": 1, "src": src, "lo": lo, "hi": hi})
	st.Degrees[deg]++
	return &runner{w: w, s: newSut(api, deg), rng: rng, lo: lo, hi: hi, sweep: sweep, dumpK: dumpK, last: map[int]string{}}
}

// ------------------------------------------------------------------ plans

func readPlan(path string) []act {
	f, err := os.Open(path)
	if err != nil {
		tr.Fatal("%v", err)
	}
	defer f.Close()
	var out []act
	sc := bufio.NewScanner(f)
	sc.Buffer(make([]byte, 1<<20), 1<<20)
	for sc.Scan() {
		var a act
		if err := json.Unmarshal(sc.Bytes(), &a); err != nil {
			tr.Fatal("plan %s: %v", path, err)
		}
		out = append(out, a)
	}
	return out
}

// ------------------------------------------------------------------ seeded histories

// randHistory: grow / churn / shrink phases with ascending, descending and random key orders so
// that splits at every level, steals from both siblings, merges and root collapse occur.
func randHistory(w *tr.W, rng *rand.Rand, idx, maxops, sweep int) {
	api := "inner"
	deg := []int{2, 2, 3, 4, 8, 5}[rng.Intn(6)]
	if idx%3 == 0 {
		api, deg = "wrap", 2
	}
	var nkeys int
	switch rng.Intn(5) {
	case 0:
		nkeys = 6 + rng.Intn(6)
	case 1, 2:
		nkeys = 14 + rng.Intn(20)
	default:
		nkeys = 30 + rng.Intn(31) // <= 60
	}
	dumpK := 1
	if idx%11 == 10 { // a large one: keys 0..200, observations every 6th write
		nkeys, dumpK = 201, 6
	}
	lo := rng.Intn(3) // domain lo..lo+nkeys-1, pivots from lo-1 (may be -1: below every key)
	hi := lo + nkeys - 1
	r := newRunner(w, rng, api, deg, lo, hi, sweep, dumpK, "rand")
	nops := maxops/2 + rng.Intn(maxops/2+1)
	if dumpK > 1 {
		nops = maxops * 2
	}
	key := func() int { return lo + rng.Intn(nkeys) }
	present := func(h int) (int, bool) { // a key the generator believes to be in handle h
		if h > len(r.sh) || len(r.sh[h-1]) == 0 {
			return 0, false
		}
		ks := make([]int, 0, len(r.sh[h-1]))
		for k := range r.sh[h-1] {
			ks = append(ks, k)
		}
		sort.Ints(ks)
		return ks[rng.Intn(len(ks))], true
	}
	believed := func(h int) int {
		if h > len(r.sh) {
			return 0
		}
		return len(r.sh[h-1])
	}
	handle := func() int { return 1 + rng.Intn(len(r.s.hs)) }
	mode := rng.Intn(4) // 0 random, 1 ascending run, 2 descending run, 3 random
	cursor := lo
	if mode == 2 {
		cursor = hi
	}
	for i := 0; i < nops && !r.dead; i++ {
		phase := (i * 3) / nops // 0 grow, 1 churn, 2 shrink
		pIns := []int{70, 45, 20}[phase]
		h := handle()
		x := rng.Intn(100)
		k := key()
		if x < pIns && mode != 0 && mode != 3 && rng.Intn(4) > 0 {
			k = cursor
			if mode == 1 {
				cursor++
				if cursor > hi {
					cursor = lo
				}
			} else {
				cursor--
				if cursor < lo {
					cursor = hi
				}
			}
		}
		if api == "wrap" {
			switch {
			case x < pIns:
				switch rng.Intn(6) {
				case 0:
					o := key()
					if pk, ok := present(1); ok && rng.Intn(3) > 0 {
						o = pk
					}
					r.step(act{Op: "upd", H: 1, O: o, K: k})
				case 1:
					o := key()
					if pk, ok := present(1); ok && rng.Intn(2) > 0 {
						o = pk
					}
					r.step(act{Op: "upsert", H: 1, O: o, K: k})
				default:
					r.step(act{Op: "ins", H: 1, K: k})
				}
			case x < 88:
				if pk, ok := present(1); ok && rng.Intn(5) > 0 {
					k = pk
				}
				r.step(act{Op: "del", H: 1, K: k})
			case x < 93:
				r.step(act{Op: "get", H: 1, K: k})
			default:
				a := act{Op: "scan", H: 1, Fn: wrapScans[rng.Intn(4)], P: lo - 1 + rng.Intn(nkeys+2)}
				r.randFilterN(&a)
				r.step(a)
			}
			continue
		}
		switch {
		case x < pIns:
			r.step(act{Op: "roi", H: h, K: k})
		case x < 84:
			if pk, ok := present(h); ok && rng.Intn(5) > 0 {
				k = pk
			}
			switch rng.Intn(8) {
			case 0:
				r.step(act{Op: "delmin", H: h})
			case 1:
				r.step(act{Op: "delmax", H: h})
			default:
				r.step(act{Op: "idel", H: h, K: k})
			}
		case x < 87:
			if len(r.s.hs) < 4 && believed(h) > 2 {
				r.step(act{Op: "clone", H: h})
			} else {
				r.step(act{Op: "len", H: h})
			}
		case x < 88:
			if rng.Intn(4) == 0 {
				r.step(act{Op: "clear", H: h, Fl: rng.Intn(2) == 0})
			} else {
				r.step(act{Op: "min", H: h})
			}
		case x < 94:
			op := []string{"get", "has", "len", "min", "max"}[rng.Intn(5)]
			r.step(act{Op: op, H: h, K: k})
		default:
			fn := innerScans[rng.Intn(len(innerScans))]
			a := act{Op: "scan", H: h, Fn: fn}
			if !noPivot(fn) {
				a.P = lo - 1 + rng.Intn(nkeys+2)
			}
			if twoPivot(fn) {
				a.Q = lo - 1 + rng.Intn(nkeys+2)
			}
			r.randFilterN(&a)
			r.step(a)
		}
	}
	r.finish()
}

// ------------------------------------------------------------------ clones in parallel

// pevent: an event of the parallel phase; handle numbers of clones made inside the phase are
// assigned when the per-goroutine logs are written out one after the other (the spec numbers
// handles in log order; trees of different goroutines never interact, so any merge order of
// the per-goroutine logs is a faithful sequential history iff each of them is one).
type phandle struct {
	id int
	t  *btree.BTree
}
type pevent struct {
	a     act
	h, h2 *phandle
	r     interface{}
	panic bool
	own   []*phandle
	items [][][]int
	lens  []int
}

func runParallel(w *tr.W, rng *rand.Rand, nthreads, opsPer int) {
	deg := []int{2, 2, 3, 4}[rng.Intn(4)]
	nkeys := 12 + rng.Intn(30)
	r := newRunner(w, rng, "inner", deg, 0, nkeys-1, 0, 1, "parallel")
	// base tree, sequentially
	for i := 0; i < nkeys; i++ {
		if rng.Intn(4) > 0 {
			r.step(act{Op: "roi", H: 1, K: rng.Intn(nkeys)})
		}
	}
	for i := 0; i < nthreads-1; i++ { // one clone per further goroutine, some of them clones of clones
		r.step(act{Op: "clone", H: 1 + rng.Intn(len(r.s.hs))})
	}
	if r.dead {
		return
	}
	ver := r.ver
	hs := make([]*phandle, len(r.s.hs))
	for i, t := range r.s.hs {
		hs[i] = &phandle{id: i + 1, t: t}
	}
	logs := make([][]pevent, nthreads)
	seeds := make([]int64, nthreads)
	for i := range seeds {
		seeds[i] = rng.Int63()
	}
	var wg sync.WaitGroup
	start := make(chan struct{})
	for g := 0; g < nthreads; g++ {
		wg.Add(1)
		go func(g int) {
			defer wg.Done()
			lr := rand.New(rand.NewSource(seeds[g]))
			mine := []*phandle{hs[g]}
			v := ver + g*100000
			<-start
			for i := 0; i < opsPer; i++ {
				ph := mine[lr.Intn(len(mine))]
				k := lr.Intn(nkeys)
				var a act
				switch x := lr.Intn(100); {
				case x < 40:
					v++
					a = act{Op: "roi", K: k, V: v}
				case x < 70:
					a = act{Op: "idel", K: k}
				case x < 74:
					a = act{Op: []string{"delmin", "delmax"}[lr.Intn(2)]}
				case x < 78 && len(mine) < 3:
					a = act{Op: "clone"}
				case x < 80:
					a = act{Op: "clear", Fl: lr.Intn(2) == 0}
				case x < 88:
					a = act{Op: []string{"get", "has", "len", "min", "max"}[lr.Intn(5)], K: k}
				default:
					fn := innerScans[lr.Intn(len(innerScans))]
					a = act{Op: "scan", Fn: fn, P: lr.Intn(nkeys+2) - 1, Q: lr.Intn(nkeys+2) - 1, Fm: 1 + lr.Intn(3), Fr: []int{0}, N: []int{0, 1, 3, 1000}[lr.Intn(4)]}
					if noPivot(fn) {
						a.P = 0
					}
					if !twoPivot(fn) {
						a.Q = 0
					}
				}
				ev := pevent{a: a, h: ph}
				func() {
					defer func() {
						if p := recover(); p != nil {
							ev.r, ev.panic = fmt.Sprintf("panic: %v", p), true
						}
					}()
					if a.Op == "clone" {
						nh := &phandle{t: ph.t.Clone()}
						mine = append(mine, nh)
						ev.h2, ev.r = nh, 0
					} else {
						one := &sut{api: "inner", deg: deg, hs: []*btree.BTree{ph.t}}
						b := a
						b.H = 1
						ev.r = one.do(b)
					}
				}()
				if !ev.panic && isWrite(a.Op) {
					for _, m := range mine { // everything this goroutine owns: isolation among its own clones
						ev.own = append(ev.own, m)
						ev.items = append(ev.items, contents(m.t))
						ev.lens = append(ev.lens, m.t.Len())
					}
				}
				logs[g] = append(logs[g], ev)
				if ev.panic {
					return
				}
			}
		}(g)
	}
	close(start)
	wg.Wait()
	next := len(hs) + 1
	final := append([]*phandle{}, hs...)
	for g := range logs {
		for _, ev := range logs[g] {
			a := ev.a
			a.H = ev.h.id
			if ev.panic {
				st.Panics++
				w.Emit(tr.E{"ev": "panic", "a": a.rec(), "msg": tr.Str(ev.r.(string))})
				return
			}
			if a.Op == "clone" {
				ev.h2.id = next
				next++
				a.H2 = ev.h2.id
				final = append(final, ev.h2)
				st.Clones++
			}
			if !isWrite(a.Op) {
				w.Emit(tr.E{"ev": "callr", "a": a.rec(), "r": ev.r})
				continue
			}
			st.Writes++
			all := make([]tr.E, 0, len(ev.own))
			for i, m := range ev.own {
				all = append(all, tr.E{"h": m.id, "items": ev.items[i], "len": ev.lens[i]})
			}
			w.Emit(tr.E{"ev": "call", "a": a.rec(), "r": ev.r,
				"obs": tr.E{"full": false, "all": all, "dumps": []tr.E{}}})
		}
	}
	// after the join: every handle, contents and structure
	all := make([]tr.E, 0, len(final))
	ds := make([]tr.E, 0, len(final))
	for _, m := range final {
		all = append(all, tr.E{"h": m.id, "items": contents(m.t), "len": m.t.Len()})
		ds = append(ds, dumpOf(m.id, m.t))
	}
	w.Emit(tr.E{"ev": "call", "a": tr.E{"op": "nop"}, "r": 0, "obs": tr.E{"full": true, "all": all, "dumps": ds}})
}

// ------------------------------------------------------------------ the locked wrapper, concurrently

// runConc: T goroutines call the wrapper freely; inv/res are appended to one log under a mutex
// taken outside the wrapper's lock, so the log order is consistent with real time and the
// effect of a call lies between its inv and its res.  TLC searches for a linearization.
func runConc(w *tr.W, rng *rand.Rand, threads, opsPer, nkeys int) {
	s := newSut("wrap", 2)
	var mu sync.Mutex
	var evs []tr.E
	logf := func(e tr.E) {
		mu.Lock()
		evs = append(evs, e)
		mu.Unlock()
	}
	// a few keys first (sequentially, logged as inv/res of thread 1) so that the tree has inner nodes
	ver := 0
	pre := 2 + rng.Intn(nkeys)
	for i := 0; i < pre; i++ {
		ver++
		a := act{Op: "ins", H: 1, K: rng.Intn(nkeys), V: ver}
		logf(tr.E{"ev": "inv", "t": 1, "a": a.rec()})
		r, _ := s.safeDo(a)
		logf(tr.E{"ev": "res", "t": 1, "r": r})
	}
	progs := make([][]act, threads)
	for t := range progs {
		writer := t < (threads+1)/2
		for i := 0; i < opsPer; i++ {
			k := rng.Intn(nkeys)
			x := rng.Intn(100)
			var a act
			switch {
			case writer && x < 35:
				ver++
				a = act{Op: "ins", H: 1, K: k, V: ver}
			case writer && x < 50:
				ver++
				a = act{Op: []string{"upd", "upsert"}[rng.Intn(2)], H: 1, O: rng.Intn(nkeys), K: k, V: ver}
			case writer && x < 80:
				a = act{Op: "del", H: 1, K: k}
			case x < 60 || (writer && x < 90):
				a = act{Op: "get", H: 1, K: k}
			default:
				a = act{Op: "scan", H: 1, Fn: wrapScans[rng.Intn(4)], P: rng.Intn(nkeys+2) - 1,
					Fm: 1 + rng.Intn(2), Fr: []int{0}, N: []int{1, 2, 1000}[rng.Intn(3)]}
			}
			progs[t] = append(progs[t], a)
		}
	}
	var wg sync.WaitGroup
	start := make(chan struct{})
	var pmu sync.Mutex
	panicked := false
	for t := 0; t < threads; t++ {
		wg.Add(1)
		go func(t int) {
			defer wg.Done()
			<-start
			for _, a := range progs[t] {
				logf(tr.E{"ev": "inv", "t": t + 1, "a": a.rec()})
				r, p := s.safeDo(a)
				if p {
					pmu.Lock()
					panicked = true
					pmu.Unlock()
					logf(tr.E{"ev": "panic", "a": a.rec(), "msg": tr.Str(r.(string))})
					return
				}
				logf(tr.E{"ev": "res", "t": t + 1, "r": r})
			}
		}(t)
	}
	close(start)
	wg.Wait()
	w.Emit(tr.E{"ev": "reset", "api": "wrap", "deg": 2, "threads": threads, "src": "conc", "lo": 0, "hi": nkeys - 1})
	for _, e := range evs {
		w.Emit(e)
	}
	if panicked {
		st.Panics++
		return
	}
	w.Emit(tr.E{"ev": "final", "obs": s.obs(true, nil, []int{1})})
}

// ------------------------------------------------------------------ race rounds on the wrapper

// runRaces: many tiny rounds.  A fresh wrapper holding 2..6 keys; 2 or 3 goroutines, released
// together by a spin barrier, each issue one (sometimes two) wrapper calls that all concern ONE hot
// key: every writer (Insert, Update, UpdateOrInsert, Delete) against every writer and against Get
// and the four scans, on a present and on an absent hot key, plus random mixes.  inv/res carry a
// global atomic sequence number drawn before the call starts / after it returned, so the merged
// order is consistent with real time without any lock of the harness in the way.  Only rounds in
// which calls really overlapped are kept; each ends with the sequential contents + dump.  TLC
// searches for a linearization; nothing is judged here.
func runRaces(w *tr.W, rng *rand.Rand, rounds, keep int) (int, int) {
	writers := []string{"ins", "upd", "upsert", "del"}
	every := []string{"ins", "upd", "upsert", "del", "get", "AscendGte", "AscendGt", "DescendLte", "DescendLt"}
	kept, ran := 0, 0
	const hot = 5
	for r := 0; r < rounds && kept < keep; r++ {
		ran++
		s := newSut("wrap", 2)
		ver := 0
		mk := func(kind string, t int) act {
			ver++
			nk := 10 + t // the key a thread moves the hot node to: distinct per thread ...
			if rng.Intn(4) == 0 {
				nk = 10 // ... or contended as well
			}
			switch kind {
			case "ins":
				return act{Op: "ins", H: 1, K: hot, V: ver}
			case "upd", "upsert":
				return act{Op: kind, H: 1, O: hot, K: nk, V: ver}
			case "del":
				return act{Op: "del", H: 1, K: hot}
			case "get":
				return act{Op: "get", H: 1, K: hot}
			}
			return act{Op: "scan", H: 1, Fn: kind, P: hot, Fm: 1, Fr: []int{0}, N: []int{1, 2, 1000}[rng.Intn(3)]}
		}
		// prefill (sequential, recorded): 2..6 keys around the hot key, hot itself present or not
		var hotIn bool
		threads := 2
		progs := make([][]act, 0, 3)
		var pre []act
		nfill := 2 + rng.Intn(5)
		for _, k := range rng.Perm(9)[:nfill] {
			if k+1 != hot {
				ver++
				pre = append(pre, act{Op: "ins", H: 1, K: k + 1, V: ver})
			}
		}
		if r%2 == 0 {
			c := r / 2
			a, b := writers[c%len(writers)], every[(c/len(writers))%len(every)]
			hotIn = (c/(len(writers)*len(every)))%3 != 2 // two rounds in three on a present key
			progs = append(progs, []act{mk(a, 0)}, []act{mk(b, 1)})
		} else {
			threads = 2 + rng.Intn(2)
			hotIn = rng.Intn(3) > 0
			for t := 0; t < threads; t++ {
				var pr []act
				for i := 0; i < 1+rng.Intn(2); i++ {
					kind := every[rng.Intn(len(every))]
					if t == 0 && i == 0 {
						kind = writers[rng.Intn(len(writers))]
					}
					pr = append(pr, mk(kind, t))
				}
				progs = append(progs, pr)
			}
		}
		if hotIn {
			ver++
			pre = append(pre, act{Op: "ins", H: 1, K: hot, V: ver})
		}
		type sev struct {
			seq int64
			e   tr.E
		}
		prelog := make([]tr.E, 0, len(pre))
		dead := false
		for _, a := range pre {
			rep, p := s.safeDo(a)
			if p {
				prelog = append(prelog, tr.E{"ev": "panic", "a": a.rec(), "msg": tr.Str(rep.(string))})
				dead = true
				break
			}
			prelog = append(prelog, tr.E{"ev": "callr", "a": a.rec(), "r": rep})
		}
		per := make([][]sev, threads)
		if !dead {
			var seq int64
			var goFlag, readyCnt int32
			var wg sync.WaitGroup
			for t := 0; t < threads; t++ {
				wg.Add(1)
				go func(t int) {
					defer wg.Done()
					atomic.AddInt32(&readyCnt, 1)
					for atomic.LoadInt32(&goFlag) == 0 {
					}
					for _, a := range progs[t] {
						per[t] = append(per[t], sev{atomic.AddInt64(&seq, 1), tr.E{"ev": "inv", "t": t + 1, "a": a.rec()}})
						rep, p := s.safeDo(a)
						if p {
							per[t] = append(per[t], sev{atomic.AddInt64(&seq, 1), tr.E{"ev": "panic", "a": a.rec(), "msg": tr.Str(rep.(string))}})
							return
						}
						per[t] = append(per[t], sev{atomic.AddInt64(&seq, 1), tr.E{"ev": "res", "t": t + 1, "r": rep}})
					}
				}(t)
			}
			for atomic.LoadInt32(&readyCnt) < int32(threads) {
				runtime.Gosched()
			}
			atomic.StoreInt32(&goFlag, 1)
			wg.Wait()
		}
		var all []sev
		for _, p := range per {
			all = append(all, p...)
		}
		sort.Slice(all, func(i, j int) bool { return all[i].seq < all[j].seq })
		open, overlap, panicked := 0, false, dead
		for _, x := range all {
			switch x.e["ev"] {
			case "inv":
				open++
				if open > 1 {
					overlap = true
				}
			case "res":
				open--
			default:
				panicked = true
			}
		}
		if !overlap && !panicked {
			continue
		}
		kept++
		w.Emit(tr.E{"ev": "reset", "api": "wrap", "deg": 2, "threads": threads, "src": "race", "lo": 1, "hi": 13})
		for _, e := range prelog {
			w.Emit(e)
		}
		for _, x := range all {
			w.Emit(x.e)
		}
		if panicked {
			st.Panics++
			continue
		}
		w.Emit(tr.E{"ev": "final", "obs": s.obs(true, nil, []int{1})})
	}
	return ran, kept
}

// ------------------------------------------------------------------ main

func main() {
	plans := flag.String("plans", "", "directory of TLC-generated plans")
	out := flag.String("out", "seq.ndjson", "sequential traces (plans, histories, parallel clones)")
	conc := flag.String("conc", "conc.ndjson", "concurrent wrapper traces")
	seed := flag.Int64("seed", 1, "seed")
	nhist := flag.Int("hist", 100, "random histories")
	maxops := flag.Int("maxops", 160, "max ops per history")
	npar := flag.Int("npar", 20, "parallel-clone histories")
	nconc := flag.Int("nconc", 60, "concurrent wrapper histories")
	nstress := flag.Int("nstress", 6, "long concurrent wrapper histories")
	nrace := flag.Int("nrace", 20000, "race rounds on the wrapper (at most)")
	nracekeep := flag.Int("nracekeep", 1200, "race rounds with real overlap to keep")
	sweep := flag.Int("sweep", 4, "probability (percent) of a scan sweep after a write that changed the node structure (always one per handle at the end of a trace)")
	statf := flag.String("stats", "", "write statistics (json) here")
	flag.Parse()
	rng := rand.New(rand.NewSource(*seed))

	w := tr.Create(*out)
	if *plans != "" {
		files, _ := filepath.Glob(filepath.Join(*plans, "*.ndjson"))
		sort.Strings(files)
		for _, f := range files {
			p := readPlan(f)
			if len(p) == 0 || p[0].Op != "init" {
				tr.Fatal("plan %s does not start with init", f)
			}
			lo, hi := 1, 1
			for _, a := range p[1:] {
				for _, k := range []int{a.K, a.O, a.P - 1, a.Q - 1} {
					if k > hi {
						hi = k
					}
				}
			}
			r := newRunner(w, rng, p[0].Api, p[0].Deg, lo, hi, *sweep, 1, "plan:"+filepath.Base(f))
			for _, a := range p[1:] {
				r.step(a)
			}
			r.finish()
		}
	}
	for i := 0; i < *nhist; i++ {
		randHistory(w, rng, i, *maxops, *sweep)
	}
	for i := 0; i < *npar; i++ {
		runParallel(w, rng, 2+i%3, 20+rng.Intn(30))
	}
	w.Close()

	cw := tr.Create(*conc)
	for i := 0; i < *nconc; i++ {
		runConc(cw, rng, 3, 4+i%3, 3+rng.Intn(4))
	}
	for i := 0; i < *nstress; i++ {
		runConc(cw, rng, 4, 40, 10+rng.Intn(8))
	}
	ran, kept := runRaces(cw, rng, *nrace, *nracekeep)
	st.RaceRounds, st.RaceKept = ran, kept
	cw.Close()
	st.Events = w.N() + cw.N()
	if *statf != "" {
		bs, _ := json.Marshal(st)
		if err := os.WriteFile(*statf, bs, 0o644); err != nil {
			tr.Fatal("%v", err)
		}
	}
	fmt.Printf("seq_events=%d conc_events=%d max_height=%d panics=%d\n", w.N(), cw.N(), st.MaxHeight, st.Panics)
}
