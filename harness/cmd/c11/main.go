// c11: drives neptune's tex.Buffer and the standard bytes.Buffer through the same operation
// sequences (TLC plans + seeded boundary-biased histories) and records, for each of the two, one
// ndjson trace per history: every call with its reply (result, error, panic) and the unread
// content afterwards.  Both files are validated by TLC against specs/bytebuffer/ByteBuffer_Trace.tla;
// a rejected tex trace is the violation, a rejected bytes.Buffer trace means the spec is wrong.
package main

import (
	"bufio"
	"bytes"
	"encoding/json"
	"errors"
	"flag"
	"fmt"
	"io"
	"math"
	"math/rand"
	"os"
	"path/filepath"
	"runtime"
	"sort"
	"strings"
	"sync"
	"testing/iotest"
	"time"
	"unicode/utf8"

	"github.com/pinealctx/neptune/tex"

	"verif/harness/internal/tr"
)

// ---------------------------------------------------------------- actions

type rstep struct {
	B []int  `json:"b"`
	E string `json:"e"` // nil | EOF | boom | neg
}

type act struct {
	Op  string  `json:"op"`
	P   []int   `json:"p"`
	C   int     `json:"c"`
	R   int     `json:"r"`
	N   int     `json:"n"`
	K   int     `json:"k"`
	E   string  `json:"e"`
	Pos int     `json:"pos"`
	S   []rstep `json:"s"`
	I   int     `json:"i"`    // poke: index into Bytes()
	H   int     `json:"h"`    // growhuge: which unsatisfiable size
	Nil bool    `json:"nilp"` // an empty payload / destination is passed as a nil slice
	Src int     `json:"src"`  // pipefrom: kind of source, pipeto: kind of destination (harness table)
	// first line of a plan
	Ctor string `json:"ctor"`
	Init []int  `json:"init"`
	Size int    `json:"size"`
}

func ints(p []int) []int {
	if p == nil {
		return []int{}
	}
	return p
}

func (a act) rec() tr.E {
	e := a.rec0()
	if a.Nil {
		e["nilp"] = true
	}
	return e
}

func (a act) rec0() tr.E {
	switch a.Op {
	case "write", "wstr":
		return tr.E{"op": a.Op, "p": ints(a.P)}
	case "wbyte":
		return tr.E{"op": a.Op, "c": a.C}
	case "poke":
		return tr.E{"op": a.Op, "i": a.I, "c": a.C}
	case "wbyterun":
		return tr.E{"op": a.Op, "n": a.N, "c": a.C}
	case "rbyterun":
		return tr.E{"op": a.Op, "n": a.N}
	case "pipefrom", "pipeto":
		return tr.E{"op": a.Op, "p": ints(a.P), "src": a.Src}
	case "growhuge":
		return tr.E{"op": a.Op, "h": a.H}
	case "wrune":
		return tr.E{"op": a.Op, "r": a.R}
	case "read", "next", "trunc", "grow":
		return tr.E{"op": a.Op, "n": a.N}
	case "readfrom":
		s := make([]tr.E, 0, len(a.S))
		for _, st := range a.S {
			s = append(s, tr.E{"b": ints(st.B), "e": st.E})
		}
		return tr.E{"op": a.Op, "s": s}
	case "writeto":
		return tr.E{"op": a.Op, "k": a.K, "e": a.E}
	case "rewrite":
		return tr.E{"op": a.Op, "pos": a.Pos, "p": ints(a.P)}
	}
	return tr.E{"op": a.Op}
}

func toBytes(p []int) []byte {
	b := make([]byte, len(p))
	for i, x := range p {
		b[i] = byte(x)
	}
	return b
}

// ---------------------------------------------------------------- the two subjects

// bufAPI is the method set the property names; *tex.Buffer and *bytes.Buffer both have it.
type bufAPI interface {
	Write(p []byte) (int, error)
	WriteString(s string) (int, error)
	WriteByte(c byte) error
	WriteRune(r rune) (int, error)
	Read(p []byte) (int, error)
	ReadByte() (byte, error)
	ReadRune() (rune, int, error)
	UnreadByte() error
	UnreadRune() error
	Next(n int) []byte
	Truncate(n int)
	Reset()
	Grow(n int)
	ReadFrom(r io.Reader) (int64, error)
	WriteTo(w io.Writer) (int64, error)
	Len() int
	Cap() int
	Bytes() []byte
	String() string
}

type subject struct {
	name     string
	b        bufAPI
	nilStr   func() string
	rewrite  func(pos int, p []byte)
	peer     func() bufAPI // a fresh empty buffer of the same type
	tooLarge error
	scratch  []byte // the caller's input slice, reused across calls
	dst      []byte // the caller's Read destination, reused across calls
}

func newSubject(name, ctor string, init []byte, size, spare int) *subject {
	mk := func() []byte { // NewBuffer takes ownership: each subject gets its own copy
		if spare < 0 {
			if len(init) == 0 {
				return nil // NewBuffer(nil)
			}
			spare = 0
		}
		buf := make([]byte, len(init), len(init)+spare)
		copy(buf, init)
		return buf
	}
	if name == "tex" {
		var b *tex.Buffer
		switch ctor {
		case "zero":
			b = new(tex.Buffer)
		case "new":
			b = tex.NewBuffer(mk())
		case "newstr":
			b = tex.NewBufferString(string(init))
		case "sized":
			b = tex.NewSizedBuffer(size)
		default:
			tr.Fatal("unknown constructor %q", ctor)
		}
		return &subject{name: name, b: b,
			nilStr:   func() string { return (*tex.Buffer)(nil).String() },
			rewrite:  b.ReWrite,
			peer:     func() bufAPI { return new(tex.Buffer) },
			tooLarge: tex.ErrTooLarge}
	}
	var b *bytes.Buffer
	switch ctor {
	case "zero":
		b = new(bytes.Buffer)
	case "new":
		b = bytes.NewBuffer(mk())
	case "newstr":
		b = bytes.NewBufferString(string(init))
	case "sized":
		b = bytes.NewBuffer(make([]byte, 0, size))
	default:
		tr.Fatal("unknown constructor %q", ctor)
	}
	return &subject{name: name, b: b,
		nilStr: func() string { return (*bytes.Buffer)(nil).String() },
		// reference meaning of ReWrite while nothing has been consumed: overwrite in place
		rewrite:  func(pos int, p []byte) { copy(b.Bytes()[pos:], p) },
		peer:     func() bufAPI { return new(bytes.Buffer) },
		tooLarge: bytes.ErrTooLarge}
}

// ---------------------------------------------------------------- replies

type reply struct {
	N   int
	V   int
	Err string
	B   []int
	Mut bool // the slice the harness passed in came back modified
	// kept as returned, rendered by rec() (lazy histories: when the history is over)
	kept    bool
	keepStr string
	keepBuf []byte
}

func (r reply) rec() tr.E {
	if r.kept {
		if r.keepBuf != nil {
			r.B = tr.Ints(r.keepBuf)
		} else {
			r.B = tr.Str(r.keepStr)
		}
	}
	return tr.E{"n": r.N, "v": r.V, "err": r.Err, "b": ints(r.B)}
}

var errBoom = errors.New("boom")

// an error that wraps io.EOF is not io.EOF: bytes.Buffer compares with ==, so ReadFrom must hand it back
var errWrapEOF = fmt.Errorf("source closed: %w", io.EOF)

var errWrapShort = fmt.Errorf("sink: %w", io.ErrShortWrite)

// the sentinel errors either side knows (package io, which buffer.go imports), plain and wrapped
var sentinels = map[string]error{
	"EOF": io.EOF, "wrapEOF": errWrapEOF, "unexpEOF": io.ErrUnexpectedEOF, "short write": io.ErrShortWrite,
	"wrapShort": errWrapShort, "shortbuf": io.ErrShortBuffer, "noprogress": io.ErrNoProgress,
	"closedpipe": io.ErrClosedPipe, "boom": errBoom,
}

// kindErr: the error value a scripted reader / writer returns for an error kind of the plan
// ("toolarge": the buffer type's own ErrTooLarge coming back at it from outside)
func (s *subject) kindErr(kind string) error {
	switch kind {
	case "nil", "":
		return nil
	case "toolarge":
		return s.tooLarge
	}
	if e, ok := sentinels[kind]; ok {
		return e
	}
	return errBoom
}

// clamp keeps an integer that came out of the code under test inside what the trace writer and TLC
// can hold; a clamped value is still wrong for the specification, but it is TLC that says so.
func clamp(n int) int {
	if n > math.MaxInt32 {
		return math.MaxInt32
	}
	if n < -math.MaxInt32 {
		return -math.MaxInt32
	}
	return n
}

// wide turns the plan's stand-ins for the ends of the int range into the real thing
func wide(n int) int {
	switch {
	case n >= math.MaxInt32:
		return math.MaxInt
	case n <= -math.MaxInt32:
		return math.MinInt
	}
	return n
}

// errName keeps the identity of the sentinel errors visible: an error that merely prints like
// io.EOF is not io.EOF.
func (sub *subject) errName(err error) string {
	if err == nil {
		return "nil"
	}
	if err == sub.tooLarge {
		return "toolarge"
	}
	for k, e := range sentinels {
		if err == e {
			return k
		}
	}
	s := err.Error()
	if _, ok := sentinels[s]; ok || s == "nil" || s == "toolarge" {
		return s + " (a different error value)"
	}
	return s
}

func (s *subject) panicText(p interface{}) string {
	switch x := p.(type) {
	case runtime.Error:
		return "runtime error" // the message carries offsets and capacities: not part of the contract
	case error:
		if x.Error() == s.tooLarge.Error() && x != s.tooLarge {
			return x.Error() + " (not ErrTooLarge)"
		}
		return x.Error()
	case string:
		return x
	}
	return fmt.Sprint(p)
}

type scriptReader struct {
	sub   *subject
	steps []rstep
	i     int
	calls int
	small bool // a Read call offered less than MinRead / less than the chunk
}

func (r *scriptReader) Read(p []byte) (int, error) {
	r.calls++
	if len(p) < bytes.MinRead {
		r.small = true
	}
	if r.i >= len(r.steps) {
		return 0, io.EOF // keeps a misbehaving buffer from spinning; one call too many is visible in `calls`
	}
	st := r.steps[r.i]
	r.i++
	switch st.E {
	case "neg":
		return -1, nil
	case "panic":
		panic("reader panic")
	}
	n := copy(p, toBytes(st.B))
	if n < len(st.B) {
		r.small = true
	}
	return n, r.sub.kindErr(st.E)
}

type scriptWriter struct {
	sub   *subject
	k     int
	e     string
	calls int
	got   []byte
}

func (w *scriptWriter) Write(p []byte) (int, error) {
	w.calls++
	w.got = append(w.got, p...)
	if w.e == "panic" {
		panic("writer panic")
	}
	return w.k, w.sub.kindErr(w.e)
}

// appendSink is the plainest io.Writer a caller can have
type appendSink struct{ buf []byte }

func (w *appendSink) Write(p []byte) (int, error) { w.buf = append(w.buf, p...); return len(p), nil }

// input copies a payload into the subject's one input buffer, which is reused from call to call the
// way a caller reuses its scratch slice; priv is the harness's private copy to compare with.
func (s *subject) input(p []int) (in, priv []byte) {
	priv = toBytes(p)
	if cap(s.scratch) < len(priv) {
		s.scratch = make([]byte, 0, 2*len(priv)+16)
	}
	in = s.scratch[:len(priv)]
	copy(in, priv)
	return in, priv
}

// spoil overwrites the input slice after the call returned: the buffer has copied it or it has a bug
func spoil(in []byte) {
	for i := range in {
		in[i] = 0xA5 ^ byte(i)
	}
}

var hugeSizes = []int{math.MaxInt, math.MaxInt - 1, 1 << 62, 1 << 50}

// do performs one call; a panic of the code under test becomes the reply "panic: ..." (same record
// shape as every reply, so TLC can compare it).  lazy: aggregates the call handed back that the
// caller may keep (the string of String(), the slice filled by Read) are kept AS RETURNED and
// rendered when the history is over.
func (s *subject) do(a act, lazy bool) (r reply) {
	defer func() {
		if p := recover(); p != nil {
			r = reply{Err: "panic: " + s.panicText(p)}
		}
	}()
	b := s.b
	switch a.Op {
	case "write":
		in, priv := s.input(a.P)
		if a.Nil && len(in) == 0 {
			in = nil
		}
		n, err := b.Write(in)
		r = reply{N: clamp(n), Err: s.errName(err), Mut: !bytes.Equal(in, priv)}
		spoil(in)
		return r
	case "wstr":
		n, err := b.WriteString(string(toBytes(a.P)))
		return reply{N: clamp(n), Err: s.errName(err)}
	case "wbyte":
		return reply{Err: s.errName(b.WriteByte(byte(a.C)))}
	case "wrune":
		n, err := b.WriteRune(rune(a.R))
		return reply{N: clamp(n), Err: s.errName(err)}
	case "read":
		var p []byte
		if lazy {
			p = make([]byte, a.N) // kept until the history is over
		} else {
			if cap(s.dst) < a.N {
				s.dst = make([]byte, 2*a.N+16)
			}
			p = s.dst[:a.N] // the caller's one destination slice, reused
		}
		if a.Nil && a.N == 0 {
			p = nil
		}
		n, err := b.Read(p)
		if lazy {
			return reply{N: clamp(n), Err: s.errName(err), keepBuf: p[:n], kept: true}
		}
		r = reply{N: clamp(n), Err: s.errName(err), B: tr.Ints(p[:n])}
		spoil(p) // rendered; the caller does what it likes with its slice, the buffer must not care
		return r
	case "next":
		p := b.Next(wide(a.N))
		return reply{N: len(p), Err: "nil", B: tr.Ints(p)} // valid only until the next call: rendered at once
	case "rbyte":
		c, err := b.ReadByte()
		return reply{V: int(c), Err: s.errName(err)}
	case "rrune":
		c, n, err := b.ReadRune()
		return reply{N: clamp(n), V: int(c), Err: s.errName(err)}
	case "unbyte":
		return reply{Err: s.errName(b.UnreadByte())}
	case "unrune":
		return reply{Err: s.errName(b.UnreadRune())}
	case "trunc":
		b.Truncate(wide(a.N))
		return reply{Err: "nil"}
	case "reset":
		b.Reset()
		return reply{Err: "nil"}
	case "grow":
		b.Grow(a.N)
		return reply{Err: "nil"}
	case "growhuge":
		n := math.MaxInt
		if a.H >= 1 && a.H <= len(hugeSizes) {
			n = hugeSizes[a.H-1]
		} else if c := b.Cap(); a.H == 0 && c > 0 && c < 1<<30 {
			n = math.MaxInt - 2*c // the last size the overflow guard of grow() lets through
		}
		b.Grow(n)
		return reply{Err: "nil"}
	case "readfrom":
		rd := &scriptReader{sub: s, steps: a.S}
		n, err := b.ReadFrom(rd)
		if rd.small {
			return reply{N: clamp(int(n)), V: rd.calls, Err: "Read was offered fewer than MinRead bytes"}
		}
		return reply{N: clamp(int(n)), V: rd.calls, Err: s.errName(err)}
	case "writeto":
		w := &scriptWriter{sub: s, k: wide(a.K), e: a.E}
		n, err := b.WriteTo(w)
		return reply{N: clamp(int(n)), V: w.calls, Err: s.errName(err), B: tr.Ints(w.got)}
	case "pipefrom": // ReadFrom the readers a caller really has; reply.v = what is left in the source
		var src io.Reader
		left := func() int { return 0 }
		switch a.Src {
		case 0: // one caller, two buffers of the same type: this one drains the other
			peer := s.peer()
			peer.Write(toBytes(a.P))
			src, left = peer, peer.Len
		case 2:
			sr := strings.NewReader(string(toBytes(a.P)))
			src, left = sr, sr.Len
		default:
			br := bytes.NewReader(toBytes(a.P)) // answers Read(empty) with (0, nil) while data remains
			left = br.Len
			switch a.Src {
			case 3:
				src = iotest.DataErrReader(br) // last data together with io.EOF
			case 4:
				src = iotest.OneByteReader(br)
			case 5:
				src = iotest.HalfReader(br)
			default:
				src = br
			}
		}
		n, err := b.ReadFrom(src)
		return reply{N: clamp(int(n)), V: clamp(left()), Err: s.errName(err)}
	case "pipeto": // reply.b = what the destination holds afterwards
		if a.Src%2 == 1 {
			dst := &appendSink{buf: toBytes(a.P)}
			n, err := b.WriteTo(dst)
			return reply{N: clamp(int(n)), Err: s.errName(err), B: tr.Ints(dst.buf)}
		}
		peer := s.peer()
		peer.Write(toBytes(a.P))
		n, err := b.WriteTo(peer)
		return reply{N: clamp(int(n)), Err: s.errName(err), B: tr.Ints(peer.Bytes())}
	case "wbyterun": // a.N calls logged as one event (long runs around integer widths)
		r = reply{Err: "nil"}
		for i := 0; i < a.N; i++ {
			if err := b.WriteByte(byte(a.C)); err != nil {
				if r.Err == "nil" {
					r.Err = s.errName(err)
				}
			} else {
				r.N++
			}
		}
		return r
	case "rbyterun":
		r = reply{Err: "nil"}
		var got []byte
		for i := 0; i < a.N; i++ {
			c, err := b.ReadByte()
			r.Err = s.errName(err)
			if err != nil {
				r.V++
			} else {
				got = append(got, c)
			}
		}
		r.N, r.B = len(got), tr.Ints(got)
		return r
	case "len":
		return reply{N: clamp(b.Len()), Err: "nil"}
	case "bytes":
		return reply{Err: "nil", B: tr.Ints(b.Bytes())} // aliases the buffer by contract: rendered at once
	case "poke":
		if bs := b.Bytes(); a.I >= 0 && a.I < len(bs) {
			bs[a.I] = byte(a.C)
		}
		return reply{Err: "nil"}
	case "string":
		str := b.String()
		if lazy {
			return reply{Err: "nil", keepStr: str, kept: true} // a Go string never changes
		}
		return reply{Err: "nil", B: tr.Str(str)}
	case "nilstr":
		return reply{Err: "nil", B: tr.Str(s.nilStr())}
	case "rewrite":
		in, priv := s.input(a.P)
		if a.Nil && len(in) == 0 {
			in = nil
		}
		s.rewrite(wide(a.Pos), in)
		r = reply{Err: "nil", Mut: !bytes.Equal(in, priv)}
		spoil(in)
		return r
	}
	tr.Fatal("unknown op %q", a.Op)
	return
}

// obs: what the buffer exposes after a call.  An observer that panics or answers nonsense is an
// observation too (len -1 / clamped values), not a harness failure.
func (s *subject) obs() (o tr.E) {
	defer func() {
		if p := recover(); p != nil {
			o = tr.E{"len": -1, "b": []int{}, "cap": -1, "panic": s.panicText(p)}
		}
	}()
	return tr.E{"len": clamp(s.b.Len()), "b": tr.Ints(s.b.Bytes()), "cap": clamp(s.b.Cap())}
}

// ---------------------------------------------------------------- one history on both buffers

// watchdog: a call into tex.Buffer that does not come back (ReadFrom spinning on an empty window,
// a reader loop that never sees EOF) is an observation.  The main goroutine publishes what it is
// doing; the watchdog goroutine, if nothing moved for hangAfter, writes a `hang` event to the tex
// trace (rejected by the trace spec), the statistics, and ends the process normally.
var (
	wdMu      sync.Mutex
	wdInTex   bool
	wdAct     tr.E
	wdTick    uint64
	hangAfter = 20 * time.Second
)

func wdEnter(a tr.E) { wdMu.Lock(); wdInTex, wdAct = true, a; wdTick++; wdMu.Unlock() }
func wdLeave()       { wdMu.Lock(); wdInTex = false; wdTick++; wdMu.Unlock() }

type pending struct {
	a   tr.E
	r   reply
	obs tr.E
}

type run struct {
	tex, std     *subject
	wt, ws       *tr.W
	plan         bool      // the actions come from a TLC plan
	lazy         bool      // keep returned aggregates as returned; write this history's events at its end
	pt, ps       []pending // lazy: the events of this history so far
	dirty        bool      // some byte consumed since construction / Reset / Truncate(0) (as the spec's `dirty`)
	lastRead     string    // previous call was this read and it consumed something (generator hint only)
	lastUnread   string    // previous call was an Unread* right after that read (generator hint only)
	lastGrow     bool      // previous call was Grow (generator hint only)
	prevAct      *act      // the previous action (the same call twice)
	squeezed     bool      // a no-op call was just put between a read and the Unread* to come (generator hint)
	nsteps       int
	paths        map[string]int
	ops          map[string]int
	diverged     bool
	maxLen       int
	afterGrowUnr int
}

// ctor runs a constructor; one that panics is recorded as a buffer nobody can have (len -1).
func ctor(name, kind string, init []byte, size, spare int) (s *subject, o tr.E, c int) {
	defer func() {
		if p := recover(); p != nil {
			s, c = nil, -1
			o = tr.E{"len": -1, "b": []int{}, "cap": -1, "panic": fmt.Sprint(p)}
		}
	}()
	s = newSubject(name, kind, init, size, spare)
	return s, s.obs(), clamp(s.b.Cap())
}

func start(wt, ws *tr.W, src, kind string, init []byte, size, spare int, lazy bool, paths, ops map[string]int) *run {
	r := &run{wt: wt, ws: ws, lazy: lazy, paths: paths, ops: ops}
	for _, name := range []string{"tex", "std"} {
		wdEnter(tr.E{"op": "construct", "ctor": kind})
		s, o, c := ctor(name, kind, init, size, spare)
		wdLeave()
		e := tr.E{"ev": "reset", "subject": name, "src": src, "ctor": kind, "init": tr.Ints(init),
			"size": size, "spare": spare, "cap": c, "obs": o, "lazy": lazy}
		if name == "tex" {
			r.tex = s
			wt.Emit(e)
		} else {
			r.std = s
			ws.Emit(e)
		}
	}
	if r.std == nil {
		tr.Fatal("the reference constructor %s(%d bytes, size %d) panicked", kind, len(init), size)
	}
	if r.tex == nil {
		return nil // recorded; there is no buffer to continue with
	}
	return r
}

// texShape reads capacity, start address and length of tex's storage for the coverage statistics
// and for sizes near its growth thresholds.  Never judged, never trusted: nonsense becomes zeros.
func texShape(b bufAPI) (c int, p *byte, l, free int) {
	defer func() {
		if recover() != nil {
			c, p, l, free = 0, nil, 0, 0
		}
	}()
	bs := b.Bytes()
	c, l, free = b.Cap(), b.Len(), cap(bs)-len(bs)
	if bs = bs[:cap(bs)]; len(bs) > 0 {
		p = &bs[0]
	}
	if c < 0 || c > 1<<24 || l < 0 || l > 1<<24 {
		c, l, free = 0, 0, 0
	}
	return
}

var consuming = map[string]bool{"read": true, "next": true, "rbyte": true, "rrune": true, "writeto": true, "pipeto": true,
	"rbyterun": true}
var appending = map[string]bool{"write": true, "wstr": true, "wbyte": true, "wrune": true, "readfrom": true, "grow": true,
	"pipefrom": true, "wbyterun": true}

// step executes one action on both buffers and logs it.  Returns false if the action is not
// applicable (ReWrite after something was consumed) and was skipped.
func (r *run) step(a act) bool {
	if a.Op == "rewrite" && r.dirty {
		return false
	}
	r.nsteps++
	if r.plan { // dimensions the specification does not carry are drawn here
		switch a.Op {
		case "pipefrom", "pipeto":
			a.Src = r.nsteps % 6
		case "write", "rewrite", "read":
			a.Nil = r.nsteps%2 == 0
		}
	}
	keep := a
	r.prevAct = &keep
	if (a.Op == "unbyte" || a.Op == "unrune") && r.lastGrow {
		r.afterGrowUnr++
	}
	// which way did tex's grow() go?  (coverage statistics only, never judged)
	c0, p0, l0, _ := texShape(r.tex.b)
	// which actions are issued next must never depend on the implementation under test: the
	// applicability bookkeeping (dirty / lastRead) follows the reference bytes.Buffer
	ls0 := r.std.b.Len()
	ar := a.rec()
	wdEnter(ar)
	rt := r.tex.do(a, r.lazy)
	ot := r.tex.obs()
	wdLeave()
	if appending[a.Op] {
		c1, p1, _, _ := texShape(r.tex.b)
		switch {
		case c1 != c0 && c0 == 0:
			r.paths["first-alloc"]++
			if c1 == 64 {
				r.paths["small-buffer"]++
			}
		case c1 != c0:
			r.paths["reallocate"]++
		case p1 != p0 && l0 == 0:
			r.paths["recycle-empty"]++
		case p1 != p0:
			r.paths["slide-down"]++
		default:
			r.paths["reslice"]++
		}
	}
	rs := r.std.do(a, r.lazy)
	os := r.std.obs()
	if r.lazy {
		r.pt = append(r.pt, pending{ar, rt, ot})
		r.ps = append(r.ps, pending{ar, rs, os})
	} else {
		r.wt.Emit(tr.E{"ev": "call", "a": ar, "r": rt.rec(), "obs": ot, "inmut": !rt.Mut})
		r.ws.Emit(tr.E{"ev": "call", "a": ar, "r": rs.rec(), "obs": os, "inmut": !rs.Mut})
		if differ(rt.rec(), ot, rs.rec(), os) {
			r.diverged = true // statistics only; the verdict is TLC's
		}
	}
	r.ops[a.Op]++
	if n := r.std.b.Len(); n > r.maxLen {
		r.maxLen = n
	}
	consumed := consuming[a.Op] && r.std.b.Len() < ls0
	switch {
	case a.Op == "reset" || (a.Op == "trunc" && a.N == 0):
		r.dirty = false
	case consumed:
		r.dirty = true
	}
	switch a.Op {
	case "len", "bytes", "string", "nilstr":
	default:
		r.lastUnread = ""
		if (a.Op == "unbyte" || a.Op == "unrune") && r.lastRead != "" {
			r.lastUnread = r.lastRead
		}
		r.lastRead = ""
		if consumed && a.Op != "writeto" && a.Op != "pipeto" {
			r.lastRead = a.Op
		}
		r.lastGrow = a.Op == "grow"
	}
	return true
}

// differ: replies or unread contents differ (Cap() is not compared)
func differ(rt, ot, rs, os tr.E) bool {
	return fmt.Sprint(rt, ot["len"], ot["b"]) != fmt.Sprint(rs, os["len"], os["b"])
}

// end of a history: a lazy history renders what the calls handed back only now
func (r *run) end() {
	for i := range r.pt {
		pt, ps := r.pt[i], r.ps[i]
		et, es := pt.r.rec(), ps.r.rec()
		r.wt.Emit(tr.E{"ev": "call", "a": pt.a, "r": et, "obs": pt.obs, "inmut": !pt.r.Mut})
		r.ws.Emit(tr.E{"ev": "call", "a": ps.a, "r": es, "obs": ps.obs, "inmut": !ps.r.Mut})
		if differ(et, pt.obs, es, ps.obs) {
			r.diverged = true
		}
	}
	r.pt, r.ps = nil, nil
}

// ---------------------------------------------------------------- generators

var edgeRunes = []int{math.MinInt32, -2147483647, -65536, -256, -191, -129, -128, -127, -2, -1, 0, 1, 'A', 0x7f, 0x80, 0xe9,
	0x7ff, 0x800, 0x20ac, 0xd7ff, 0xd800, 0xdbff, 0xdc00, 0xdfff, 0xe000, 0xfffd, 0xfffe, 0xffff, 0x10000, 0x1f600,
	0x10ffff, 0x110000, 0x1fffff, 0x200000, math.MaxInt32}

func randRune(rng *rand.Rand) int {
	switch rng.Intn(10) {
	case 0, 1, 2:
		return edgeRunes[rng.Intn(len(edgeRunes))]
	case 3:
		return -rng.Intn(1 << 20)
	case 4:
		return int(int32(rng.Uint32()))
	case 5, 6:
		return rng.Intn(128)
	case 7:
		return rng.Intn(0x800)
	case 8:
		return rng.Intn(0x10000)
	}
	return rng.Intn(0x110000)
}

// payload of n bytes: ASCII, raw bytes, or UTF-8 with the occasional damaged sequence
func payload(rng *rand.Rand, n int) []int {
	p := make([]int, 0, n+4)
	kind := rng.Intn(4)
	for len(p) < n {
		switch kind {
		case 0:
			p = append(p, 32+rng.Intn(95))
		case 1:
			p = append(p, rng.Intn(256))
		case 2:
			p = append(p, []int{0, 0x7f, 0x80, 0xbf, 0xc0, 0xc1, 0xc2, 0xdf, 0xe0, 0xed, 0xef, 0xf0, 0xf4, 0xf5, 0xff,
				0x9f, 0xa0, 0x8f, 0x90}[rng.Intn(19)])
		default:
			var tmp [4]byte
			k := utf8.EncodeRune(tmp[:], rune(randRune(rng)))
			if rng.Intn(8) == 0 && k > 1 {
				k-- // truncated sequence
			}
			for _, c := range tmp[:k] {
				p = append(p, int(c))
			}
		}
	}
	return p[:n]
}

// size near the thresholds of grow(): free space, half capacity, small buffer, MinRead.  Length from
// the reference; capacity and free space from tex (sanitised, see texShape) because its thresholds
// are the ones to hit - they only bias the choice.
func (r *run) edgeSize(rng *rand.Rand) int {
	c, _, _, free := texShape(r.tex.b)
	l := r.std.b.Len()
	cands := []int{0, 1, 2, 3, 4, 5, 7, 8, 63, 64, 65, 127, 128, 129, 511, 512, 513,
		free - 1, free, free + 1, c/2 - l - 1, c/2 - l, c/2 - l + 1, c - l, c - l + 1, c, c + 1, 2*c + 1,
		l - 1, l, l + 1, l / 2}
	switch rng.Intn(5) {
	case 0:
		return rng.Intn(8)
	case 1:
		return rng.Intn(200)
	}
	if rng.Intn(30) == 0 { // k*2^j and its neighbours beyond the constants of the code (64, 512)
		return blockSizes[rng.Intn(len(blockSizes))]
	}
	n := cands[rng.Intn(len(cands))]
	if n < 0 {
		n = 0
	}
	if n > 600 {
		n = 600 - rng.Intn(90)
	}
	return n
}

var blockSizes = []int{255, 256, 257, 1023, 1024, 1025, 1535, 1536, 1537, 2047, 2048, 2049, 4095, 4096, 4097}

func (r *run) script(rng *rand.Rand) []rstep {
	n := 1 + rng.Intn(3)
	var s []rstep
	for i := 0; i < n; i++ {
		sz := r.edgeSize(rng)
		if sz > bytes.MinRead {
			sz = bytes.MinRead
		}
		if rng.Intn(4) == 0 {
			sz = 0 // a Read that returns (0, nil) is legal
		}
		s = append(s, rstep{B: payload(rng, sz), E: "nil"})
	}
	// every way a source can end: the error alone or together with the last data
	kinds := []string{"EOF", "EOF", "EOF", "EOF", "boom", "wrapEOF", "unexpEOF", "panic", "neg", "shortbuf", "noprogress",
		"closedpipe", "short write", "wrapShort", "toolarge"}
	k := kinds[rng.Intn(len(kinds))]
	if k == "neg" || k == "panic" || rng.Intn(2) == 0 {
		s = append(s, rstep{B: []int{}, E: k})
	} else {
		s[len(s)-1].E = k // data together with the error
	}
	return s
}

// argument at the edges of a length l, now and then at the ends of the int range
func edgeArg(rng *rand.Rand, l int) int {
	return []int{0, 1, l - 1, l, l + 1, l / 2, -1, rng.Intn(l + 2), math.MaxInt32, -math.MaxInt32}[rng.Intn(10)]
}

func (r *run) randAct(rng *rand.Rand) act {
	l := r.std.b.Len()
	// Unread* is interesting right after a read, and (excluded from the comparison, but it must
	// not crash or corrupt) right after Grow
	if r.lastRead != "" && rng.Intn(100) < 40 || r.lastGrow && rng.Intn(100) < 15 {
		if rng.Intn(2) == 0 {
			return act{Op: "unbyte"}
		}
		return act{Op: "unrune"}
	}
	// a call that moves nothing, squeezed between a read and its Unread*: each of them is a
	// "non-read operation" in its own way
	if r.squeezed {
		r.squeezed = false
		if x := rng.Intn(10); x < 8 {
			return act{Op: []string{"unbyte", "unrune"}[x%2]}
		}
	}
	if r.lastRead != "" && rng.Intn(100) < 12 {
		r.squeezed = true
		return []act{{Op: "read", N: 0}, {Op: "read", N: 0, Nil: true}, {Op: "next", N: 0}, {Op: "write"},
			{Op: "write", Nil: true}, {Op: "wstr"}, {Op: "trunc", N: l}, {Op: "grow", N: 0},
			{Op: "readfrom", S: []rstep{{B: []int{}, E: "EOF"}}}, {Op: "pipefrom", Src: rng.Intn(6)},
			{Op: "writeto", K: 0, E: "boom"}, {Op: "wbyterun", N: 0}, {Op: "next", N: -1}, {Op: "trunc", N: l + 1}}[rng.Intn(14)]
	}
	if r.prevAct != nil && rng.Intn(100) < 6 { // the same call with the same arguments twice
		return *r.prevAct
	}
	// ... and the same read once more on what was given back: decoding the same source twice
	if r.lastUnread != "" && rng.Intn(100) < 50 {
		switch r.lastUnread {
		case "rbyte", "rrune":
			return act{Op: r.lastUnread}
		}
		return act{Op: "rrune"}
	}
	x := rng.Intn(1000)
	if l > 400 && rng.Intn(3) > 0 { // keep the logged contents small: drain
		x = 400 + rng.Intn(370)
	}
	switch {
	case x < 120:
		return act{Op: "write", P: payload(rng, r.edgeSize(rng)), Nil: rng.Intn(2) == 0}
	case x < 185:
		return act{Op: "wstr", P: payload(rng, r.edgeSize(rng))}
	case x < 245:
		return act{Op: "wbyte", C: rng.Intn(256)}
	case x < 340:
		return act{Op: "wrune", R: randRune(rng)}
	case x < 385:
		return act{Op: "readfrom", S: r.script(rng)}
	case x < 397:
		return act{Op: "pipefrom", P: payload(rng, []int{0, 1, 511, 512, 513, 1024, r.edgeSize(rng)}[rng.Intn(7)]), Src: rng.Intn(6)}
	case x < 400:
		if rng.Intn(2) == 0 {
			return act{Op: "wbyterun", N: 255 + rng.Intn(3), C: rng.Intn(256)}
		}
		return act{Op: "rbyterun", N: []int{255, 256, 257, l, l + 1, l / 2}[rng.Intn(6)]}
	case x < 500:
		return act{Op: "read", N: r.edgeSize(rng), Nil: rng.Intn(2) == 0}
	case x < 570:
		n := r.edgeSize(rng)
		if rng.Intn(10) == 0 {
			n = []int{-1, -2, -3, -math.MaxInt32, math.MaxInt32}[rng.Intn(5)]
		}
		return act{Op: "next", N: n}
	case x < 630:
		return act{Op: "rbyte"}
	case x < 720:
		return act{Op: "rrune"}
	case x < 730:
		return act{Op: "reset"}
	case x < 770:
		return act{Op: "trunc", N: edgeArg(rng, l)}
	case x < 825:
		n := r.edgeSize(rng)
		if rng.Intn(10) == 0 {
			n = []int{-1, -2, -3, -math.MaxInt32}[rng.Intn(4)]
		}
		return act{Op: "grow", N: n}
	case x < 835:
		return act{Op: "growhuge", H: rng.Intn(5)}
	case x < 865:
		k := []int{0, 1, l - 1, l, l, l, l + 1, l / 2, math.MaxInt32}[rng.Intn(9)]
		if k < 0 {
			k = 0
		}
		e := []string{"nil", "nil", "nil", "nil", "nil", "nil", "boom", "EOF", "short write", "panic", "wrapEOF", "unexpEOF",
			"wrapShort", "shortbuf", "noprogress", "closedpipe", "toolarge"}[rng.Intn(17)]
		return act{Op: "writeto", K: k, E: e}
	case x < 875:
		return act{Op: "pipeto", P: payload(rng, []int{0, 1, 5, 64, 200}[rng.Intn(5)]), Src: rng.Intn(2)}
	case x < 887:
		return act{Op: "unbyte"}
	case x < 900:
		return act{Op: "unrune"}
	case x < 915:
		return act{Op: "len"}
	case x < 930:
		return act{Op: "bytes"}
	case x < 945:
		return act{Op: "poke", I: []int{0, 1, l - 1, l, l + 1, l / 2, rng.Intn(l + 1)}[rng.Intn(7)], C: rng.Intn(256)}
	case x < 960:
		return act{Op: "string"}
	case x < 963:
		return act{Op: "nilstr"}
	default:
		if r.dirty {
			return act{Op: "rbyte"}
		}
		return act{Op: "rewrite", Pos: edgeArg(rng, l), P: payload(rng, []int{0, 1, 2, 5, l, l + 3}[rng.Intn(6)]%64), Nil: rng.Intn(2) == 0}
	}
}

// ---------------------------------------------------------------- systematic histories

func fill(n, from int) []int {
	p := make([]int, n)
	for i := range p {
		p[i] = 97 + (from+i)%26
	}
	return p
}

var utf8Text = []int{104, 195, 169, 226, 130, 172, 240, 159, 152, 128, 239, 191, 189, 255, 108} // h e' euro U+1F600 U+FFFD FF l

// shapes: the states a buffer can be in that differ in how storage, offset and last-read bookkeeping
// stand (never used, one byte, partly read, drained by reading, emptied by Reset / Truncate(0), exactly
// full, full and partly read, just reallocated, just grown, after a short WriteTo, after ReadFrom)
var shapes = [][]act{
	{},
	{{Op: "wbyte", C: 120}},
	{{Op: "write", P: utf8Text}},
	{{Op: "write", P: fill(10, 0)}, {Op: "read", N: 3}},
	{{Op: "write", P: utf8Text}, {Op: "rrune"}, {Op: "rrune"}},
	{{Op: "write", P: utf8Text}, {Op: "rrune"}, {Op: "rrune"}, {Op: "rrune"}, {Op: "rrune"}, {Op: "rrune"}},
	{{Op: "write", P: fill(5, 0)}, {Op: "read", N: 5}},
	{{Op: "wstr", P: fill(5, 3)}, {Op: "next", N: 5}},
	{{Op: "write", P: fill(5, 0)}, {Op: "reset"}},
	{{Op: "write", P: fill(5, 0)}, {Op: "rbyte"}, {Op: "trunc", N: 0}},
	{{Op: "write", P: fill(8, 0)}},
	{{Op: "write", P: fill(8, 0)}, {Op: "read", N: 5}},
	{{Op: "write", P: fill(60, 0)}, {Op: "write", P: fill(10, 8)}},
	{{Op: "write", P: fill(5, 0)}, {Op: "rbyte"}, {Op: "grow", N: 100}},
	{{Op: "write", P: fill(6, 0)}, {Op: "writeto", K: 2, E: "nil"}},
	{{Op: "readfrom", S: []rstep{{B: fill(4, 0), E: "nil"}, {B: fill(2, 4), E: "EOF"}}}, {Op: "rbyte"}},
	{{Op: "wbyterun", N: 64, C: 65}, {Op: "rbyterun", N: 33}},
}

// probes: every operation with its degenerate and its ordinary arguments (l = current length)
func probes(l int) []act {
	return []act{
		{Op: "write"}, {Op: "write", Nil: true}, {Op: "write", P: []int{90}}, {Op: "write", P: fill(70, 1)},
		{Op: "wstr"}, {Op: "wstr", P: []int{195, 169}}, {Op: "wbyte", C: 0}, {Op: "wrune", R: 0x20ac}, {Op: "wrune", R: -1},
		{Op: "wrune", R: 0xfffd},
		{Op: "read", N: 0}, {Op: "read", N: 0, Nil: true}, {Op: "read", N: 1}, {Op: "read", N: 100},
		{Op: "next", N: 0}, {Op: "next", N: 1}, {Op: "next", N: -1}, {Op: "next", N: math.MaxInt32},
		{Op: "rbyte"}, {Op: "rrune"}, {Op: "unbyte"}, {Op: "unrune"},
		{Op: "trunc", N: 0}, {Op: "trunc", N: 1}, {Op: "trunc", N: l}, {Op: "trunc", N: l + 1}, {Op: "trunc", N: -1},
		{Op: "reset"}, {Op: "grow", N: 0}, {Op: "grow", N: 1}, {Op: "grow", N: 100}, {Op: "grow", N: -1}, {Op: "growhuge", H: 1},
		{Op: "readfrom", S: []rstep{{B: []int{}, E: "EOF"}}}, {Op: "readfrom", S: []rstep{{B: []int{88, 89, 90}, E: "EOF"}}},
		{Op: "readfrom", S: []rstep{{B: []int{}, E: "nil"}, {B: []int{88}, E: "boom"}}},
		{Op: "writeto", K: l, E: "nil"}, {Op: "writeto", K: 0, E: "nil"}, {Op: "writeto", K: 1, E: "boom"},
		{Op: "writeto", K: math.MaxInt32, E: "nil"},
		{Op: "pipefrom", P: []int{}, Src: 0}, {Op: "pipefrom", P: []int{88, 89}, Src: 1}, {Op: "pipefrom", P: []int{88, 89}, Src: 3},
		{Op: "pipeto", P: []int{80}, Src: 0}, {Op: "pipeto", P: []int{}, Src: 1},
		{Op: "len"}, {Op: "bytes"}, {Op: "string"}, {Op: "poke", I: 0, C: 33},
		{Op: "rewrite", Pos: 0, P: []int{33}}, {Op: "rewrite", Pos: l, P: []int{}, Nil: true},
		{Op: "wbyterun", N: 3, C: 66}, {Op: "rbyterun", N: 2}, {Op: "rbyterun", N: l + 1},
	}
}

// sweep: every probe in every shape, followed by what shows the bookkeeping the probe left behind
func sweep(begin func(src, kind string, init []byte, size, spare int) *run, finish func(*run)) {
	np := len(probes(0))
	for si, sh := range shapes {
		for pi := 0; pi < np; pi++ {
			k := si*np + pi
			var r *run
			switch k % 3 {
			case 0:
				r = begin("sweep", "zero", nil, 0, 0)
			case 1:
				r = begin("sweep", "sized", nil, 8, 0)
			default:
				r = begin("sweep", "new", []byte{}, 0, 8) // empty, 8 bytes of capacity
			}
			if r == nil {
				continue
			}
			for _, a := range sh {
				r.step(a)
			}
			r.step(probes(r.std.b.Len())[pi])
			r.step(act{Op: []string{"unbyte", "unrune"}[k%2]})
			r.step(act{Op: "rrune"})
			r.step(act{Op: "wstr", P: []int{122}})
			r.step(act{Op: "string"})
			finish(r)
		}
	}
}

// longRuns: 65535 / 65536 / 65537 repetitions and lengths, where a narrowed offset, length or
// counter would wrap; logged run-length encoded
func longRuns(begin func(src, kind string, init []byte, size, spare int) *run, finish func(*run)) {
	for _, n := range []int{65535, 65536, 65537} {
		r := begin("long", []string{"zero", "sized", "zero"}[n%3], nil, 64, 0)
		if r == nil {
			continue
		}
		for _, a := range []act{{Op: "wbyterun", N: n, C: n % 251}, {Op: "len"}, {Op: "rbyterun", N: n - 2}, {Op: "unbyte"},
			{Op: "rbyterun", N: 4}, {Op: "write", P: fill(n, 0)}, {Op: "next", N: n - 1}, {Op: "unbyte"}, {Op: "read", N: 65536},
			{Op: "wbyterun", N: 256, C: 9}, {Op: "pipeto", P: []int{1}, Src: 1}, {Op: "string"}} {
			r.step(a)
		}
		finish(r)
	}
}

// bigSizes: constructor sizes and growth around the constants a buffer implementation plausibly
// has (4096, 64 KiB, 128 KiB, 1 MiB) - a handful of histories per run.  Contents stay small, so
// nothing big is logged; what is observed is Cap() against what was asked for, and that the
// buffer goes on working after its large storage was Reset / drained.
func bigSizes(begin func(src, kind string, init []byte, size, spare int) *run, finish func(*run)) {
	small := []act{{Op: "len"}, {Op: "write", P: fill(5, 0)}, {Op: "rbyte"}, {Op: "unbyte"}, {Op: "reset"},
		{Op: "wstr", P: utf8Text}, {Op: "rrune"}, {Op: "read", N: 100}, {Op: "wbyte", C: 7}, {Op: "trunc", N: 0},
		{Op: "write", P: fill(70, 3)}, {Op: "string"}}
	sizes := []int{4095, 4096, 4097, 65535, 65536, 65537, 128<<10 + 1, 1 << 20, 1<<20 + 1}
	for _, n := range sizes {
		if r := begin("big", "sized", nil, n, 0); r != nil {
			for _, a := range small {
				r.step(a)
			}
			r.step(act{Op: "grow", N: n}) // a second time that much room, on a buffer that was Reset
			r.step(act{Op: "wbyte", C: 1})
			finish(r)
		}
		// grown past the size by Grow, then Reset / drained, and used again
		if r := begin("big", []string{"zero", "new"}[n%2], []byte{}, 0, 3); r != nil {
			for _, a := range []act{{Op: "write", P: fill(9, 0)}, {Op: "rbyte"}, {Op: "grow", N: n}, {Op: "wstr", P: fill(3, 1)},
				{Op: "reset"}, {Op: "write", P: fill(4, 2)}, {Op: "grow", N: n + 1}, {Op: "read", N: 4}, {Op: "rbyte"},
				{Op: "write", P: fill(6, 0)}, {Op: "writeto", K: 6, E: "nil"}, {Op: "wrune", R: 0x20ac}, {Op: "bytes"}} {
				r.step(a)
			}
			finish(r)
		}
	}
}

func readPlan(path string) []act {
	f, err := os.Open(path)
	if err != nil {
		tr.Fatal("%v", err)
	}
	defer f.Close()
	var out []act
	sc := bufio.NewScanner(f)
	sc.Buffer(make([]byte, 1<<20), 1<<26)
	for sc.Scan() {
		var a act
		if err := json.Unmarshal(sc.Bytes(), &a); err != nil {
			tr.Fatal("plan %s: %v", path, err)
		}
		out = append(out, a)
	}
	if err := sc.Err(); err != nil {
		tr.Fatal("plan %s: %v", path, err)
	}
	return out
}

func main() {
	plans := flag.String("plans", "", "directory of TLC-generated plans")
	out := flag.String("out", "tex.ndjson", "traces of tex.Buffer")
	ref := flag.String("ref", "std.ndjson", "traces of bytes.Buffer (same operations)")
	seed := flag.Int64("seed", 1, "seed")
	nhist := flag.Int("hist", 300, "random histories")
	maxops := flag.Int("maxops", 90, "max operations per history")
	flag.DurationVar(&hangAfter, "hang", hangAfter, "a call into tex.Buffer that takes longer is recorded as a hang")
	flag.Parse()
	rng := rand.New(rand.NewSource(*seed))
	paths, ops := map[string]int{}, map[string]int{}
	wt, ws := tr.Create(*out), tr.Create(*ref)
	ws.NoSync = true // crash evidence is the tex trace; the check drops a torn last line of this one
	diverged, skipped, maxLen, agu, nlazy, noBuffer := 0, 0, 0, 0, 0, 0
	stats := func(hung bool) {
		st, _ := json.Marshal(map[string]interface{}{"events": wt.N(), "paths": paths, "ops": ops,
			"histories_where_tex_and_std_differ": diverged, "skipped_plan_steps": skipped, "max_len": maxLen,
			"unread_after_grow": agu, "lazy_histories": nlazy, "constructor_panics": noBuffer, "hang": hung})
		fmt.Printf("STATS %s\n", st)
	}
	go func() { // watchdog
		var seen uint64
		var since time.Time
		for {
			time.Sleep(200 * time.Millisecond)
			wdMu.Lock()
			in, tick, a := wdInTex, wdTick, wdAct
			wdMu.Unlock()
			if !in || tick != seen {
				seen, since = tick, time.Now()
				continue
			}
			if time.Since(since) < hangAfter {
				continue
			}
			// the main goroutine is inside tex.Buffer and stays there: it does not use the writers
			wt.Emit(tr.E{"ev": "hang", "a": a, "after_ms": int(hangAfter / time.Millisecond)})
			wt.Close()
			ws.Close()
			stats(true)
			os.Exit(0)
		}
	}()
	finish := func(r *run) {
		r.end()
		if r.diverged {
			diverged++
		}
		if r.maxLen > maxLen {
			maxLen = r.maxLen
		}
		agu += r.afterGrowUnr
	}
	nrun := 0
	begin := func(src, kind string, init []byte, size, spare int) *run {
		nrun++
		lazy := nrun%2 == 0
		r := start(wt, ws, src, kind, init, size, spare, lazy, paths, ops)
		if r == nil {
			noBuffer++
		} else if lazy {
			nlazy++
		}
		return r
	}

	if *plans != "" {
		files, _ := filepath.Glob(filepath.Join(*plans, "*.ndjson"))
		sort.Strings(files)
		for i, f := range files {
			p := readPlan(f)
			if len(p) == 0 || p[0].Op != "init" {
				tr.Fatal("plan %s does not start with init", f)
			}
			r := begin("plan:"+filepath.Base(f), p[0].Ctor, toBytes(p[0].Init), p[0].Size, []int{0, -1, 5, 100}[i%4])
			if r == nil {
				continue
			}
			r.plan = true
			for _, a := range p[1:] {
				if !r.step(a) {
					skipped++
				}
			}
			finish(r)
		}
	}
	sweep(begin, finish)
	longRuns(begin, finish)
	bigSizes(begin, finish)
	ctors := []string{"zero", "zero", "new", "newstr", "sized", "sized"}
	for i := 0; i < *nhist; i++ {
		kind := ctors[rng.Intn(len(ctors))]
		var init []byte
		size, spare := 0, 0
		switch kind {
		case "new":
			init = toBytes(payload(rng, []int{0, 0, 1, 10, 63, 64, 65, 200}[rng.Intn(8)]))
			spare = []int{-1, 0, 0, 1, 63, 64, 600}[rng.Intn(7)] // -1: NewBuffer(nil) when there is no content
		case "newstr":
			init = toBytes(payload(rng, []int{0, 1, 10, 64, 65, 200}[rng.Intn(6)]))
		case "sized":
			size = []int{0, 1, 2, 8, 31, 63, 64, 65, 511, 512, 513, 1000, rng.Intn(3000)}[rng.Intn(13)]
		}
		r := begin("rand", kind, init, size, spare)
		if r == nil {
			continue
		}
		n := 10 + rng.Intn(*maxops)
		for j := 0; j < n; j++ {
			if !r.step(r.randAct(rng)) {
				skipped++
			}
		}
		finish(r)
	}
	wdLeave()
	wt.Close()
	ws.Close()
	stats(false)
}
