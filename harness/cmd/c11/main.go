// c11: drives neptune's tex.Buffer and the standard bytes.Buffer through the same operation
// sequences (TLC plans + seeded boundary-biased histories) and records, for each of the two, one
// ndjson trace per history: every call with its reply (result, error, panic) and the unread
// content afterwards.  Both files are validated by TLC against specs/bytebuffer/ByteBuffer_Trace.tla;
// a rejected tex trace is the violation, a rejected bytes.Buffer trace means the spec is wrong.
package main

import (
	"bufio"
	"bytes"
	"encoding/json"
	"errors"
	"flag"
	"fmt"
	"io"
	"math"
	"math/rand"
	"os"
	"path/filepath"
	"runtime"
	"sort"
	"unicode/utf8"

	"github.com/pinealctx/neptune/tex"

	"verif/harness/internal/tr"
)

// ---------------------------------------------------------------- actions

type rstep struct {
	B []int  `json:"b"`
	E string `json:"e"` // nil | EOF | boom | neg
}

type act struct {
	Op  string  `json:"op"`
	P   []int   `json:"p"`
	C   int     `json:"c"`
	R   int     `json:"r"`
	N   int     `json:"n"`
	K   int     `json:"k"`
	E   string  `json:"e"`
	Pos int     `json:"pos"`
	S   []rstep `json:"s"`
	// first line of a plan
	Ctor string `json:"ctor"`
	Init []int  `json:"init"`
	Size int    `json:"size"`
}

func ints(p []int) []int {
	if p == nil {
		return []int{}
	}
	return p
}

func (a act) rec() tr.E {
	switch a.Op {
	case "write", "wstr":
		return tr.E{"op": a.Op, "p": ints(a.P)}
	case "wbyte":
		return tr.E{"op": a.Op, "c": a.C}
	case "wrune":
		return tr.E{"op": a.Op, "r": a.R}
	case "read", "next", "trunc", "grow":
		return tr.E{"op": a.Op, "n": a.N}
	case "readfrom":
		s := make([]tr.E, 0, len(a.S))
		for _, st := range a.S {
			s = append(s, tr.E{"b": ints(st.B), "e": st.E})
		}
		return tr.E{"op": a.Op, "s": s}
	case "writeto":
		return tr.E{"op": a.Op, "k": a.K, "e": a.E}
	case "rewrite":
		return tr.E{"op": a.Op, "pos": a.Pos, "p": ints(a.P)}
	}
	return tr.E{"op": a.Op}
}

func toBytes(p []int) []byte {
	b := make([]byte, len(p))
	for i, x := range p {
		b[i] = byte(x)
	}
	return b
}

// ---------------------------------------------------------------- the two subjects

// bufAPI is the method set the property names; *tex.Buffer and *bytes.Buffer both have it.
type bufAPI interface {
	Write(p []byte) (int, error)
	WriteString(s string) (int, error)
	WriteByte(c byte) error
	WriteRune(r rune) (int, error)
	Read(p []byte) (int, error)
	ReadByte() (byte, error)
	ReadRune() (rune, int, error)
	UnreadByte() error
	UnreadRune() error
	Next(n int) []byte
	Truncate(n int)
	Reset()
	Grow(n int)
	ReadFrom(r io.Reader) (int64, error)
	WriteTo(w io.Writer) (int64, error)
	Len() int
	Cap() int
	Bytes() []byte
	String() string
}

type subject struct {
	name     string
	b        bufAPI
	nilStr   func() string
	rewrite  func(pos int, p []byte)
	tooLarge error
}

func newSubject(name, ctor string, init []byte, size, spare int) *subject {
	mk := func() []byte { // NewBuffer takes ownership: each subject gets its own copy
		buf := make([]byte, len(init), len(init)+spare)
		copy(buf, init)
		return buf
	}
	if name == "tex" {
		var b *tex.Buffer
		switch ctor {
		case "zero":
			b = new(tex.Buffer)
		case "new":
			b = tex.NewBuffer(mk())
		case "newstr":
			b = tex.NewBufferString(string(init))
		case "sized":
			b = tex.NewSizedBuffer(size)
		default:
			tr.Fatal("unknown constructor %q", ctor)
		}
		return &subject{name: name, b: b,
			nilStr:   func() string { return (*tex.Buffer)(nil).String() },
			rewrite:  b.ReWrite,
			tooLarge: tex.ErrTooLarge}
	}
	var b *bytes.Buffer
	switch ctor {
	case "zero":
		b = new(bytes.Buffer)
	case "new":
		b = bytes.NewBuffer(mk())
	case "newstr":
		b = bytes.NewBufferString(string(init))
	case "sized":
		b = bytes.NewBuffer(make([]byte, 0, size))
	default:
		tr.Fatal("unknown constructor %q", ctor)
	}
	return &subject{name: name, b: b,
		nilStr: func() string { return (*bytes.Buffer)(nil).String() },
		// reference meaning of ReWrite while nothing has been consumed: overwrite in place
		rewrite:  func(pos int, p []byte) { copy(b.Bytes()[pos:], p) },
		tooLarge: bytes.ErrTooLarge}
}

// ---------------------------------------------------------------- replies

type reply struct {
	N   int
	V   int
	Err string
	B   []int
}

func (r reply) rec() tr.E { return tr.E{"n": r.N, "v": r.V, "err": r.Err, "b": ints(r.B)} }

var errBoom = errors.New("boom")

// errName keeps the identity of the sentinel errors visible: an error that merely prints like
// io.EOF is not io.EOF.
func errName(err error) string {
	switch err {
	case nil:
		return "nil"
	case io.EOF:
		return "EOF"
	case errBoom:
		return "boom"
	case io.ErrShortWrite:
		return "short write"
	}
	s := err.Error()
	switch s {
	case "nil", "EOF", "boom", "short write":
		return s + " (a different error value)"
	}
	return s
}

func (s *subject) panicText(p interface{}) string {
	switch x := p.(type) {
	case runtime.Error:
		return "runtime error" // the message carries offsets and capacities: not part of the contract
	case error:
		if x.Error() == s.tooLarge.Error() && x != s.tooLarge {
			return x.Error() + " (not ErrTooLarge)"
		}
		return x.Error()
	case string:
		return x
	}
	return fmt.Sprint(p)
}

type scriptReader struct {
	steps []rstep
	i     int
	calls int
	small bool // a Read call offered less than MinRead / less than the chunk
}

func (r *scriptReader) Read(p []byte) (int, error) {
	r.calls++
	if len(p) < bytes.MinRead {
		r.small = true
	}
	if r.i >= len(r.steps) {
		return 0, io.EOF // keeps a misbehaving buffer from spinning; one call too many is visible in `calls`
	}
	st := r.steps[r.i]
	r.i++
	if st.E == "neg" {
		return -1, nil
	}
	n := copy(p, toBytes(st.B))
	if n < len(st.B) {
		r.small = true
	}
	switch st.E {
	case "EOF":
		return n, io.EOF
	case "boom":
		return n, errBoom
	}
	return n, nil
}

type scriptWriter struct {
	k     int
	e     error
	calls int
	got   []byte
}

func (w *scriptWriter) Write(p []byte) (int, error) {
	w.calls++
	w.got = append(w.got, p...)
	return w.k, w.e
}

// do performs one call; a panic of the code under test becomes the reply "panic: ...".
func (s *subject) do(a act) (r reply) {
	defer func() {
		if p := recover(); p != nil {
			r = reply{Err: "panic: " + s.panicText(p)}
		}
	}()
	b := s.b
	switch a.Op {
	case "write":
		n, err := b.Write(toBytes(a.P))
		return reply{N: n, Err: errName(err)}
	case "wstr":
		n, err := b.WriteString(string(toBytes(a.P)))
		return reply{N: n, Err: errName(err)}
	case "wbyte":
		return reply{Err: errName(b.WriteByte(byte(a.C)))}
	case "wrune":
		n, err := b.WriteRune(rune(a.R))
		return reply{N: n, Err: errName(err)}
	case "read":
		p := make([]byte, a.N)
		n, err := b.Read(p)
		return reply{N: n, Err: errName(err), B: tr.Ints(p[:n])}
	case "next":
		p := b.Next(a.N)
		return reply{N: len(p), Err: "nil", B: tr.Ints(p)}
	case "rbyte":
		c, err := b.ReadByte()
		return reply{V: int(c), Err: errName(err)}
	case "rrune":
		c, n, err := b.ReadRune()
		return reply{N: n, V: int(c), Err: errName(err)}
	case "unbyte":
		return reply{Err: errName(b.UnreadByte())}
	case "unrune":
		return reply{Err: errName(b.UnreadRune())}
	case "trunc":
		b.Truncate(a.N)
		return reply{Err: "nil"}
	case "reset":
		b.Reset()
		return reply{Err: "nil"}
	case "grow":
		b.Grow(a.N)
		return reply{Err: "nil"}
	case "growhuge":
		b.Grow(math.MaxInt)
		return reply{Err: "nil"}
	case "readfrom":
		rd := &scriptReader{steps: a.S}
		n, err := b.ReadFrom(rd)
		if rd.small {
			return reply{N: int(n), V: rd.calls, Err: "Read was offered fewer than MinRead bytes"}
		}
		return reply{N: int(n), V: rd.calls, Err: errName(err)}
	case "writeto":
		w := &scriptWriter{k: a.K}
		if a.E == "boom" {
			w.e = errBoom
		}
		n, err := b.WriteTo(w)
		return reply{N: int(n), V: w.calls, Err: errName(err), B: tr.Ints(w.got)}
	case "len":
		return reply{N: b.Len(), Err: "nil"}
	case "bytes":
		return reply{Err: "nil", B: tr.Ints(b.Bytes())}
	case "string":
		return reply{Err: "nil", B: tr.Str(b.String())}
	case "nilstr":
		return reply{Err: "nil", B: tr.Str(s.nilStr())}
	case "rewrite":
		s.rewrite(a.Pos, toBytes(a.P))
		return reply{Err: "nil"}
	}
	tr.Fatal("unknown op %q", a.Op)
	return
}

func (s *subject) obs() tr.E {
	return tr.E{"len": s.b.Len(), "b": tr.Ints(s.b.Bytes())}
}

// ---------------------------------------------------------------- one history on both buffers

type run struct {
	tex, std     *subject
	wt, ws       *tr.W
	dirty        bool // some byte consumed since construction / Reset / Truncate(0) (as the spec's `dirty`)
	lastRead     bool // previous call was a read that consumed something (generator hint only)
	lastGrow     bool // previous call was Grow (generator hint only)
	paths        map[string]int
	ops          map[string]int
	diverged     bool
	maxLen       int
	afterGrowUnr int
}

func start(wt, ws *tr.W, src, ctor string, init []byte, size, spare int, paths, ops map[string]int) *run {
	r := &run{wt: wt, ws: ws, paths: paths, ops: ops}
	r.tex = newSubject("tex", ctor, init, size, spare)
	r.std = newSubject("std", ctor, init, size, spare)
	for _, s := range []*subject{r.tex, r.std} {
		e := tr.E{"ev": "reset", "subject": s.name, "src": src, "ctor": ctor, "init": tr.Ints(init),
			"size": size, "spare": spare, "cap": s.b.Cap(), "obs": s.obs()}
		if s == r.tex {
			wt.Emit(e)
		} else {
			ws.Emit(e)
		}
	}
	return r
}

func base(b bufAPI) *byte {
	bs := b.Bytes()
	bs = bs[:cap(bs)]
	if len(bs) == 0 {
		return nil
	}
	return &bs[0]
}

var consuming = map[string]bool{"read": true, "next": true, "rbyte": true, "rrune": true, "writeto": true}
var appending = map[string]bool{"write": true, "wstr": true, "wbyte": true, "wrune": true, "readfrom": true, "grow": true}

// step executes one action on both buffers and logs it.  Returns false if the action is not
// applicable (ReWrite after something was consumed) and was skipped.
func (r *run) step(a act) bool {
	if a.Op == "rewrite" && r.dirty {
		return false
	}
	if (a.Op == "unbyte" || a.Op == "unrune") && r.lastGrow {
		r.afterGrowUnr++
	}
	// which way did tex's grow() go?  (coverage statistics only, never judged)
	c0, p0, l0 := r.tex.b.Cap(), base(r.tex.b), r.tex.b.Len()
	// which actions are issued next must never depend on the implementation under test: the
	// applicability bookkeeping (dirty / lastRead) follows the reference bytes.Buffer
	ls0 := r.std.b.Len()
	rt := r.tex.do(a)
	if appending[a.Op] {
		c1, p1 := r.tex.b.Cap(), base(r.tex.b)
		switch {
		case c1 != c0 && c0 == 0:
			r.paths["first-alloc"]++
			if c1 == 64 {
				r.paths["small-buffer"]++
			}
		case c1 != c0:
			r.paths["reallocate"]++
		case p1 != p0 && l0 == 0:
			r.paths["recycle-empty"]++
		case p1 != p0:
			r.paths["slide-down"]++
		default:
			r.paths["reslice"]++
		}
	}
	rs := r.std.do(a)
	ot, os := r.tex.obs(), r.std.obs()
	r.wt.Emit(tr.E{"ev": "call", "a": a.rec(), "r": rt.rec(), "obs": ot})
	r.ws.Emit(tr.E{"ev": "call", "a": a.rec(), "r": rs.rec(), "obs": os})
	r.ops[a.Op]++
	if n := r.tex.b.Len(); n > r.maxLen {
		r.maxLen = n
	}
	if fmt.Sprint(rt, ot) != fmt.Sprint(rs, os) {
		r.diverged = true // statistics only; the verdict is TLC's
	}
	switch {
	case a.Op == "reset" || (a.Op == "trunc" && a.N == 0):
		r.dirty = false
	case consuming[a.Op] && r.std.b.Len() < ls0:
		r.dirty = true
	}
	switch a.Op {
	case "len", "bytes", "string", "nilstr":
	default:
		r.lastRead = consuming[a.Op] && a.Op != "writeto" && r.std.b.Len() < ls0
		r.lastGrow = a.Op == "grow"
	}
	return true
}

// ---------------------------------------------------------------- generators

var edgeRunes = []int{math.MinInt32, -2147483647, -65536, -256, -191, -129, -128, -127, -2, -1, 0, 1, 'A', 0x7f, 0x80, 0xe9,
	0x7ff, 0x800, 0x20ac, 0xd7ff, 0xd800, 0xdbff, 0xdc00, 0xdfff, 0xe000, 0xfffd, 0xfffe, 0xffff, 0x10000, 0x1f600,
	0x10ffff, 0x110000, 0x1fffff, 0x200000, math.MaxInt32}

func randRune(rng *rand.Rand) int {
	switch rng.Intn(10) {
	case 0, 1, 2:
		return edgeRunes[rng.Intn(len(edgeRunes))]
	case 3:
		return -rng.Intn(1 << 20)
	case 4:
		return int(int32(rng.Uint32()))
	case 5, 6:
		return rng.Intn(128)
	case 7:
		return rng.Intn(0x800)
	case 8:
		return rng.Intn(0x10000)
	}
	return rng.Intn(0x110000)
}

// payload of n bytes: ASCII, raw bytes, or UTF-8 with the occasional damaged sequence
func payload(rng *rand.Rand, n int) []int {
	p := make([]int, 0, n+4)
	kind := rng.Intn(4)
	for len(p) < n {
		switch kind {
		case 0:
			p = append(p, 32+rng.Intn(95))
		case 1:
			p = append(p, rng.Intn(256))
		case 2:
			p = append(p, []int{0, 0x7f, 0x80, 0xbf, 0xc0, 0xc1, 0xc2, 0xdf, 0xe0, 0xed, 0xef, 0xf0, 0xf4, 0xf5, 0xff,
				0x9f, 0xa0, 0x8f, 0x90}[rng.Intn(19)])
		default:
			var tmp [4]byte
			k := utf8.EncodeRune(tmp[:], rune(randRune(rng)))
			if rng.Intn(8) == 0 && k > 1 {
				k-- // truncated sequence
			}
			for _, c := range tmp[:k] {
				p = append(p, int(c))
			}
		}
	}
	return p[:n]
}

// size near the thresholds of grow(): free space, half capacity, small buffer, MinRead
func edgeSize(rng *rand.Rand, b bufAPI) int {
	bs := b.Bytes()
	free := cap(bs) - len(bs)
	l, c := b.Len(), b.Cap()
	cands := []int{0, 1, 2, 3, 4, 5, 7, 8, 63, 64, 65, 127, 128, 129, 511, 512, 513,
		free - 1, free, free + 1, c/2 - l - 1, c/2 - l, c/2 - l + 1, c - l, c - l + 1, c, c + 1, 2*c + 1,
		l - 1, l, l + 1, l / 2}
	switch rng.Intn(5) {
	case 0:
		return rng.Intn(8)
	case 1:
		return rng.Intn(200)
	}
	n := cands[rng.Intn(len(cands))]
	if n < 0 {
		n = 0
	}
	if n > 600 {
		n = 600 - rng.Intn(90)
	}
	return n
}

func script(rng *rand.Rand, b bufAPI) []rstep {
	n := 1 + rng.Intn(3)
	var s []rstep
	for i := 0; i < n; i++ {
		sz := edgeSize(rng, b)
		if sz > bytes.MinRead {
			sz = bytes.MinRead
		}
		if rng.Intn(4) == 0 {
			sz = 0 // a Read that returns (0, nil) is legal
		}
		s = append(s, rstep{B: payload(rng, sz), E: "nil"})
	}
	switch x := rng.Intn(10); {
	case x < 5:
		s[len(s)-1].E = "EOF" // data together with EOF
	case x < 7:
		s = append(s, rstep{B: []int{}, E: "EOF"})
	case x < 9:
		s[len(s)-1].E = "boom"
	default:
		s = append(s, rstep{B: []int{}, E: "neg"})
	}
	return s
}

func (r *run) randAct(rng *rand.Rand) act {
	b := r.tex.b
	l := b.Len()
	// Unread* is interesting right after a read, and (excluded from the comparison, but it must
	// not crash or corrupt) right after Grow
	if r.lastRead && rng.Intn(100) < 40 || r.lastGrow && rng.Intn(100) < 15 {
		if rng.Intn(2) == 0 {
			return act{Op: "unbyte"}
		}
		return act{Op: "unrune"}
	}
	x := rng.Intn(1000)
	if l > 400 && rng.Intn(3) > 0 { // keep the logged contents small: drain
		x = 400 + rng.Intn(370)
	}
	switch {
	case x < 130:
		return act{Op: "write", P: payload(rng, edgeSize(rng, b))}
	case x < 200:
		return act{Op: "wstr", P: payload(rng, edgeSize(rng, b))}
	case x < 260:
		return act{Op: "wbyte", C: rng.Intn(256)}
	case x < 360:
		return act{Op: "wrune", R: randRune(rng)}
	case x < 400:
		return act{Op: "readfrom", S: script(rng, b)}
	case x < 500:
		return act{Op: "read", N: edgeSize(rng, b)}
	case x < 570:
		n := edgeSize(rng, b)
		if rng.Intn(12) == 0 {
			n = -1 - rng.Intn(3)
		}
		return act{Op: "next", N: n}
	case x < 630:
		return act{Op: "rbyte"}
	case x < 720:
		return act{Op: "rrune"}
	case x < 730:
		return act{Op: "reset"}
	case x < 770:
		n := []int{0, 1, l - 1, l, l + 1, l / 2, -1, rng.Intn(l + 2)}[rng.Intn(8)]
		return act{Op: "trunc", N: n}
	case x < 830:
		n := edgeSize(rng, b)
		if rng.Intn(10) == 0 {
			n = -1 - rng.Intn(3)
		}
		return act{Op: "grow", N: n}
	case x < 835:
		return act{Op: "growhuge"}
	case x < 870:
		k := []int{0, 1, l - 1, l, l, l, l + 1, l / 2}[rng.Intn(8)]
		if k < 0 {
			k = 0
		}
		e := "nil"
		if rng.Intn(4) == 0 {
			e = "boom"
		}
		return act{Op: "writeto", K: k, E: e}
	case x < 885:
		return act{Op: "unbyte"}
	case x < 900:
		return act{Op: "unrune"}
	case x < 920:
		return act{Op: "len"}
	case x < 940:
		return act{Op: "bytes"}
	case x < 960:
		return act{Op: "string"}
	case x < 963:
		return act{Op: "nilstr"}
	default:
		if r.dirty {
			return act{Op: "rbyte"}
		}
		pos := []int{0, 1, l - 1, l, l + 1, l / 2, -1, rng.Intn(l + 1)}[rng.Intn(8)]
		return act{Op: "rewrite", Pos: pos, P: payload(rng, []int{0, 1, 2, 5, l, l + 3}[rng.Intn(6)]%64)}
	}
}

func readPlan(path string) []act {
	f, err := os.Open(path)
	if err != nil {
		tr.Fatal("%v", err)
	}
	defer f.Close()
	var out []act
	sc := bufio.NewScanner(f)
	sc.Buffer(make([]byte, 1<<20), 1<<26)
	for sc.Scan() {
		var a act
		if err := json.Unmarshal(sc.Bytes(), &a); err != nil {
			tr.Fatal("plan %s: %v", path, err)
		}
		out = append(out, a)
	}
	if err := sc.Err(); err != nil {
		tr.Fatal("plan %s: %v", path, err)
	}
	return out
}

func main() {
	plans := flag.String("plans", "", "directory of TLC-generated plans")
	out := flag.String("out", "tex.ndjson", "traces of tex.Buffer")
	ref := flag.String("ref", "std.ndjson", "traces of bytes.Buffer (same operations)")
	seed := flag.Int64("seed", 1, "seed")
	nhist := flag.Int("hist", 300, "random histories")
	maxops := flag.Int("maxops", 90, "max operations per history")
	flag.Parse()
	rng := rand.New(rand.NewSource(*seed))
	paths, ops := map[string]int{}, map[string]int{}
	wt, ws := tr.Create(*out), tr.Create(*ref)
	diverged, skipped, maxLen, agu := 0, 0, 0, 0
	finish := func(r *run) {
		if r.diverged {
			diverged++
		}
		if r.maxLen > maxLen {
			maxLen = r.maxLen
		}
		agu += r.afterGrowUnr
	}

	if *plans != "" {
		files, _ := filepath.Glob(filepath.Join(*plans, "*.ndjson"))
		sort.Strings(files)
		for i, f := range files {
			p := readPlan(f)
			if len(p) == 0 || p[0].Op != "init" {
				tr.Fatal("plan %s does not start with init", f)
			}
			r := start(wt, ws, "plan:"+filepath.Base(f), p[0].Ctor, toBytes(p[0].Init), p[0].Size, []int{0, 0, 5, 100}[i%4], paths, ops)
			for _, a := range p[1:] {
				if !r.step(a) {
					skipped++
				}
			}
			finish(r)
		}
	}
	ctors := []string{"zero", "zero", "new", "newstr", "sized", "sized"}
	for i := 0; i < *nhist; i++ {
		ctor := ctors[rng.Intn(len(ctors))]
		var init []byte
		size, spare := 0, 0
		switch ctor {
		case "new":
			init = toBytes(payload(rng, []int{0, 1, 10, 64, 65, 200}[rng.Intn(6)]))
			spare = []int{0, 0, 1, 64, 600}[rng.Intn(5)]
		case "newstr":
			init = toBytes(payload(rng, []int{0, 1, 10, 64, 65, 200}[rng.Intn(6)]))
		case "sized":
			size = []int{0, 1, 8, 63, 64, 65, 512, 1000, rng.Intn(3000)}[rng.Intn(9)]
		}
		r := start(wt, ws, "rand", ctor, init, size, spare, paths, ops)
		n := 10 + rng.Intn(*maxops)
		for j := 0; j < n; j++ {
			if !r.step(r.randAct(rng)) {
				skipped++
			}
		}
		finish(r)
	}
	wt.Close()
	ws.Close()
	st, _ := json.Marshal(map[string]interface{}{"events": wt.N(), "paths": paths, "ops": ops,
		"histories_where_tex_and_std_differ": diverged, "skipped_plan_steps": skipped, "max_len": maxLen,
		"unread_after_grow": agu})
	fmt.Printf("STATS %s\n", st)
}
