// c06: drives neptune's id generators (snowflake.HardNode with an injected clock and layout,
// snowflake.MonoNode, nano.UnixNanoID / UnixNanoNoLockID) and records every returned id together
// with the clock readings in force, for validation by TLC (specs/idgen/IdGen_Trace.tla).
//
// Three sources of histories:
//   - plans simulated from IdGen.tla (overlapping callers of one HardNode).  The clock hook is a
//     rendez-vous: a caller inside Generate blocks where it reads the clock, the next caller parks
//     on the node mutex; one plan step = one action followed by global quiescence (internal/qx);
//   - seeded sequential histories: clock walks (stalls, jumps back, far future, before the epoch),
//     bursts of more than 4096 calls in one millisecond, restarts with the last id or with an id
//     just below a step wrap, every layout, many epochs;
//   - free-running goroutines on all three generators with inv/res events logged under one mutex
//     outside the generator's lock.
//
// 64-bit values are logged as 4 limbs of 16 bits (tr.Limbs).
package main

import (
	"bufio"
	"encoding/json"
	"flag"
	"fmt"
	"math/rand"
	"os"
	"path/filepath"
	"runtime"
	"sort"
	"sync"
	"sync/atomic"
	"time"

	"github.com/pinealctx/neptune/idgen/nano"
	"github.com/pinealctx/neptune/idgen/snowflake"

	"verif/harness/internal/qx"
	"verif/harness/internal/tr"
)

const stepBits = 12

func limbs(x int64) []int { return tr.Limbs(uint64(x)) }

// ---------------------------------------------------------------- layout

type layout struct {
	epoch int64 // unix ms
	nb    uint8
	low   bool
	node  int64
	// viaSetup: the layout is installed through the public Setup(options...) on top of the
	// package defaults instead of being written into the globals
	viaSetup bool
}

func (l layout) tsBits() uint { return 63 - stepBits - uint(l.nb) }

// compose builds an id from fields with the harness's own shifts (used only to fabricate
// restart ids; never to judge).
func (l layout) compose(ts, step int64) int64 {
	tshift := uint(l.nb) + stepBits
	if l.low {
		return ts<<tshift | step<<uint(l.nb) | l.node
	}
	return ts<<tshift | l.node<<stepBits | step
}

func ms(y int, m time.Month, d int) int64 {
	return time.Date(y, m, d, 0, 0, 0, 0, time.UTC).UnixNano() / 1e6
}

var farEpochs bool

// longRun: length of the one very long run of calls in a single millisecond (0 = none)
var longRun int

// ms1: 1 January of a year as unix milliseconds (without going through nanoseconds)
func ms1(y int) int64 { return time.Date(y, 1, 1, 0, 0, 0, 0, time.UTC).Unix() * 1000 }

func pickLayout(rng *rand.Rand, i int) layout {
	var l layout
	l.nb = []uint8{10, 9, 8}[i%3]
	l.low = (i/3)%2 == 1
	epochs := []int64{
		1609430400000,       // the package default (2021)
		ms(2000, 1, 1),      // 2000
		0,                   // 1970
		ms(2024, 2, 29) + 1, // odd millisecond
		-ms(2000, 1, 1),     // before 1970
		ms(2100, 6, 1),
		time.Now().UnixNano() / 1e6,
		ms(1990, 1, 1) + rng.Int63n(ms(2080, 1, 1)-ms(1990, 1, 1)),
	}
	if farEpochs {
		// epochs int64 nanoseconds cannot express (before 1678 / after 2262); off by default, see the
		// note in checks/c06.py
		epochs = append(epochs, ms1(1600), ms1(1650), ms1(2400), ms1(3000))
	}
	l.epoch = epochs[rng.Intn(len(epochs))]
	max := int64(1)<<l.nb - 1
	switch rng.Intn(4) {
	case 0:
		l.node = 0
	case 1:
		l.node = max
	case 2:
		l.node = 1
	default:
		l.node = rng.Int63n(max + 1)
	}
	// UseEpoch goes through int64 nanoseconds: only epochs it can express take the public path
	l.viaSetup = rng.Intn(2) == 0 && l.epoch > -nsLimitMs && l.epoch < nsLimitMs
	return l
}

const nsLimitMs = (1<<63 - 1) / 1000000

// install sets the package globals; returns restore.
func (l layout) install() func() {
	if !l.viaSetup {
		return snowflake.VerifSetConfig(l.epoch, l.nb, l.low)
	}
	restore := snowflake.VerifSetConfig(1609430400000, 10, false) // the package defaults
	opts := []snowflake.Option{snowflake.UseEpoch(time.UnixMilli(l.epoch)), snowflake.UseNodeMode(snowflake.NodeBitsMode(l.nb))}
	if l.low {
		opts = append(opts, snowflake.NodeAtLowest())
	}
	snowflake.Setup(opts...)
	return restore
}

func resetEvent(kind string, l layout, seeded bool, min, now int64, threads int, src string) tr.E {
	return tr.E{"ev": "reset", "kind": kind, "nb": int(l.nb), "low": l.low, "node": int(l.node),
		"seeded": seeded, "min": limbs(min), "now": limbs(now), "threads": threads, "src": src,
		"epoch": limbs(l.epoch), "setup": l.viaSetup}
}

// nsovf reports whether the absolute clock reading epoch+rel lies outside the range of int64
// nanoseconds (years 1678..2262).  Informational: the specification ignores the field.
func (l layout) nsovf(rel int64) bool {
	abs := l.epoch + rel
	return abs > (1<<63-1)/1000000 || abs < -(1<<63-1)/1000000
}

// safeGen converts a panic inside the library into an event the spec cannot explain.
func safeGen(f func() int64) (id int64, pmsg string) {
	defer func() {
		if p := recover(); p != nil {
			pmsg = fmt.Sprintf("panic: %v", p)
		}
	}()
	return f(), ""
}

// sink receives trace events (the trace writer, or a buffer filled by a watched goroutine).
type sink interface{ Emit(tr.E) }

// bufSink collects the events of one history run on its own goroutine.
type bufSink struct {
	mu   sync.Mutex
	evs  []tr.E
	prog int64 // progress counter: events and ticks
}

func (b *bufSink) Emit(e tr.E) {
	b.mu.Lock()
	b.evs = append(b.evs, e)
	b.mu.Unlock()
	atomic.AddInt64(&b.prog, 1)
}

// tick reports progress of a loop that does not emit (tight call loops).
func tick(w sink) {
	if b, ok := w.(*bufSink); ok {
		atomic.AddInt64(&b.prog, 1)
	}
}

// abortHistory ends a history whose generator could not be built (the refusal is in the trace).
type abortHistory struct{}

var hangs int

// guarded runs one history on its own goroutine and watches it: if it neither finishes nor makes
// progress for `patience`, the events recorded so far are written followed by a `hang` event
// (which the specification cannot explain) and the goroutine is abandoned.  A call of the code
// under test that never returns - spinning or parked - is thereby an observation judged by TLC,
// not the end of the harness.
func guarded(w *tr.W, what string, run func(s sink)) {
	if hangs >= maxHangs {
		return
	}
	b := &bufSink{}
	done := make(chan struct{})
	go func() {
		defer close(done)
		defer func() {
			if p := recover(); p != nil {
				if _, ok := p.(abortHistory); !ok {
					panic(p)
				}
			}
		}()
		run(b)
	}()
	last := int64(-1)
	hung := false
wait:
	for {
		select {
		case <-done:
			break wait
		case <-time.After(patience):
			p := atomic.LoadInt64(&b.prog)
			if p == last {
				hung = true
				break wait
			}
			last = p
		}
	}
	b.mu.Lock()
	for _, e := range b.evs {
		w.Emit(e)
	}
	if hung {
		if len(b.evs) == 0 {
			w.Emit(tr.E{"ev": "reset", "kind": "nano", "nb": 0, "low": false, "node": 0, "seeded": false,
				"min": limbs(0), "now": limbs(0), "threads": 1, "src": what})
		}
		w.Emit(tr.E{"ev": "hang", "what": what})
		hangs++
		b.evs = nil
	}
	b.mu.Unlock()
}

// a history is given up after two intervals without progress; after maxHangs of them the evidence is
// in and no further history is run (every one of them would wait for the same call again)
var patience = 4 * time.Second

const maxHangs = 3

// newHard builds a HardNode.  A refusal is an observation: `new {err}` after the reset event; the
// specification accepts it exactly when the node number does not fit the node width.
func newHard(w sink, l layout, min int64, src string) snowflake.Node {
	n, err := snowflake.NewNode(l.node, min)
	if err != nil || n == nil {
		w.Emit(resetEvent("hard", l, false, min, 0, 1, src))
		w.Emit(tr.E{"ev": "new", "err": true})
		panic(abortHistory{})
	}
	return n
}

func newMono(w sink, l layout, src string) snowflake.Node {
	n, err := snowflake.NewMonoNode(l.node)
	if err != nil || n == nil {
		w.Emit(resetEvent("mono", l, false, 0, 0, 1, src))
		w.Emit(tr.E{"ev": "new", "err": true})
		panic(abortHistory{})
	}
	return n
}

// runBadNode: node numbers that do not fit the node width (and the extremes that do).  The
// constructors must refuse exactly the former; if one is accepted a few ids are generated as well.
func runBadNode(w sink, rng *rand.Rand, i int) {
	l := pickLayout(rng, i)
	max := int64(1)<<l.nb - 1
	l.node = []int64{max + 1, -1, 1 << 20, 1 << 12, max + 2, -(1 << 20), 0, max}[i%8]
	kind := []string{"hard", "mono"}[(i/8)%2]
	if kind == "mono" {
		l.epoch = monoEpoch(l.epoch)
	}
	defer l.install()()
	defer snowflake.VerifSetNow(func() time.Time { return time.UnixMilli(l.epoch + 12345) })()
	var n snowflake.Node
	var err error
	if kind == "hard" {
		n, err = snowflake.NewNode(l.node, 0)
	} else {
		n, err = snowflake.NewMonoNode(l.node)
	}
	w.Emit(resetEvent(kind, l, false, 0, 12345, 1, "badnode"))
	w.Emit(tr.E{"ev": "new", "err": err != nil})
	if err == nil && n != nil {
		for k := 0; k < 3; k++ {
			id, p := safeGen(n.Generate)
			if p != "" {
				w.Emit(tr.E{"ev": "panic", "msg": p})
				return
			}
			now := int64(12345)
			if kind == "mono" {
				now = 0
			}
			w.Emit(tr.E{"ev": "gen", "now": limbs(now), "id": limbs(id), "nsovf": false})
		}
	}
}

// ---------------------------------------------------------------- clock domain

// relBases are starting points of the clock relative to the epoch (ms).  The contract is only
// claimed for readings whose offset fits the timestamp width; `margin` keeps room for carries.
const margin = 1 << 20

func pickBase(rng *rand.Rand, l layout) int64 {
	lim := int64(1)<<l.tsBits() - 1 - margin
	switch rng.Intn(9) {
	case 0:
		return 0
	case 1:
		return -1 - rng.Int63n(1000) // the clock is behind the epoch
	case 2:
		return 1 + rng.Int63n(5)
	case 3:
		return lim - rng.Int63n(1<<30) // far future, close to the width limit
	case 4:
		return lim
	case 5:
		return int64(1)<<40 + rng.Int63n(1<<20)
	case 6:
		// a clock shortly before / after 2262-04-11 (where int64 nanoseconds end), if it fits
		b := ms(2262, 4, 11) - l.epoch + rng.Int63n(86400000*3) - 86400000
		if b > 0 && b < lim {
			return b
		}
		return lim / 2
	default:
		return rng.Int63n(lim)
	}
}

func clampRel(l layout, r int64) int64 {
	lim := int64(1)<<l.tsBits() - 1 - margin
	if r > lim {
		return lim
	}
	if r < -(int64(1) << 40) {
		return -(int64(1) << 40)
	}
	return r
}

// ---------------------------------------------------------------- sequential: HardNode

type hardSeq struct {
	w      sink
	l      layout
	rel    *int64 // current reading (ms relative to epoch), read by the hook (shared by a pair)
	n      snowflake.Node
	lastID int64
	has    bool
	src    string
	// env is set for histories that change the layout on the way; nodeEpoch is the epoch in force
	// when the node in use was built
	env       *hardEnv
	nodeEpoch int64
}

// hardEnv is what the nodes of one history share: the layout in force and the epoch the clock hook
// uses to turn the relative reading into an instant (the epoch of the node being called).
type hardEnv struct {
	hookEpoch int64
	cur       layout
	rng       *rand.Rand
}

// force makes l's epoch / node width / placement the layout in force (through the hook or Setup).
func (e *hardEnv) force(l layout) {
	if l.epoch == e.cur.epoch && l.nb == e.cur.nb && l.low == e.cur.low {
		return
	}
	l.viaSetup = e.rng.Intn(2) == 0 && l.epoch > -nsLimitMs && l.epoch < nsLimitMs
	l.install() // the history's first install restores the original at its end
	e.cur = l
}

// use: before a node is called its own width and placement are (again) in force - another node of
// the history may live under another layout - and the hook speaks the node's epoch.
func (h *hardSeq) use() {
	if h.env != nil {
		h.env.force(h.l)
		atomic.StoreInt64(&h.env.hookEpoch, h.nodeEpoch)
	}
}

// reEpoch: the package's epoch is changed while the node lives on.  A node keeps the epoch it was
// built under; nodes built from now on (restarts) use the new one.
func (h *hardSeq) reEpoch(e int64) { h.l.epoch = e }

func (h *hardSeq) start(seeded bool, min int64) {
	h.nodeEpoch = h.l.epoch
	h.use()
	h.n = newHard(h.w, h.l, min, h.src)
	h.has = seeded
	h.lastID = min
	h.w.Emit(resetEvent("hard", h.l, seeded, min, atomic.LoadInt64(h.rel), 1, h.src))
}

func (h *hardSeq) gen(k int) {
	h.use()
	for i := 0; i < k; i++ {
		now := atomic.LoadInt64(h.rel)
		id, p := safeGen(h.n.Generate)
		if p != "" {
			h.w.Emit(tr.E{"ev": "panic", "msg": p})
			continue
		}
		h.w.Emit(tr.E{"ev": "gen", "now": limbs(now), "id": limbs(id), "nsovf": layout{epoch: h.nodeEpoch}.nsovf(now)})
		h.lastID, h.has = id, true
	}
}

func (h *hardSeq) set(r int64) { atomic.StoreInt64(h.rel, clampRel(h.l, r)) }

func runHardSeq(w sink, rng *rand.Rand, i int, nseg int, burst bool) {
	l := pickLayout(rng, i)
	defer l.install()()
	env := &hardEnv{cur: l, rng: rng}
	h := &hardSeq{w: w, l: l, src: "hardseq", rel: new(int64), env: env}
	h.set(pickBase(rng, l))
	defer snowflake.VerifSetNow(func() time.Time {
		return time.UnixMilli(atomic.LoadInt64(&env.hookEpoch) + atomic.LoadInt64(h.rel))
	})()
	// first incarnation: fresh, or restarted with an id that this node could have issued
	switch rng.Intn(4) {
	case 0:
		h.start(false, 0)
	default:
		h.start(true, fabricate(rng, l, atomic.LoadInt64(h.rel)))
	}
	if longRun > 0 && burst && i == 0 {
		// one operation repeated across the 16-bit boundary within one millisecond
		h.gen(longRun)
	}
	if burst {
		// more than 4096 requests inside one millisecond, then the clock stalls / steps by one
		// (run lengths at and around the 4096 steps of a millisecond and their multiples)
		h.gen([]int{4095, 4096, 4097, 4098, 8191, 8192, 8193, 4097 + rng.Intn(300)}[(i+int(rng.Int63n(8)))%8])
		h.set(*h.rel + int64(rng.Intn(3)))
		h.gen(3)
		nseg = 6
	}
	for s := 0; s < nseg; s++ {
		switch x := rng.Intn(100); {
		case x < 22: // stall
			h.gen([]int{1, 2, 3, 5, 17, 60}[rng.Intn(6)])
		case x < 42: // forward
			h.set(*h.rel + []int64{1, 1, 2, 7, 1000, 86400000, 1 << 35}[rng.Intn(7)])
			h.gen(1 + rng.Intn(3))
		case x < 62: // backwards
			h.set(*h.rel - []int64{1, 1, 2, 50, 1000000, 1 << 36}[rng.Intn(6)])
			h.gen(1 + rng.Intn(4))
		case x < 70: // somewhere else entirely
			h.set(pickBase(rng, l))
			h.gen(1 + rng.Intn(3))
		case x < 85: // restart with the last id issued (possibly under an epoch installed meanwhile)
			if h.has {
				h.start(true, h.lastID)
				h.gen(1 + rng.Intn(3))
			}
		case x < 93: // restart with an id near a step wrap
			h.start(true, fabricate(rng, l, atomic.LoadInt64(h.rel)))
			h.gen(1 + rng.Intn(6))
		case x < 96: // the clock jumps back while the step counter is about to wrap
			if h.has {
				h.set(*h.rel - int64(rng.Intn(3)))
				h.gen(2)
			}
		default: // the package is given another epoch while the node lives on (and is later restarted)
			h.reEpoch(pickLayout(rng, rng.Intn(6)).epoch)
			h.gen(1 + rng.Intn(3))
		}
	}
}

// runHardPair: ONE caller uses two nodes (different node numbers, same layout and clock) in turns,
// restarting either of them now and then.  Each node is a generator of its own: its ids must be
// increasing, floored by the clock and carry its own number whatever the other one is doing.  The
// two histories are recorded separately and written one after the other.
func runHardPair(w sink, rng *rand.Rand, i int, nseg int) {
	l := pickLayout(rng, i)
	defer l.install()()
	rel := new(int64)
	la, lb := l, l
	max := int64(1)<<l.nb - 1
	lb.node = (l.node + 1 + rng.Int63n(max)) % (max + 1)
	if rng.Intn(2) == 0 {
		// the second node lives under another layout (epoch and/or width and/or placement): the
		// caller installs a node's layout before it turns to that node - A, B, A, ...
		lb = pickLayout(rng, rng.Intn(6))
		if rng.Intn(3) == 0 {
			lb.nb, lb.low = l.nb, l.low
		}
	}
	env := &hardEnv{cur: l, rng: rng}
	ba, bb := &bufSink{}, &bufSink{}
	hs := []*hardSeq{{w: ba, l: la, src: "hardpair", rel: rel, env: env}, {w: bb, l: lb, src: "hardpair", rel: rel, env: env}}
	// one clock for both: readings every layout of the pair can express
	base := pickBase(rng, l)
	if lim := int64(1)<<lb.tsBits() - 1 - margin; base > lim {
		base = lim
	}
	if lim := int64(1)<<la.tsBits() - 1 - margin; base > lim {
		base = lim
	}
	narrow := la
	if lb.nb > la.nb {
		narrow = lb
	}
	setRel := func(r int64) { atomic.StoreInt64(rel, clampRel(narrow, r)) }
	setRel(base)
	defer snowflake.VerifSetNow(func() time.Time {
		return time.UnixMilli(atomic.LoadInt64(&env.hookEpoch) + atomic.LoadInt64(rel))
	})()
	defer func() { // whatever happens, what was recorded is written
		for _, b := range []*bufSink{ba, bb} {
			for _, e := range b.evs {
				w.Emit(e)
			}
		}
	}()
	for _, h := range hs {
		if rng.Intn(2) == 0 {
			h.start(false, 0)
		} else {
			h.start(true, fabricate(rng, h.l, atomic.LoadInt64(rel)))
		}
	}
	for s := 0; s < nseg; s++ {
		h := hs[rng.Intn(2)]
		switch x := rng.Intn(100); {
		case x < 45:
			h.gen(1 + rng.Intn(3))
		case x < 60:
			setRel(*h.rel + []int64{1, 1, 2, 1000}[rng.Intn(4)])
			h.gen(1)
		case x < 75:
			setRel(*h.rel - []int64{1, 2, 50, 100000}[rng.Intn(4)])
			h.gen(1 + rng.Intn(2))
		case x < 85: // alternate strictly
			for k := 0; k < 4; k++ {
				hs[k%2].gen(1)
			}
		case x < 93:
			if h.has {
				h.start(true, h.lastID)
				h.gen(1)
			}
		default:
			h.start(true, fabricate(rng, h.l, atomic.LoadInt64(rel)))
			h.gen(2)
		}
		tick(w)
	}
}

// fabricate returns an id a node with this layout and number could have issued around `rel`.
func fabricate(rng *rand.Rand, l layout, rel int64) int64 {
	ts := rel + []int64{0, 0, 1, -1, 5, 100000, -100000}[rng.Intn(7)]
	if ts < 0 {
		ts = 0
	}
	ts = clampRel(l, ts)
	step := []int64{0, 1, 4095, 4094, 4090, 2048, rng.Int63n(4096)}[rng.Intn(7)]
	return l.compose(ts, step)
}

// ---------------------------------------------------------------- sequential: MonoNode, nano

func runMonoSeq(w sink, rng *rand.Rand, i int, calls int) {
	l := pickLayout(rng, i)
	l.epoch = monoEpoch(l.epoch)
	defer l.install()()
	n := newMono(w, l, "monoseq")
	ids := make([]int64, 0, calls)
	var pm string
	w.Emit(resetEvent("mono", l, false, 0, 0, 1, "monoseq"))
	for k := 0; k < calls && pm == ""; k++ { // tight loop: far more than 4096 calls per millisecond
		var id int64
		id, pm = safeGen(n.Generate)
		ids = append(ids, id)
		if k&1023 == 0 {
			tick(w)
		}
	}
	for k, id := range ids {
		if pm != "" && k == len(ids)-1 {
			w.Emit(tr.E{"ev": "panic", "msg": pm})
			break
		}
		w.Emit(tr.E{"ev": "gen", "now": limbs(0), "id": limbs(id)})
	}
}

// monoEpoch: MonoNode reads the real clock, so the epoch must lie in the past and less than the
// narrowest timestamp width (41 bits = 69 years) back.
func monoEpoch(e int64) int64 {
	if e > time.Now().UnixNano()/1e6 || e < ms(1990, 1, 1) {
		return 1609430400000
	}
	return e
}

type nanoGen interface {
	GenID() int64
	GenIDByTS(ts int64) int64
}

func runNanoSeq(w sink, rng *rand.Rand, i int, calls int) {
	bases := []int64{0, 1, -5, time.Now().UnixNano(), 1 << 62, -(1 << 62), rng.Int63n(1 << 60),
		-(1 << 63) + 1<<40, 1<<63 - 1<<50}
	cur := bases[rng.Intn(len(bases))]
	var g nanoGen
	src := "nanoseq"
	switch {
	case i%8 == 6: // the zero value of the exported type, never constructed
		g, cur, src = &nano.UnixNanoID{}, 0, "nanoseq-zero"
	case i%8 == 7:
		g, cur, src = &nano.UnixNanoNoLockID{}, 0, "nanoseq-nolock-zero"
	case i%2 == 0:
		g = nano.NewUnixNanoID(cur)
	default:
		g = nano.NewUnixNanoNoLockID(cur)
		src = "nanoseq-nolock"
	}
	l := layout{nb: 0}
	w.Emit(resetEvent("nano", l, false, 0, 0, 1, src))
	ts := cur + int64(rng.Intn(5)) - 2
	useClock := i%5 == 4 && cur <= time.Now().UnixNano()
	for k := 0; k < calls; k++ {
		var id int64
		var pm string
		if useClock {
			id, pm = safeGen(g.GenID)
			ts = 0
		} else {
			switch rng.Intn(6) {
			case 0: // same timestamp again
			case 1:
				ts++
			case 2:
				ts -= 1 + rng.Int63n(1000)
			case 3:
				ts += 1 + rng.Int63n(1000000)
			case 4:
				ts = cur + int64(k) // exactly what the generator would give next
			default:
				ts += int64(rng.Intn(3)) - 1
			}
			t := ts
			id, pm = safeGen(func() int64 { return g.GenIDByTS(t) })
		}
		if pm != "" {
			w.Emit(tr.E{"ev": "panic", "msg": pm})
			return
		}
		w.Emit(tr.E{"ev": "gen", "now": limbs(ts), "id": limbs(id)})
	}
}

// ---------------------------------------------------------------- plans (gated HardNode)

type act struct {
	Op     string `json:"op"`
	Now    int64  `json:"now"`
	T      int    `json:"t"`
	Nb     int    `json:"nb"`
	Low    bool   `json:"low"`
	Node   int    `json:"node"`
	Seeded bool   `json:"seeded"`
	T0     int64  `json:"t0"`
	S0     int64  `json:"s0"`
	C0     int64  `json:"c0"`
}

func readPlan(path string) []act {
	f, err := os.Open(path)
	if err != nil {
		tr.Fatal("%v", err)
	}
	defer f.Close()
	var out []act
	sc := bufio.NewScanner(f)
	for sc.Scan() {
		var a act
		if err := json.Unmarshal(sc.Bytes(), &a); err != nil {
			tr.Fatal("plan %s: %v", path, err)
		}
		out = append(out, a)
	}
	return out
}

// planLayout maps the scaled layout of the model (1/2 node bits, node 0/all-ones) to a real one.
func planLayout(rng *rand.Rand, p act, i int) layout {
	l := pickLayout(rng, i)
	if p.Nb == 1 {
		l.nb = []uint8{8, 9}[i%2]
	} else {
		l.nb = 10
	}
	l.low = p.Low
	if p.Node == 0 {
		l.node = 0
	} else {
		l.node = int64(1)<<l.nb - 1
	}
	return l
}

type arrival struct{ c chan int64 }

// plansBroken: a plan ended with a goroutine that never parks (see settle)
var plansBroken bool

// direct runs a history on the calling goroutine; a refused constructor ends it.
func direct(run func()) {
	defer func() {
		if p := recover(); p != nil {
			if _, ok := p.(abortHistory); !ok {
				panic(p)
			}
		}
	}()
	run()
}

// runPlan executes one plan on real goroutines.  Model clock value c is the reading base+c; a
// seeded model node (t0, s0) is a real node restarted with (base+t0, 4092+s0), so that the step
// counter wraps where the 2-bit counter of the model does.
func runPlan(w sink, rng *rand.Rand, name string, plan []act, i int) {
	init := plan[0]
	l := planLayout(rng, init, i)
	defer l.install()()
	base := pickBase(rng, l)
	if base > int64(1)<<l.tsBits()-1-margin-16 {
		base -= 16
	}
	threads := 3
	x := qx.New(threads)
	defer x.Stop()
	arrivals := make(chan *arrival, 64)
	defer snowflake.VerifSetNow(func() time.Time {
		a := &arrival{make(chan int64)}
		arrivals <- a
		return time.UnixMilli(l.epoch + <-a.c)
	})()

	rel := base + init.C0
	var waiting []*arrival
	var lastMax int64
	has := init.Seeded
	if init.Seeded {
		lastMax = l.compose(base+init.T0, 4092+init.S0)
		if base+init.T0 < 0 {
			lastMax = l.compose(0, 4092+init.S0)
		}
	}
	node := newHard(w, l, lastMax, "plan:"+name)
	w.Emit(resetEvent("hard", l, has, lastMax, rel, threads, "plan:"+name))

	settle := func() {
		if err := x.Settle(); err != nil {
			// something of the process keeps running although every step is one short call: a call
			// of the code under test that spins.  An observation; the step-wise executor cannot go
			// on with a goroutine that never parks, so the remaining plans are skipped.
			w.Emit(tr.E{"ev": "hang", "what": "plan:" + name, "why": err.Error()})
			plansBroken = true
			panic(abortHistory{})
		}
		for {
			select {
			case a := <-arrivals:
				waiting = append(waiting, a)
				continue
			default:
			}
			break
		}
		for t := 1; t <= threads; t++ {
			if r, ok := x.Take(t); ok {
				switch v := r.(type) {
				case int64:
					w.Emit(tr.E{"ev": "res", "t": t, "id": limbs(v), "nsovf": l.nsovf(rel)})
					if !has || v > lastMax {
						lastMax, has = v, true
					}
				default:
					w.Emit(tr.E{"ev": "panic", "t": t, "msg": fmt.Sprint(v)})
				}
			}
		}
	}
	busy := func() bool {
		for t := 1; t <= threads; t++ {
			if x.Busy(t) {
				return true
			}
		}
		return false
	}
	release := func() {
		a := waiting[0]
		waiting = waiting[1:]
		a.c <- rel
		settle()
	}
	for _, a := range plan[1:] {
		switch a.Op {
		case "tick":
			rel = base + a.Now
			w.Emit(tr.E{"ev": "clk", "now": limbs(rel)})
		case "inv":
			if a.T < 1 || a.T > threads || x.Busy(a.T) {
				continue
			}
			w.Emit(tr.E{"ev": "inv", "t": a.T})
			n := node
			x.Issue(a.T, func() interface{} {
				id, p := safeGen(n.Generate)
				if p != "" {
					return p
				}
				return id
			})
			settle()
		case "lin":
			if len(waiting) == 0 {
				continue
			}
			release()
		case "restart":
			if busy() || !has {
				continue
			}
			node = newHard(w, l, lastMax, "plan:"+name+":restart")
			w.Emit(resetEvent("hard", l, true, lastMax, rel, threads, "plan:"+name+":restart"))
		case "res", "init":
		default:
			tr.Fatal("plan %s: unknown op %q", name, a.Op)
		}
	}
	for len(waiting) > 0 {
		release()
	}
	for t := 1; t <= threads; t++ {
		if x.Busy(t) {
			// parked for ever although nobody holds the node: a fact about goroutine states
			w.Emit(tr.E{"ev": "hang", "t": t, "state": x.WaitState(t)})
			hangs++
		}
	}
}

// runPlanBatch executes the plan's clock trajectory sequentially with every linearized call of
// the model standing for 1024 real calls (4 x 1024 = one full step cycle, as 4 calls are in the
// model), so stalls of the model become bursts of more than 4096 calls in one millisecond.
func runPlanBatch(w sink, rng *rand.Rand, name string, plan []act, i int) {
	init := plan[0]
	l := planLayout(rng, init, i)
	defer l.install()()
	base := pickBase(rng, l)
	h := &hardSeq{w: w, l: l, src: "planbatch:" + name, rel: new(int64)}
	h.set(base + init.C0)
	defer snowflake.VerifSetNow(func() time.Time {
		return time.UnixMilli(l.epoch + atomic.LoadInt64(h.rel))
	})()
	if init.Seeded {
		ts := base + init.T0
		if ts < 0 {
			ts = 0
		}
		h.start(true, l.compose(ts, 1024*init.S0+1023))
	} else {
		h.start(false, 0)
	}
	for _, a := range plan[1:] {
		switch a.Op {
		case "tick":
			h.set(base + a.Now)
		case "lin":
			h.gen(1024)
		case "restart":
			if h.has {
				h.start(true, h.lastID)
			}
		}
	}
}

// ---------------------------------------------------------------- free-running goroutines

// sev is one event of a free-running history, stamped with a global atomic sequence number.
type sev struct {
	seq  int64
	kind byte // 'i' inv, 'r' res, 'c' clk, 'p' panic
	t    int
	v    int64 // id (res) or clock reading (clk)
	ovf  bool
	msg  string
}

// concStats says how much the calls of the free-running histories really overlapped.
type concStats struct {
	calls, overlapped, maxPending int
}

var concByKind = map[string]*concStats{}

// runConc: G goroutines, released together by a spin barrier, call one generator in a tight loop.
// Every call takes a global sequence number (one atomic add) immediately before it is invoked and
// another immediately after it returned, outside the generator's own lock; events are kept in
// per-goroutine buffers and merged by sequence number afterwards.  "res(A).seq < inv(B).seq"
// implies that A returned before B was invoked, so the merged log is a sound inv/res history.
//
// For the wall-clock node ONE mover goroutine changes the injected clock.  A change old -> new is
// bracketed by two sequence numbers: at the first a clk event with min(old, new) is logged, at the
// second a clk event with new.  A call therefore never obtained a reading below the smallest clk
// value logged between (the last clk before) its inv and its res.
//
// nano modes: "clock" = GenID() (reads time.Now), "ts" = GenIDByTS, "mixed" = both; the generator
// starts at 0, at the current time, or ahead of the clock (the clock went back since the last id:
// every call takes the current+1 path).
func runConc(w sink, rng *rand.Rand, kind, mode string, i int, G, perG, burners int, cold bool) bool {
	l := pickLayout(rng, i)
	var gen func(r *rand.Rand) int64
	var rel int64
	var reset tr.E
	restores := []func(){}
	defer func() {
		for _, f := range restores {
			f()
		}
	}()
	src := "conc"
	switch kind {
	case "hard":
		restores = append(restores, l.install())
		rel = pickBase(rng, l)
		restores = append(restores, snowflake.VerifSetNow(func() time.Time {
			return time.UnixMilli(l.epoch + atomic.LoadInt64(&rel))
		}))
		seeded := rng.Intn(2) == 0
		var min int64
		if seeded {
			min = fabricate(rng, l, rel)
		}
		n := newHard(w, l, min, src)
		gen = func(*rand.Rand) int64 { return n.Generate() }
		reset = resetEvent("hard", l, seeded, min, rel, G, src)
	case "mono":
		l.epoch = monoEpoch(l.epoch)
		restores = append(restores, l.install())
		n := newMono(w, l, src)
		gen = func(*rand.Rand) int64 { return n.Generate() }
		reset = resetEvent("mono", l, false, 0, 0, G, src)
	case "nano":
		now := time.Now().UnixNano()
		cur := []int64{now + 3600e9, now, 0, 1 << 61}[(i/4)%4]
		g := nano.NewUnixNanoID(cur)
		base := cur
		if base < now {
			base = now
		}
		gen = func(r *rand.Rand) int64 {
			if mode == "clock" || (mode == "mixed" && r.Intn(2) == 0) {
				return g.GenID()
			}
			return g.GenIDByTS(base + r.Int63n(64) - 8)
		}
		src = "conc-" + mode
		reset = resetEvent("nano", layout{}, false, 0, 0, G, src)
	}
	var seq int64
	var ready, done int32
	bufs := make([][]sev, G+1)
	var wg sync.WaitGroup
	barrier := func() {
		atomic.AddInt32(&ready, 1)
		for n := 0; atomic.LoadInt32(&ready) < int32(G); n++ {
			if n%2000 == 1999 {
				runtime.Gosched()
			}
		}
	}
	for t := 1; t <= G; t++ {
		wg.Add(1)
		r := rand.New(rand.NewSource(rng.Int63()))
		go func(t int, r *rand.Rand) {
			defer wg.Done()
			defer atomic.AddInt32(&done, 1)
			buf := make([]sev, 0, 2*perG+2)
			defer func() { bufs[t] = buf }()
			barrier()
			for k := 0; k < perG; k++ {
				s1 := atomic.AddInt64(&seq, 1)
				id, p := safeGen(func() int64 { return gen(r) })
				s2 := atomic.AddInt64(&seq, 1)
				buf = append(buf, sev{seq: s1, kind: 'i', t: t})
				if p != "" {
					buf = append(buf, sev{seq: s2, kind: 'p', t: t, msg: p})
					return
				}
				buf = append(buf, sev{seq: s2, kind: 'r', t: t, v: id,
					ovf: kind == "hard" && l.nsovf(atomic.LoadInt64(&rel))})
			}
		}(t, r)
	}
	// burners: extra callers whose ids are not logged (legitimate use too); they raise the request
	// rate so that the step counter wraps (MonoNode's spin path) without flooding the log
	for b := 0; b < burners; b++ {
		r := rand.New(rand.NewSource(rng.Int63()))
		go func(r *rand.Rand) {
			for atomic.LoadInt32(&done) < int32(G) {
				for k := 0; k < 64; k++ {
					safeGen(func() int64 { return gen(r) })
				}
			}
		}(r)
	}
	if kind == "hard" {
		// the single clock mover
		mr := rand.New(rand.NewSource(rng.Int63()))
		for atomic.LoadInt32(&ready) < int32(G) {
			runtime.Gosched()
		}
		var buf []sev
		for n := 0; atomic.LoadInt32(&done) < int32(G) && n < 150; n++ {
			old := atomic.LoadInt64(&rel)
			nr := clampRel(l, old+[]int64{1, 1, -1, -3, 2, 1000, -1000}[mr.Intn(7)])
			lo := old
			if nr < lo {
				lo = nr
			}
			s1 := atomic.AddInt64(&seq, 1)
			atomic.StoreInt64(&rel, nr)
			s2 := atomic.AddInt64(&seq, 1)
			buf = append(buf, sev{seq: s1, kind: 'c', v: lo}, sev{seq: s2, kind: 'c', v: nr})
			for y := 0; y < 20+mr.Intn(200); y++ {
				runtime.Gosched()
			}
		}
		bufs[0] = buf
	}
	wg.Wait()
	var all []sev
	for _, b := range bufs {
		all = append(all, b...)
	}
	sort.Slice(all, func(a, b int) bool { return all[a].seq < all[b].seq })
	// overlap statistics: a call overlapped if another call was pending at some point of it
	key := kind
	if cold {
		// cold-start round: a fresh generator first touched by all goroutines at once, a few calls
		// each.  A round whose calls did not overlap is a sequential history and is not kept.
		key = kind + "-cold"
		over, pend := false, 0
		for _, e := range all {
			switch e.kind {
			case 'i':
				if pend > 0 {
					over = true
				}
				pend++
			case 'r', 'p':
				pend--
			}
		}
		coldRounds++
		if !over {
			return false
		}
		reset["src"] = "cold-" + fmt.Sprint(reset["src"])
	}
	st := concByKind[key]
	if st == nil {
		st = &concStats{}
		concByKind[key] = st
	}
	pending := map[int]bool{} // thread -> its pending call already counted as overlapped
	w.Emit(reset)
	for _, e := range all {
		switch e.kind {
		case 'i':
			st.calls++
			over := len(pending) > 0
			for t, o := range pending {
				if !o {
					pending[t] = true
					st.overlapped++
				}
			}
			pending[e.t] = over
			if over {
				st.overlapped++
			}
			if len(pending) > st.maxPending {
				st.maxPending = len(pending)
			}
			w.Emit(tr.E{"ev": "inv", "t": e.t})
		case 'r':
			delete(pending, e.t)
			w.Emit(tr.E{"ev": "res", "t": e.t, "id": limbs(e.v), "nsovf": e.ovf})
		case 'p':
			delete(pending, e.t)
			w.Emit(tr.E{"ev": "panic", "t": e.t, "msg": e.msg})
		case 'c':
			w.Emit(tr.E{"ev": "clk", "now": limbs(e.v)})
		}
	}
	return true
}

var coldRounds int

func main() {
	plans := flag.String("plans", "", "directory of TLC-generated plans")
	out := flag.String("out", "seq.ndjson", "sequential and plan traces")
	conc := flag.String("conc", "conc.ndjson", "free-running traces")
	seed := flag.Int64("seed", 1, "seed")
	nhist := flag.Int("hist", 300, "sequential HardNode histories")
	nburst := flag.Int("burst", 4, "of which start with a burst of more than 4096 calls")
	nbatch := flag.Int("batch", 3, "plans also executed in batch mode (1024 calls per model call)")
	nmono := flag.Int("mono", 3, "sequential MonoNode runs")
	monoCalls := flag.Int("monocalls", 9000, "calls per MonoNode run")
	nnano := flag.Int("nano", 40, "sequential nano histories")
	nconc := flag.Int("nconc", 12, "free-running histories")
	npair := flag.Int("pair", 40, "histories of one caller using two HardNodes in turns")
	nbad := flag.Int("bad", 16, "constructor calls with node numbers at and beyond the node width")
	ncold := flag.Int("cold", 250, "cold-start rounds to keep (rounds whose calls overlapped)")
	coldMs := flag.Int("coldms", 2500, "time budget for finding them, ms")
	flag.IntVar(&longRun, "longrun", 0, "one run of this many calls in one millisecond (65537 crosses the 16-bit boundary)")
	flag.BoolVar(&farEpochs, "farepochs", false, "also use epochs outside 1678..2262")
	perG := flag.Int("perg", 200, "logged calls per goroutine in free-running histories")
	flag.Parse()
	rng := rand.New(rand.NewSource(*seed))

	w := tr.Create(*out)
	w.NoSync = true
	if *plans != "" {
		files, _ := filepath.Glob(filepath.Join(*plans, "*.ndjson"))
		sort.Strings(files)
		for i, f := range files {
			p := readPlan(f)
			if len(p) == 0 || p[0].Op != "init" {
				tr.Fatal("plan %s does not start with init", f)
			}
			if !plansBroken && hangs < maxHangs {
				direct(func() { runPlan(w, rng, filepath.Base(f), p, i) })
			}
			if i < *nbatch {
				guarded(w, "planbatch", func(s sink) { runPlanBatch(s, rng, filepath.Base(f), p, i) })
			}
		}
	}
	for i := 0; i < *nhist; i++ {
		guarded(w, "hardseq", func(s sink) { runHardSeq(s, rng, i, 4+rng.Intn(14), i < *nburst) })
	}
	for i := 0; i < *npair; i++ {
		guarded(w, "hardpair", func(s sink) { runHardPair(s, rng, i, 10+rng.Intn(30)) })
	}
	for i := 0; i < *nbad; i++ {
		guarded(w, "badnode", func(s sink) { runBadNode(s, rng, i) })
	}
	for i := 0; i < *nmono; i++ {
		guarded(w, "monoseq", func(s sink) { runMonoSeq(s, rng, i, *monoCalls) })
	}
	for i := 0; i < *nnano; i++ {
		guarded(w, "nanoseq", func(s sink) { runNanoSeq(s, rng, i, 20+rng.Intn(60)) })
	}
	w.Close()

	cw := tr.Create(*conc)
	cw.NoSync = true
	for i := 0; i < *nconc; i++ {
		G := []int{8, 4, 16, 6}[(i/2)%4]
		guarded(cw, "conc", func(s sink) {
			switch i % 4 {
			case 0:
				runConc(s, rng, "nano", "clock", i, G, *perG*5/2, 0, false)
			case 1:
				runConc(s, rng, "hard", "", i, G, *perG, 0, false)
			case 2:
				runConc(s, rng, "mono", "", i, G, *perG*2, 2*((i/4)%2), false)
			default:
				runConc(s, rng, "nano", []string{"mixed", "ts"}[(i/4)%2], i, G, *perG*5/2, 0, false)
			}
		})
	}
	// cold-start rounds: many cheap rounds on fresh generators; rounds are run until `ncold` of them
	// really overlapped (or the time budget is used up - on a starved machine few rounds overlap)
	kept := 0
	deadline := time.Now().Add(time.Duration(*coldMs) * time.Millisecond)
	for i := 0; kept < *ncold && hangs == 0 && (i < *ncold || time.Now().Before(deadline)); i++ {
		G := 2 + i%3
		guarded(cw, "cold", func(s sink) {
			var ok bool
			switch i % 5 {
			case 0, 3:
				ok = runConc(s, rng, "nano", "clock", 4*(i%7), G, 3+i%5, 0, true)
			case 1:
				ok = runConc(s, rng, "hard", "", i, G, 3+i%5, 0, true)
			case 2:
				ok = runConc(s, rng, "mono", "", i, G, 3+i%5, 0, true)
			default:
				ok = runConc(s, rng, "nano", "mixed", 4*(i%7)+3, G, 3+i%5, 0, true)
			}
			if ok {
				kept++
			}
		})
	}
	cw.Close()
	fmt.Printf("cold rounds=%d kept=%d hangs=%d\n", coldRounds, kept, hangs)
	for _, k := range []string{"hard", "mono", "nano", "hard-cold", "mono-cold", "nano-cold"} {
		if st := concByKind[k]; st != nil {
			fmt.Printf("overlap kind=%s calls=%d overlapped=%d maxpending=%d\n", k, st.calls, st.overlapped, st.maxPending)
		}
	}
	fmt.Printf("seq_events=%d conc_events=%d\n", w.N(), cw.N())
}
