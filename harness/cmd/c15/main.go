// c15: drives the real mux.WorkerGrp (syncx/pipe/mux) with instrumented store callbacks and cache
// facades.  Plans (TLC-generated or seeded random) are executed step by step with global
// quiescence (internal/qx); gated store callbacks hold a handler in the middle of an operation
// while further operations queue up.  Free-running stress histories complement them.  Every
// store call, cache Set/Delete, submission, return and quiescent cache/store observation is logged
// for validation by specs/muxcache/MuxCache_Trace.tla.
package main

import (
	"bufio"
	"context"
	"encoding/json"
	"flag"
	"fmt"
	"math/rand"
	"os"
	"path/filepath"
	"runtime"
	"sort"
	"sync"
	"sync/atomic"
	"time"

	"github.com/pinealctx/neptune/syncx/pipe/mux"
	"github.com/pinealctx/neptune/ulog"

	"verif/harness/internal/qx"

	"verif/harness/internal/tr"
)

var opNames = []string{"get", "add", "upd", "del", "uoa", "utl", "utr"}
var keyTypes = []string{"int", "mix", "neg", "crcpair", "str", "const", "crc", "u64", "minmix", "i8", "ptrkey", "mod"}

// schemes in which distinct keys have equal HashedInt(): one worker, but different keys for store and cache
var collide = map[string]bool{"mix": true, "crcpair": true, "const": true, "minmix": true}

func readPlan(path string) []step {
	f, err := os.Open(path)
	if err != nil {
		tr.Fatal("%v", err)
	}
	defer f.Close()
	var out []step
	sc := bufio.NewScanner(f)
	for sc.Scan() {
		var s step
		if err := json.Unmarshal(sc.Bytes(), &s); err != nil {
			tr.Fatal("plan %s: %v", path, err)
		}
		out = append(out, s)
	}
	return out
}

func pattern(rng *rand.Rand, pct int, max int) []int {
	out := []int{}
	for n := 1; n <= max; n++ {
		if rng.Intn(100) < pct {
			out = append(out, n)
		}
	}
	return out
}

func randPlan(rng *rand.Rand, nk, n int, long bool) []step {
	var out []step
	failPct := []int{0, 10, 25, 50}[rng.Intn(4)]
	gatePct := []int{0, 15, 35}[rng.Intn(3)]
	hot := rng.Intn(nk) + 1
	cancelPct := []int{0, 8, 16}[rng.Intn(3)]
	if rng.Intn(6) == 0 { // shape: a cache filled and then emptied by removals, before anything else
		for k := 1; k <= nk; k++ {
			out = append(out, step{Op: "add", K: k, F: []int{}, G: []int{}})
		}
		for k := 1; k <= nk; k++ {
			out = append(out, step{Op: "del", K: k, F: []int{}, G: []int{}})
		}
	}
	if long { // a queue longer than a byte can count: 257 calls behind one gated call
		out = append(out, step{Op: "upd", K: hot, F: []int{}, G: []int{1}})
		for i := 0; i < 257; i++ {
			out = append(out, step{Op: opNames[rng.Intn(len(opNames))], K: rng.Intn(nk) + 1, F: pattern(rng, failPct, 2), G: []int{}})
		}
		out = append(out, step{Op: "rel"})
	}
	for i := 0; i < n; i++ {
		if rng.Intn(40) == 0 { // a long run of one cheap call, around the widths of narrow counters
			out = append(out, step{Op: "rep", K: rng.Intn(nk) + 1,
				ID: []int{255, 256, 257, 65535, 65536, 65537}[rng.Intn(6)]})
			continue
		}
		if x := rng.Intn(100); x < 27 {
			out = append(out, step{Op: "rel"})
			continue
		} else if x < 27+cancelPct {
			out = append(out, step{Op: "cancel"})
			continue
		}
		k := rng.Intn(nk) + 1
		if rng.Intn(2) == 0 { // same-key operations pile up behind a gated one
			k = hot
		}
		g := pattern(rng, gatePct, 3)
		if rng.Intn(25) == 0 {
			g = append(g, 9) // context already ended
		}
		if rng.Intn(12) == 0 {
			g = append(g, 8) // the first store callback reads another key through the group
		}
		out = append(out, step{Op: opNames[rng.Intn(len(opNames))], K: k, F: pattern(rng, failPct, 2), G: g})
	}
	return out
}

func randCfg(rng *rand.Rand, src string) config {
	c := config{Src: src}
	c.NW = []int{1, 2, 3, 5, 8, 0}[rng.Intn(6)] // 0 = the default (127)
	if rng.Intn(40) == 0 {
		c.NW = 300
	}
	c.Facade = []string{"map", "lru", "map", "lru", "bmap", "blru"}[rng.Intn(6)]
	c.Cap = []int{0, 1, 2, 3, 8, 100}[rng.Intn(6)]                        // 0: nothing (but rows of size 0) stays cached
	c.Deep = []int{1, 2, 4, 0, -3, defaultDeep, defaultDeep}[rng.Intn(7)] // 0, negative: unbounded
	c.NK = rng.Intn(6) + 1
	c.KT = keyTypes[rng.Intn(len(keyTypes))]
	if rng.Intn(8) == 0 {
		c.KT = "edge"
	}
	c.Sized = rng.Intn(3) == 0
	c.Ptr = rng.Intn(3) == 0
	// dynamic kinds of rows, of the `data` argument and of the store's failures
	c.VK = []string{"", "", "", "", "str", "slice", "map", "nilp", "nil"}[rng.Intn(9)]
	c.DK = []string{"val", "val", "ptr", "nil"}[rng.Intn(4)]
	c.EK = []string{"", "", "", "dupkey", "closed", "qfull", "sync", "canceled", "deadline", "wrapped"}[rng.Intn(10)]
	c.WrapNF = rng.Intn(4) == 0
	c.Late = (c.Ptr || c.VK == "slice" || c.VK == "map") && rng.Intn(2) == 0
	c.StopAt = -1
	switch rng.Intn(8) { // life-cycle orders: calls before Start, Stop with work accepted, Stop before Start
	case 0:
		c.StartAt = 1 + rng.Intn(6)
	case 1:
		c.StopAt = 3 + rng.Intn(25)
	case 2:
		c.StartAt = 2 + rng.Intn(6)
		c.StopAt = c.StartAt - rng.Intn(2) // Stop just before / together with Start
	case 3:
		c.StopAt = rng.Intn(2) // Stop right after Start
	}
	if collide[c.KT] {
		if c.NK < 2 {
			c.NK = 2 + rng.Intn(5)
		}
		if rng.Intn(2) == 0 { // the group's own facades get half of these runs
			c.Facade = []string{"bmap", "blru"}[rng.Intn(2)]
		}
	}
	return c
}

// stress: free-running callers, no gates; the log order of sub/ret is only real-time order.
// stressMode: life-cycle events that race the callers of a free-running history.
type stressMode struct {
	barrier   bool // cold start: every caller makes its first call at the same moment (spin barrier)
	lateStart bool // Start is called by one more goroutine released by the same barrier
	stopRace  bool // Stop is called by one more goroutine somewhere in the traffic
}

func runStress(w *tr.W, rng *rand.Rand, cfg config, threads, per int, m stressMode) {
	cfg.Serial = false
	wd := newWorld(cfg)
	wd.emitReset(w)
	if !m.lateStart {
		wd.start(w)
	}
	var wg sync.WaitGroup
	var gate int32 // spin barrier
	wait := func() {
		if m.barrier {
			for atomic.LoadInt32(&gate) == 0 {
			}
		}
	}
	failPct := []int{0, 10, 30}[rng.Intn(3)]
	for t := 0; t < threads; t++ {
		wg.Add(1)
		r := rand.New(rand.NewSource(rng.Int63()))
		go func() {
			defer wg.Done()
			wait()
			for i := 0; i < per; i++ {
				o, body := wd.submit2(opNames[r.Intn(len(opNames))], r.Intn(cfg.NK)+1, pattern(r, failPct, 2), nil)
				if r.Intn(10) == 0 { // the caller's context ends at some point of the call
					n := r.Intn(4)
					go func() {
						for j := 0; j < n; j++ {
							runtime.Gosched()
						}
						o.cancel()
					}()
				}
				body()
				if r.Intn(4) == 0 {
					runtime.Gosched()
				}
			}
		}()
	}
	if m.lateStart {
		wg.Add(1)
		go func() {
			defer wg.Done()
			wait()
			wd.start(w)
		}()
	}
	if m.stopRace {
		wg.Add(1)
		n := rng.Intn(per*threads + 1)
		go func() {
			defer wg.Done()
			wait()
			for j := 0; j < n; j++ {
				runtime.Gosched()
			}
			wd.stop(w)
		}()
	}
	atomic.StoreInt32(&gate, 1)
	// watchdog: callers that are parked for good are an observation (the history ends with calls that
	// never returned), not a reason to hang
	done := make(chan struct{})
	go func() { wg.Wait(); close(done) }()
	for waiting := true; waiting; {
		select {
		case <-done:
			waiting = false
		case <-time.After(300 * time.Millisecond):
			if err := wd.x.Settle(); err != nil {
				wd.giveUp(w, err)
			}
			select {
			case <-done:
				waiting = false
			default: // quiescent, and somebody has not returned
				wd.over = true
				wd.observe(w)
				w.Emit(tr.E{"ev": "end"})
				return
			}
		}
	}
	wd.settle(w)
	wd.finish(w)
}

// runExits: thousands of tiny life cycles in which ONE event - Stop, called by two goroutines at the
// same instant - releases every parked worker of a fresh group at once.  One compact event per batch:
// how many groups reported their exit (WaitStop) and how many goroutines of the package are left.
func runExits(w *tr.W, rng *rand.Rand, rounds int) {
	x := qx.New(0)
	stopped := 0
	for i := 0; i < rounds; i++ {
		nw := 1 + rng.Intn(5)
		var g *mux.WorkerGrp
		if i%2 == 0 {
			g = mux.NewWorkGrpWithMapCache(mux.WithSize(nw))
		} else {
			g = mux.NewWorkGrpWithLRU(int64(rng.Intn(3)), mux.WithSize(nw))
		}
		g.Start()
		if i%3 == 0 {
			runtime.Gosched() // some workers are parked already, some are still on their way
		}
		var gate int32
		var wg sync.WaitGroup
		for t := 0; t < 2; t++ {
			wg.Add(1)
			go func() {
				defer wg.Done()
				for atomic.LoadInt32(&gate) == 0 {
				}
				g.Stop()
			}()
		}
		atomic.StoreInt32(&gate, 1)
		wg.Wait()
		ctx, cancel := context.WithTimeout(context.Background(), 2*time.Second)
		if g.WaitStop(ctx) == nil {
			stopped++
		}
		cancel()
	}
	if err := x.Settle(); err != nil {
		w.Emit(tr.E{"ev": "stuck", "what": "no quiescence after exit rounds: " + err.Error()})
		return
	}
	left := qx.StacksContaining("neptune/syncx/pipe/mux.")
	w.Emit(tr.E{"ev": "reset", "nk": 1, "serial": true, "src": "exits", "emux": 0, "gmux": 0, "edeep": 0, "gdeep": 0})
	w.Emit(tr.E{"ev": "exits", "rounds": rounds, "stopped": stopped, "left": left})
}

func main() {
	plans := flag.String("plans", "", "directory of TLC-generated plans")
	out := flag.String("out", "steps.ndjson", "step traces")
	stress := flag.String("stress", "stress.ndjson", "stress traces")
	seed := flag.Int64("seed", 1, "seed")
	nrand := flag.Int("rand", 100, "random plans")
	nstress := flag.Int("nstress", 10, "stress runs")
	ncold := flag.Int("ncold", 40, "cold-start rounds")
	nexit := flag.Int("nexit", 1000, "simultaneous-exit rounds")
	nlong := flag.Int("nlong", 1, "random plans with a 257-call queue")
	flag.Parse()
	ulog.SetLogLevelStr("error")
	rng := rand.New(rand.NewSource(*seed))

	w := tr.Create(*out)
	sw := tr.Create(*stress)
	writers = []*tr.W{w, sw}
	if *plans != "" {
		files, _ := filepath.Glob(filepath.Join(*plans, "*.ndjson"))
		sort.Strings(files)
		for i, f := range files {
			p := readPlan(f)
			if len(p) == 0 || p[0].Op != "init" {
				tr.Fatal("plan %s does not start with init", f)
			}
			cfg := config{NW: p[0].NW, Facade: "map", Cap: []int{1, 2, 3, 0}[i%4], NK: 3, KT: keyTypes[i%len(keyTypes)], Deep: defaultDeep,
				Sized: i%5 == 0, Src: "plan:" + filepath.Base(f)}
			if p[0].L {
				cfg.Facade = "lru"
			}
			cfg.VK = []string{"", "", "str", "", "slice", "", "map"}[i%7]
			cfg.DK = []string{"val", "ptr", "val", "nil", "val"}[i%5]
			cfg.EK = []string{"", "dupkey", "", "closed", "", "canceled", "", "wrapped", "", "deadline", ""}[i%11]
			cfg.WrapNF = i%6 == 5
			cfg.StopAt = -1
			switch i % 9 {
			case 4:
				cfg.StartAt = 2 + i%7
			case 7:
				cfg.StopAt = 6 + i%29
			}
			if collide[cfg.KT] && i%4 >= 2 { // built-in facades for half of the colliding-key plans
				cfg.Facade = map[string]string{"map": "bmap", "lru": "blru"}[cfg.Facade]
				cfg.Cap = 100
			}
			runSteps(w, cfg, p[1:])
		}
	}
	for i := 0; i < *nrand; i++ {
		cfg := randCfg(rng, "rand")
		t0 := time.Now()
		long := i < *nlong
		if long { // the long queue is about the queue, not about many workers or a tiny queue
			cfg.NW, cfg.Deep = []int{1, 2, 3}[i%3], defaultDeep
		}
		pl := randPlan(rng, cfg.NK, 20+rng.Intn(40), long)
		runSteps(w, cfg, pl)
		if d := time.Since(t0); d > 300*time.Millisecond && os.Getenv("C15_SLOW") != "" {
			fmt.Fprintf(os.Stderr, "slow plan %d: %v steps=%d nw=%d\n", i, d, len(pl), cfg.NW)
		}
	}
	w.Close()
	for i := 0; i < *nstress; i++ {
		cfg := randCfg(rng, "stress")
		if cfg.KT == "edge" {
			cfg.KT = "int" // a caller-side panic would end a free-running caller; edge keys are step-mode only
		}
		runStress(sw, rng, cfg, 2+rng.Intn(5), 30+rng.Intn(40), stressMode{stopRace: i%5 == 4})
	}
	// cold-start rounds: a fresh group first used by several goroutines at the same moment, with Start
	// (and sometimes Stop) racing them; many cheap rounds
	for i := 0; i < *ncold; i++ {
		cfg := randCfg(rng, "cold")
		if cfg.KT == "edge" {
			cfg.KT = "int"
		}
		runStress(sw, rng, cfg, 2+rng.Intn(4), 1+rng.Intn(3),
			stressMode{barrier: true, lateStart: i%2 == 0, stopRace: i%7 == 3})
	}
	for done := 0; done < *nexit; done += 200 {
		runExits(sw, rng, 200)
	}
	sw.Close()
	fmt.Printf("step_events=%d stress_events=%d\n", w.N(), sw.N())
}
