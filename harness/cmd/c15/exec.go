package main

import (
	"context"
	"errors"
	"fmt"
	"os"
	"sort"
	"time"

	"github.com/pinealctx/neptune/syncx/pipe/mux"

	"verif/harness/internal/tr"
)

// invoke calls the real DoXxx for operation o with callbacks bound to o; runs in the caller's goroutine.
func (wd *world) invoke(op string, o *opctx) (v interface{}, err error) {
	ctx := o.ctx
	key := wd.keys[o.k-1]
	var data interface{} = opData{o.k, o.d}
	switch wd.cfg.DK {
	case "ptr":
		data = &opData{o.k, o.d}
	case "nil":
		data = nil
	}
	o.data = data
	load := func(_ context.Context, k interface{}) (interface{}, error) {
		r, e := wd.call(o, "load", wd.keyArg(k), 0, 0)
		if e != nil {
			return nil, e
		}
		return wd.mkVal(r), nil
	}
	add := func(_ context.Context, d interface{}) (interface{}, error) {
		k, dd := dataArg(o, d)
		r, e := wd.call(o, "add", k, dd, 0)
		if e != nil {
			return nil, e
		}
		return wd.mkVal(r), nil
	}
	mod := func(fn string) func(context.Context, interface{}, interface{}) (interface{}, error) {
		return func(_ context.Context, d interface{}, pre interface{}) (interface{}, error) {
			k, dd := dataArg(o, d)
			r, e := wd.call(o, fn, k, dd, wd.preArg(pre))
			if e != nil {
				return nil, e
			}
			return wd.mkVal(r), nil
		}
	}
	del := func(_ context.Context, k interface{}) error {
		_, e := wd.call(o, "del", wd.keyArg(k), 0, 0)
		return e
	}
	isNF := func(e error) bool { return errors.Is(e, errNF) }
	g := wd.grp
	switch op {
	case "get":
		return g.DoGet(ctx, load, key)
	case "add":
		return g.DoAdd(ctx, add, key, data)
	case "upd":
		return g.DoUpdate(ctx, load, mod("upd"), key, data)
	case "del":
		return g.DoDelete(ctx, del, key)
	case "uoa":
		return g.DoUpdOrAddIfNull(ctx, load, mod("upd"), add, isNF, key, data)
	case "utl":
		return g.DoUpsertThenLoad(ctx, mod("ups"), load, key, data)
	case "utr":
		return g.DoUpsertThenRenewInCache(ctx, mod("ups"), key, data)
	}
	tr.Fatal("unknown op %q", op)
	return nil, nil
}

// submit logs `sub` (ids are allocated in log order) and returns the caller's body, which logs `ret`.
func (wd *world) submit(op string, k int, f, g []int) func() interface{} {
	_, body := wd.submit2(op, k, f, g)
	return body
}

func (wd *world) submit2(op string, k int, f, g []int) (*opctx, func() interface{}) {
	op = wd.allowed(op)
	wd.mu.Lock()
	wd.nid++
	o := &opctx{id: wd.nid, k: k, d: wd.nid, f: f, g: g}
	if wd.nilKind() {
		o.d = nilRow
	}
	o.ctx, o.cancel = context.WithCancel(context.Background())
	if has(g, 9) { // the call is made with a context that has already ended
		o.cancelled = true
		o.cancel()
	}
	wd.out[o.id] = o
	wd.evs = append(wd.evs, tr.E{"ev": "sub", "id": o.id, "op": op, "k": k, "d": o.d})
	wd.mu.Unlock()
	return o, func() interface{} {
		defer func() {
			if p := recover(); p != nil { // a panic of the code under test in the caller's goroutine
				wd.logf(tr.E{"ev": "panic", "id": o.id, "op": op, "k": k, "msg": fmt.Sprint(p)})
			}
		}()
		v, err := wd.invoke(op, o)
		r := tr.E{"ok": err == nil, "v": 0, "e": ""}
		switch {
		case err != nil && v != nil:
			r["e"] = "value-with-error"
		case err != nil:
			r["e"] = wd.errName(o, err)
		case v != nil:
			r["v"] = wd.toInt(v)
			wd.retain(r, v)
		case op != "del":
			r["v"] = wd.toInt(nil) // (nil, nil) from anything but delete: a nil row, where rows are nil
		}
		if p, isPtr := o.data.(*opData); isPtr && !o.cancelled && err != context.Canceled {
			p.k, p.d = -1, nilVal // the call is over: the caller reuses its datum
		}
		wd.mu.Lock()
		delete(wd.out, o.id)
		wd.evs = append(wd.evs, tr.E{"ev": "ret", "id": o.id, "r": r})
		fol := o.follow
		wd.mu.Unlock()
		if fol != nil {
			// the caller whose context ended goes on with its next call at once, in the same goroutine
			wd.submit(fol.Op, fol.K, fol.F, fol.G)()
		}
		return 0
	}
}

func (wd *world) flush(w *tr.W) {
	if wd.cfg.Late && !wd.over {
		return // rendered when the history is over
	}
	wd.mu.Lock()
	for _, x := range wd.kept {
		x.e["v"] = wd.toInt(x.v)
	}
	wd.kept = nil
	evs := wd.evs
	wd.evs = nil
	wd.mu.Unlock()
	for _, e := range evs {
		w.Emit(e)
	}
}

// observe: Peek of every facade for every key + the store (quiescent points only).
func (wd *world) observe(w *tr.W) {
	cache := make([][]int, wd.cfg.NK)
	st := make([]int, wd.cfg.NK)
	wd.mu.Lock()
	for k := 1; k <= wd.cfg.NK; k++ {
		st[k-1] = wd.store[k]
	}
	wd.mu.Unlock()
	for k := 1; k <= wd.cfg.NK; k++ {
		cache[k-1] = wd.peekAll(k)
	}
	wd.logf(tr.E{"ev": "step", "cache": cache, "store": st, "gated": wd.waiting(), "running": wd.started})
	wd.flush(w)
}

// writers: every open trace file, so that a run that cannot go on ends with complete files.
var writers []*tr.W

// giveUp: something of the code under test keeps running and never parks (or the runtime picture
// never becomes stable).  That is an observation: logged for the specification to reject; nothing
// more can be executed in this process.
func (wd *world) giveUp(w *tr.W, err error) {
	wd.over = true
	wd.flush(w)
	w.Emit(tr.E{"ev": "stuck", "what": "no quiescence: " + err.Error()})
	for _, x := range writers {
		x.Close()
	}
	fmt.Println("gave up: no quiescence")
	os.Exit(0)
}

func (wd *world) start(w *tr.W) {
	if wd.started {
		return
	}
	wd.started = true
	wd.grp.Start()
	wd.logf(tr.E{"ev": "life", "what": "start"})
}

func (wd *world) stop(w *tr.W) {
	wd.grp.Stop()
	wd.stopped = true
	wd.logf(tr.E{"ev": "life", "what": "stop"})
}

func (wd *world) settle(w *tr.W) {
	if err := wd.x.Settle(); err != nil {
		wd.giveUp(w, err)
	}
	for i := range wd.x.W {
		wd.x.Take(i + 1)
	}
	wd.flush(w)
	wd.observe(w)
}

// issue runs body on a free caller goroutine.
func (wd *world) issue(body func() interface{}) {
	for i := range wd.x.W {
		if !wd.x.Busy(i + 1) {
			wd.x.Issue(i+1, body)
			return
		}
	}
	wd.x.Add()
	wd.x.Issue(len(wd.x.W), body)
}

func (wd *world) release(id int) bool {
	wd.mu.Lock()
	ch, ok := wd.gates[id]
	delete(wd.gates, id)
	wd.mu.Unlock()
	if ok {
		close(ch)
	}
	return ok
}

func (wd *world) waiting() []int {
	wd.mu.Lock()
	defer wd.mu.Unlock()
	ids := []int{}
	for id := range wd.gates {
		ids = append(ids, id)
	}
	sort.Ints(ids)
	return ids
}

func (wd *world) emitReset(w *tr.W) {
	c := wd.cfg
	emux, edeep := c.NW, c.Deep // what the getters must say: the option, or the package default
	if emux == 0 {
		emux = mux.DefaultMuxSize
	}
	if edeep == defaultDeep {
		edeep = mux.DefaultDeepSize
	}
	w.Emit(tr.E{"ev": "reset", "nk": c.NK, "nw": c.NW, "facade": c.Facade, "cap": c.Cap, "deep": c.Deep,
		"kt": c.KT, "sized": c.Sized, "serial": c.Serial, "src": c.Src, "ptr": c.Ptr, "late": c.Late, "vk": c.VK, "dk": c.DK, "ek": c.EK, "wrapnf": c.WrapNF,
		"startat": c.StartAt, "stopat": c.StopAt,
		"emux": emux, "edeep": edeep, "gmux": wd.grp.MuxSize(), "gdeep": wd.grp.DeepSize()})
}

// finish: release every gate, observe every key through DoGet, require that everybody returned, stop.
func (wd *world) finish(w *tr.W) {
	if !wd.started { // calls queued on a group that was not running yet are applied once it runs
		wd.start(w)
		wd.settle(w)
	}
	for round := 0; round < 1000; round++ {
		ids := wd.waiting()
		if len(ids) == 0 {
			break
		}
		wd.release(ids[0])
		wd.settle(w)
	}
	for k := 1; k <= wd.cfg.NK; k++ {
		wd.issue(wd.submit("get", k, nil, nil))
		wd.settle(w)
	}
	wd.over = true
	wd.flush(w)
	w.Emit(tr.E{"ev": "end"})
	wd.grp.Stop()
	wd.grp.Stop() // stopping twice is stopping once
	for i := range wd.x.W {
		if wd.x.Busy(i + 1) {
			return // somebody never returned: the trace already says so; leave the goroutines behind
		}
	}
	// every caller is back, no gate is held, the queues are closed: the workers drain and exit.  At
	// quiescence that has happened or never will (a worker parked for good inside a handler is a fact
	// about the code under test: logged, for the specification to reject).
	quick, cancelQ := context.WithTimeout(context.Background(), 100*time.Millisecond)
	err := wd.grp.WaitStop(quick)
	cancelQ()
	if err != nil {
		if err := wd.x.Settle(); err != nil {
			wd.giveUp(w, err)
		}
		ctx, cancel := context.WithTimeout(context.Background(), 2*time.Second)
		err = wd.grp.WaitStop(ctx)
		cancel()
	}
	if err != nil {
		wd.flush(w)
		w.Emit(tr.E{"ev": "stuck", "what": "a worker never finished its handler: the group does not stop"})
		return
	}
	wd.flush(w)
	wd.x.Stop()
}

// runSteps executes a plan step by step with global quiescence after every external step.
func runSteps(w *tr.W, cfg config, plan []step) {
	cfg.Serial = true
	wd := newWorld(cfg)
	wd.emitReset(w)
	skip := -1
	for i, s := range plan {
		if i == cfg.StartAt {
			wd.start(w)
			wd.settle(w)
		}
		if i == cfg.StopAt && !wd.stopped {
			// Stop with calls accepted and unfinished (queued behind a gate, in a handler, or - group not
			// running yet - never looked at): they are still applied; later calls are refused
			wd.stop(w)
			wd.settle(w)
		}
		if i == skip {
			continue // already issued as the follow-up of a cancelled call
		}
		switch s.Op {
		case "get", "add", "upd", "del", "uoa", "utl", "utr":
			if s.K < 1 || s.K > cfg.NK {
				continue
			}
			wd.issue(wd.submit(s.Op, s.K, s.F, s.G))
			wd.settle(w)
		case "rep":
			if s.K >= 1 && s.K <= cfg.NK && wd.repeatGet(s.K, s.ID) {
				wd.settle(w)
			}
		case "cancel":
			// the context of an outstanding call ends; half of the time the caller's next call (the next
			// plan step, if it is a call) follows in the same goroutine right after the return
			var fol *step
			if i+1 < len(plan) && isCall(plan[i+1].Op) && plan[i+1].K >= 1 && plan[i+1].K <= cfg.NK && (s.ID+i)%2 == 0 {
				fol = &plan[i+1]
			}
			if !wd.cancelOp(s.ID, fol) {
				continue
			}
			if fol != nil {
				skip = i + 1
			}
			wd.settle(w)
		case "rel":
			// the plan names the operation it expects at the gate; if that one is not there (the real
			// run parked differently) release the oldest instead: the verdict is about what is recorded
			if !wd.release(s.ID) {
				ids := wd.waiting()
				if len(ids) == 0 {
					continue
				}
				wd.release(ids[0])
			}
			wd.settle(w)
		}
	}
	wd.finish(w)
}

func isCall(op string) bool {
	switch op {
	case "get", "add", "upd", "del", "uoa", "utl", "utr":
		return true
	}
	return false
}

// cancelOp ends the context of operation id if its caller has not returned (id 0: the oldest outstanding).
func (wd *world) cancelOp(id int, fol *step) bool {
	wd.mu.Lock()
	o := wd.out[id]
	if o == nil {
		for i, x := range wd.out {
			if !x.cancelled && (o == nil || i < o.id) {
				o = x
			}
		}
	}
	if o == nil || o.cancelled {
		wd.mu.Unlock()
		return false
	}
	o.cancelled = true
	o.follow = fol
	wd.mu.Unlock()
	o.cancel()
	return true
}

// allowed: histories whose rows are nil cannot express "no existing item" (typed nil: only the upsert
// marker is lost), so the operations that depend on it are replaced.
func (wd *world) allowed(op string) string {
	switch wd.cfg.VK {
	case "nil":
		switch op {
		case "upd", "utl":
			return "add"
		case "uoa", "utr":
			return "get"
		}
	case "nilp":
		switch op {
		case "utl":
			return "upd"
		case "utr":
			return "uoa"
		}
	}
	return op
}

// repeatGet: n DoGet calls of a cached key by one goroutine, logged as ONE run-length-encoded event:
// how many replies were ok and equal to the first, the first value, how often the store was consulted.
// Only when nothing is outstanding and the key is cached (else the plan step is skipped).
func (wd *world) repeatGet(k, n int) bool {
	wd.mu.Lock()
	busy := len(wd.out) > 0 || len(wd.gates) > 0
	wd.mu.Unlock()
	if busy || len(wd.peekAll(k)) == 0 || !wd.started || wd.stopped {
		return false
	}
	key := wd.keys[k-1]
	wd.issue(func() interface{} {
		consulted, same, first := 0, 0, nilVal
		load := func(context.Context, interface{}) (interface{}, error) {
			consulted++
			return nil, errNF
		}
		defer func() {
			if p := recover(); p != nil {
				wd.logf(tr.E{"ev": "panic", "id": 0, "op": "rep", "k": k, "msg": fmt.Sprint(p)})
			}
		}()
		for i := 0; i < n; i++ {
			v, err := wd.grp.DoGet(context.Background(), load, key)
			x := nilVal
			if err == nil {
				x = wd.toInt(v)
			}
			if i == 0 {
				first = x
			}
			if err == nil && x == first {
				same++
			}
		}
		wd.logf(tr.E{"ev": "run", "k": k, "n": n, "same": same, "v": first, "consulted": consulted})
		return 0
	})
	return true
}
