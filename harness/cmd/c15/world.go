package main

import (
	"context"
	"errors"
	"fmt"
	"math"
	"strconv"
	"strings"
	"sync"

	"github.com/pinealctx/neptune/syncx/pipe/mux"

	"verif/harness/internal/qx"
	"verif/harness/internal/tr"
)

// defaultDeep: no WithDeep option (the package default, 8192).
const defaultDeep = -1000

// nilVal is what a nil / foreign value is logged as: matches no store value.
const nilVal = -1000000

var (
	errInj  = errors.New("store.injected")
	errNF   = errors.New("store.notfound")
	errSDup = errors.New("store.duplicate")
)

// sv is a cache value with a size of its own (exercises the LRU facade's size accounting).
type sv struct{ v, s int }

func (x sv) Size() int { return x.s }

// pv is a row handed out by the store as a pointer: the very object travels through the group's
// cache to the callers, who keep it (retained results are rendered when the history is over).
type pv struct{ v int }

// opData is the `data` argument handed to DoAdd/DoUpdate/...
type opData struct{ k, d int }

type config struct {
	NW     int    // workers
	Facade string // map | lru | bmap | blru  (b* = the group's own constructors, facades not observable)
	Cap    int    // lru capacity
	Deep   int    // queue depth
	NK     int    // keys 1..NK
	KT     string // key type
	Sized  bool   // values carry a size
	Serial bool
	Src    string
	// life cycle: the group is started before plan step StartAt (0 = at once) and stopped before plan
	// step StopAt (-1 = only when the history is over)
	StartAt, StopAt int
	Ptr             bool   // values are pointers to rows; the very objects are retained
	VK              string // further dynamic kinds of a row: "" (int / sized / pointer as above) | str | slice | map |
	//                        nilp (typed nil pointer) | nil (untyped nil).  All rows of a nil history are one row.
	DK     string // dynamic kind of the `data` argument: val | ptr (scribbled over after the call) | nil
	EK     string // which error an injected store failure is (sentinels of mux / context, wrapped ...)
	WrapNF bool   // the store's not-found error arrives wrapped
	Late   bool   // retained replies are rendered when the history is over
}

type step struct {
	Op string `json:"op"`
	K  int    `json:"k"`
	F  []int  `json:"f"`
	G  []int  `json:"g"`
	ID int    `json:"id"`
	NW int    `json:"nw"`
	L  bool   `json:"lru"`
}

type opctx struct {
	id, k, d  int
	n         int // store calls made
	f, g      []int
	cg        bool // the cache-operation gate (position 3) was used
	ctx       context.Context
	cancel    context.CancelFunc
	cancelled bool
	follow    *step       // call to make in the same goroutine after this one returned
	data      interface{} // the `data` argument as passed
	injected  bool        // one of its store callbacks was made to fail
}

type world struct {
	cfg    config
	mu     sync.Mutex // event log, store, gates
	evs    []tr.E
	store  map[int]int
	gates  map[int]chan struct{}
	out    map[int]*opctx // calls whose caller has not returned
	lastOp map[int]*opctx // key id -> operation that last entered a store callback for it
	grp    *mux.WorkerGrp
	facs   []mux.CacheFacade // the real facades behind the logging wrappers
	keys   []mux.Hashed2Int
	kid    map[interface{}]int
	x      *qx.Exec
	nid    int

	started, stopped bool
	kept             []kept // results kept as returned, rendered late
	over             bool   // the history is over: render and write what was kept
}

type kept struct {
	e tr.E // the record holding "v"
	v interface{}
}

// retain: in late histories the value a call returned / the cache was given is kept AS RETURNED and
// rendered into its event when the history is over.
func (wd *world) retain(e tr.E, v interface{}) {
	if wd.cfg.Late && v != nil {
		wd.mu.Lock()
		wd.kept = append(wd.kept, kept{e, v})
		wd.mu.Unlock()
	}
}

// ckey is a harness key type whose hash is constant: distinct keys, one hashed int.
type ckey struct{ n int }

func (ckey) HashedInt() int { return 42 }

// pkey is a key whose dynamic type is a pointer.
type pkey struct{ n int }

func (p *pkey) HashedInt() int { return p.n }

func mkKey(kt string, k int) mux.Hashed2Int {
	switch kt {
	case "mix": // distinct keys (different wrapper types), all with HashedInt() = 7
		return []mux.Hashed2Int{mux.Int(7), mux.Int64(7), mux.Int32(7), mux.UInt64(7), mux.Int16(7), mux.Byte(7),
			mux.UInt32(7), mux.UInt16(7)}[(k-1)%8]
	case "crcpair": // CRC-32 collisions: two strings; the same number in different CRC wrapper types
		return []mux.Hashed2Int{mux.String("plumless"), mux.String("buckeroo"), mux.Int64CRC(5), mux.UInt64CRC(5),
			mux.IntCRC(5), mux.UIntCRC(5), mux.Int32CRC(9), mux.UInt32CRC(9)}[(k-1)%8]
	case "const":
		return ckey{k}
	case "ptrkey": // a pointer type as key: identity is the pointer
		return &pkey{k * 11}
	case "mod": // hashed ints at and around multiples of the default worker count
		return []mux.Hashed2Int{mux.Int(126), mux.Int(127), mux.Int(128), mux.Int(254), mux.Int(-127), mux.Int(0),
			mux.Int(8192), mux.Int(-128)}[(k-1)%8]
	case "minmix": // equal after the int conversion, at the extreme
		return []mux.Hashed2Int{mux.Int64(math.MinInt64), mux.UInt64(1 << 63), mux.Int(math.MinInt64), mux.Int64(-1),
			mux.Int(-1), mux.Int8(-1), mux.Int16(-1), mux.Int32(-1)}[(k-1)%8]
	case "neg":
		return mux.Int(-37 * k)
	case "str":
		if k == 1 {
			return mux.String("") // the empty key is a key
		}
		return mux.String(fmt.Sprintf("key-%d", k))
	case "crc":
		return mux.Int64CRC(int64(k) * 1000)
	case "u64":
		return mux.UInt64(uint64(k) << 40)
	case "i8":
		return mux.Int8(-k)
	case "edge":
		switch k {
		case 1:
			return mux.Int(math.MinInt64)
		case 2:
			return mux.Int(math.MaxInt64)
		case 3:
			return mux.Int32(math.MinInt32)
		}
		return mux.Int64(-int64(k))
	}
	return mux.Int(k)
}

// nilRow: the id under which a nil row is logged (nil histories give every operation this datum).
const nilRow = 999

func (wd *world) nilKind() bool { return wd.cfg.VK == "nil" || wd.cfg.VK == "nilp" }

func (wd *world) mkVal(v int) interface{} {
	switch wd.cfg.VK {
	case "str":
		return "r" + strconv.Itoa(v)
	case "slice": // not comparable
		return []int{v}
	case "map": // not comparable
		return map[string]int{"v": v}
	case "nilp":
		return (*pv)(nil)
	case "nil":
		return nil
	}
	if wd.cfg.Ptr {
		return &pv{v}
	}
	if wd.cfg.Sized {
		return sv{v, v % 4} // sizes 0..3: free riders, and rows bigger than a small cache
	}
	return v
}

func (wd *world) toInt(v interface{}) int {
	if wd.nilKind() {
		if p, ok := v.(*pv); v == nil || (ok && p == nil) {
			return nilRow
		}
		return nilVal
	}
	return toInt(v)
}

func toInt(v interface{}) int {
	switch x := v.(type) {
	case string:
		if n, err := strconv.Atoi(strings.TrimPrefix(x, "r")); err == nil && strings.HasPrefix(x, "r") {
			return n
		}
	case []int:
		if len(x) == 1 {
			return x[0]
		}
	case map[string]int:
		if n, ok := x["v"]; ok && len(x) == 1 {
			return n
		}
	case int:
		return x
	case sv:
		return x.v
	case *pv:
		if x != nil {
			return x.v
		}
	}
	return nilVal
}

func (wd *world) logf(e tr.E) {
	wd.mu.Lock()
	wd.evs = append(wd.evs, e)
	wd.mu.Unlock()
}

// fac wraps a real facade and logs Set/Delete from inside the worker goroutine.
type fac struct {
	wd *world
	in mux.CacheFacade
}

func (f *fac) Peek(key interface{}) (interface{}, bool) { return f.in.Peek(key) }
func (f *fac) Get(key interface{}) (interface{}, bool)  { return f.in.Get(key) }
func (f *fac) Set(key interface{}, value interface{}) {
	f.gate(key)
	e := tr.E{"ev": "cset", "k": f.wd.kid[key], "v": f.wd.toInt(value)}
	f.wd.retain(e, value)
	f.wd.logf(e)
	f.in.Set(key, value)
}
func (f *fac) Delete(key interface{}) {
	f.gate(key)
	f.wd.logf(tr.E{"ev": "cdel", "k": f.wd.kid[key]})
	f.in.Delete(key)
}

// gate position 3 of an operation: its handler waits just before it changes the cache.
func (f *fac) gate(key interface{}) {
	wd := f.wd
	wd.mu.Lock()
	o := wd.lastOp[wd.kid[key]]
	var ch chan struct{}
	if o != nil && has(o.g, 3) && !o.cg {
		o.cg = true
		ch = make(chan struct{})
		wd.gates[o.id] = ch
	}
	wd.mu.Unlock()
	if ch != nil {
		<-ch
	}
}

func newWorld(cfg config) *world {
	wd := &world{cfg: cfg, store: map[int]int{}, gates: map[int]chan struct{}{}, lastOp: map[int]*opctx{}, out: map[int]*opctx{}, kid: map[interface{}]int{},
		x: qx.New(0)}
	for k := 1; k <= cfg.NK; k++ {
		key := mkKey(cfg.KT, k)
		wd.keys = append(wd.keys, key)
		wd.kid[key] = k
	}
	opts := []mux.Option{}
	if cfg.NW > 0 {
		opts = append(opts, mux.WithSize(cfg.NW))
	}
	if cfg.Deep != defaultDeep { // 0 and negative depths are accepted by the queue: unbounded
		opts = append(opts, mux.WithDeep(cfg.Deep))
	}
	switch cfg.Facade {
	case "bmap":
		wd.grp = mux.NewWorkGrpWithMapCache(opts...)
	case "blru":
		wd.grp = mux.NewWorkGrpWithLRU(int64(cfg.Cap), opts...)
	default:
		wd.grp = mux.NewWorkGrp(func() mux.CacheFacade {
			var in mux.CacheFacade
			if cfg.Facade == "lru" {
				in = mux.NewFacadeLRU(int64(cfg.Cap))
			} else {
				in = mux.NewFacadeMap()
			}
			wd.facs = append(wd.facs, in)
			return &fac{wd: wd, in: in}
		}, opts...)
	}
	return wd
}

// peekAll: the values every (observable) facade holds for key id k; Peek does not reorder an LRU.
func (wd *world) peekAll(k int) []int {
	out := []int{}
	if k < 1 || k > len(wd.keys) {
		return out
	}
	for _, f := range wd.facs {
		if v, ok := f.Peek(wd.keys[k-1]); ok {
			out = append(out, wd.toInt(v))
		}
	}
	return out
}

func has(s []int, n int) bool {
	for _, x := range s {
		if x == n {
			return true
		}
	}
	return false
}

// call is one store callback: logged on entry, optionally gated, applied atomically.
func (wd *world) call(o *opctx, fn string, k, d, pre int) (int, error) {
	cached := wd.peekAll(o.k) // what the group's cache holds for the operation's key right now
	wd.mu.Lock()
	o.n++
	n := o.n
	wd.lastOp[o.k] = o
	wd.evs = append(wd.evs, tr.E{"ev": "scb", "id": o.id, "k": k, "fn": fn, "cached": cached})
	var ch chan struct{}
	if has(o.g, n) {
		ch = make(chan struct{})
		wd.gates[o.id] = ch
	}
	wd.mu.Unlock()
	if n == 1 && has(o.g, 8) {
		wd.nested(o)
	}
	if ch != nil {
		<-ch
	}
	wd.mu.Lock()
	defer wd.mu.Unlock()
	inj := has(o.f, n)
	st := wd.store[k]
	var v int
	var err error
	switch {
	case inj:
		err = wd.injErr()
		o.injected = true
	case fn == "load":
		if st == 0 {
			err = wd.nfErr()
		} else {
			v = st
		}
	case fn == "add":
		if st != 0 {
			err = errSDup
		} else {
			wd.store[k], v = d, d
		}
	case fn == "upd":
		if st == 0 {
			err = wd.nfErr()
		} else {
			wd.store[k], v = d, d
		}
	case fn == "ups":
		wd.store[k] = d
		if pre == 0 {
			v = -d
		} else {
			v = d
		}
	case fn == "del":
		delete(wd.store, k)
	}
	r := tr.E{"ok": err == nil, "v": v, "e": ""}
	if err != nil {
		r["e"] = wd.errName(o, err)
		if inj {
			r["e"] = "inj"
		}
	}
	wd.evs = append(wd.evs, tr.E{"ev": "sce", "id": o.id, "k": k, "fn": fn, "d": d, "pre": pre, "inj": inj, "r": r})
	return v, err
}

// injErr: what an injected store failure looks like in this history - also the sentinels the packages
// on either side export, which the group must hand through like any other error of the store.
func (wd *world) injErr() error {
	switch wd.cfg.EK {
	case "dupkey":
		return mux.ErrDupKey
	case "closed":
		return mux.ErrClosed
	case "qfull":
		return mux.ErrQFull
	case "sync":
		return mux.ErrSync
	case "canceled":
		return context.Canceled
	case "deadline":
		return context.DeadlineExceeded
	case "wrapped":
		return errWrappedInj
	}
	return errInj
}

var errWrappedInj = fmt.Errorf("driver: %w", errInj)

func (wd *world) nfErr() error {
	if wd.cfg.WrapNF {
		return errWrappedNF
	}
	return errNF
}

var errWrappedNF = fmt.Errorf("row: %w", errNF)

// errName renders the error a call of operation o ended with.  An error identical to this history's
// injected failure, on an operation whose callback was made to fail, is that failure ("inj") - unless
// the harness ended the caller's context itself.
func (wd *world) errName(o *opctx, err error) string {
	if o != nil && o.injected && err == wd.injErr() && !(o.cancelled && err == context.Canceled) {
		return "inj"
	}
	if errors.Is(err, errNF) {
		return "nf"
	}
	switch err {
	case errInj:
		return "inj"
	case errSDup:
		return "sdup"
	case mux.ErrDupKey:
		return "dup"
	case mux.ErrQFull:
		return "qfull"
	case mux.ErrClosed:
		return "closed"
	case context.Canceled:
		return "canceled"
	}
	return "other:" + err.Error()
}

// keyArg / dataArg / preArg translate what the real code hands to a callback.
func (wd *world) keyArg(x interface{}) int {
	defer func() { _ = recover() }() // unhashable foreign argument
	return wd.kid[x]
}

// dataArg: the callback must be handed the very `data` the caller passed (whatever its kind), intact.
func dataArg(o *opctx, x interface{}) (int, int) {
	switch d := o.data.(type) {
	case nil:
		if x == nil {
			return o.k, o.d
		}
	case opData:
		if x == d {
			return d.k, d.d
		}
	case *opData:
		if p, ok := x.(*opData); ok && p == d {
			return p.k, p.d // a scribbled-over datum shows here
		}
	}
	return 0, nilVal
}
func (wd *world) preArg(x interface{}) int {
	if x == nil {
		return 0
	}
	return wd.toInt(x)
}

var _ = context.Background

// owner: the worker the property's routing rule (|hash| mod workers) gives a key.
func (wd *world) owner(k int) int {
	n := wd.cfg.NW
	if n == 0 {
		n = mux.DefaultMuxSize
	}
	h := wd.keys[k-1].HashedInt() % n
	if h < 0 {
		h = -h
	}
	return h
}

// nested: compound use by one goroutine - a store callback (running in its worker's goroutine) reads
// another key through the group.  Only towards a key owned by a higher-numbered worker, so that
// nesting can never close a cycle of workers waiting for each other.
func (wd *world) nested(o *opctx) {
	for d := 1; d < wd.cfg.NK; d++ {
		k2 := (o.k-1+d)%wd.cfg.NK + 1
		if wd.owner(k2) > wd.owner(o.k) {
			no, body := wd.submit2("get", k2, nil, nil)
			wd.mu.Lock()
			delete(wd.out, no.id) // not a plan-level caller: never cancelled, never given a follow-up call
			wd.mu.Unlock()
			body()
			return
		}
	}
}
