// c04: executes LRU plans and histories against cache.LRUCache, cache/tiny.LRUCache and the
// wide (sharded) variants, recording one ndjson event per call for validation by TLC
// (specs/lru/LRU_Trace.tla).
package main

import (
	"bufio"
	"encoding/json"
	"flag"
	"fmt"
	"math/rand"
	"os"
	"path/filepath"
	"runtime"
	"sort"
	"strings"
	"sync"
	"sync/atomic"

	"github.com/pinealctx/neptune/cache"
	"github.com/pinealctx/neptune/cache/tiny"
	"github.com/pinealctx/neptune/remap"

	"verif/harness/internal/tr"
)

// sv is stored by pointer: a caller may change the size its value reports while the value sits in
// the cache (the cache charges what Size() said when the value was stored) and may store the very
// same value again after it grew.
type sv struct{ id, size int }

func (s *sv) Size() int { return s.size }

type act struct {
	Op    string `json:"op"`
	K     int    `json:"k"`
	V     int    `json:"v"`
	S     int    `json:"s"`
	C     int    `json:"c"`
	Cap   int    `json:"cap"`
	Sized bool   `json:"sized"`
	Same  bool   `json:"-"` // store the value object that was stored for this key last time, grown to S
	VK    int    `json:"-"` // dynamic kind of the value stored (kinds.go)
}

func (a act) rec() tr.E {
	switch a.Op {
	case "set", "setx", "setnx":
		return tr.E{"op": a.Op, "k": a.K, "v": a.V, "s": a.S, "vk": a.VK}
	case "get", "peek", "exist", "del":
		return tr.E{"op": a.Op, "k": a.K}
	case "setcap":
		return tr.E{"op": a.Op, "c": a.C}
	case "mut":
		return tr.E{"op": a.Op, "k": a.K, "s": a.S}
	}
	return tr.E{"op": a.Op}
}

// key representations: the property quantifies over arbitrary (comparable) keys
type skey struct {
	A int
	B string
}

func mkKey(kind, k, koff int) interface{} {
	switch kind {
	case 5:
		return mixKey(k, koff)
	case 1:
		return fmt.Sprintf("key-%d", k)
	case 2:
		return skey{k, "x"}
	case 3:
		return [2]int{k, -k}
	case 4:
		return int64(k)
	}
	return k
}

// lru is the common surface of both implementations
type lru interface {
	do(a act) interface{}
	obs() *lazyObs
}

type sizedLRU struct {
	c    *cache.LRUCache
	kind int
	koff int
	lmu  sync.Mutex
	last map[int]*sv // the value object stored last for each key (harness bookkeeping of its own calls)
}

// val returns the value to store for a: a fresh one of the kind drawn, or the previously stored object
// grown in place
func (l *sizedLRU) val(a *act) cache.Value {
	l.lmu.Lock()
	defer l.lmu.Unlock()
	if a.Same {
		if p := l.last[a.K]; p != nil {
			p.size = a.S
			a.V = p.id
			return p
		}
	}
	if a.VK != vkPtr {
		delete(l.last, a.K)
		return mkVal(a.VK, a.V, a.S)
	}
	p := &sv{a.V, a.S}
	l.last[a.K] = p
	return p
}

// lazy is a list a method returned, kept as the caller holds it: it is put into trace form when the
// event is written (fin) - for half of the sequential histories and for all overlapping ones that is
// after the history ended.  What a call reported must still be what it reported then.
type lazy struct {
	vals []cache.Value // the very slices the methods returned (not copies)
	anys []interface{}
}

func (z *lazy) ids() []int {
	r := make([]int, 0, len(z.vals)+len(z.anys))
	for _, x := range z.vals {
		r = append(r, idOf(x))
	}
	for _, x := range z.anys {
		r = append(r, idOf(x))
	}
	return r
}

// junk: what a caller may write over a list it was given
var junkVal = &sv{-99, 1 << 20}

// scribble: the caller owns a list a method returned.  Once it has been put into trace form it is
// overwritten and appended into from the start; nothing the cache reports later may change by that.
func (z *lazy) scribble() {
	for i := range z.vals {
		z.vals[i] = junkVal
	}
	for i := range z.anys {
		z.anys[i] = "junk"
	}
	z.vals = append(z.vals[:0], junkVal)
	z.anys = append(z.anys[:0], "junk", "junk")
}

func fin(e tr.E) tr.E {
	if z, ok := e["r"].(*lazy); ok {
		e["r"] = z.ids()
		z.scribble()
	}
	if o, ok := e["obs"].(*lazyObs); ok {
		e["obs"] = o.render()
	}
	return e
}

func hit(ok bool, v int) tr.E { return tr.E{"ok": ok, "v": v} }

func (l *sizedLRU) do(a act) interface{} {
	k := mkKey(l.kind, a.K, l.koff)
	switch a.Op {
	case "set":
		l.c.Set(k, l.val(&a))
		return 0
	case "setx":
		return &lazy{vals: l.c.SetAndGetRemoved(k, l.val(&a))}
	case "setnx":
		l.c.SetIfAbsent(k, mkVal(a.VK, a.V, a.S))
		return 0
	case "mut":
		// the value object stored for k changes what Size() reports; the cache is not told
		l.lmu.Lock()
		if p := l.last[a.K]; p != nil {
			p.size = a.S
		}
		l.lmu.Unlock()
		return 0
	case "get":
		v, ok := l.c.Get(k)
		if !ok {
			return hit(false, 0)
		}
		return hit(true, idOf(v))
	case "peek":
		v, ok := l.c.Peek(k)
		if !ok {
			return hit(false, 0)
		}
		return hit(true, idOf(v))
	case "exist":
		return l.c.Exist(k)
	case "del":
		return l.c.Delete(k)
	case "clear":
		l.c.Clear()
		return 0
	case "setcap":
		l.c.SetCapacity(realCap(a.C))
		return 0
	case "qlen":
		return specNum(l.c.Length())
	case "qsize":
		return specNum(l.c.Size())
	case "qcap":
		return specNum(l.c.Capacity())
	case "qev":
		return specNum(l.c.Evictions())
	case "qstats":
		ln, size, capa, ev := l.c.Stats()
		return tr.E{"len": specNum(ln), "size": specNum(size), "cap": specNum(capa), "ev": specNum(ev)}
	case "qitems", "qkeys": // the listings are methods of their own too (rendered at once)
		if a.Op == "qitems" {
			return listing(&lazyObs{items: l.c.Items(), koff: l.koff}, true)
		}
		return listing(&lazyObs{keys: l.c.Keys(), koff: l.koff}, false)
	}
	tr.Fatal("unknown op %q", a.Op)
	return nil
}

// sameKey compares two keys the cache handed out (uncomparable ones - nobody stored such - are unequal)
func sameKey(a, b interface{}) (eq bool) {
	defer func() {
		if recover() != nil {
			eq = false
		}
	}()
	return a == b
}

// lazyObs is what Items(), Keys(), Stats() and the single getters returned after a call, kept as
// returned; like lazy it is put into trace form when the event is written.
type lazyObs struct {
	items  []cache.Item
	titems []tiny.Item
	keys   []interface{}
	koff   int
	st, gt [4]int64 // Stats() / Length, Size, Capacity, Evictions
}

// listing is the reply of the listing getters: Keys() alone, or Items() as (keys, values)
func listing(o *lazyObs, items bool) tr.E {
	if !items {
		ks := make([]int, 0, len(o.keys))
		for _, k := range o.keys {
			ks = append(ks, unKey(k, o.koff))
		}
		return tr.E{"keys": ks}
	}
	n := len(o.items) + len(o.titems)
	ks, vals := make([]int, 0, n), make([]int, 0, n)
	for i := 0; i < n; i++ {
		if o.items != nil {
			ks, vals = append(ks, unKey(o.items[i].Key, o.koff)), append(vals, idOf(o.items[i].Value))
		} else {
			ks, vals = append(ks, unKey(o.titems[i].Key, o.koff)), append(vals, idOf(o.titems[i].Value))
		}
	}
	return tr.E{"keys": ks, "vals": vals}
}

func (o *lazyObs) render() tr.E {
	n := len(o.items) + len(o.titems)
	vals := make([]int, 0, n)
	ks := make([]int, 0, len(o.keys))
	for i := 0; i < n; i++ {
		var k, v interface{}
		if o.items != nil {
			k, v = o.items[i].Key, o.items[i].Value
		} else {
			k, v = o.titems[i].Key, o.titems[i].Value
		}
		vals = append(vals, idOf(v))
		if i < len(o.keys) && !sameKey(k, o.keys[i]) {
			// Items and Keys disagree on order: make it visible to the spec
			vals[len(vals)-1] = -1
		}
	}
	for _, k := range o.keys {
		ks = append(ks, unKey(k, o.koff))
	}
	ln := o.st[0]
	if o.st != o.gt {
		ln = -1 // Stats and the single getters disagree: visible to the spec
	}
	// the lists are the caller's: written over once read (a later Items()/Keys() must not show it)
	for i := range o.items {
		o.items[i] = cache.Item{Key: "junk", Value: junkVal}
	}
	for i := range o.titems {
		o.titems[i] = tiny.Item{Key: "junk", Value: "junk"}
	}
	for i := range o.keys {
		o.keys[i] = "junk"
	}
	_ = append(o.items[:0], cache.Item{Key: -1, Value: junkVal})
	_ = append(o.titems[:0], tiny.Item{Key: -1, Value: -1})
	_ = append(o.keys[:0], "junk", "junk")
	return tr.E{"keys": ks, "vals": vals, "len": specNum(ln), "size": specNum(o.st[1]), "cap": specNum(o.st[2]), "ev": specNum(o.st[3])}
}

func (l *sizedLRU) obs() *lazyObs {
	o := &lazyObs{items: l.c.Items(), keys: l.c.Keys(), koff: l.koff}
	if o.items == nil {
		o.items = []cache.Item{}
	}
	o.st[0], o.st[1], o.st[2], o.st[3] = l.c.Stats()
	o.gt = [4]int64{l.c.Length(), l.c.Size(), l.c.Capacity(), l.c.Evictions()}
	return o
}

type tinyLRU struct {
	c    *tiny.LRUCache
	kind int
	koff int
}

// tinyVal: the tiny cache takes any value at all - a plain int, nil, or one of the kinds of kinds.go
func tinyVal(a act) interface{} {
	switch a.VK {
	case vkPtr:
		return a.V
	case vkNil:
		return nil
	}
	return mkVal(a.VK, a.V, a.S)
}

func (l *tinyLRU) do(a act) interface{} {
	k := mkKey(l.kind, a.K, l.koff)
	switch a.Op {
	case "set":
		l.c.Set(k, tinyVal(a))
		return 0
	case "setx":
		return &lazy{anys: l.c.SetAndGetRemoved(k, tinyVal(a))}
	case "setnx":
		l.c.SetIfAbsent(k, tinyVal(a))
		return 0
	case "get":
		v, ok := l.c.Get(k)
		if !ok {
			return hit(false, 0)
		}
		return hit(true, idOf(v))
	case "peek":
		v, ok := l.c.Peek(k)
		if !ok {
			return hit(false, 0)
		}
		return hit(true, idOf(v))
	case "exist":
		return l.c.Exist(k)
	case "del":
		return l.c.Delete(k)
	case "clear":
		l.c.Clear()
		return 0
	case "setcap":
		l.c.SetCapacity(realCap(a.C))
		return 0
	case "mut":
		return 0
	case "qlen":
		return specNum(l.c.Length())
	case "qsize":
		return specNum(l.c.Size())
	case "qcap":
		return specNum(l.c.Capacity())
	case "qev":
		return specNum(l.c.Evictions())
	case "qstats":
		ln, size, capa, ev := l.c.Stats()
		return tr.E{"len": specNum(ln), "size": specNum(size), "cap": specNum(capa), "ev": specNum(ev)}
	case "qitems", "qkeys": // the listings are methods of their own too (rendered at once)
		if a.Op == "qitems" {
			return listing(&lazyObs{titems: l.c.Items(), koff: l.koff}, true)
		}
		return listing(&lazyObs{keys: l.c.Keys(), koff: l.koff}, false)
	}
	tr.Fatal("unknown op %q", a.Op)
	return nil
}

func (l *tinyLRU) obs() *lazyObs {
	o := &lazyObs{titems: l.c.Items(), keys: l.c.Keys(), koff: l.koff}
	o.st[0], o.st[1], o.st[2], o.st[3] = l.c.Stats()
	o.gt = [4]int64{l.c.Length(), l.c.Size(), l.c.Capacity(), l.c.Evictions()}
	return o
}

func unKey(k interface{}, koff int) int {
	if n, ok := unMix(k, koff); ok {
		return n
	}
	switch x := k.(type) {
	case int:
		return x
	case string:
		var n int
		fmt.Sscanf(x, "key-%d", &n)
		return n
	case skey:
		return x.A
	case [2]int:
		return x[0]
	case int64:
		return int(x)
	}
	return -7 // a key nobody stored: an observation the spec cannot explain, not a harness fault
}

var lruCount int

func newLRU(sized bool, capa, kind int) lru {
	lruCount++
	koff := lruCount * 5 // rotates the table of look-alike keys from cache to cache
	if sized {
		return &sizedLRU{c: cache.NewLRUCache(realCap(capa)), kind: kind, koff: koff, last: map[int]*sv{}}
	}
	return &tinyLRU{tiny.NewLRUCache(realCap(capa)), kind, koff}
}

// pev turns an event whose reply is a recovered panic into an event of its own kind ("panic"): replies
// have per-operation shapes and a string among them is not comparable in TLC; an event kind the trace
// specification does not know is rejected where it stands.
func pev(e tr.E) tr.E {
	if s, ok := e["r"].(string); ok && strings.HasPrefix(s, "panic:") {
		e["was"] = e["ev"]
		e["ev"] = "panic"
	}
	return e
}

// safeDo converts a panic inside the library into an event the spec cannot explain.
func safeDo(l lru, a act) (r interface{}) {
	defer func() {
		if p := recover(); p != nil {
			r = fmt.Sprintf("panic: %v", p)
		}
	}()
	return l.do(a)
}

var seqRuns int

// kindsFor gives the values of a plan (which says nothing about kinds) dynamic kinds: mostly one
// dominant kind - two values of the same uncomparable kind under one key are what a cache that
// compares values trips over - and now and then another one.
func kindsFor(acts []act, dom int) {
	for i := range acts {
		acts[i].VK = dom % nValKinds
		if (i*7+dom)%10 >= 6 {
			acts[i].VK = (i*3 + dom/2) % nValKinds
		}
	}
}

func runSeq(w *tr.W, src string, capa int, sized bool, kind int, acts []act) {
	l := newLRU(sized, capa, kind)
	w.Emit(tr.E{"ev": "reset", "cap": capa, "sized": sized, "threads": 1, "src": src, "keykind": kind})
	seqRuns++
	// the events of every second pair of histories are written when the history is over (pairs: the
	// callers alternate sized / tiny, and both must meet both ways)
	late := seqRuns%4 >= 2
	var held []tr.E
	for _, a := range acts {
		normVal(&a, sized)
		if sl, ok := l.(*sizedLRU); ok && a.Same {
			if p := sl.last[a.K]; p != nil { // sequential history: no lock needed
				a.V = p.id // the same value object is stored again: its identity is what it was
			} else {
				a.Same = false
			}
		}
		r := safeDo(l, a)
		e := pev(tr.E{"ev": "call", "a": a.rec(), "r": r, "obs": l.obs()})
		if late {
			held = append(held, e)
		} else {
			w.Emit(fin(e))
		}
	}
	for _, e := range held {
		w.Emit(fin(e))
	}
}

func readPlan(path string) []act {
	f, err := os.Open(path)
	if err != nil {
		tr.Fatal("%v", err)
	}
	defer f.Close()
	var out []act
	sc := bufio.NewScanner(f)
	for sc.Scan() {
		var a act
		if err := json.Unmarshal(sc.Bytes(), &a); err != nil {
			tr.Fatal("plan %s: %v", path, err)
		}
		out = append(out, a)
	}
	return out
}

// domKind: the dominant value kind of the history being generated (-1: the plain pointer kind only)
var domKind = -1

func randKind(rng *rand.Rand) int {
	if domKind < 0 {
		return vkPtr
	}
	if rng.Intn(10) < 6 {
		return domKind
	}
	return rng.Intn(nValKinds)
}

func randAct(rng *rand.Rand, nkeys, capa int) act {
	a := randAct0(rng, nkeys, capa)
	a.VK = randKind(rng)
	return a
}

var sizeMarks = []int{0, 1, 255, 256, 257, 65535, 65536, 65537}

func randAct0(rng *rand.Rand, nkeys, capa int) act {
	k := rng.Intn(nkeys) + 1
	v := rng.Intn(1000) + 1
	var s int
	big := capa >= 255
	switch rng.Intn(6) {
	case 0:
		s = 0
	case 1:
		s = capa + 1 + rng.Intn(3) // larger than the whole capacity
		if capa == hugeCap {
			s = 1 << 24
		}
	case 2:
		s = capa
		if capa == hugeCap {
			s = 1<<24 - 1
		}
	default:
		s = rng.Intn(capa/2+2) + 0
		if big {
			// capacities around the widths a counter may have been narrowed to: charges that make
			// the sum cross them, in few entries
			switch rng.Intn(4) {
			case 0:
				s = sizeMarks[rng.Intn(len(sizeMarks))]
			case 1:
				s = capa/2 + rng.Intn(3) - 1
			case 2:
				s = capa/3 + rng.Intn(2)
			default:
				s = capa - 1 - rng.Intn(300)
			}
			if capa == hugeCap && s > 1<<24 {
				s = 1<<24 - rng.Intn(5)
			}
			if s < 0 {
				s = 0
			}
		}
	}
	if big && rng.Intn(100) >= 96 { // another capacity of the same family instead of 0..2*capa+1
		c := bigCaps[rng.Intn(len(bigCaps))]
		if c == hugeCap && capa != hugeCap { // sums must stay inside TLC's integers: cap + charge < 2^31
			c = 65536
		}
		return act{Op: "setcap", C: c}
	}
	switch x := rng.Intn(100); {
	case x < 4:
		return act{Op: "mut", K: k, S: s}
	case x < 25:
		return act{Op: "set", K: k, V: v, S: s, Same: rng.Intn(5) == 0}
	case x < 40:
		return act{Op: "setx", K: k, V: v, S: s, Same: rng.Intn(5) == 0}
	case x < 50:
		return act{Op: "setnx", K: k, V: v, S: s}
	case x < 65:
		return act{Op: "get", K: k}
	case x < 75:
		return act{Op: "peek", K: k}
	case x < 82:
		return act{Op: "exist", K: k}
	case x < 90:
		return act{Op: "del", K: k}
	case x < 92:
		return act{Op: "clear"}
	case x < 96:
		return act{Op: []string{"qlen", "qsize", "qcap", "qev", "qstats"}[rng.Intn(5)]}
	default:
		if big {
			return act{Op: "setcap", C: []int{0, 1, capa / 2, capa - 1, capa, 256, 65536}[rng.Intn(7)]}
		}
		return act{Op: "setcap", C: rng.Intn(2*capa + 2)}
	}
}

// concurrent history: T goroutines, inv/res events ordered by a global log mutex taken
// outside the cache's own lock (so the log order is consistent with real time).
func runConc(w *tr.W, rng *rand.Rand, sized bool, threads, opsPer int) {
	capa := rng.Intn(4) + 1
	l := newLRU(sized, capa, 0)
	var mu sync.Mutex
	var evs []tr.E
	logf := func(e tr.E) {
		mu.Lock()
		evs = append(evs, e)
		mu.Unlock()
	}
	progs := make([][]act, threads)
	for t := range progs {
		for i := 0; i < opsPer; i++ {
			a := randAct(rng, 3, capa)
			if a.Op == "setcap" || a.Op == "clear" || a.Op == "mut" {
				a = act{Op: "get", K: a.C%3 + 1}
			}
			a.Same = false // re-storing a grown value object is exercised in sequential histories only
			if a.S > capa+1 {
				a.S = capa + 1
			}
			normVal(&a, sized)
			progs[t] = append(progs[t], a)
		}
	}
	var wg sync.WaitGroup
	start := make(chan struct{})
	for t := 0; t < threads; t++ {
		wg.Add(1)
		go func(t int) {
			defer wg.Done()
			<-start
			for _, a := range progs[t] {
				logf(tr.E{"ev": "inv", "t": t + 1, "a": a.rec()})
				r := safeDo(l, a)
				logf(pev(tr.E{"ev": "res", "t": t + 1, "r": r}))
			}
		}(t)
	}
	close(start)
	wg.Wait()
	w.Emit(tr.E{"ev": "reset", "cap": capa, "sized": sized, "threads": threads, "src": "conc", "keykind": 0})
	for _, e := range evs {
		w.Emit(fin(e))
	}
	w.Emit(fin(tr.E{"ev": "final", "obs": l.obs()}))
}

// race rounds: a fresh cache, `threads` goroutines released together, each issuing a short burst
// of operations on one or two hot keys.  Only rounds in which at least two calls really overlapped
// in the log are kept (a round without overlap is a sequential history, covered elsewhere); dropping
// rounds can only lose coverage.  Returns (rounds run, rounds kept).
func runRaces(w *tr.W, rng *rand.Rand, rounds, keep, bulk int) (int, int) {
	kept, ran, bulkKept := 0, 0, 0
	ops := []string{"setnx", "set", "setx", "del", "get", "setnx", "set"}
	for r := 0; r < rounds && kept < keep; r++ {
		ran++
		sized := (r/3)%2 == 0
		threads := 2 + r%2
		capa := 1 + rng.Intn(3)
		var pre []act  // sequential prefix of the round (part of the recorded history)
		var post []act // sequential suffix, after all goroutines are back
		var progs [][]act
		switch r % 3 {
		case 0:
			// structured pair: every method against every mutator on the same key, on an absent or a
			// present key (atomicity of each single method)
			all := []string{"setnx", "set", "setx", "del", "get", "peek", "exist"}
			mut := []string{"set", "setx", "del", "setnx", "clear", "setcap0", "set+get"}
			c := r / 3
			a, b := all[c%len(all)], mut[(c/len(all))%len(mut)]
			switch (c / (len(all) * len(mut))) % 3 {
			case 1:
				pre = []act{{Op: "set", K: 1, V: 7, S: 1}}
			case 2: // key 1 present but not the most recently used one
				capa = 3
				pre = []act{{Op: "set", K: 1, V: 7, S: 1}, {Op: "set", K: 2, V: 8, S: 1}}
			}
			threads = 2
			var pb []act
			switch b {
			case "clear":
				pb = []act{{Op: "clear"}}
			case "setcap0":
				pb = []act{{Op: "setcap", C: 0}, {Op: "setcap", C: capa}}
			case "set+get": // another caller updates the key and touches a second one
				pb = []act{{Op: "set", K: 1, V: 200, S: 1}, {Op: "get", K: 2}}
			default:
				pb = []act{{Op: b, K: 1, V: 200, S: 1}}
			}
			progs = [][]act{{{Op: a, K: 1, V: 100, S: 1}}, pb}
			// after the race the cache is used on: whatever the race left behind must carry on like the
			// ideal cache (an element linked into a list it no longer belongs to shows only now)
			post = []act{{Op: "set", K: 8, V: 300, S: 1}, {Op: "set", K: 9, V: 301, S: 1}, {Op: "get", K: 1}, {Op: "set", K: 10, V: 302, S: 1}}
		case 1:
			progs = make([][]act, threads)
			for t := range progs {
				n := 1 + rng.Intn(2)
				for i := 0; i < n; i++ {
					progs[t] = append(progs[t], act{Op: ops[rng.Intn(len(ops))], K: 1 + rng.Intn(10)/8, V: 100*(t+1) + i, S: 1})
				}
			}
		case 2:
			if bulkKept >= bulk {
				continue
			}
			// one caller whose single call displaces many entries (a large item, a shrinking
			// capacity, a run of inserts into a full cache) against callers that only read the
			// counters: every value a getter returned must be one the ideal cache held at some
			// instant between that getter's call and return
			capa = 16 + rng.Intn(48)
			for k := 1; k <= capa; k++ {
				pre = append(pre, act{Op: "set", K: k, V: k, S: 1})
			}
			var wr []act
			switch rng.Intn(4) {
			case 0:
				wr = []act{{Op: "set", K: capa + 1, V: 900, S: capa}}
			case 1:
				wr = []act{{Op: "setcap", C: rng.Intn(3)}}
			case 2:
				wr = []act{{Op: "setx", K: capa + 1, V: 900, S: capa - rng.Intn(3)}}
			default:
				for i := 1; i <= 6; i++ {
					wr = append(wr, act{Op: []string{"set", "setx", "setnx"}[rng.Intn(3)], K: capa + i, V: 900 + i, S: 1})
				}
			}
			threads = 3
			q := []string{"qsize", "qev", "qstats", "qlen", "qsize"}
			nq := 6
			if rng.Intn(3) == 0 {
				// a caller that updates present entries in place and touches others, against callers
				// that list the cache: every listing must be one the ideal cache showed at some instant
				wr = nil
				for i := 1; i <= 8+rng.Intn(8); i++ {
					if rng.Intn(4) == 0 {
						wr = append(wr, act{Op: "get", K: 1 + rng.Intn(capa)})
					} else {
						wr = append(wr, act{Op: "set", K: 1 + rng.Intn(capa), V: 900 + i, S: 1})
					}
				}
				q, nq = []string{"qitems", "qitems", "qkeys"}, 2
			}
			progs = [][]act{wr, nil, nil}
			for t := 1; t < 3; t++ {
				n := nq + rng.Intn(nq+4)
				for i := 0; i < n; i++ {
					progs[t] = append(progs[t], act{Op: q[rng.Intn(len(q))]})
				}
			}
		}
		// dynamic kinds of keys and values rotate over the rounds
		vk, kk := vkPtr, r%nKeyKinds
		if r%5 >= 2 {
			vk = (r / 5) % nValKinds
		}
		if r%3 == 2 && (vk == vkTypedNil || vk == vkNil) {
			vk = vkSlice // these kinds fix the charge, the bulk rounds need theirs
		}
		apply := func(xs []act) {
			for i := range xs {
				xs[i].VK = vk
				normVal(&xs[i], sized)
			}
		}
		apply(pre)
		apply(post)
		for t := range progs {
			apply(progs[t])
		}
		l := newLRU(sized, capa, kk)
		var preEvs []tr.E
		for _, a := range pre {
			preEvs = append(preEvs, fin(pev(tr.E{"ev": "callr", "a": a.rec(), "r": safeDo(l, a)})))
		}
		// lock-free log: a global atomic sequence number is drawn before a call starts and after it
		// returned, so the merged order is consistent with real time; goroutines are released by a
		// spin barrier so that they really run in parallel.
		type sev struct {
			seq int64
			e   tr.E
		}
		per := make([][]sev, threads)
		var seq int64
		var goFlag, readyCnt int32
		var wg sync.WaitGroup
		for t := 0; t < threads; t++ {
			wg.Add(1)
			go func(t int) {
				defer wg.Done()
				atomic.AddInt32(&readyCnt, 1)
				for atomic.LoadInt32(&goFlag) == 0 {
				}
				for _, a := range progs[t] {
					per[t] = append(per[t], sev{atomic.AddInt64(&seq, 1), tr.E{"ev": "inv", "t": t + 1, "a": a.rec()}})
					r := safeDo(l, a)
					per[t] = append(per[t], sev{atomic.AddInt64(&seq, 1), pev(tr.E{"ev": "res", "t": t + 1, "r": r})})
				}
			}(t)
		}
		for atomic.LoadInt32(&readyCnt) < int32(threads) {
			runtime.Gosched()
		}
		atomic.StoreInt32(&goFlag, 1)
		wg.Wait()
		var all []sev
		for _, p := range per {
			all = append(all, p...)
		}
		sort.Slice(all, func(i, j int) bool { return all[i].seq < all[j].seq })
		evs := make([]tr.E, 0, len(all))
		for _, x := range all {
			evs = append(evs, x.e)
		}
		open, overlap := 0, false
		for _, e := range evs {
			if e["ev"] == "inv" {
				open++
				if open > 1 {
					overlap = true
				}
			} else {
				open--
			}
		}
		if !overlap {
			continue
		}
		kept++
		if r%3 == 2 {
			bulkKept++
		}
		w.Emit(tr.E{"ev": "reset", "cap": capa, "sized": sized, "threads": threads, "src": "race", "keykind": kk})
		for _, e := range preEvs {
			w.Emit(e)
		}
		for _, e := range evs {
			w.Emit(fin(e))
		}
		w.Emit(fin(tr.E{"ev": "final", "obs": l.obs()}))
		for _, a := range post {
			w.Emit(fin(pev(tr.E{"ev": "callr", "a": a.rec(), "r": safeDo(l, a)})))
		}
		if len(post) > 0 {
			w.Emit(fin(tr.E{"ev": "final", "obs": l.obs()}))
		}
	}
	return ran, kept
}

// wide variants: only the facade (Get/Peek/Exist/Set/Delete) is public.  The harness routes
// every event to the trace of the shard that remap (public, checked in C17) assigns to the
// key; each shard must behave as an LRU of capacity cap/shards+1.
func runWide(w *tr.W, rng *rand.Rand, variant string, shards, capa, nops int) {
	var sizedF cache.LRUFacade
	var tinyF tiny.LRU
	var opts []remap.Option
	if shards > 0 { // 0 = no option: the constructors' default shard count
		opts = append(opts, remap.WithPrime(uint64(shards)))
	}
	rm := remap.NewReMap(opts...)
	var idx func(interface{}) int
	sized := true
	switch variant {
	case "wide":
		sizedF = cache.NeWideLRUCache(int64(capa), opts...)
		idx = rm.SimpleIndex
	case "widex":
		sizedF = cache.NewWideXHashLRUCache(int64(capa), opts...)
		idx = rm.XHashIndex
	case "tinywide":
		tinyF = tiny.NeWideLRU(int64(capa), opts...)
		idx = rm.SimpleIndex
		sized = false
	case "tinywidex":
		tinyF = tiny.NewWideXHashLRU(int64(capa), opts...)
		idx = rm.XHashIndex
		sized = false
	}
	n := int(rm.Numbs())
	per := make([][]tr.E, n)
	pcap := capa/n + 1
	nkeys := (pcap+1)*n + 2
	for i := 0; i < nops; i++ {
		a := randAct(rng, nkeys, pcap)
		switch a.Op {
		case "setx", "setnx", "clear", "setcap", "mut":
			a.Op = "set"
		case "qlen", "qsize", "qcap", "qev", "qstats", "qitems", "qkeys": // the facades have no getters
			a.Op = "peek"
		}
		if !sized {
			a.S = 1
		}
		normVal(&a, sized)
		var key interface{} = a.K
		if variant == "widex" || variant == "tinywidex" {
			if a.K%2 == 0 {
				key = fmt.Sprintf("key-%d", a.K)
			} else {
				key = int32(a.K)
			}
		}
		sh := idx(key)
		var r interface{}
		func() {
			defer func() {
				if p := recover(); p != nil {
					r = fmt.Sprintf("panic: %v", p)
				}
			}()
			r = wideDo(sizedF, tinyF, key, a)
		}()
		if sh < 0 || sh >= n {
			// the router under test left [0, n): an observation, not a harness fault
			per[0] = append(per[0], tr.E{"ev": "badindex", "a": a.rec(), "n": n})
			continue
		}
		per[sh] = append(per[sh], pev(tr.E{"ev": "callr", "a": a.rec(), "r": r}))
	}
	order := make([]int, 0, n)
	for i := range per {
		if len(per[i]) > 0 {
			order = append(order, i)
		}
	}
	sort.Ints(order)
	for _, i := range order {
		w.Emit(tr.E{"ev": "reset", "cap": pcap, "sized": sized, "threads": 1, "src": variant, "shard": i, "shards": n, "keykind": 0})
		for _, e := range per[i] {
			w.Emit(e)
		}
	}
}

// wide race rounds: a FRESH sharded cache (1..3 shards, capacity no round reaches), 2..4 goroutines
// released together, each storing its own key (several keys collide in one shard) and reading a
// neighbour's; afterwards every key is read back sequentially.  Events are routed to the trace of
// the shard the public remap index assigns; each shard must be linearizable as an LRU.
func runWideRaces(w *tr.W, rng *rand.Rand, rounds, keep int) (int, int) {
	kept, ran := 0, 0
	variants := []string{"wide", "widex", "tinywide", "tinywidex"}
	for r := 0; r < rounds && kept < keep; r++ {
		ran++
		variant := variants[r%4]
		shards := 1 + r%3
		capa := 3000
		var sizedF cache.LRUFacade
		var tinyF tiny.LRU
		rm := remap.NewReMap(remap.WithPrime(uint64(shards)))
		idx := rm.SimpleIndex
		sized := true
		switch variant {
		case "wide":
			sizedF = cache.NeWideLRUCache(int64(capa), remap.WithPrime(uint64(shards)))
		case "widex":
			sizedF = cache.NewWideXHashLRUCache(int64(capa), remap.WithPrime(uint64(shards)))
			idx = rm.XHashIndex
		case "tinywide":
			tinyF = tiny.NeWideLRU(int64(capa), remap.WithPrime(uint64(shards)))
			sized = false
		case "tinywidex":
			tinyF = tiny.NewWideXHashLRU(int64(capa), remap.WithPrime(uint64(shards)))
			idx = rm.XHashIndex
			sized = false
		}
		threads := 2 + rng.Intn(3)
		nkeys := threads + 1
		progs := make([][]act, threads)
		for t := range progs {
			progs[t] = []act{{Op: "set", K: t + 1, V: 100 + t, S: 1}}
			if rng.Intn(2) == 0 {
				progs[t] = append(progs[t], act{Op: []string{"get", "exist", "peek"}[rng.Intn(3)], K: 1 + rng.Intn(nkeys)})
			}
		}
		type sev struct {
			seq int64
			k   int
			e   tr.E
		}
		per := make([][]sev, threads)
		var seq int64
		var goFlag, readyCnt int32
		var wg sync.WaitGroup
		for t := 0; t < threads; t++ {
			wg.Add(1)
			go func(t int) {
				defer wg.Done()
				atomic.AddInt32(&readyCnt, 1)
				for atomic.LoadInt32(&goFlag) == 0 {
				}
				for _, a := range progs[t] {
					per[t] = append(per[t], sev{atomic.AddInt64(&seq, 1), a.K, tr.E{"ev": "inv", "t": t + 1, "a": a.rec()}})
					var r interface{}
					func() {
						defer func() {
							if p := recover(); p != nil {
								r = fmt.Sprintf("panic: %v", p)
							}
						}()
						r = wideDo(sizedF, tinyF, a.K, a)
					}()
					per[t] = append(per[t], sev{atomic.AddInt64(&seq, 1), a.K, pev(tr.E{"ev": "res", "t": t + 1, "r": r})})
				}
			}(t)
		}
		for atomic.LoadInt32(&readyCnt) < int32(threads) {
			runtime.Gosched()
		}
		atomic.StoreInt32(&goFlag, 1)
		wg.Wait()
		var all []sev
		for _, p := range per {
			all = append(all, p...)
		}
		sort.Slice(all, func(i, j int) bool { return all[i].seq < all[j].seq })
		open, overlap := 0, false
		for _, x := range all {
			if x.e["ev"] == "inv" {
				open++
				if open > 1 {
					overlap = true
				}
			} else {
				open--
			}
		}
		if !overlap {
			continue
		}
		kept++
		n := int(rm.Numbs())
		pcap := capa/n + 1
		byShard := make([][]tr.E, n)
		for _, x := range all {
			sh := idx(x.k)
			byShard[sh] = append(byShard[sh], x.e)
		}
		for k := 1; k <= nkeys; k++ {
			a := act{Op: "get", K: k}
			var r interface{}
			func() {
				defer func() {
					if p := recover(); p != nil {
						r = fmt.Sprintf("panic: %v", p)
					}
				}()
				r = wideDo(sizedF, tinyF, k, a)
			}()
			sh := idx(k)
			byShard[sh] = append(byShard[sh], pev(tr.E{"ev": "callr", "a": a.rec(), "r": r}))
		}
		for sh, evs := range byShard {
			if len(evs) == 0 {
				continue
			}
			w.Emit(tr.E{"ev": "reset", "cap": pcap, "sized": sized, "threads": threads, "src": "widerace:" + variant, "shard": sh, "shards": n, "keykind": 0})
			for _, e := range evs {
				w.Emit(e)
			}
		}
	}
	return ran, kept
}

func wideDo(sf cache.LRUFacade, tf tiny.LRU, key interface{}, a act) interface{} {
	if sf != nil {
		switch a.Op {
		case "set":
			sf.Set(key, mkVal(a.VK, a.V, a.S))
			return 0
		case "get":
			v, ok := sf.Get(key)
			if !ok {
				return hit(false, 0)
			}
			return hit(true, idOf(v))
		case "peek":
			v, ok := sf.Peek(key)
			if !ok {
				return hit(false, 0)
			}
			return hit(true, idOf(v))
		case "exist":
			return sf.Exist(key)
		case "del":
			return sf.Delete(key)
		}
	} else {
		switch a.Op {
		case "set":
			tf.Set(key, tinyVal(a))
			return 0
		case "get":
			v, ok := tf.Get(key)
			if !ok {
				return hit(false, 0)
			}
			return hit(true, idOf(v))
		case "peek":
			v, ok := tf.Peek(key)
			if !ok {
				return hit(false, 0)
			}
			return hit(true, idOf(v))
		case "exist":
			return tf.Exist(key)
		case "del":
			return tf.Delete(key)
		}
	}
	tr.Fatal("wide op %q", a.Op)
	return nil
}

func main() {
	plans := flag.String("plans", "", "directory of TLC-generated plans")
	out := flag.String("out", "seq.ndjson", "sequential traces")
	conc := flag.String("conc", "conc.ndjson", "concurrent traces")
	seed := flag.Int64("seed", 1, "seed")
	nhist := flag.Int("hist", 200, "random histories")
	nconc := flag.Int("nconc", 60, "concurrent histories")
	nwide := flag.Int("nwide", 40, "wide histories")
	maxops := flag.Int("maxops", 80, "max ops per history")
	nrace := flag.Int("nrace", 60000, "race rounds to run")
	nbulk := flag.Int("nbulk", 150, "race rounds of the bulk-writer-against-getters kind to keep")
	nracekeep := flag.Int("nracekeep", 4000, "race rounds (with real overlap) to keep")
	nwrace := flag.Int("nwrace", -1, "wide race rounds to run (-1: nrace/4)")
	nwracekeep := flag.Int("nwracekeep", -1, "wide race rounds to keep (-1: nracekeep/3)")
	long := flag.String("long", "", "long-run traces (run-length encoded; empty: none)")
	longchurn := flag.Int("longchurn", 65540, "calls of the long eviction run (0: none)")
	longfill := flag.Int("longfill", 0, "entries of a large never-evicting cache (0: none; TLC needs minutes for a state of 2^16 entries, so no tier asks for it)")
	longtouch := flag.Int("longtouch", 65540, "calls of the long recency run (0: none)")
	nreconf := flag.Int("nreconf", -1, "reconfiguration histories (-1: hist/5)")
	nshape := flag.Int("nshape", -1, "shape-class histories (-1: all of them if hist > 0)")
	flag.Parse()
	rng := rand.New(rand.NewSource(*seed))

	w := tr.Create(*out)
	if *plans != "" {
		files, _ := filepath.Glob(filepath.Join(*plans, "*.ndjson"))
		sort.Strings(files)
		for i, f := range files {
			p := readPlan(f)
			if len(p) == 0 || p[0].Op != "init" {
				tr.Fatal("plan %s does not start with init", f)
			}
			acts := p[1:]
			if i%2 == 1 {
				kindsFor(acts, i/2)
			}
			runSeq(w, "plan:"+filepath.Base(f), p[0].Cap, p[0].Sized, i%nKeyKinds, acts)
		}
	}
	for i := 0; i < *nhist; i++ {
		capa := rng.Intn(13)
		if i%10 == 0 {
			capa = 0
		}
		nkeys := rng.Intn(12) + 2
		if i%8 == 5 { // capacities around counter widths, "no limit", charges in proportion
			capa = bigCaps[rng.Intn(len(bigCaps))]
			nkeys = rng.Intn(5) + 2
		}
		n := rng.Intn(*maxops) + 5
		acts := make([]act, n)
		domKind = -1
		if i%3 != 0 {
			domKind = rng.Intn(nValKinds)
		}
		for j := range acts {
			acts[j] = randAct(rng, nkeys, capa)
		}
		runSeq(w, "rand", capa, i%2 == 0, rng.Intn(nKeyKinds), acts)
	}
	if *nreconf < 0 {
		*nreconf = *nhist / 5
	}
	for i := 0; i < *nreconf; i++ {
		domKind = rng.Intn(nValKinds+3) - 3
		capa, acts := reconfHist(rng)
		runSeq(w, "reconf", capa, i%2 == 0, rng.Intn(nKeyKinds), acts)
	}
	if *nshape != 0 && *nhist > 0 {
		domKind = rng.Intn(nValKinds)
		sh := shapeHists(rng)
		rng.Shuffle(len(sh), func(i, j int) { sh[i], sh[j] = sh[j], sh[i] })
		if *nshape > 0 && len(sh) > *nshape {
			sh = sh[:*nshape]
		}
		for i, h := range sh {
			runSeq(w, "shape", h.capa, (i+int(*seed))%2 == 0, rng.Intn(nKeyKinds), h.acts)
		}
	}
	domKind = -1
	for i := 0; i < *nwide; i++ {
		domKind = rng.Intn(nValKinds+2) - 2
		variants := []string{"wide", "widex", "tinywide", "tinywidex"}
		shards := []int{1, 2, 3, 7, 13, 0, 73}[rng.Intn(7)]
		runWide(w, rng, variants[i%4], shards, rng.Intn(20), rng.Intn(*maxops*2)+20)
	}
	w.Close()

	domKind = -1
	cw := tr.Create(*conc)
	for i := 0; i < *nconc; i++ {
		if i%2 == 1 {
			domKind = (i / 2) % nValKinds
		}
		runConc(cw, rng, i%2 == 0, 3, 4+i%3)
	}
	domKind = -1
	ran, kept := runRaces(cw, rng, *nrace, *nracekeep, *nbulk)
	if *nwrace < 0 {
		*nwrace = *nrace / 4
	}
	if *nwracekeep < 0 {
		*nwracekeep = *nracekeep / 3
	}
	wran, wkept := runWideRaces(cw, rng, *nwrace, *nwracekeep)
	cw.Close()
	if *long != "" {
		// long runs around integer widths: 8-bit marks for Length/Size/evictions/recency in every run,
		// 16-bit marks for evictions and recency (Length beyond 2^16 is too large a state for TLC)
		lw := tr.Create(*long)
		for _, sized := range []bool{*seed%2 == 0, *seed%2 != 0} {
			longFill(lw, rng, sized, 258+rng.Intn(60))
			if *longfill > 0 {
				longFill(lw, rng, sized, *longfill+rng.Intn(4))
			}
			if *longchurn > 0 {
				longChurn(lw, rng, sized, *longchurn+rng.Intn(5))
			}
			if *longtouch > 0 {
				longTouch(lw, rng, sized, *longtouch+rng.Intn(7))
			}
		}
		lw.Close()
		fmt.Printf("long_events=%d\n", lw.N())
	}
	fmt.Printf("wide_race_rounds=%d wide_race_rounds_with_overlap=%d\n", wran, wkept)
	fmt.Printf("seq_events=%d conc_events=%d race_rounds=%d race_rounds_with_overlap=%d\n", w.N(), cw.N(), ran, kept)
}
