// gen2: histories that take the cache through reconfigurations, shape classes and long runs.
package main

import (
	"fmt"
	"math/rand"

	"verif/harness/internal/tr"
)

// reconfHist: one block of operations pushed through consecutive configurations back to back - the same
// inputs after SetCapacity down / up / to nothing and back, after Clear, and once more at the first
// capacity.  Whatever a cache remembers across a reconfiguration (a counter, a shortcut to the element
// touched last, a list it handed out) meets the same questions again.
func reconfHist(rng *rand.Rand) (int, []act) {
	capa := 2 + rng.Intn(9)
	nkeys := 2 + rng.Intn(capa+2)
	big := rng.Intn(4) == 0
	scap := capa // the capacity the charges are drawn for
	if big {
		// capacities around counter widths and "no limit" (MaxInt64); charges up to 65540 keep every sum
		// inside TLC's integers whatever capacity follows
		capa = bigCaps[rng.Intn(len(bigCaps))]
		scap = capa
		if scap > 65537 {
			scap = 65537
		}
		nkeys = 2 + rng.Intn(5)
	}
	block := make([]act, 6+rng.Intn(10))
	for i := range block {
		a := randAct(rng, nkeys, scap)
		for a.Op == "setcap" || a.Op == "clear" {
			a = randAct(rng, nkeys, scap)
		}
		block[i] = a
	}
	if big {
		acts := append([]act{}, block...)
		for i := 0; i < 3+rng.Intn(4); i++ {
			c := bigCaps[rng.Intn(len(bigCaps))]
			switch rng.Intn(5) {
			case 0:
				c = capa
			case 1:
				acts = append(acts, act{Op: "clear"})
			case 2:
				acts = append(acts, act{Op: "setcap", C: 0})
			}
			acts = append(acts, act{Op: "setcap", C: c})
			acts = append(acts, block...)
		}
		return capa, acts
	}
	confs := [][]act{
		{{Op: "setcap", C: capa / 2}},
		{{Op: "setcap", C: capa * 2}},
		{{Op: "clear"}},
		{{Op: "setcap", C: 0}, {Op: "setcap", C: capa}},
		{{Op: "setcap", C: capa + 1}, {Op: "setcap", C: capa - 1}, {Op: "setcap", C: capa}},
		{{Op: "clear"}, {Op: "setcap", C: 1}},
		{{Op: "setcap", C: capa}},
		{{Op: "setcap", C: 0}, {Op: "clear"}, {Op: "setcap", C: capa}},
	}
	rng.Shuffle(len(confs), func(i, j int) { confs[i], confs[j] = confs[j], confs[i] })
	acts := append([]act{}, block...)
	for _, c := range confs[:3+rng.Intn(4)] {
		acts = append(acts, c...)
		acts = append(acts, block...)
	}
	return capa, acts
}

// shape classes: the cache is brought into a shape, one structural operation is applied, and a fixed
// suffix uses it on.  Shapes: never used; emptied by Delete, by Clear, by eviction (capacity 0 and back;
// one item larger than the capacity); one entry; exactly full; full with zero-size entries on top; just
// shrunk; just grown; full after wrapping around (more inserts than capacity).
func shapeHists(rng *rand.Rand) (out []struct {
	capa int
	acts []act
}) {
	const c = 4
	fill := func(n, s int) []act {
		var a []act
		for k := 1; k <= n; k++ {
			a = append(a, act{Op: "set", K: k, V: 10 + k, S: s})
		}
		return a
	}
	dels := func(n int) []act {
		var a []act
		for k := n; k >= 1; k-- { // not the order of insertion
			a = append(a, act{Op: "del", K: (k*3)%n + 1})
		}
		return a
	}
	cat := func(xs ...[]act) []act {
		var a []act
		for _, x := range xs {
			a = append(a, x...)
		}
		return a
	}
	shapes := [][]act{
		{},
		cat(fill(3, 1), dels(3)),
		cat(fill(3, 1), []act{{Op: "clear"}}),
		cat(fill(c, 1), []act{{Op: "setcap", C: 0}, {Op: "setcap", C: c}}),
		cat(fill(3, 1), []act{{Op: "set", K: 9, V: 99, S: c + 1}}),
		fill(1, 1),
		fill(1, c),
		fill(c, 1),
		cat(fill(c, 1), []act{{Op: "set", K: 7, V: 70, S: 0}, {Op: "setnx", K: 8, V: 80, S: 0}}),
		cat(fill(c, 1), []act{{Op: "setcap", C: c - 2}}),
		cat(fill(c, 1), []act{{Op: "setcap", C: c + 2}}),
		cat(fill(2*c+1, 1), []act{{Op: "get", K: 2*c - 1}}),
		cat(fill(2, 0), []act{{Op: "setcap", C: 0}}), // zero-size entries live in a cache of capacity 0
	}
	structural := [][]act{
		{{Op: "clear"}},
		{{Op: "setcap", C: 0}},
		{{Op: "setcap", C: c - 1}},
		{{Op: "setcap", C: c}},
		{{Op: "setcap", C: c + 3}},
		{{Op: "setx", K: 20, V: 200, S: c}},
		{{Op: "setx", K: 20, V: 200, S: 1}},
		{{Op: "setx", K: 1, V: 201, S: c}},
		{{Op: "set", K: 20, V: 200, S: c + 1}},
		{{Op: "setx", K: 20, V: 200, S: 0}},
		{{Op: "del", K: 1}, {Op: "del", K: 2}, {Op: "del", K: 3}, {Op: "del", K: 4}},
		{{Op: "qstats"}, {Op: "qlen"}, {Op: "qsize"}, {Op: "qev"}, {Op: "qcap"}},
		{{Op: "clear"}, {Op: "clear"}},
	}
	suffix := []act{{Op: "setx", K: 30, V: 300, S: 1}, {Op: "get", K: 1}, {Op: "setnx", K: 31, V: 301, S: 1},
		{Op: "set", K: 32, V: 302, S: 2}, {Op: "peek", K: 30}, {Op: "setx", K: 33, V: 303, S: 1}, {Op: "qstats"}}
	for _, sh := range shapes {
		for _, st := range structural {
			acts := cat(sh, st, suffix)
			for i := range acts {
				acts[i].VK = randKind(rng)
			}
			out = append(out, struct {
				capa int
				acts []act
			}{c, acts})
		}
	}
	return out
}

// ---- long runs ----
//
// A run is n calls of one method written as ONE event; the trace specification applies the action n
// times (LRU_Trace, TRun): action i (from 0) has key k + ((ko + dk*i) mod km) (km = 0: k + ko + dk*i)
// and value v + dv*i.  Only methods whose reply carries nothing are run (Set, SetIfAbsent; Get with the reply
// dropped): what a run did is judged through the getters and lists that follow it.

type runT struct {
	a              act
	n              int
	dk, km, dv, ko int
}

func (r runT) at(i int) act {
	a := r.a
	if r.km > 0 {
		a.K += (r.ko + r.dk*i) % r.km
	} else {
		a.K += r.ko + r.dk*i
	}
	a.V += r.dv * i
	return a
}

// doRun executes the run and writes its event; a panic inside the cache ends the run as an event of a
// kind the specification does not know
func doRun(w *tr.W, l lru, r runT) {
	if r.n <= 0 {
		return
	}
	bad := ""
	func() {
		defer func() {
			if p := recover(); p != nil {
				bad = fmt.Sprintf("panic: %v", p)
			}
		}()
		for i := 0; i < r.n; i++ {
			l.do(r.at(i))
		}
	}()
	e := tr.E{"ev": "run", "a": r.a.rec(), "n": r.n, "dk": r.dk, "km": r.km, "dv": r.dv, "ko": r.ko}
	if bad != "" {
		e["ev"], e["was"], e["r"] = "panic", "run", bad
	}
	w.Emit(e)
}

func getters(w *tr.W, l lru) {
	for _, op := range []string{"qev", "qlen", "qsize", "qstats"} {
		a := act{Op: op}
		w.Emit(fin(pev(tr.E{"ev": "callr", "a": a.rec(), "r": safeDo(l, a)})))
	}
}

// marks: the counts at which a run is interrupted for the getters - around the widths a counter, a
// sequence number or a length may have been narrowed to
func marks(upto int) []int {
	var m []int
	for _, x := range []int{254, 255, 256, 257, 258, 511, 512, 513, 32767, 32768, 32769, 65534, 65535, 65536, 65537, 65538} {
		if x <= upto {
			m = append(m, x)
		}
	}
	return append(m, upto)
}

// longChurn: a small full cache, `total` insertions of absent keys cycling over cap+1 keys: every call
// evicts the least recently used entry, so the eviction counter and anything that orders entries by
// age pass every mark; the entries held and the counters are read at each mark.  Within one piece all
// calls store one value, which makes the piece periodic: the trace specification applies one period and,
// if that reproduces the state up to the eviction counter, the remaining periods at once.
func longChurn(w *tr.W, rng *rand.Rand, sized bool, total int) {
	capa := 1 + rng.Intn(3)
	l := newLRU(sized, capa, 0)
	w.Emit(tr.E{"ev": "reset", "cap": capa, "sized": sized, "threads": 1, "src": "long-churn", "keykind": 0})
	op := []string{"set", "setnx"}[rng.Intn(2)]
	done := 0
	for _, m := range marks(total) {
		// the cycle goes on where the previous piece stopped (ko)
		doRun(w, l, runT{a: act{Op: op, K: 1, V: 1000 + done%7, S: 1}, n: m - done, dk: 1, km: capa + 1, dv: 0, ko: done % (capa + 1)})
		done = m
		getters(w, l)
		w.Emit(fin(tr.E{"ev": "final", "obs": l.obs()}))
	}
}

// longTouch: a full cache whose entries are touched `total` times in a cycle (Get, or Set of the same
// value), then one insertion: the entry evicted must be the one touched longest ago.
func longTouch(w *tr.W, rng *rand.Rand, sized bool, total int) {
	capa := 2 + rng.Intn(3)
	l := newLRU(sized, capa, 0)
	w.Emit(tr.E{"ev": "reset", "cap": capa, "sized": sized, "threads": 1, "src": "long-touch", "keykind": 0})
	for k := 1; k <= capa; k++ {
		a := act{Op: "set", K: k, V: k, S: 1}
		w.Emit(fin(pev(tr.E{"ev": "callr", "a": a.rec(), "r": safeDo(l, a)})))
	}
	op := []string{"get", "set"}[rng.Intn(2)]
	doRun(w, l, runT{a: act{Op: op, K: 1, V: 5, S: 1}, n: total, dk: 1, km: capa, dv: 0})
	a := act{Op: "setx", K: 50, V: 50, S: 1}
	w.Emit(fin(pev(tr.E{"ev": "callr", "a": a.rec(), "r": safeDo(l, a)})))
	getters(w, l)
	w.Emit(fin(tr.E{"ev": "final", "obs": l.obs()}))
}

// longFill: unit-size entries inserted until Length and Size have passed `total` (a cache that never
// evicts), the counters read at every mark, the lists at the end; then the cache is used on: entries
// from both ends are read and deleted, the capacity drops below the size (by a few entries for a large
// cache - the trace specification evicts recursively - and to 3 for a small one).
func longFill(w *tr.W, rng *rand.Rand, sized bool, total int) {
	capa := total + 5
	l := newLRU(sized, capa, 0)
	w.Emit(tr.E{"ev": "reset", "cap": capa, "sized": sized, "threads": 1, "src": "long-fill", "keykind": 0})
	done := 0
	for _, m := range marks(total) {
		doRun(w, l, runT{a: act{Op: []string{"set", "setnx"}[rng.Intn(2)], K: 1 + done, V: 1 + done, S: 1}, n: m - done, dk: 1, dv: 1})
		done = m
		getters(w, l)
	}
	w.Emit(fin(tr.E{"ev": "final", "obs": l.obs()}))
	// (a large cache: few calls that make the specification rebuild its key -> value functions, and the
	// lists only once - TLC's look-ups in large functions over enumerated sets are searches)
	post := []act{{Op: "get", K: 1}, {Op: "del", K: total}, {Op: "setnx", K: 2, V: 7, S: 1}, {Op: "peek", K: total / 2},
		{Op: "qstats"}, {Op: "setcap", C: 3}, {Op: "qstats"}, {Op: "setx", K: 3, V: 7, S: 1}, {Op: "get", K: total - 1}, {Op: "qev"}, {Op: "qlen"}}
	if total > 1000 {
		post = []act{{Op: "get", K: 1}, {Op: "setnx", K: 2, V: 7, S: 1}, {Op: "peek", K: total / 2}, {Op: "qstats"},
			{Op: "setcap", C: total - 4}, {Op: "qstats"}, {Op: "peek", K: 3}, {Op: "qev"}, {Op: "qlen"}}
	}
	for _, a := range post {
		w.Emit(fin(pev(tr.E{"ev": "callr", "a": a.rec(), "r": safeDo(l, a)})))
	}
	if total <= 1000 {
		w.Emit(fin(tr.E{"ev": "final", "obs": l.obs()}))
	}
	a := act{Op: "clear"}
	w.Emit(fin(pev(tr.E{"ev": "callr", "a": a.rec(), "r": safeDo(l, a)})))
	getters(w, l)
	w.Emit(fin(tr.E{"ev": "final", "obs": l.obs()}))
}
