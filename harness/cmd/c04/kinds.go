// kinds: the caches take interface{} keys and Value / interface{} values.  Every comparable dynamic kind
// is a legitimate key (nil and typed nil pointers included) and every dynamic kind whatsoever a
// legitimate value (uncomparable ones included: the caches have no business comparing values).  The
// trace carries the small integer the harness stands for plus, for actions, the kind drawn.
package main

import (
	"fmt"
	"math"

	"github.com/pinealctx/neptune/cache"
)

// ---- keys ----

type ikey int

var mixObjA, mixObjB = &skey{0, ""}, &skey{0, ""} // equal contents, different keys
var mixChan = make(chan int)

// keys that look alike (zero, empty, nil of several types): all different interface{} keys
var mixKeys = []interface{}{
	nil, (*int)(nil), (*skey)(nil), int(0), int64(0), uint8(0), "", "0", false, float64(0),
	struct{}{}, [0]int{}, skey{0, ""}, mixObjA, mixObjB, [2]int{0, 0}, int32(0), uint(0), uintptr(0),
	complex128(0), [1]interface{}{nil}, struct{ X interface{} }{nil}, ikey(0), mixChan,
	struct{ X interface{} }{0}, [1]interface{}{(*int)(nil)}, float32(0), int8(0),
}

const nKeyKinds = 6 // 0 int, 1 string, 2 struct, 3 array, 4 int64, 5 look-alikes of mixed kinds

var mixIndex = func() map[interface{}]int {
	m := map[interface{}]int{}
	for i, k := range mixKeys {
		m[k] = i
	}
	if len(m) != len(mixKeys) {
		panic("harness: mixKeys are not pairwise different")
	}
	return m
}()

// mixKey: the koff-rotated look-alike table for small k, a struct key beyond it
func mixKey(k, koff int) interface{} {
	if k >= 1 && k <= len(mixKeys) {
		return mixKeys[(k-1+koff)%len(mixKeys)]
	}
	return skey{k, "mix"}
}

// unMix is the inverse of mixKey; ok = false if key is none of the look-alikes
func unMix(key interface{}, koff int) (k int, ok bool) {
	defer func() {
		if recover() != nil { // an uncomparable key came back: nobody stored that
			k, ok = -7, true
		}
	}()
	if i, in := mixIndex[key]; in {
		L := len(mixKeys)
		return ((i-koff)%L+L)%L + 1, true
	}
	if s, is := key.(skey); is && s.B == "mix" {
		return s.A, true
	}
	return 0, false
}

// ---- values ----

type svS struct{ id, size int }
type svI int64
type svStr string
type svSl []int
type svM map[int]int
type svF func() (int, int)
type svN struct{ size int }
type svArr [2]int
type svBox struct { // comparable by type, yet comparing two of them panics when x holds a slice
	x        interface{}
	id, size int
}

func (s svS) Size() int   { return s.size }
func (s svI) Size() int   { return int(int64(s) & (1<<31 - 1)) }
func (s svStr) Size() int { var id, sz int; fmt.Sscanf(string(s), "%d:%d", &id, &sz); return sz }
func (s svSl) Size() int  { return s[1] }
func (s svM) Size() int   { return s[1] }
func (s svF) Size() int   { _, sz := s(); return sz }
func (s *svN) Size() int {
	if s == nil {
		return 1
	}
	return s.size
}
func (s svArr) Size() int { return s[1] }
func (s svBox) Size() int { return s.size }

const (
	vkPtr = iota // *sv (the only kind that is stored again after growing, see act.Same)
	vkStruct
	vkInt
	vkStr
	vkSlice
	vkMap
	vkFunc
	vkArr
	vkBox
	vkTypedNil // (*svN)(nil): id idTypedNil, size 1
	vkNil      // untyped nil: tiny cache only, id idNil
	nValKinds
)

const (
	idNil      = 9001
	idTypedNil = 9002
)

// normVal fixes what a kind fixes: nil values carry no id (and the typed nil a size of its own)
func normVal(a *act, sized bool) {
	switch a.Op {
	case "set", "setx", "setnx":
	default:
		return
	}
	if a.Same || a.VK < 0 || a.VK >= nValKinds {
		a.VK = vkPtr
	}
	if a.VK == vkNil && sized {
		a.VK = vkTypedNil // a nil cache.Value has no Size(): not a value of the sized cache
	}
	switch a.VK {
	case vkNil:
		a.V = idNil
	case vkTypedNil:
		a.V = idTypedNil
		a.S = 1
	}
}

func mkVal(kind, id, size int) cache.Value {
	switch kind {
	case vkStruct:
		return svS{id, size}
	case vkInt:
		return svI(int64(id)<<31 | int64(size))
	case vkStr:
		return svStr(fmt.Sprintf("%d:%d", id, size))
	case vkSlice:
		return svSl{id, size}
	case vkMap:
		return svM{0: id, 1: size}
	case vkFunc:
		return svF(func() (int, int) { return id, size })
	case vkArr:
		return svArr{id, size}
	case vkBox:
		return svBox{[]int{id}, id, size}
	case vkTypedNil:
		return (*svN)(nil)
	}
	return &sv{id, size}
}

// idOf reads the id back from whatever the cache handed out (-1: nothing the harness ever stored)
func idOf(v interface{}) int {
	switch x := v.(type) {
	case nil:
		return idNil
	case int:
		return x
	case *sv:
		if x == nil {
			return -1
		}
		return x.id
	case svS:
		return x.id
	case svI:
		return int(int64(x) >> 31)
	case svStr:
		var id, sz int
		fmt.Sscanf(string(x), "%d:%d", &id, &sz)
		return id
	case svSl:
		if len(x) != 2 {
			return -1
		}
		return x[0]
	case svM:
		if len(x) != 2 {
			return -1
		}
		return x[0]
	case svF:
		if x == nil {
			return -1
		}
		id, _ := x()
		return id
	case svArr:
		return x[0]
	case svBox:
		return x.id
	case *svN:
		if x == nil {
			return idTypedNil
		}
	}
	return -1
}

// ---- numbers TLC cannot hold ----

// hugeCap in a trace stands for capacity MaxInt64 ("no limit"): for the sizes of such a history the ideal
// cache is the same for every capacity above their sum.  Counters read back are clamped into int32 - a
// value outside is out of range for the specification whatever it is.
const hugeCap = 1 << 30

func realCap(c int) int64 {
	if c == hugeCap {
		return math.MaxInt64
	}
	return int64(c)
}

func specNum(x int64) int {
	if x == math.MaxInt64 {
		return hugeCap
	}
	if x > math.MaxInt32 || x < math.MinInt32 {
		return -2
	}
	return int(x)
}

var bigCaps = []int{255, 256, 257, 65535, 65536, 65537, 1 << 24, 1<<30 - 2, hugeCap}
