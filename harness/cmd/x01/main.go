// x01: drives the real mess.IntCypher (number / base58 token / "Ex" token forms, all 24 byte
// orders), compress.Snappy (Compress, DeCompress, CompressWithPrefix) and the jsonx snappy envelope
// (TrySnappyCompress, JSONFastMarshalSnappy, JSONFastUnmarshalSnappy) and records one ndjson event
// per call for validation by TLC (specs/codecs/Codecs_Trace.tla).
//
// The harness contains no oracle for the code under test.  Trusted lines: the pad of a cypher
// instance is computed with crypto/aes directly (block.Encrypt(iv)[:4]); the reference outcomes of
// JSON parsing come from json-iterator called directly (a dependency, opaque to the specification);
// the payload of an envelope is offered by golang/snappy called directly and is re-derived by TLC
// from the block itself before it is believed; decoded values are rendered with encoding/json.
package main

import (
	"bufio"
	"crypto/aes"
	"encoding/binary"
	"encoding/json"
	"flag"
	"fmt"
	"math/rand"
	"os"
	"path/filepath"
	"sort"
	"strings"
	"sync"

	"github.com/btcsuite/btcutil/base58"
	"github.com/golang/snappy"
	jsoniter "github.com/json-iterator/go"

	"github.com/pinealctx/neptune/compress"
	"github.com/pinealctx/neptune/jsonx"
	"github.com/pinealctx/neptune/mess"

	"verif/harness/internal/tr"
)

var (
	w      *tr.W
	rng    *rand.Rand
	counts = map[string]int{}
)

// ------------------------------------------------------------------ small helpers

func be4(n uint32) []int {
	var b [4]byte
	binary.BigEndian.PutUint32(b[:], n)
	return tr.Ints(b[:])
}

func u32(b []byte) uint32 { return binary.BigEndian.Uint32(b) }

// guard runs f and reports a panic of the code under test as an outcome
func guard(f func()) (out string) {
	defer func() {
		if e := recover(); e != nil {
			out = "panic"
			fmt.Fprintf(os.Stderr, "note: recovered panic: %v\n", e)
		}
	}()
	f()
	return "ok"
}

func emitCall(a tr.E, out string, r []int) {
	if out == "panic" || r == nil {
		r = []int{}
	}
	counts[a["op"].(string)]++
	w.Emit(tr.E{"ev": "call", "a": a, "out": out, "r": r})
}

// ------------------------------------------------------------------ one cypher instance

type inst struct {
	ic  *mess.IntCypher
	pad [4]byte
}

func newInst() *inst {
	klen := []int{16, 24, 32}[rng.Intn(3)]
	key := make([]byte, klen)
	iv := make([]byte, 16)
	rng.Read(key)
	rng.Read(iv)
	if rng.Intn(8) == 0 { // degenerate keys are keys too
		for i := range key {
			key[i] = 0
		}
	}
	blk, err := aes.NewCipher(key)
	if err != nil {
		tr.Fatal("aes: %v", err)
	}
	var ks [16]byte
	blk.Encrypt(ks[:], iv) // first key-stream block of CTR mode
	x := &inst{}
	copy(x.pad[:], ks[:4])
	// the instance gets its own copies: whatever it does to them must not matter
	x.ic = mess.NewIntCypher(append([]byte{}, key...), append([]byte{}, iv...))
	w.Emit(tr.E{"ev": "reset", "pad": tr.Ints(x.pad[:]), "klen": klen})
	counts["reset"]++
	return x
}

func (x *inst) enc(v int, n uint32) uint32 {
	var r uint32
	out := guard(func() { r = x.ic.EncU32[v](n) })
	emitCall(tr.E{"op": "enc", "v": v, "n": be4(n)}, out, be4(r))
	return r
}

func (x *inst) dec(v int, m uint32) uint32 {
	var r uint32
	out := guard(func() { r = x.ic.DecU32[v](m) })
	emitCall(tr.E{"op": "dec", "v": v, "m": be4(m)}, out, be4(r))
	return r
}

func (x *inst) encs(v int, n uint32, ex bool) string {
	var r string
	out := guard(func() {
		if ex {
			r = x.ic.EncU32ToStrEx[v](n)
		} else {
			r = x.ic.EncU32ToStr[v](n)
		}
	})
	emitCall(tr.E{"op": "encs", "v": v, "n": be4(n), "ex": ex}, out, tr.Str(r))
	return r
}

func (x *inst) decs(v int, s string, ex bool) uint32 {
	var r uint32
	out := guard(func() {
		if ex {
			r = x.ic.DecStrToU32Ex[v](s)
		} else {
			r = x.ic.DecStrToU32[v](s)
		}
	})
	emitCall(tr.E{"op": "decs", "v": v, "s": tr.Str(s), "ex": ex}, out, be4(r))
	return r
}

// ------------------------------------------------------------------ snappy / envelope calls

func zip(b []byte) []byte {
	var r []byte
	in := append([]byte{}, b...)
	out := guard(func() { r = compress.Snappy.Compress(in) })
	emitCall(tr.E{"op": "zip", "b": tr.Ints(b)}, out, tr.Ints(r))
	return r
}

func unz(x []byte) {
	var r []byte
	var err error
	in := append([]byte{}, x...)
	out := guard(func() { r, err = compress.Snappy.DeCompress(in) })
	if out == "ok" && err != nil {
		out, r = "err", nil
	}
	emitCall(tr.E{"op": "unz", "blk": tr.Ints(x)}, out, tr.Ints(r))
}

func zipp(b, p []byte) []byte {
	var r []byte
	in, pin := append([]byte{}, b...), append([]byte{}, p...)
	out := guard(func() { r = compress.Snappy.CompressWithPrefix(in, pin) })
	emitCall(tr.E{"op": "zipp", "b": tr.Ints(b), "p": tr.Ints(p)}, out, tr.Ints(r))
	return r
}

func wrap(b []byte) []byte {
	var r []byte
	in := append([]byte{}, b...)
	out := guard(func() { r = jsonx.TrySnappyCompress(in) })
	emitCall(tr.E{"op": "wrap", "b": tr.Ints(b)}, out, tr.Ints(r))
	return r
}

// render gives the canonical text of a decoded value (sorted keys)
func render(v interface{}) []int {
	bs, err := json.Marshal(v)
	if err != nil {
		return tr.Str("!" + err.Error())
	}
	return tr.Ints(bs)
}

const untouched = "untouched"

func outcome(err error, t interface{}) tr.E {
	return tr.E{"ok": err == nil, "val": render(t)}
}

// usnap presents data to JSONFastUnmarshalSnappy and records the reference outcomes next to it
func usnap(data []byte) {
	var t interface{} = untouched
	var err error
	in := append([]byte{}, data...)
	out := guard(func() { err = jsonx.JSONFastUnmarshalSnappy(in, &t) })
	var tp interface{} = untouched
	perr := jsoniter.ConfigFastest.Unmarshal(append([]byte{}, data...), &tp)
	inner := tr.E{"has": false, "pay": []int{}, "ok": false, "val": []int{}}
	if len(data) >= 1 && data[0] == 128 {
		var pay []byte
		var derr error
		if len(data) > 1 {
			pay, derr = snappy.Decode(nil, data[1:])
		}
		if derr == nil {
			var ti interface{} = untouched
			ierr := jsoniter.ConfigFastest.Unmarshal(pay, &ti)
			inner = tr.E{"has": true, "pay": tr.Ints(pay), "ok": ierr == nil, "val": render(ti)}
		}
	}
	counts["usnap"]++
	w.Emit(tr.E{"ev": "usnap", "data": tr.Ints(data), "out": out, "pre": render(untouched),
		"res": outcome(err, t), "plain": outcome(perr, tp), "inner": inner})
}

// msnap marshals v through the envelope; plain is the text json-iterator gives for v
func msnap(v interface{}) []byte {
	plain, perr := jsoniter.ConfigFastest.Marshal(v)
	if perr != nil {
		tr.Fatal("value not marshalable: %v", perr)
	}
	var r []byte
	var err error
	out := guard(func() { r, err = jsonx.JSONFastMarshalSnappy(v) })
	if out == "ok" && err != nil {
		out, r = "err", nil
	}
	if out != "ok" {
		r = []byte{}
	}
	counts["msnap"]++
	w.Emit(tr.E{"ev": "msnap", "plain": tr.Ints(plain), "out": out, "r": tr.Ints(r)})
	return r
}

// ------------------------------------------------------------------ plans (from Codecs_Gen)

func bytesOf(v interface{}) []byte {
	arr, ok := v.([]interface{})
	if !ok {
		tr.Fatal("plan field is not a list: %v", v)
	}
	b := make([]byte, len(arr))
	for i, e := range arr {
		b[i] = byte(e.(float64))
	}
	return b
}

func runPlan(path string) {
	f, err := os.Open(path)
	if err != nil {
		tr.Fatal("plan: %v", err)
	}
	defer f.Close()
	sc := bufio.NewScanner(f)
	sc.Buffer(make([]byte, 1<<20), 1<<24)
	var x *inst
	for sc.Scan() {
		line := strings.TrimSpace(sc.Text())
		if line == "" {
			continue
		}
		var a map[string]interface{}
		if err := json.Unmarshal([]byte(line), &a); err != nil {
			tr.Fatal("plan %s: %v", path, err)
		}
		op, _ := a["op"].(string)
		if op == "init" {
			x = newInst()
			continue
		}
		if x == nil {
			tr.Fatal("plan %s does not start with init", path)
		}
		v := 0
		if f, ok := a["v"].(float64); ok {
			v = int(f)
		}
		ex, _ := a["ex"].(bool)
		switch op {
		case "enc":
			x.enc(v, u32(bytesOf(a["n"])))
		case "dec":
			x.dec(v, u32(bytesOf(a["m"])))
		case "encs":
			x.encs(v, u32(bytesOf(a["n"])), ex)
		case "decs":
			x.decs(v, string(bytesOf(a["s"])), ex)
		case "zip":
			zip(bytesOf(a["b"]))
		case "unz":
			unz(bytesOf(a["blk"]))
		case "zipp":
			zipp(bytesOf(a["b"]), bytesOf(a["p"]))
		case "wrap":
			wrap(bytesOf(a["b"]))
		case "usnap":
			usnap(bytesOf(a["data"]))
		default:
			tr.Fatal("plan %s: unknown op %q", path, op)
		}
	}
}

// ------------------------------------------------------------------ cypher histories

const b58 = "123456789ABCDEFGHJKLMNPQRSTUVWXYZabcdefghijkmnopqrstuvwxyz"

var perms = [24][4]int{} // filled by the harness's own enumeration (lexicographic), not copied from mess

func init() {
	k := 0
	for a := 0; a < 4; a++ {
		for b := 0; b < 4; b++ {
			for c := 0; c < 4; c++ {
				for d := 0; d < 4; d++ {
					if a != b && a != c && a != d && b != c && b != d && c != d {
						perms[k] = [4]int{a, b, c, d}
						k++
					}
				}
			}
		}
	}
}

// pickNum: boundary-biased 32-bit numbers; some are chosen so that the obfuscated bytes start with
// zero bytes (tokens with leading '1') - computed from the independently known pad, random otherwise
func (x *inst) pickNum(v int) uint32 {
	switch rng.Intn(10) {
	case 0:
		return []uint32{0, 1, 57, 58, 255, 256, 65535, 65536, 1 << 24, 1<<31 - 1, 1 << 31, 1<<32 - 1}[rng.Intn(12)]
	case 1, 2, 3:
		// wanted obfuscated bytes e (leading zeros, small values), n = unpermute(e) XOR pad
		var e [4]byte
		z := rng.Intn(5)
		for i := z; i < 4; i++ {
			e[i] = byte(rng.Intn(256))
		}
		if rng.Intn(3) == 0 && z < 4 {
			e[3] = byte(rng.Intn(3))
		}
		var d [4]byte
		for i := 0; i < 4; i++ {
			d[perms[v][i]] = e[i]
		}
		for i := 0; i < 4; i++ {
			d[i] ^= x.pad[i]
		}
		return u32(d[:])
	case 4:
		return uint32(rng.Intn(100000))
	}
	return rng.Uint32()
}

func randB58(n int) string {
	b := make([]byte, n)
	for i := range b {
		b[i] = b58[rng.Intn(58)]
	}
	return string(b)
}

// mutate: strings near a genuine token
func mutate(s string) string {
	b := []byte(s)
	switch rng.Intn(12) {
	case 0:
		return "1" + s
	case 1:
		if len(b) > 0 {
			return string(b[1:])
		}
	case 2:
		if len(b) > 0 {
			return string(b[:len(b)-1])
		}
	case 3:
		return s + string(b58[rng.Intn(58)])
	case 4:
		if len(b) > 0 {
			b[rng.Intn(len(b))] = b58[rng.Intn(58)]
		}
	case 5:
		if len(b) > 0 {
			const odd = "0OIl +/-_\x00\x80\xff"
			b[rng.Intn(len(b))] = odd[rng.Intn(len(odd))]
		}
	case 6:
		if len(b) >= 2 {
			b[0], b[1] = b[1], b[0]
		}
	case 7:
		if len(b) >= 2 {
			i := rng.Intn(len(b) - 1)
			b[i], b[i+1] = b[i+1], b[i]
		}
	case 8:
		return s + s
	case 9:
		return " " + s
	case 10:
		return strings.ToLower(s)
	case 11:
		return s + "\n"
	}
	return string(b)
}

// foreign tokens: numerals of byte strings that are not 4 bytes long, made with the base58 package directly
func foreign() string {
	n := []int{0, 1, 2, 3, 5, 6, 8}[rng.Intn(7)]
	b := make([]byte, n)
	rng.Read(b)
	for i := 0; i < n && rng.Intn(2) == 0; i++ {
		b[i] = 0
	}
	return base58.Encode(b)
}

func cypherTrace(calls int) {
	x := newInst()
	var toks []string
	for c := 0; c < calls; c++ {
		v := rng.Intn(24)
		ex := rng.Intn(2) == 0
		switch rng.Intn(12) {
		case 0, 1:
			m := x.enc(v, x.pickNum(v))
			if rng.Intn(2) == 0 {
				x.dec(v, m)
			}
		case 2:
			x.dec(v, x.pickNum(v))
		case 3, 4, 5:
			s := x.encs(v, x.pickNum(v), ex)
			toks = append(toks, s)
			switch rng.Intn(4) {
			case 0:
				x.decs(v, s, ex)
			case 1:
				x.decs(v, s, !ex) // the other token form
			case 2:
				x.decs(rng.Intn(24), s, ex) // another byte order
			}
		case 6, 7:
			if len(toks) > 0 {
				x.decs(v, mutate(toks[rng.Intn(len(toks))]), ex)
			} else {
				x.decs(v, randB58(1+rng.Intn(7)), ex)
			}
		case 8:
			x.decs(v, randB58(rng.Intn(9)), ex)
		case 9:
			x.decs(v, foreign(), ex)
		case 10:
			// the same question twice: the answer may not depend on what happened in between
			n := x.pickNum(v)
			x.encs(v, n, ex)
			x.enc(rng.Intn(24), rng.Uint32())
			x.encs(v, n, ex)
		case 11:
			b := make([]byte, rng.Intn(7))
			rng.Read(b)
			x.decs(v, string(b), ex)
		}
	}
}

// smallScope: every string up to length k over a small alphabet, one byte order
func smallScope(k int) {
	x := newInst()
	al := []byte{'1', '2', 'z', '0', 'A'}
	v := rng.Intn(24)
	var rec func(p []byte)
	rec = func(p []byte) {
		x.decs(v, string(p), len(p)%2 == 0)
		if len(p) == k {
			return
		}
		for _, c := range al {
			rec(append(append([]byte{}, p...), c))
		}
	}
	rec(nil)
}

// parallelTrace: the same instance used from several goroutines at once; results are logged after the join
func parallelTrace(g, per int) {
	x := newInst()
	type job struct {
		v  int
		n  uint32
		ex bool
		m  uint32
		s  string
		d  uint32
		ds uint32
		ok bool
	}
	jobs := make([][]job, g)
	for i := range jobs {
		jobs[i] = make([]job, per)
		for j := range jobs[i] {
			v := rng.Intn(24)
			jobs[i][j] = job{v: v, n: x.pickNum(v), ex: rng.Intn(2) == 0}
		}
	}
	var wg sync.WaitGroup
	for i := range jobs {
		wg.Add(1)
		go func(js []job) {
			defer wg.Done()
			defer func() { recover() }()
			for k := range js {
				j := &js[k]
				j.m = x.ic.EncU32[j.v](j.n)
				j.d = x.ic.DecU32[j.v](j.m)
				if j.ex {
					j.s = x.ic.EncU32ToStrEx[j.v](j.n)
					j.ds = x.ic.DecStrToU32Ex[j.v](j.s)
				} else {
					j.s = x.ic.EncU32ToStr[j.v](j.n)
					j.ds = x.ic.DecStrToU32[j.v](j.s)
				}
				j.ok = true
			}
		}(jobs[i])
	}
	wg.Wait()
	for _, js := range jobs {
		for _, j := range js {
			out := "ok"
			if !j.ok {
				out = "panic"
			}
			emitCall(tr.E{"op": "enc", "v": j.v, "n": be4(j.n)}, out, be4(j.m))
			emitCall(tr.E{"op": "dec", "v": j.v, "m": be4(j.m)}, out, be4(j.d))
			emitCall(tr.E{"op": "encs", "v": j.v, "n": be4(j.n), "ex": j.ex}, out, tr.Str(j.s))
			emitCall(tr.E{"op": "decs", "v": j.v, "s": tr.Str(j.s), "ex": j.ex}, out, be4(j.ds))
		}
	}
}

// ------------------------------------------------------------------ snappy histories

func randBytes(n int) []byte {
	b := make([]byte, n)
	rng.Read(b)
	return b
}

// payload: inputs of varied compressibility and boundary lengths
func payload(max int) []byte {
	lens := []int{0, 1, 2, 3, 4, 5, 11, 12, 15, 16, 17, 59, 60, 61, 63, 64, 65, 127, 128, 129, 255, 256, 257, 300, 1000}
	n := lens[rng.Intn(len(lens))]
	if rng.Intn(3) == 0 {
		n = rng.Intn(max + 1)
	}
	if n > max {
		n = max
	}
	b := make([]byte, n)
	switch rng.Intn(6) {
	case 0: // incompressible
		rng.Read(b)
	case 1: // one byte repeated
		c := byte(rng.Intn(256))
		for i := range b {
			b[i] = c
		}
	case 2: // short period
		p := 1 + rng.Intn(7)
		seed := randBytes(p)
		for i := range b {
			b[i] = seed[i%p]
		}
	case 3: // words from a small dictionary
		words := []string{"alpha", "beta", "gamma", "{\"id\":", "null,", "0000", "neptune", " "}
		s := ""
		for len(s) < n {
			s += words[rng.Intn(len(words))]
		}
		copy(b, s)
	case 4: // long period (copies with 2-byte offsets)
		p := 70 + rng.Intn(300)
		seed := randBytes(p)
		for i := range b {
			b[i] = seed[i%p]
		}
	case 5: // random with planted repeats
		rng.Read(b)
		for k := 0; k < 4 && n > 16; k++ {
			i, j, l := rng.Intn(n), rng.Intn(n), 4+rng.Intn(20)
			for t := 0; t < l && i+t < n && j+t < n; t++ {
				b[j+t] = b[i+t]
			}
		}
	}
	return b
}

func uvarint(n uint64) []byte {
	var b [10]byte
	return append([]byte{}, b[:binary.PutUvarint(b[:], n)]...)
}

// craft: hand-made blocks element by element (valid and invalid alike); the harness does not know
// or say which they are
func craft() []byte {
	var body []byte
	produced := 0
	for e := rng.Intn(6); e > 0; e-- {
		switch rng.Intn(8) {
		case 0, 1: // short literal
			l := 1 + rng.Intn(8)
			body = append(body, byte((l-1)<<2))
			body = append(body, randBytes(l)...)
			produced += l
		case 2: // literal with 1..4 length bytes
			l := 1 + rng.Intn(70)
			nb := 1 + rng.Intn(4)
			body = append(body, byte((59+nb)<<2))
			var lb [4]byte
			binary.LittleEndian.PutUint32(lb[:], uint32(l-1))
			body = append(body, lb[:nb]...)
			body = append(body, randBytes(l)...)
			produced += l
		case 3: // copy, 11-bit offset
			l := 4 + rng.Intn(8)
			off := rng.Intn(produced + 2)
			if rng.Intn(4) == 0 {
				off = rng.Intn(2048)
			}
			body = append(body, byte(1|(l-4)<<2|(off>>8)<<5), byte(off))
			produced += l
		case 4: // copy, 16-bit offset
			l := 1 + rng.Intn(64)
			off := rng.Intn(produced + 2)
			body = append(body, byte(2|(l-1)<<2), byte(off), byte(off>>8))
			produced += l
		case 5: // copy, 32-bit offset
			l := 1 + rng.Intn(64)
			off := uint32(rng.Intn(produced + 2))
			if rng.Intn(4) == 0 {
				off |= uint32(rng.Intn(256)) << 24
			}
			var ob [4]byte
			binary.LittleEndian.PutUint32(ob[:], off)
			body = append(body, byte(3|(l-1)<<2))
			body = append(body, ob[:]...)
			produced += l
		case 6: // overlapping run
			body = append(body, 0, byte(rng.Intn(256)))
			l := 4 + rng.Intn(8)
			body = append(body, byte(1|(l-4)<<2), 1)
			produced += 1 + l
		case 7: // truncated element
			body = append(body, byte(rng.Intn(256)))
			produced += rng.Intn(3)
		}
	}
	n := uint64(produced)
	switch rng.Intn(8) {
	case 0:
		n = uint64(rng.Intn(produced + 3))
	case 1:
		n++
	}
	pre := uvarint(n)
	switch k := rng.Intn(40); {
	case k < 4: // non-minimal varint
		pre[len(pre)-1] |= 0x80
		for k := rng.Intn(3); k > 0; k-- {
			pre = append(pre, 0x80)
		}
		pre = append(pre, 0)
	case k == 4: // more than the block can hold (the decoder may allocate this much: kept rare)
		pre = uvarint(uint64(1)<<28 + uint64(rng.Intn(1<<20)))
	case k < 8: // beyond 32 bits
		pre = uvarint(uint64(1)<<32 + n)
	}
	return append(pre, body...)
}

func damage(x []byte) []byte {
	b := append([]byte{}, x...)
	switch rng.Intn(7) {
	case 0:
		if len(b) > 0 {
			b[rng.Intn(len(b))] ^= byte(1 << uint(rng.Intn(8)))
		}
	case 1:
		if len(b) > 0 {
			b = b[:rng.Intn(len(b))]
		}
	case 2:
		b = append(b, randBytes(1+rng.Intn(3))...)
	case 3:
		if len(b) > 0 {
			b[0]++
		}
	case 4:
		if len(b) > 0 {
			b[0]--
		}
	case 5:
		if len(b) > 2 {
			i := 1 + rng.Intn(len(b)-1)
			b[i] = byte(rng.Intn(256))
		}
	case 6:
		if len(b) > 1 {
			b = b[1:]
		}
	}
	return b
}

func snappyTrace(calls, max int) {
	newInst()
	var blocks [][]byte
	for c := 0; c < calls; c++ {
		switch rng.Intn(10) {
		case 0, 1, 2:
			r := zip(payload(max))
			blocks = append(blocks, r)
			if rng.Intn(2) == 0 {
				unz(r)
			}
		case 3:
			p := [][]byte{{}, {128}, {1, 2, 3}, randBytes(1 + rng.Intn(12))}[rng.Intn(4)]
			r := zipp(payload(max), p)
			if len(r) >= len(p) && rng.Intn(2) == 0 {
				unz(r[len(p):])
			}
		case 4, 5:
			if len(blocks) > 0 {
				unz(damage(blocks[rng.Intn(len(blocks))]))
			} else {
				unz(craft())
			}
		case 6, 7, 8:
			unz(craft())
		case 9:
			b := randBytes(rng.Intn(12))
			if len(b) > 3 {
				b[3] &= 0x7f // announced length below 2^28: the decoder allocates what is announced
			}
			unz(b)
		}
	}
}

// bigTrace: inputs longer than one 64 KiB compressor block (compressible, so that the block stays short)
func bigTrace(n int) {
	newInst()
	for i := 0; i < n; i++ {
		size := 65536 - 40 + rng.Intn(5000)
		b := make([]byte, size)
		p := 40 + rng.Intn(400)
		seed := randBytes(p)
		for k := range b {
			b[k] = seed[k%p]
		}
		for k := 0; k < 20; k++ {
			b[rng.Intn(size)] = byte(rng.Intn(256))
		}
		r := zip(b)
		unz(r)
	}
}

// ------------------------------------------------------------------ jsonx envelope histories

type rec struct {
	ID    int64    `json:"id"`
	Name  string   `json:"name"`
	Tags  []string `json:"tags"`
	Score float64  `json:"score"`
	Inner *rec     `json:"inner,omitempty"`
}

func randText(n int, compressible bool) string {
	b := make([]byte, n)
	const al = "abcdefghijklmnopqrstuvwxyzABCDEFGHIJKLMNOPQRSTUVWXYZ0123456789 _-"
	for i := range b {
		if compressible {
			b[i] = "ab "[(i/3+i)%3]
		} else {
			b[i] = al[rng.Intn(len(al))]
		}
	}
	return string(b)
}

// value: marshalable values whose fast-JSON text is deterministic (no multi-key maps: the fast
// configuration does not sort keys), with text lengths around the 256-byte threshold and beyond
func value() interface{} {
	lens := []int{0, 1, 10, 200, 250, 253, 254, 255, 256, 257, 258, 300, 600, 1500}
	n := lens[rng.Intn(len(lens))]
	switch rng.Intn(9) {
	case 0:
		return randText(n, false)
	case 1:
		return randText(n, true)
	case 2:
		a := make([]int, n/4)
		for i := range a {
			a[i] = rng.Intn(1000)
		}
		return a
	case 3:
		a := make([]int, n/2)
		return a
	case 4:
		return map[string]interface{}{"k": randText(n, rng.Intn(2) == 0)}
	case 5:
		r := &rec{ID: rng.Int63(), Name: randText(n/2, false), Tags: []string{"x", "y", randText(n/3, true)}, Score: float64(rng.Intn(1000)) / 8}
		if rng.Intn(2) == 0 {
			r.Inner = &rec{ID: 7, Name: randText(n/4, true), Tags: []string{}}
		}
		return r
	case 6:
		a := make([]*rec, 0)
		for i := 0; i < n/60; i++ {
			a = append(a, &rec{ID: int64(i), Name: "row", Tags: []string{"t"}})
		}
		return a
	case 7:
		return []interface{}{true, false, "é \"\\", 1.5, -3, randText(n, false)}
	}
	return []string{randText(n/2, true), randText(n/2, false)}
}

func jsonTrace(calls int) {
	newInst()
	var envs [][]byte
	for c := 0; c < calls; c++ {
		switch rng.Intn(10) {
		case 0, 1, 2, 3:
			r := msnap(value())
			envs = append(envs, r)
			if rng.Intn(2) == 0 {
				usnap(r)
			}
		case 4:
			plain, _ := jsoniter.ConfigFastest.Marshal(value())
			r := wrap(plain)
			if rng.Intn(2) == 0 {
				usnap(r)
			}
		case 5: // texts that are not JSON, never starting with the marker byte
			b := payload(700)
			if len(b) > 0 && b[0] == 128 {
				b[0] = 127
			}
			wrap(b)
		case 6: // plain JSON (and near-JSON) straight into the decoder
			plain, _ := jsoniter.ConfigFastest.Marshal(value())
			if rng.Intn(3) == 0 {
				plain = damage(plain)
			}
			usnap(plain)
		case 7, 8: // envelopes with another first byte, damaged blocks, foreign blocks
			var d []byte
			if len(envs) > 0 {
				d = append([]byte{}, envs[rng.Intn(len(envs))]...)
			}
			switch rng.Intn(6) {
			case 0:
				if len(d) > 0 {
					d[0] = []byte{127, 129, 255, 0, '{', 128}[rng.Intn(6)]
				}
			case 1:
				if len(d) > 1 {
					d = append(d[:1], damage(d[1:])...)
				}
			case 2:
				j, _ := jsoniter.ConfigFastest.Marshal(value())
				d = append([]byte{byte([]int{128, 128, 129, 127}[rng.Intn(4)])}, snappy.Encode(nil, j)...)
			case 3:
				d = append([]byte{128}, craft()...)
			case 4:
				j, _ := jsoniter.ConfigFastest.Marshal(value())
				d = append([]byte{128}, j...) // marker in front of an uncompressed text
			case 5:
				d = [][]byte{{}, {128}, {128, 0}, {128, 2, 4, '{', '}'}, {128, 2, 4, '[', ']'}, {' '}, {128, 128}}[rng.Intn(7)]
			}
			usnap(d)
		case 9:
			b := randBytes(rng.Intn(10))
			if len(b) > 4 {
				b[4] &= 0x7f
			}
			usnap(b)
		}
	}
}

// ------------------------------------------------------------------ main

func main() {
	plans := flag.String("plans", "", "directory of ndjson plans from Codecs_Gen")
	out := flag.String("out", "x01.ndjson", "trace file")
	seed := flag.Int64("seed", 1, "seed")
	ncy := flag.Int("ncy", 100, "cypher traces")
	cycalls := flag.Int("cycalls", 40, "calls per cypher trace")
	nsn := flag.Int("nsn", 20, "snappy traces")
	sncalls := flag.Int("sncalls", 40, "calls per snappy trace")
	snmax := flag.Int("snmax", 1500, "largest snappy input")
	njs := flag.Int("njs", 15, "jsonx traces")
	jscalls := flag.Int("jscalls", 30, "calls per jsonx trace")
	npar := flag.Int("npar", 4, "parallel-use traces")
	scope := flag.Int("scope", 4, "small-scope token length")
	nbig := flag.Int("nbig", 0, "snappy inputs beyond 64 KiB")
	flag.Parse()
	rng = rand.New(rand.NewSource(*seed))
	w = tr.Create(*out)
	nplans := 0
	if *plans != "" {
		files, _ := filepath.Glob(filepath.Join(*plans, "*.ndjson"))
		sort.Strings(files)
		for _, f := range files {
			runPlan(f)
			nplans++
		}
	}
	for i := 0; i < *ncy; i++ {
		cypherTrace(*cycalls)
	}
	smallScope(*scope)
	for i := 0; i < *npar; i++ {
		parallelTrace(4, 6)
	}
	for i := 0; i < *nsn; i++ {
		snappyTrace(*sncalls, *snmax)
	}
	if *nbig > 0 {
		bigTrace(*nbig)
	}
	for i := 0; i < *njs; i++ {
		jsonTrace(*jscalls)
	}
	w.Close()
	keys := make([]string, 0, len(counts))
	for k := range counts {
		keys = append(keys, k)
	}
	sort.Strings(keys)
	parts := []string{fmt.Sprintf("plans=%d", nplans)}
	for _, k := range keys {
		parts = append(parts, fmt.Sprintf("%s=%d", k, counts[k]))
	}
	fmt.Println("x01: " + strings.Join(parts, " "))
}
