// c01: executes semaphore-map schedules step by step on real goroutines (global quiescence after
// each step, see internal/qx) and records status vectors plus the container projection for
// validation by TLC (specs/semap/Semap_Trace.tla).
package main

import (
	"bufio"
	"context"
	"encoding/json"
	"flag"
	"fmt"
	"math"
	"math/rand"
	"os"
	"path/filepath"
	"runtime"
	"sort"
	"sync"
	"sync/atomic"
	"time"

	"github.com/pinealctx/neptune/syncx/semap"

	"verif/harness/internal/qx"
	"verif/harness/internal/tr"
)

type act struct {
	Op    string `json:"op"`
	P     int    `json:"p"`
	K     int    `json:"k"`
	M     string `json:"m"`
	Ratio int    `json:"ratio"`
	As    []act  `json:"as"` // op "batch": critical sections queued on the held map mutex
	N     int    `json:"n"`  // op "run": acquire/release cycles
}

func (a act) rec() tr.E {
	switch a.Op {
	case "acq", "acqc":
		return tr.E{"op": a.Op, "p": a.P, "k": a.K, "m": a.M}
	case "run": // n cycles of this acquire and its release
		return tr.E{"op": "acq", "p": a.P, "k": a.K, "m": a.M}
	}
	return tr.E{"op": a.Op, "p": a.P}
}

// gate: rendez-vous installed in semap.VerifGate
var (
	gateArmed   int32
	gateArrived int32
	gateCh      = make(chan chan struct{}, 64)
)

func gate(point string) {
	if atomic.LoadInt32(&gateArmed) == 0 {
		return
	}
	c := make(chan struct{})
	atomic.AddInt32(&gateArrived, 1)
	gateCh <- c
	<-c
}

type proc struct {
	status string // idle | hold | parked | gate
	k      int
	m      string
	w      *semap.Weighted
	cancel context.CancelFunc
	rel    chan struct{} // gate release channel when status == gate
}

type world struct {
	m         semap.SemMapper
	x         *qx.Exec
	ps        []*proc
	nkeys     int
	keyStr    bool
	keyMix    bool
	keyOdd    bool // keys of unusual dynamic kinds (kinds.go)
	variant   string
	koff      int
	dead      bool // a run did not come back: nothing more is issued in this world
	ratio     int  // as the trace carries it (hugeSpec for "no limit")
	barrier   *barrier
	lastRunOK int
	stalled   string // a batch item that parked outside the map mutex for good
}

func (wd *world) key(k int) interface{} {
	if wd.keyOdd {
		return oddKey(wd.variant, k, wd.koff)
	}
	if wd.keyMix {
		// equal numbers in different integer types (and a string) are different interface{} keys
		switch k % 6 {
		case 0:
			return int(7)
		case 1:
			return int64(7)
		case 2:
			return uint32(7)
		case 3:
			return "7"
		case 4:
			return int64(-1)
		default:
			return uint64(1<<64 - 1)
		}
	}
	if wd.keyStr {
		return fmt.Sprintf("k%d", k)
	}
	return k
}

var mixCounter int
var stalls int // batches in which an item parked outside the map mutex for good

type reply struct {
	w   *semap.Weighted
	err error
}

// poll collects replies and gate arrivals after quiescence.
func (wd *world) poll(cancelled int) {
	for i, p := range wd.ps {
		if r, ok := wd.x.Take(i + 1); ok {
			if rp, isr := r.(reply); isr {
				if rp.err == nil && rp.w != nil {
					p.status, p.w = "hold", rp.w
				} else if rp.err != nil && rp.w == nil {
					p.status, p.w = "idle", nil
				} else {
					p.status = fmt.Sprintf("bad-reply(w=%v,err=%v)", rp.w != nil, rp.err)
				}
			} else { // release returned
				p.status, p.w = "idle", nil
			}
		}
	}
	for {
		select {
		case c := <-gateCh:
			if cancelled == 0 {
				tr.Fatal("gate arrival without a cancelled process")
			}
			p := wd.ps[cancelled-1]
			p.status, p.rel = "gate", c
			continue
		default:
		}
		break
	}
}

func (wd *world) applicable(a act) bool {
	if wd.dead {
		return false
	}
	if a.Op == "batch" || a.Op == "race" {
		return len(a.As) >= 2 && stalls < 3 // (every stall costs the full wait: three say it all)
	}
	if a.P < 1 || a.P > len(wd.ps) {
		return false
	}
	p := wd.ps[a.P-1]
	switch a.Op {
	case "run":
		// cycles of acquire/release that the ideal semaphore grants at once, by what the harness itself
		// has issued and seen come back: nobody else on the key, or only readers holding it and room
		if p.status != "idle" || a.N < 1 || a.K < 1 || a.K > wd.nkeys {
			return false
		}
		readers := 0
		for _, q := range wd.ps {
			if q.status == "idle" || q.k != a.K {
				continue
			}
			if q.status != "hold" || q.m != "r" || a.M != "r" {
				return false
			}
			readers++
		}
		return readers == 0 || readers < wd.ratio
	case "acq", "acqc":
		return p.status == "idle"
	case "rel":
		return p.status == "hold"
	case "cancel", "cwake":
		return p.status == "parked"
	case "cresolve":
		return p.status == "gate"
	}
	return false
}

// issue starts one external action without waiting for it; it returns the process whose
// cancellation is armed at the gate (0 if none).
func (wd *world) issue(a act) int {
	p := wd.ps[a.P-1]
	cancelled := 0
	switch a.Op {
	case "acq", "acqc":
		ctx, cancel := newCtx(a.Op == "acqc")
		p.cancel, p.k, p.m = cancel, a.K, a.M
		if a.Op == "acqc" {
			atomic.StoreInt32(&gateArmed, 0)
		}
		key := wd.key(a.K)
		mode := a.M
		m := wd.m
		p.status = "parked"
		bar := wd.barrier
		wd.x.Issue(a.P, func() interface{} {
			bar.wait()
			var w *semap.Weighted
			var err error
			if mode == "w" {
				w, err = m.AcquireWrite(ctx, key)
			} else {
				w, err = m.AcquireRead(ctx, key)
			}
			return reply{w, err}
		})
	case "rel":
		key, w, mode, m := wd.key(p.k), p.w, p.m, wd.m
		bar := wd.barrier
		wd.x.Issue(a.P, func() interface{} {
			bar.wait()
			if mode == "w" {
				m.ReleaseWrite(key, w)
			} else {
				m.ReleaseRead(key, w)
			}
			return 0
		})
	case "cancel":
		atomic.StoreInt32(&gateArmed, 0)
		p.cancel()
	case "cwake":
		atomic.StoreInt32(&gateArmed, 1)
		cancelled = a.P
		p.cancel()
	case "cresolve":
		close(p.rel)
		p.rel = nil
		p.status = "parked" // until its reply shows up
	}
	return cancelled
}

func (wd *world) step(a act) {
	switch a.Op {
	case "batch":
		wd.batch(a)
		return
	case "race":
		wd.race(a)
		return
	case "run":
		wd.run(a)
		return
	}
	cancelled := wd.issue(a)
	if err := wd.x.Settle(); err != nil {
		tr.Fatal("%v", err)
	}
	wd.poll(cancelled)
	if a.Op == "cwake" {
		atomic.StoreInt32(&gateArmed, 0)
	}
}

// batch: the harness holds the map mutex, lets the batch's calls queue on it one after the other
// (each is seen parked in sync.Mutex.Lock before the next is issued), waits long enough for the
// mutex to hand over in arrival order, and releases: the calls' critical sections - and whatever
// further critical sections they need - run back to back with nothing in between.  The trace spec
// accepts any order of the batch's critical sections, so no assumption about the hand-over order
// is part of the verdict.
func (wd *world) batch(a act) {
	unlock := semap.VerifHoldMutex(wd.m, wd.key(a.K))
	for _, it := range a.As {
		wd.issue(it)
		deadline := time.Now().Add(10 * time.Second)
		for wd.x.WaitState(it.P) != "sync.Mutex.Lock" {
			if time.Now().After(deadline) {
				st := wd.x.WaitState(it.P)
				unlock()
				if st == "running" || st == "runnable" || st == "" {
					tr.Fatal("batch item %v never reached the map mutex (state %q)", it, st)
				}
				// parked somewhere else for good (a cancelled waiter that does not leave its wait, a call
				// that blocks before its critical section): what the code under test did, not a fault of
				// the harness - an event of a kind the specification does not know, and nothing more here
				wd.stalled, wd.dead = fmt.Sprintf("%s p%d: %s", it.Op, it.P, st), true
				stalls++
				return
			}
			runtime.Gosched()
		}
	}
	time.Sleep(3 * time.Millisecond)
	// Hand-over in arrival order needs sync.Mutex's starvation mode, which a waiter only enters when
	// it wakes after > 1 ms and finds the mutex locked again: unlock, re-lock at once (barging ahead of
	// the woken waiter), unlock.  From then on ownership is handed to the queued calls one by one and
	// later Lock calls (a second critical section of the same call) queue at the tail.  If the
	// re-lock loses the race the order is merely different - the trace spec accepts any order.
	unlock()
	again := semap.VerifHoldMutex(wd.m, wd.key(a.K))
	time.Sleep(1500 * time.Microsecond) // the woken waiter finds the mutex locked and switches it to starvation mode
	again()
	if err := wd.x.Settle(); err != nil {
		tr.Fatal("%v", err)
	}
	wd.poll(0)
}

func (wd *world) obs(a act) tr.E {
	st := make([]string, len(wd.ps))
	for i, p := range wd.ps {
		st[i] = p.status
	}
	keys := make([]tr.E, wd.nkeys)
	for k := 1; k <= wd.nkeys; k++ {
		present, cur, waiters := semap.VerifKeyState(wd.m, wd.key(k))
		keys[k-1] = tr.E{"present": present, "cur": specCur(curRatio, cur), "waiters": waiters}
	}
	if wd.stalled != "" {
		return tr.E{"ev": "stall", "what": wd.stalled, "st": st}
	}
	if a.Op == "run" {
		return tr.E{"ev": "run", "a": a.rec(), "n": a.N, "ok": wd.lastRunOK, "st": st, "keys": keys, "entries": semap.VerifEntries(wd.m)}
	}
	if a.Op == "batch" || a.Op == "race" {
		as := make([]tr.E, 0, len(a.As))
		for _, it := range a.As {
			as = append(as, it.rec())
		}
		return tr.E{"ev": "batch", "as": as, "st": st, "keys": keys, "entries": semap.VerifEntries(wd.m)}
	}
	return tr.E{"ev": "step", "a": a.rec(), "st": st, "keys": keys, "entries": semap.VerifEntries(wd.m)}
}

// resolveBatch keeps the items of a batch that are applicable now: all on the batch's key (hence on
// one mutex), at most one per process; acquire for an idle process, release by a holder of that key,
// cancellation of a process parked on that key.
func (wd *world) resolveBatch(a act) act {
	var out []act
	seen := map[int]bool{}
	for _, it := range a.As {
		if it.P < 1 || it.P > len(wd.ps) || seen[it.P] {
			continue
		}
		p := wd.ps[it.P-1]
		switch it.Op {
		case "acq":
			if p.status == "idle" {
				it.K = a.K
				out = append(out, it)
				seen[it.P] = true
			}
		case "rel":
			if p.status == "hold" && p.k == a.K {
				out = append(out, it)
				seen[it.P] = true
			}
		case "cancel":
			if p.status == "parked" && p.k == a.K {
				out = append(out, it)
				seen[it.P] = true
			}
		}
	}
	a.As = out
	return a
}

// Ratios near the top of the integer range ("any number of readers, one writer") do not fit TLC's
// integers.  For the handful of workers of a run the ideal semaphore behaves the same for every ratio
// above their number, so the trace carries hugeSpec (resp. hugeSpec-1) where the real container is
// built with math.MaxInt (resp. MaxInt-1), and token counts read back from it are moved by the same
// offset; a count that wrapped around stays out of range for the specification.
const hugeSpec = 1 << 30

func realRatio(r int) int {
	if r >= hugeSpec-1 {
		return math.MaxInt - (hugeSpec - r)
	}
	return r
}

func specCur(realR, cur int) int {
	if realR >= math.MaxInt-1 {
		if cur > math.MaxInt/2 {
			return cur - (math.MaxInt - hugeSpec)
		}
		if cur < -(1 << 30) {
			return -(1 << 30) // wrapped around: clamp to what the trace writer can carry
		}
	}
	return cur
}

var curRatio int // real ratio of the container made last (one container at a time)

func newMap(variant string, ratio, shards int) semap.SemMapper {
	ratio = realRatio(ratio)
	curRatio = ratio
	// one container at a time: from here on every map (shard) built belongs to the container made now
	semap.VerifReset()
	switch variant {
	case "wide":
		return semap.NewWideSemMap(semap.WithRwRatio(ratio), semap.WithPrime(uint64(shards)))
	case "widex":
		return semap.NewWideXHashSemMap(semap.WithRwRatio(ratio), semap.WithPrime(uint64(shards)))
	}
	return semap.NewSemMap(semap.WithRwRatio(ratio))
}

func newWorld(variant string, ratio, shards, nprocs, nkeys int, keyStr bool) *world {
	wd := &world{m: newMap(variant, ratio, shards), x: qx.New(nprocs), nkeys: nkeys, keyStr: keyStr, variant: variant, ratio: ratio}
	mixCounter++
	wd.keyMix = mixCounter%5 == 0
	wd.keyOdd = mixCounter%5 == 2
	wd.koff = mixCounter / 5
	for i := 0; i < nprocs; i++ {
		wd.ps = append(wd.ps, &proc{status: "idle"})
	}
	return wd
}

// drain releases everything at the end of a plan so that goroutines do not pile up and so that
// the final "no residue" observation is part of every trace.
func (wd *world) drain(w *tr.W) {
	if wd.dead {
		return // a worker is parked inside a run: the event said so; its goroutines are left behind
	}
	for round := 0; round < 4*len(wd.ps)+4; round++ {
		var a *act
		for i, p := range wd.ps {
			switch p.status {
			case "gate":
				a = &act{Op: "cresolve", P: i + 1}
			case "hold":
				a = &act{Op: "rel", P: i + 1}
			}
			if a != nil {
				break
			}
		}
		if a == nil {
			for i, p := range wd.ps {
				if p.status == "parked" {
					a = &act{Op: "cancel", P: i + 1}
					break
				}
			}
		}
		if a == nil {
			break
		}
		wd.step(*a)
		w.Emit(wd.obs(*a))
	}
	wd.x.Stop()
}

func runPlan(w *tr.W, src, variant string, ratio, shards, nprocs, nkeys int, keyStr bool, plan []act) {
	wd := newWorld(variant, ratio, shards, nprocs, nkeys, keyStr)
	w.Emit(tr.E{"ev": "reset", "ratio": ratio, "variant": variant, "shards": shards, "src": src, "keystr": keyStr, "keymix": wd.keyMix, "keyodd": wd.keyOdd})
	for _, a := range plan {
		if a.Op == "batch" || a.Op == "race" {
			a = wd.resolveBatch(a)
		}
		if !wd.applicable(a) {
			continue // the verdict is about what is recorded; skipping only loses coverage
		}
		wd.step(a)
		w.Emit(wd.obs(a))
	}
	wd.drain(w)
}

// batchEnum: systematic exploration of critical-section orders.  From a handful of base situations
// (holders and waiters on one key) every ordered sequence of 2..3 distinct applicable critical
// sections - release by a holder, cancellation of a waiter, acquire by a fresh process - is queued on
// the held map mutex in that order and run back to back.
func batchEnum(w *tr.W, rng *rand.Rand, variant string, shards int, keyStr bool, sample int) int {
	type base struct {
		ratio int
		pre   []act
		items []act
	}
	bases := []base{
		{2, []act{{Op: "acq", P: 1, K: 1, M: "w"}, {Op: "acq", P: 2, K: 1, M: "r"}},
			[]act{{Op: "rel", P: 1}, {Op: "cancel", P: 2}, {Op: "acq", P: 5, K: 1, M: "r"}, {Op: "acq", P: 6, K: 1, M: "w"}}},
		{2, []act{{Op: "acq", P: 1, K: 1, M: "r"}, {Op: "acq", P: 2, K: 1, M: "w"}},
			[]act{{Op: "rel", P: 1}, {Op: "cancel", P: 2}, {Op: "acq", P: 5, K: 1, M: "r"}, {Op: "acq", P: 6, K: 1, M: "w"}}},
		{2, []act{{Op: "acq", P: 1, K: 1, M: "r"}, {Op: "acq", P: 2, K: 1, M: "r"}, {Op: "acq", P: 3, K: 1, M: "w"}, {Op: "acq", P: 4, K: 1, M: "r"}},
			[]act{{Op: "rel", P: 1}, {Op: "rel", P: 2}, {Op: "cancel", P: 3}, {Op: "cancel", P: 4}, {Op: "acq", P: 5, K: 1, M: "r"}}},
		{1, []act{{Op: "acq", P: 1, K: 1, M: "w"}, {Op: "acq", P: 2, K: 1, M: "w"}, {Op: "acq", P: 3, K: 1, M: "r"}},
			[]act{{Op: "rel", P: 1}, {Op: "cancel", P: 2}, {Op: "cancel", P: 3}, {Op: "acq", P: 5, K: 1, M: "w"}}},
		{3, []act{{Op: "acq", P: 1, K: 1, M: "r"}, {Op: "acq", P: 2, K: 1, M: "w"}, {Op: "acq", P: 3, K: 1, M: "w"}},
			[]act{{Op: "rel", P: 1}, {Op: "cancel", P: 2}, {Op: "cancel", P: 3}, {Op: "acq", P: 5, K: 1, M: "r"}, {Op: "acq", P: 6, K: 1, M: "w"}}},
	}
	var all [][3]int // (base, encoded sequence as indices) - enumerate ordered pairs and triples
	type job struct {
		b   int
		seq []int
	}
	var jobs []job
	for bi, b := range bases {
		n := len(b.items)
		for i := 0; i < n; i++ {
			for j := 0; j < n; j++ {
				if j == i {
					continue
				}
				jobs = append(jobs, job{bi, []int{i, j}})
				for k := 0; k < n; k++ {
					if k != i && k != j {
						jobs = append(jobs, job{bi, []int{i, j, k}})
					}
				}
			}
		}
	}
	_ = all
	rng.Shuffle(len(jobs), func(i, j int) { jobs[i], jobs[j] = jobs[j], jobs[i] })
	if sample > 0 && len(jobs) > sample {
		jobs = jobs[:sample]
	}
	for _, jb := range jobs {
		b := bases[jb.b]
		plan := append([]act{}, b.pre...)
		bt := act{Op: "batch", K: 1}
		for _, ix := range jb.seq {
			bt.As = append(bt.As, b.items[ix])
		}
		plan = append(plan, bt, act{Op: "acq", P: 6, K: 1, M: "w"}, act{Op: "acq", P: 5, K: 1, M: "r"})
		runPlan(w, "batch-enum", variant, b.ratio, shards, 6, 1, keyStr, plan)
	}
	return len(jobs)
}

func randPlan(rng *rand.Rand, nprocs, nkeys, n int) []act {
	// random walk over applicable steps, tracked with a shadow of the *expected* statuses is not
	// needed: inapplicable steps are skipped by the executor, so just draw generously.
	var out []act
	for i := 0; i < n; i++ {
		p := rng.Intn(nprocs) + 1
		if rng.Intn(6) == 0 {
			b := act{Op: []string{"batch", "race"}[rng.Intn(2)], K: rng.Intn(nkeys) + 1}
			for j := 0; j < 2+rng.Intn(3); j++ {
				m := "r"
				if rng.Intn(3) == 0 {
					m = "w"
				}
				b.As = append(b.As, act{Op: []string{"acq", "rel", "cancel", "rel", "cancel"}[rng.Intn(5)], P: rng.Intn(nprocs) + 1, M: m})
			}
			out = append(out, b)
			continue
		}
		if rng.Intn(40) == 0 {
			m := "r"
			if rng.Intn(3) == 0 {
				m = "w"
			}
			out = append(out, act{Op: "run", P: p, K: rng.Intn(nkeys) + 1, M: m, N: []int{2, 255, 256, 257, 65536, 1000}[rng.Intn(6)]})
			continue
		}
		switch x := rng.Intn(100); {
		case x < 40:
			m := "r"
			if rng.Intn(3) == 0 {
				m = "w"
			}
			op := "acq"
			if rng.Intn(12) == 0 {
				op = "acqc"
			}
			out = append(out, act{Op: op, P: p, K: rng.Intn(nkeys) + 1, M: m})
		case x < 75:
			out = append(out, act{Op: "rel", P: p})
		case x < 83:
			out = append(out, act{Op: "cancel", P: p})
		case x < 91:
			out = append(out, act{Op: "cwake", P: p})
		default:
			out = append(out, act{Op: "cresolve", P: p})
		}
	}
	return out
}

func readPlan(path string) []act {
	f, err := os.Open(path)
	if err != nil {
		tr.Fatal("%v", err)
	}
	defer f.Close()
	var out []act
	sc := bufio.NewScanner(f)
	for sc.Scan() {
		var a act
		if err := json.Unmarshal(sc.Bytes(), &a); err != nil {
			tr.Fatal("plan %s: %v", path, err)
		}
		out = append(out, a)
	}
	return out
}

// stress: free-running goroutines with monitor events; Exclusion is judged by the trace spec on
// the logged hold intervals (which lie inside the real ones).
func runStress(w *tr.W, rng *rand.Rand, variant string, ratio, shards, nthreads, nkeys, opsPer int) {
	m := newMap(variant, ratio, shards)
	var mu sync.Mutex
	var evs []tr.E
	logf := func(e tr.E) {
		mu.Lock()
		evs = append(evs, e)
		mu.Unlock()
	}
	var wg sync.WaitGroup
	seeds := make([]int64, nthreads)
	for i := range seeds {
		seeds[i] = rng.Int63()
	}
	var finished int32
	for t := 0; t < nthreads; t++ {
		wg.Add(1)
		go func(t int) {
			defer wg.Done()
			defer atomic.AddInt32(&finished, 1)
			r := rand.New(rand.NewSource(seeds[t]))
			for i := 0; i < opsPer; i++ {
				k := r.Intn(nkeys) + 1
				mode := "r"
				if r.Intn(3) == 0 {
					mode = "w"
				}
				ctx, cancel := context.WithCancel(context.Background())
				if r.Intn(3) == 0 {
					spin := r.Intn(400)
					go func() {
						for j := 0; j < spin; j++ {
							runtime.Gosched()
						}
						cancel()
					}()
				}
				var sw *semap.Weighted
				var err error
				if mode == "w" {
					sw, err = m.AcquireWrite(ctx, k)
				} else {
					sw, err = m.AcquireRead(ctx, k)
				}
				if err == nil {
					logf(tr.E{"ev": "mon", "kind": "in", "p": t + 1, "k": k, "m": mode})
					for j := 0; j < r.Intn(200); j++ {
						_ = j
					}
					logf(tr.E{"ev": "mon", "kind": "out", "p": t + 1, "k": k, "m": mode})
					if mode == "w" {
						m.ReleaseWrite(k, sw)
					} else {
						m.ReleaseRead(k, sw)
					}
				}
				cancel()
			}
		}(t)
	}
	stuck := waitOr(&wg, 120*time.Second, nthreads, &finished)
	mu.Lock()
	snap := append([]tr.E(nil), evs...)
	mu.Unlock()
	w.Emit(tr.E{"ev": "reset", "ratio": ratio, "variant": variant, "shards": shards, "src": "stress", "keystr": false})
	for _, e := range snap {
		w.Emit(e)
	}
	w.Emit(tr.E{"ev": "end", "entries": semap.VerifEntries(m), "stuck": stuck})
}

// waitOr waits for the goroutines of a free-running round; if they are not done within d the round is
// reported with the number of goroutines that never came back (an observation for the trace spec:
// every call of such a round must return, nobody is left to wait for), and they are left behind.
func waitOr(wg *sync.WaitGroup, d time.Duration, nthreads int, finished *int32) (stuck int) {
	ch := make(chan struct{})
	go func() { wg.Wait(); close(ch) }()
	select {
	case <-ch:
		return 0
	case <-time.After(d):
		return nthreads - int(atomic.LoadInt32(finished))
	}
}

var coldStuck int

// cold-start rounds: a container nobody has used yet, a few goroutines released together by a spin
// barrier, one or two acquire/release pairs each on one or two keys.  Whatever a container sets up on
// first use (a shard, an entry) is set up under contention here; the monitor events and the entries
// left at the end are judged like a stress run.
func runCold(w *tr.W, rng *rand.Rand, variant string, ratio, shards, nthreads int) {
	m := newMap(variant, ratio, shards)
	var mu sync.Mutex
	var evs []tr.E
	logf := func(e tr.E) {
		mu.Lock()
		evs = append(evs, e)
		mu.Unlock()
	}
	type op struct {
		k int
		m string
	}
	progs := make([][]op, nthreads)
	nkeys := 1 + rng.Intn(2)
	for t := range progs {
		for i := 0; i < 1+rng.Intn(2); i++ {
			md := "w"
			if rng.Intn(3) == 0 {
				md = "r"
			}
			progs[t] = append(progs[t], op{1 + rng.Intn(nkeys), md})
		}
	}
	var wg sync.WaitGroup
	var ready, goFlag, finished int32
	for t := 0; t < nthreads; t++ {
		wg.Add(1)
		go func(t int) {
			defer wg.Done()
			defer atomic.AddInt32(&finished, 1)
			atomic.AddInt32(&ready, 1)
			for atomic.LoadInt32(&goFlag) == 0 {
			}
			for _, o := range progs[t] {
				var sw *semap.Weighted
				var err error
				if o.m == "w" {
					sw, err = m.AcquireWrite(context.Background(), o.k)
				} else {
					sw, err = m.AcquireRead(context.Background(), o.k)
				}
				if err != nil {
					continue
				}
				logf(tr.E{"ev": "mon", "kind": "in", "p": t + 1, "k": o.k, "m": o.m})
				for j := 0; j < 50; j++ {
					_ = j
				}
				logf(tr.E{"ev": "mon", "kind": "out", "p": t + 1, "k": o.k, "m": o.m})
				if o.m == "w" {
					m.ReleaseWrite(o.k, sw)
				} else {
					m.ReleaseRead(o.k, sw)
				}
			}
		}(t)
	}
	for atomic.LoadInt32(&ready) < int32(nthreads) {
		runtime.Gosched()
	}
	atomic.StoreInt32(&goFlag, 1)
	stuck := waitOr(&wg, 10*time.Second, nthreads, &finished)
	if stuck > 0 {
		coldStuck++
	}
	mu.Lock()
	snap := append([]tr.E(nil), evs...)
	mu.Unlock()
	w.Emit(tr.E{"ev": "reset", "ratio": ratio, "variant": variant, "shards": shards, "src": "cold", "keystr": false})
	for _, e := range snap {
		w.Emit(e)
	}
	w.Emit(tr.E{"ev": "end", "entries": semap.VerifEntries(m), "stuck": stuck})
}

func main() {
	ncold := flag.Int("ncold", 400, "cold-start rounds (first use of a fresh container under contention)")
	plans := flag.String("plans", "", "directory of TLC-generated plans")
	out := flag.String("out", "steps.ndjson", "step traces")
	stress := flag.String("stress", "stress.ndjson", "stress traces")
	seed := flag.Int64("seed", 1, "seed")
	nrand := flag.Int("rand", 100, "random schedules")
	nstress := flag.Int("nstress", 10, "stress runs")
	nbatch := flag.Int("nbatch", 150, "systematically enumerated critical-section batches to run (0 = all)")
	sthreads := flag.Int("sthreads", 16, "goroutines of a heavy stress run")
	sops := flag.Int("sops", 1200, "operations per goroutine of a heavy stress run")
	nretain := flag.Int("nretain", 0, "retention probes (heap kept per key after acquire/release of many distinct keys)")
	shardedOnly := flag.Bool("sharded", false, "sharded variants only (used by C17)")
	nlong := flag.Int("nlong", 0, "plans with long runs of acquire/release cycles around counter widths")
	npingpong := flag.Int("npingpong", 0, "hand-offs of the two-writer ping-pong plan (0: none)")
	nraces := flag.Int("nraces", 0, "race rounds in step mode: holders release, waiters are cancelled, newcomers arrive at one instant")
	nsim := flag.Int("nsim", 0, "free-running rounds of simultaneous releases")
	flag.Parse()
	rng := rand.New(rand.NewSource(*seed))
	semap.VerifGate = gate

	variants := []string{"single", "wide", "widex"}
	if *shardedOnly {
		variants = []string{"wide", "widex", "wide"}
	}
	shardsL := []int{1, 2, 7, 73}
	w := tr.Create(*out)
	if *plans != "" {
		files, _ := filepath.Glob(filepath.Join(*plans, "*.ndjson"))
		sort.Strings(files)
		for i, f := range files {
			p := readPlan(f)
			if len(p) == 0 || p[0].Op != "init" {
				tr.Fatal("plan %s does not start with init", f)
			}
			runPlan(w, "plan:"+filepath.Base(f), variants[i%3], p[0].Ratio, shardsL[i%4], 6, 3, i%2 == 1, p[1:])
		}
	}
	for i := 0; i < *nrand; i++ {
		ratio := []int{1, 2, 3, 10, 1, 2, 3, hugeSpec, hugeSpec - 1, 255, 256, 257, 65535, 65536, 65537}[rng.Intn(15)]
		np := rng.Intn(4) + 3
		nk := rng.Intn(3) + 1
		runPlan(w, "rand", variants[rng.Intn(3)], ratio, shardsL[rng.Intn(4)], np, nk, rng.Intn(2) == 0,
			randPlan(rng, np, nk, 30+rng.Intn(40)))
	}
	nb := batchEnum(w, rng, variants[int(*seed)%3], shardsL[int(*seed)%4], *seed%2 == 0, *nbatch)
	// long runs: cycles around counter widths, hand-offs between two writers; calls released together
	for i := 0; i < *nlong; i++ {
		ratio, plan := longPlans(rng)
		runPlan(w, "long", variants[i%3], ratio, shardsL[rng.Intn(4)], 4, 2, i%2 == 0, plan)
	}
	if *npingpong > 0 {
		runPlan(w, "pingpong", variants[int(*seed)%3], 1+int(*seed)%2, shardsL[rng.Intn(4)], 2, 1, false, pingPong(*npingpong))
	}
	raceRounds(w, rng, variants, shardsL, *nraces)
	w.Close()
	sw := tr.Create(*stress)
	for i := 0; i < *nstress; i++ {
		if i%2 == 0 {
			runStress(sw, rng, variants[i%3], []int{1, 2, 3}[rng.Intn(3)], shardsL[rng.Intn(4)], 6, 3, 60)
		} else {
			// heavy contention: many goroutines on one or two keys, every third acquire cancelled
			runStress(sw, rng, variants[i%3], []int{1, 2, 3}[rng.Intn(3)], shardsL[rng.Intn(4)], *sthreads, 1+rng.Intn(2), *sops)
		}
	}
	for i := 0; i < *ncold && coldStuck < 3; i++ {
		runCold(sw, rng, variants[i%3], []int{1, 2, 3, hugeSpec}[rng.Intn(4)], shardsL[rng.Intn(4)], 2+rng.Intn(3))
	}
	for i := 0; i < *nsim && simStuck < 3; i++ {
		runSim(sw, rng, variants[i%3], []int{1, 2, 3, 4, 10, hugeSpec}[rng.Intn(6)], shardsL[rng.Intn(4)])
	}
	for i := 0; i < *nretain; i++ {
		runRetain(sw, rng, variants[(i+int(*seed))%3], []int{1, 2, 3}[rng.Intn(3)], shardsL[rng.Intn(4)], 40000)
	}
	sw.Close()
	fmt.Printf("step_events=%d stress_events=%d batches_enumerated=%d\n", w.N(), sw.N(), nb)
}
