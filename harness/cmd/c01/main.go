// c01: executes semaphore-map schedules step by step on real goroutines (global quiescence after
// each step, see internal/qx) and records status vectors plus the container projection for
// validation by TLC (specs/semap/Semap_Trace.tla).
package main

import (
	"bufio"
	"context"
	"encoding/json"
	"flag"
	"fmt"
	"math/rand"
	"os"
	"path/filepath"
	"sort"
	"sync"
	"sync/atomic"

	"github.com/pinealctx/neptune/syncx/semap"

	"verif/harness/internal/qx"
	"verif/harness/internal/tr"
)

type act struct {
	Op    string `json:"op"`
	P     int    `json:"p"`
	K     int    `json:"k"`
	M     string `json:"m"`
	Ratio int    `json:"ratio"`
}

func (a act) rec() tr.E {
	switch a.Op {
	case "acq", "acqc":
		return tr.E{"op": a.Op, "p": a.P, "k": a.K, "m": a.M}
	}
	return tr.E{"op": a.Op, "p": a.P}
}

// gate: rendez-vous installed in semap.VerifGate
var (
	gateArmed   int32
	gateArrived int32
	gateCh      = make(chan chan struct{}, 64)
)

func gate(point string) {
	if atomic.LoadInt32(&gateArmed) == 0 {
		return
	}
	c := make(chan struct{})
	atomic.AddInt32(&gateArrived, 1)
	gateCh <- c
	<-c
}

type proc struct {
	status string // idle | hold | parked | gate
	k      int
	m      string
	w      *semap.Weighted
	cancel context.CancelFunc
	rel    chan struct{} // gate release channel when status == gate
}

type world struct {
	m      semap.SemMapper
	x      *qx.Exec
	ps     []*proc
	nkeys  int
	keyStr bool
}

func (wd *world) key(k int) interface{} {
	if wd.keyStr {
		return fmt.Sprintf("k%d", k)
	}
	return k
}

type reply struct {
	w   *semap.Weighted
	err error
}

// poll collects replies and gate arrivals after quiescence.
func (wd *world) poll(cancelled int) {
	for i, p := range wd.ps {
		if r, ok := wd.x.Take(i + 1); ok {
			if rp, isr := r.(reply); isr {
				if rp.err == nil && rp.w != nil {
					p.status, p.w = "hold", rp.w
				} else if rp.err != nil && rp.w == nil {
					p.status, p.w = "idle", nil
				} else {
					p.status = fmt.Sprintf("bad-reply(w=%v,err=%v)", rp.w != nil, rp.err)
				}
			} else { // release returned
				p.status, p.w = "idle", nil
			}
		}
	}
	for {
		select {
		case c := <-gateCh:
			if cancelled == 0 {
				tr.Fatal("gate arrival without a cancelled process")
			}
			p := wd.ps[cancelled-1]
			p.status, p.rel = "gate", c
			continue
		default:
		}
		break
	}
}

func (wd *world) applicable(a act) bool {
	if a.P < 1 || a.P > len(wd.ps) {
		return false
	}
	p := wd.ps[a.P-1]
	switch a.Op {
	case "acq", "acqc":
		return p.status == "idle"
	case "rel":
		return p.status == "hold"
	case "cancel", "cwake":
		return p.status == "parked"
	case "cresolve":
		return p.status == "gate"
	}
	return false
}

func (wd *world) step(a act) {
	p := wd.ps[a.P-1]
	cancelled := 0
	switch a.Op {
	case "acq", "acqc":
		ctx, cancel := context.WithCancel(context.Background())
		p.cancel, p.k, p.m = cancel, a.K, a.M
		if a.Op == "acqc" {
			cancel()
			atomic.StoreInt32(&gateArmed, 0)
		}
		key := wd.key(a.K)
		mode := a.M
		m := wd.m
		p.status = "parked"
		wd.x.Issue(a.P, func() interface{} {
			var w *semap.Weighted
			var err error
			if mode == "w" {
				w, err = m.AcquireWrite(ctx, key)
			} else {
				w, err = m.AcquireRead(ctx, key)
			}
			return reply{w, err}
		})
	case "rel":
		key, w, mode, m := wd.key(p.k), p.w, p.m, wd.m
		wd.x.Issue(a.P, func() interface{} {
			if mode == "w" {
				m.ReleaseWrite(key, w)
			} else {
				m.ReleaseRead(key, w)
			}
			return 0
		})
	case "cancel":
		atomic.StoreInt32(&gateArmed, 0)
		p.cancel()
	case "cwake":
		atomic.StoreInt32(&gateArmed, 1)
		cancelled = a.P
		p.cancel()
	case "cresolve":
		close(p.rel)
		p.rel = nil
		p.status = "parked" // until its reply shows up
	}
	if err := wd.x.Settle(); err != nil {
		tr.Fatal("%v", err)
	}
	wd.poll(cancelled)
	if a.Op == "cwake" {
		atomic.StoreInt32(&gateArmed, 0)
	}
}

func (wd *world) obs(a act) tr.E {
	st := make([]string, len(wd.ps))
	for i, p := range wd.ps {
		st[i] = p.status
	}
	keys := make([]tr.E, wd.nkeys)
	for k := 1; k <= wd.nkeys; k++ {
		present, cur, waiters := semap.VerifKeyState(wd.m, wd.key(k))
		keys[k-1] = tr.E{"present": present, "cur": cur, "waiters": waiters}
	}
	return tr.E{"ev": "step", "a": a.rec(), "st": st, "keys": keys, "entries": semap.VerifEntries(wd.m)}
}

func newMap(variant string, ratio, shards int) semap.SemMapper {
	switch variant {
	case "wide":
		return semap.NewWideSemMap(semap.WithRwRatio(ratio), semap.WithPrime(uint64(shards)))
	case "widex":
		return semap.NewWideXHashSemMap(semap.WithRwRatio(ratio), semap.WithPrime(uint64(shards)))
	}
	return semap.NewSemMap(semap.WithRwRatio(ratio))
}

func newWorld(variant string, ratio, shards, nprocs, nkeys int, keyStr bool) *world {
	wd := &world{m: newMap(variant, ratio, shards), x: qx.New(nprocs), nkeys: nkeys, keyStr: keyStr}
	for i := 0; i < nprocs; i++ {
		wd.ps = append(wd.ps, &proc{status: "idle"})
	}
	return wd
}

// drain releases everything at the end of a plan so that goroutines do not pile up and so that
// the final "no residue" observation is part of every trace.
func (wd *world) drain(w *tr.W) {
	for round := 0; round < 4*len(wd.ps)+4; round++ {
		var a *act
		for i, p := range wd.ps {
			switch p.status {
			case "gate":
				a = &act{Op: "cresolve", P: i + 1}
			case "hold":
				a = &act{Op: "rel", P: i + 1}
			}
			if a != nil {
				break
			}
		}
		if a == nil {
			for i, p := range wd.ps {
				if p.status == "parked" {
					a = &act{Op: "cancel", P: i + 1}
					break
				}
			}
		}
		if a == nil {
			break
		}
		wd.step(*a)
		w.Emit(wd.obs(*a))
	}
	wd.x.Stop()
}

func runPlan(w *tr.W, src, variant string, ratio, shards, nprocs, nkeys int, keyStr bool, plan []act) {
	wd := newWorld(variant, ratio, shards, nprocs, nkeys, keyStr)
	w.Emit(tr.E{"ev": "reset", "ratio": ratio, "variant": variant, "shards": shards, "src": src, "keystr": keyStr})
	for _, a := range plan {
		if !wd.applicable(a) {
			continue // the verdict is about what is recorded; skipping only loses coverage
		}
		wd.step(a)
		w.Emit(wd.obs(a))
	}
	wd.drain(w)
}

func randPlan(rng *rand.Rand, nprocs, nkeys, n int) []act {
	// random walk over applicable steps, tracked with a shadow of the *expected* statuses is not
	// needed: inapplicable steps are skipped by the executor, so just draw generously.
	var out []act
	for i := 0; i < n; i++ {
		p := rng.Intn(nprocs) + 1
		switch x := rng.Intn(100); {
		case x < 40:
			m := "r"
			if rng.Intn(3) == 0 {
				m = "w"
			}
			op := "acq"
			if rng.Intn(12) == 0 {
				op = "acqc"
			}
			out = append(out, act{Op: op, P: p, K: rng.Intn(nkeys) + 1, M: m})
		case x < 75:
			out = append(out, act{Op: "rel", P: p})
		case x < 83:
			out = append(out, act{Op: "cancel", P: p})
		case x < 91:
			out = append(out, act{Op: "cwake", P: p})
		default:
			out = append(out, act{Op: "cresolve", P: p})
		}
	}
	return out
}

func readPlan(path string) []act {
	f, err := os.Open(path)
	if err != nil {
		tr.Fatal("%v", err)
	}
	defer f.Close()
	var out []act
	sc := bufio.NewScanner(f)
	for sc.Scan() {
		var a act
		if err := json.Unmarshal(sc.Bytes(), &a); err != nil {
			tr.Fatal("plan %s: %v", path, err)
		}
		out = append(out, a)
	}
	return out
}

// stress: free-running goroutines with monitor events; Exclusion is judged by the trace spec on
// the logged hold intervals (which lie inside the real ones).
func runStress(w *tr.W, rng *rand.Rand, variant string, ratio, shards, nthreads, nkeys, opsPer int) {
	m := newMap(variant, ratio, shards)
	var mu sync.Mutex
	var evs []tr.E
	logf := func(e tr.E) {
		mu.Lock()
		evs = append(evs, e)
		mu.Unlock()
	}
	var wg sync.WaitGroup
	seeds := make([]int64, nthreads)
	for i := range seeds {
		seeds[i] = rng.Int63()
	}
	for t := 0; t < nthreads; t++ {
		wg.Add(1)
		go func(t int) {
			defer wg.Done()
			r := rand.New(rand.NewSource(seeds[t]))
			for i := 0; i < opsPer; i++ {
				k := r.Intn(nkeys) + 1
				mode := "r"
				if r.Intn(3) == 0 {
					mode = "w"
				}
				ctx, cancel := context.WithCancel(context.Background())
				if r.Intn(5) == 0 {
					go func() {
						for j := 0; j < r.Intn(50); j++ {
							_ = j
						}
						cancel()
					}()
				}
				var sw *semap.Weighted
				var err error
				if mode == "w" {
					sw, err = m.AcquireWrite(ctx, k)
				} else {
					sw, err = m.AcquireRead(ctx, k)
				}
				if err == nil {
					logf(tr.E{"ev": "mon", "kind": "in", "p": t + 1, "k": k, "m": mode})
					for j := 0; j < r.Intn(200); j++ {
						_ = j
					}
					logf(tr.E{"ev": "mon", "kind": "out", "p": t + 1, "k": k, "m": mode})
					if mode == "w" {
						m.ReleaseWrite(k, sw)
					} else {
						m.ReleaseRead(k, sw)
					}
				}
				cancel()
			}
		}(t)
	}
	wg.Wait()
	w.Emit(tr.E{"ev": "reset", "ratio": ratio, "variant": variant, "shards": shards, "src": "stress", "keystr": false})
	for _, e := range evs {
		w.Emit(e)
	}
	w.Emit(tr.E{"ev": "end", "entries": semap.VerifEntries(m)})
}

func main() {
	plans := flag.String("plans", "", "directory of TLC-generated plans")
	out := flag.String("out", "steps.ndjson", "step traces")
	stress := flag.String("stress", "stress.ndjson", "stress traces")
	seed := flag.Int64("seed", 1, "seed")
	nrand := flag.Int("rand", 100, "random schedules")
	nstress := flag.Int("nstress", 10, "stress runs")
	flag.Parse()
	rng := rand.New(rand.NewSource(*seed))
	semap.VerifGate = gate

	variants := []string{"single", "wide", "widex"}
	shardsL := []int{1, 2, 7, 73}
	w := tr.Create(*out)
	if *plans != "" {
		files, _ := filepath.Glob(filepath.Join(*plans, "*.ndjson"))
		sort.Strings(files)
		for i, f := range files {
			p := readPlan(f)
			if len(p) == 0 || p[0].Op != "init" {
				tr.Fatal("plan %s does not start with init", f)
			}
			runPlan(w, "plan:"+filepath.Base(f), variants[i%3], p[0].Ratio, shardsL[i%4], 6, 3, i%2 == 1, p[1:])
		}
	}
	for i := 0; i < *nrand; i++ {
		ratio := []int{1, 2, 3, 10}[rng.Intn(4)]
		np := rng.Intn(4) + 3
		nk := rng.Intn(3) + 1
		runPlan(w, "rand", variants[rng.Intn(3)], ratio, shardsL[rng.Intn(4)], np, nk, rng.Intn(2) == 0,
			randPlan(rng, np, nk, 30+rng.Intn(40)))
	}
	w.Close()
	sw := tr.Create(*stress)
	for i := 0; i < *nstress; i++ {
		runStress(sw, rng, variants[i%3], []int{1, 2, 3}[rng.Intn(3)], shardsL[rng.Intn(4)], 6, 3, 60)
	}
	sw.Close()
	fmt.Printf("step_events=%d stress_events=%d\n", w.N(), sw.N())
}
