// retention probes: "no residue" beyond what the entry count shows.  One goroutine acquires and
// releases n distinct keys one after the other (no map ever holds more than one entry), the harness
// keeps none of the keys, and the heap is measured after collections before and after; the trace
// carries the bytes kept per 1000 keys (the smaller of two rounds over disjoint key ranges) and the
// trace spec holds the bound.
package main

import (
	"context"
	"fmt"
	"math/rand"
	"runtime"

	"github.com/pinealctx/neptune/syncx/semap"

	"verif/harness/internal/tr"
)

func heapNow() int64 {
	var m runtime.MemStats
	runtime.GC()
	runtime.GC()
	runtime.ReadMemStats(&m)
	return int64(m.HeapAlloc)
}

func retainRound(m semap.SemMapper, base, n int, str bool) (kept int64, bad bool) {
	defer func() {
		if recover() != nil {
			bad = true
		}
	}()
	ctx := context.Background()
	h0 := heapNow()
	for i := 0; i < n; i++ {
		var k interface{} = base + i
		if str {
			k = fmt.Sprintf("key/%d", base+i)
		}
		if i%3 == 1 {
			w, err := m.AcquireRead(ctx, k)
			if err != nil {
				return 0, true
			}
			m.ReleaseRead(k, w)
		} else {
			w, err := m.AcquireWrite(ctx, k)
			if err != nil {
				return 0, true
			}
			m.ReleaseWrite(k, w)
		}
	}
	kept = heapNow() - h0
	runtime.KeepAlive(m)
	return kept, false
}

func runRetain(w *tr.W, rng *rand.Rand, variant string, ratio, shards, n int) {
	m := newMap(variant, ratio, shards)
	str := rng.Intn(2) == 0
	w.Emit(tr.E{"ev": "reset", "ratio": ratio, "variant": variant, "shards": shards, "src": "retain", "keystr": str})
	if _, bad := retainRound(m, 1000, 64, str); bad {
		w.Emit(tr.E{"ev": "retain", "n": 64, "per1k": -1, "entries": -1})
		return
	}
	k1, b1 := retainRound(m, 100000, n, str)
	k2, b2 := retainRound(m, 400000, n, str)
	if b1 || b2 {
		w.Emit(tr.E{"ev": "retain", "n": n, "per1k": -1, "entries": -1})
		return
	}
	if k2 < k1 {
		k1 = k2
	}
	if k1 < 0 {
		k1 = 0
	}
	per := k1 * 1000 / int64(n)
	if per > 1<<30 {
		per = 1 << 30
	}
	w.Emit(tr.E{"ev": "retain", "n": n, "per1k": int(per), "entries": semap.VerifEntries(m)})
	runtime.KeepAlive(m)
}
