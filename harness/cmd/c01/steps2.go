// steps2: race steps (calls released together by one barrier), long runs of acquire/release cycles,
// and free-running rounds of simultaneous releases.
package main

import (
	"context"
	"math/rand"
	"runtime"
	"sync"
	"sync/atomic"
	"time"

	"github.com/pinealctx/neptune/syncx/semap"

	"verif/harness/internal/tr"
)

// barrier: the calls of a race step spin here until the harness lets all of them go at one instant
type barrier struct {
	ready, open int32
}

func (b *barrier) wait() {
	if b == nil {
		return
	}
	atomic.AddInt32(&b.ready, 1)
	for atomic.LoadInt32(&b.open) == 0 {
	}
}

// race: the items of the step - releases by holders, acquires by idle processes, cancellations of
// parked ones, all on one key - start at the same instant.  The trace event is a batch: the
// specification accepts any order of their critical sections and compares the quiescent result.
func (wd *world) race(a act) {
	b := &barrier{}
	wd.barrier = b
	n := 0
	var cancels []*proc
	for _, it := range a.As {
		if it.Op == "cancel" {
			cancels = append(cancels, wd.ps[it.P-1])
			continue
		}
		wd.issue(it)
		n++
	}
	wd.barrier = nil
	deadline := time.Now().Add(10 * time.Second)
	for atomic.LoadInt32(&b.ready) < int32(n) {
		if time.Now().After(deadline) {
			tr.Fatal("race step: a worker never reached the barrier")
		}
		runtime.Gosched()
	}
	atomic.StoreInt32(&gateArmed, 0)
	atomic.StoreInt32(&b.open, 1)
	for _, p := range cancels {
		p.cancel()
	}
	if err := wd.x.Settle(); err != nil {
		tr.Fatal("%v", err)
	}
	wd.poll(0)
}

type runReply struct{ ok int }

// run: a.N cycles of acquire and release by one process, back to back, each of which the ideal
// semaphore grants at once (see applicable).  One event; `ok` counts the cycles that went through.  A
// cycle that blocks leaves the process parked inside it, which the event shows.
func (wd *world) run(a act) {
	p := wd.ps[a.P-1]
	key, mode, m, n := wd.key(a.K), a.M, wd.m, a.N
	p.k, p.m, p.status = a.K, a.M, "parked"
	var done int32
	wd.x.Issue(a.P, func() interface{} {
		for i := 0; i < n; i++ {
			var w *semap.Weighted
			var err error
			if mode == "w" {
				w, err = m.AcquireWrite(context.Background(), key)
			} else {
				w, err = m.AcquireRead(context.Background(), key)
			}
			if err != nil || w == nil {
				break
			}
			if mode == "w" {
				m.ReleaseWrite(key, w)
			} else {
				m.ReleaseRead(key, w)
			}
			atomic.AddInt32(&done, 1)
		}
		return runReply{int(atomic.LoadInt32(&done))}
	})
	if err := wd.x.Settle(); err != nil {
		tr.Fatal("%v", err)
	}
	if r, ok := wd.x.Take(a.P); ok {
		p.status, p.w = "idle", nil
		wd.lastRunOK = r.(runReply).ok
		return
	}
	wd.lastRunOK = int(atomic.LoadInt32(&done))
	wd.dead = true // parked inside a cycle: the event says so, nothing more is issued here
}

// pingPong: two writers hand one key back and forth n times - every release wakes the only waiter,
// who queued behind the holder.  Whatever numbers waiters or orders them passes its widths here.
func pingPong(n int) []act {
	plan := []act{{Op: "acq", P: 1, K: 1, M: "w"}, {Op: "acq", P: 2, K: 1, M: "w"}}
	for i := 0; i < n; i++ {
		h := 1 + i%2
		plan = append(plan, act{Op: "rel", P: h}, act{Op: "acq", P: h, K: 1, M: "w"})
	}
	return plan
}

// longPlans: runs of cycles around the widths a counter may have been narrowed to, in the three
// situations in which every cycle is granted at once: nobody else on the key (the entry is made and
// dropped by every cycle), a reader holding it (the entry stays, the count goes up and down), other
// keys busy; then the key is used on by waiters.
func longPlans(rng *rand.Rand) (ratio int, plan []act) {
	ns := []int{255, 256, 257, 65535, 65536, 65537, 300 + rng.Intn(1000)}
	n := func() int { return ns[rng.Intn(len(ns))] }
	ratio = []int{2, 3, 10, 256, 65536, hugeSpec}[rng.Intn(6)]
	md := func() string {
		if rng.Intn(2) == 0 {
			return "w"
		}
		return "r"
	}
	plan = []act{
		{Op: "run", P: 1, K: 1, M: md(), N: n()},
		{Op: "acq", P: 2, K: 1, M: "r"},
		{Op: "run", P: 1, K: 1, M: "r", N: n()},
		{Op: "run", P: 3, K: 2, M: md(), N: n()},
		{Op: "acq", P: 3, K: 1, M: "w"}, // parks behind the reader
		{Op: "acq", P: 1, K: 1, M: "r"}, // queues behind the writer
		{Op: "run", P: 4, K: 2, M: md(), N: n()},
		{Op: "rel", P: 2},
		{Op: "rel", P: 3},
		{Op: "run", P: 2, K: 1, M: "r", N: n()},
		{Op: "rel", P: 1},
		{Op: "run", P: 2, K: 1, M: "w", N: n()},
	}
	return ratio, plan
}

// raceRounds: from a situation with k holders and a queue of waiters on one key, everything that can
// happen next happens at one instant: all holders release, optionally a waiter is cancelled and a new
// caller arrives.
func raceRounds(w *tr.W, rng *rand.Rand, variants []string, shardsL []int, n int) {
	for i := 0; i < n; i++ {
		k := 1 + rng.Intn(3)
		ratio := []int{k, k + 1, 1, 2, 3}[rng.Intn(5)]
		var plan []act
		holders := 0
		if ratio >= k && rng.Intn(4) != 0 {
			for p := 1; p <= k; p++ {
				plan = append(plan, act{Op: "acq", P: p, K: 1, M: "r"})
			}
			holders = k
		} else {
			plan = append(plan, act{Op: "acq", P: 1, K: 1, M: "w"})
			holders = 1
		}
		np := holders
		nw := 1 + rng.Intn(3)
		race := act{Op: "race", K: 1}
		for p := 1; p <= holders; p++ {
			race.As = append(race.As, act{Op: "rel", P: p})
		}
		for j := 0; j < nw; j++ {
			np++
			m := "r"
			if rng.Intn(2) == 0 {
				m = "w"
			}
			plan = append(plan, act{Op: "acq", P: np, K: 1, M: m})
			if rng.Intn(4) == 0 {
				race.As = append(race.As, act{Op: "cancel", P: np})
			}
		}
		if rng.Intn(3) == 0 && np < 6 {
			np++
			race.As = append(race.As, act{Op: "acq", P: np, M: []string{"r", "w"}[rng.Intn(2)]})
		}
		if len(race.As) > 4 {
			race.As = race.As[:4]
		}
		plan = append(plan, race)
		runPlan(w, "race", variants[rng.Intn(len(variants))], ratio, shardsL[rng.Intn(len(shardsL))], np, 1, rng.Intn(2) == 0, plan)
	}
}

var simStuck int

// runSim: free-running rounds of simultaneous releases.  k holders of one key (readers, or one
// writer), m callers queued behind them (each seen in the waiter list through the accessor before the
// next is started); then every holder releases at the same instant - one barrier - while, in some
// rounds, one waiter's context ends and a newcomer arrives.  Every call must come back, the woken ones
// must exclude each other as the ratio says, nothing may be left.  One short trace per round.
func runSim(w *tr.W, rng *rand.Rand, variant string, ratio, shards int) {
	m := newMap(variant, ratio, shards)
	key := interface{}(7)
	var mu sync.Mutex
	var evs []tr.E
	logf := func(e tr.E) {
		mu.Lock()
		evs = append(evs, e)
		mu.Unlock()
	}
	k := 1
	hm := "w"
	if ratio > 1 && rng.Intn(3) != 0 {
		k = 2 + rng.Intn(3)
		if k > ratio {
			k = ratio
		}
		hm = "r"
	}
	nw := 1 + rng.Intn(4)
	type held struct {
		w *semap.Weighted
	}
	hs := make([]held, k)
	for i := range hs {
		var err error
		if hm == "w" {
			hs[i].w, err = m.AcquireWrite(context.Background(), key)
		} else {
			hs[i].w, err = m.AcquireRead(context.Background(), key)
		}
		if err != nil || hs[i].w == nil {
			// a holder the ideal semaphore admits at once was refused: an observation of its own kind
			w.Emit(tr.E{"ev": "reset", "ratio": ratio, "variant": variant, "shards": shards, "src": "sim", "keystr": false})
			w.Emit(tr.E{"ev": "refused", "p": i + 1, "m": hm})
			return
		}
		logf(tr.E{"ev": "mon", "kind": "in", "p": i + 1, "k": 1, "m": hm})
	}
	var wg sync.WaitGroup
	var finished int32
	total := 0
	cancelAt := -1
	if rng.Intn(3) == 0 {
		cancelAt = rng.Intn(nw)
	}
	var cancelFn context.CancelFunc
	waiter := func(id int, md string, ctx context.Context) {
		defer wg.Done()
		defer atomic.AddInt32(&finished, 1)
		var sw *semap.Weighted
		var err error
		if md == "w" {
			sw, err = m.AcquireWrite(ctx, key)
		} else {
			sw, err = m.AcquireRead(ctx, key)
		}
		if err != nil {
			return
		}
		logf(tr.E{"ev": "mon", "kind": "in", "p": id, "k": 1, "m": md})
		for j := 0; j < 30; j++ {
			_ = j
		}
		logf(tr.E{"ev": "mon", "kind": "out", "p": id, "k": 1, "m": md})
		if md == "w" {
			m.ReleaseWrite(key, sw)
		} else {
			m.ReleaseRead(key, sw)
		}
	}
	queued := true
	for j := 0; j < nw && queued; j++ {
		md := []string{"w", "r", "r"}[rng.Intn(3)]
		if j == 0 && hm == "r" {
			md = "w" // a reader would be admitted beside the holders
		}
		ctx := context.Background()
		if j == cancelAt {
			ctx, cancelFn = context.WithCancel(ctx)
		}
		wg.Add(1)
		total++
		go waiter(k+1+j, md, ctx)
		deadline := time.Now().Add(5 * time.Second)
		for {
			if _, _, wn := semap.VerifKeyState(m, key); wn >= j+1 {
				break
			}
			if time.Now().After(deadline) {
				queued = false // shows as a call that came back early or never: judged at the end
				break
			}
			runtime.Gosched()
		}
	}
	b := &barrier{}
	for i := range hs {
		wg.Add(1)
		total++
		logf(tr.E{"ev": "mon", "kind": "out", "p": i + 1, "k": 1, "m": hm})
		go func(i int) {
			defer wg.Done()
			defer atomic.AddInt32(&finished, 1)
			b.wait()
			if hm == "w" {
				m.ReleaseWrite(key, hs[i].w)
			} else {
				m.ReleaseRead(key, hs[i].w)
			}
		}(i)
	}
	newcomers := 0
	if rng.Intn(2) == 0 {
		newcomers = 1 + rng.Intn(3)
	}
	for c := 0; c < newcomers; c++ {
		wg.Add(1)
		total++
		nm := []string{"r", "w", "w"}[rng.Intn(3)]
		id := k + nw + 1 + c
		go func() {
			b.wait()
			waiter(id, nm, context.Background())
		}()
	}
	want := int32(k + newcomers)
	for atomic.LoadInt32(&b.ready) < want {
		runtime.Gosched()
	}
	atomic.StoreInt32(&b.open, 1)
	if cancelFn != nil {
		cancelFn()
	}
	stuck := waitOr(&wg, 5*time.Second, total, &finished)
	if stuck > 0 {
		simStuck++
	}
	mu.Lock()
	snap := append([]tr.E(nil), evs...)
	mu.Unlock()
	w.Emit(tr.E{"ev": "reset", "ratio": ratio, "variant": variant, "shards": shards, "src": "sim", "keystr": false})
	for _, e := range snap {
		w.Emit(e)
	}
	w.Emit(tr.E{"ev": "end", "entries": semap.VerifEntries(m), "stuck": stuck})
}
