// kinds: the containers take interface{} keys and a context.  Every comparable dynamic kind is a
// legitimate key of the single map (nil and typed nil pointers included); the sharded containers route
// keys through remap, which takes the integer kinds, strings and types that say themselves where they
// belong (remap.Bs, remap.HitGroup).  Keys that look alike must not share a semaphore.
package main

import (
	"context"
	"errors"
	"sync"
	"time"
)

type pk struct {
	A int
	B string
}
type bsKey struct{ n int }   // remap.Bs
type hitKey struct{ n int }  // remap.HitGroup
type hitBs struct{ n uint8 } // both

func (b bsKey) ToBytes() []byte { return []byte{byte(b.n), 'b'} }
func (h hitKey) Hit() uint64    { return uint64(h.n) }
func (h hitBs) Hit() uint64     { return uint64(h.n) }
func (h hitBs) ToBytes() []byte { return []byte{h.n} }

var oddA, oddB = &pk{7, ""}, &pk{7, ""} // equal contents, different keys
var oddChan = make(chan struct{})

var oddSingle = []interface{}{
	nil, (*int)(nil), (*pk)(nil), struct{}{}, pk{7, ""}, oddA, oddB, [2]int{7, 0}, false, float64(7), "",
	int8(7), [1]interface{}{nil}, struct{ X interface{} }{7}, oddChan, complex64(7), uintptr(7), true, [0]int{},
	pk{7, "7"}, bsKey{7}, hitKey{7}, errors.New("7"),
}

// what SimpleIndex can place (integer kinds and HitGroup directly, the rest through the hash)
var oddWide = []interface{}{
	int8(7), uint16(7), int32(7), byte(7), uint(7), "", "7", bsKey{7}, hitKey{7}, hitBs{7}, int16(7), int64(7),
	uint64(7), int(7), hitKey{80}, bsKey{80}, uint32(7), &hitPtr,
}

// what XHashIndex can place (everything goes through ToBytes)
var oddWideX = []interface{}{
	int8(7), uint16(7), int32(7), byte(7), uint(7), "", "7", bsKey{7}, hitBs{7}, int16(7), int64(7), uint64(7),
	int(7), bsKey{80}, uint32(7), hitBs{0},
}

type hitP struct{ n int }

func (h *hitP) Hit() uint64 { return 7 }

var hitPtr hitP

func oddKey(variant string, k, off int) interface{} {
	t := oddSingle[3:] // the three nils are dealt out below (never twice in one world)
	switch variant {
	case "wide":
		t = oddWide
	case "widex":
		t = oddWideX
	default:
		if k == 1 && off%2 == 0 {
			// the degenerate keys often: nil and nil pointers of two types
			return oddSingle[(off/2)%3]
		}
	}
	return t[(k+off)%len(t)]
}

// ---- contexts ----

// ownCtx is a context that is none of the standard library's: semap may only use the interface
type ownCtx struct {
	mu   sync.Mutex
	done chan struct{}
	err  error
}

func (c *ownCtx) Deadline() (time.Time, bool)   { return time.Time{}, false }
func (c *ownCtx) Done() <-chan struct{}         { return c.done }
func (c *ownCtx) Value(interface{}) interface{} { return nil }
func (c *ownCtx) Err() error {
	c.mu.Lock()
	defer c.mu.Unlock()
	return c.err
}
func (c *ownCtx) end() {
	c.mu.Lock()
	defer c.mu.Unlock()
	if c.err == nil {
		c.err = errors.New("own context ended")
		close(c.done)
	}
}

var ctxCounter int

type ctxKey struct{}

// newCtx: the ways a caller's context can end - cancelled, cancelled below a value / a far deadline, a
// context of the caller's own type; with ended = true it has ended before the call (cancelled, or a
// deadline in the past)
func newCtx(ended bool) (context.Context, context.CancelFunc) {
	ctxCounter++
	switch ctxCounter % 5 {
	case 1:
		ctx, cancel := context.WithCancel(context.WithValue(context.Background(), ctxKey{}, 1))
		if ended {
			cancel()
		}
		return ctx, cancel
	case 2:
		if ended {
			return context.WithDeadline(context.Background(), time.Now().Add(-time.Hour))
		}
		return context.WithTimeout(context.Background(), 24*time.Hour)
	case 3:
		c := &ownCtx{done: make(chan struct{})}
		if ended {
			c.end()
		}
		return c, c.end
	case 4:
		parent, pcancel := context.WithCancel(context.Background())
		ctx, cancel := context.WithCancel(parent) // ends through its parent
		_ = cancel
		if ended {
			pcancel()
		}
		return ctx, pcancel
	}
	ctx, cancel := context.WithCancel(context.Background())
	if ended {
		cancel()
	}
	return ctx, cancel
}
