// c20: presents JSON scalar tokens, raw texts and values to the real tex scalar wrappers
// (JsInt64, JsUInt64, JsByte, JsUnixTime, JsNanoTime, UnixStamp, Duration, Base64Bytes, the hex
// helpers and the SQL time adapters) and records what they did, one ndjson event per call, for
// validation by TLC (specs/scalars/Scalars_Trace.tla).  The harness contains no oracle: it only
// renders the resulting Go values as digit lists (64-bit numbers do not fit TLC integers).
package main

import (
	"bytes"
	"os"
	"sync"
	"sync/atomic"
	"database/sql/driver"
	"encoding/json"
	"flag"
	"fmt"
	"math"
	"math/big"
	"math/rand"
	"strconv"
	"strings"
	"time"
	"unicode/utf8"

	"github.com/pinealctx/neptune/jsonx"
	"github.com/pinealctx/neptune/tex"

	"verif/harness/internal/tr"
)

// ------------------------------------------------------------------ values as digit lists

func digits(u uint64, base uint64) []int {
	r := make([]int, 0, 20)
	for u > 0 {
		r = append(r, int(u%base))
		u /= base
	}
	for i, j := 0, len(r)-1; i < j; i, j = i+1, j-1 {
		r[i], r[j] = r[j], r[i]
	}
	return r
}

func valU(u uint64, base uint64) tr.E { return tr.E{"neg": false, "d": digits(u, base)} }
func valI(i int64, base uint64) tr.E {
	if i < 0 {
		return tr.E{"neg": true, "d": digits(uint64(-i), base)} // -MinInt64 wraps to 2^63: correct magnitude
	}
	return tr.E{"neg": false, "d": digits(uint64(i), base)}
}

// g is a generated value: an integer (i or u, by type) or a byte list
type g struct {
	i int64
	u uint64
	b []byte
}

type via struct {
	name string
	f    func(tok []byte) error
}

type rtvia struct {
	name string
	f    func(v g) ([]byte, error) // encode v, decode the result into the variable; returns the wire form
}

// wrap is one wrapper type bound to one variable
type wrap struct {
	ty    string
	kind  string // token family: dec, dur, list, hex16, hex32, b64, scan, rawlist, rawdur
	reset func()
	val   func() interface{} // VAL of the variable
	gval  func(v g) interface{}
	dec   []via
	rt    []rtvia
	genv  func(r *rand.Rand) g
	// fresh: a new destination variable (nothing a decoder could legitimately reuse from an earlier
	// one); keep: hold on to the variable's value AS IT IS (the very slice, no copy) and render it
	// when asked later.  nil = reset / render now (types whose values cannot alias anything).
	fresh func()
	keep  func() func() interface{}
	// sql.Scanner entry (nil if the type has none) and the text of a time.Time source in the unit
	// the adapter counts in (ok=false: outside what that unit can express)
	scanner  func(v interface{}) error
	timeText func(t time.Time) (string, bool)
	// scribble: the caller owns the value it was given - overwrite the aggregate the variable holds
	// (nil for types whose values are not aggregates)
	scribble func()
}

// ------------------------------------------------------------------ JSON adapted wrappers

type holder[T any] struct {
	A T `json:"a"`
}

func obj(tok []byte) []byte {
	b := make([]byte, 0, len(tok)+8)
	b = append(b, `{"a":`...)
	b = append(b, tok...)
	return append(b, '}')
}

// unobj: the member value inside a marshalled holder.  What the encoders under test emit decides
// the shape, so an unexpected shape is an observation (the round trip is logged as failed).
func unobj(b []byte) ([]byte, error) {
	if len(b) < 6 || string(b[:5]) != `{"a":` || b[len(b)-1] != '}' {
		return b, fmt.Errorf("marshalled holder is %q", b)
	}
	return b[5 : len(b)-1], nil
}

type pholder[T any] struct {
	A *T `json:"a"`
}

// pad: the same document with insignificant white space around every token
func pad(tok []byte) []byte {
	b := append([]byte(" {\n\t\"a\" :\r\n  "), tok...)
	return append(b, " \n}\t "...)
}

func jsonWrap[T any, PT interface {
	*T
	json.Unmarshaler
}](ty, kind string, sentinel T, toVal func(T) interface{}, fromG func(g) T, gv func(g) interface{},
	genv func(*rand.Rand) g) *wrap {
	h := &holder[T]{}
	w := &wrap{ty: ty, kind: kind, gval: gv, genv: genv}
	w.reset = func() { h.A = sentinel }
	w.val = func() interface{} { return toVal(h.A) }
	w.fresh = func() { h = &holder[T]{} }
	w.keep = func() func() interface{} {
		v := h.A
		return func() interface{} { return toVal(v) }
	}
	if _, ok := interface{}(&h.A).(*tex.JsByte); ok {
		w.scribble = func() { scribbleBytes(*interface{}(&h.A).(*tex.JsByte)) }
	}
	w.dec = []via{
		{"direct", func(tok []byte) error { return PT(&h.A).UnmarshalJSON(tok) }},
		{"json", func(tok []byte) error { return json.Unmarshal(tok, &h.A) }},
		{"jsonfield", func(tok []byte) error { return json.Unmarshal(obj(tok), h) }},
		{"iter", func(tok []byte) error { return jsonx.JSONUnmarshal(tok, &h.A) }},
		{"iterfield", func(tok []byte) error { return jsonx.JSONUnmarshal(obj(tok), h) }},
		{"fastfield", func(tok []byte) error { return jsonx.JSONFastUnmarshal(obj(tok), h) }},
		{"jsonpad", func(tok []byte) error { return json.Unmarshal(pad(tok), h) }},
		{"iterpad", func(tok []byte) error { return jsonx.JSONUnmarshal(pad(tok), h) }},
		// through a pointer member that already points at the variable (null makes the pointer nil)
		{"jsonptr", func(tok []byte) error { return json.Unmarshal(obj(tok), &pholder[T]{A: &h.A}) }},
		{"iterptr", func(tok []byte) error { return jsonx.JSONUnmarshal(obj(tok), &pholder[T]{A: &h.A}) }},
	}
	marshalDirect := func(v T) ([]byte, error) {
		m, ok := interface{}(v).(json.Marshaler)
		if !ok {
			return []byte{}, fmt.Errorf("%s is not a json.Marshaler", ty)
		}
		return m.MarshalJSON()
	}
	// encode with enc, check the shape, decode with dec
	through := func(enc func() ([]byte, error), dec func(b []byte) error) ([]byte, error) {
		b, err := enc()
		if err != nil {
			return b, err
		}
		in, err := unobj(b)
		if err != nil {
			return in, err
		}
		return in, dec(b)
	}
	w.rt = []rtvia{
		{"direct", func(v g) ([]byte, error) {
			b, err := marshalDirect(fromG(v))
			if err != nil {
				return b, err
			}
			return b, PT(&h.A).UnmarshalJSON(b)
		}},
		{"json", func(v g) ([]byte, error) {
			return through(func() ([]byte, error) { return json.Marshal(holder[T]{fromG(v)}) },
				func(b []byte) error { return json.Unmarshal(b, h) })
		}},
		{"iter", func(v g) ([]byte, error) {
			return through(func() ([]byte, error) { return jsonx.JSONMarshal(holder[T]{fromG(v)}) },
				func(b []byte) error { return jsonx.JSONUnmarshal(b, h) })
		}},
		{"json2iter", func(v g) ([]byte, error) {
			return through(func() ([]byte, error) { return json.Marshal(holder[T]{fromG(v)}) },
				func(b []byte) error { return jsonx.JSONFastUnmarshal(b, h) })
		}},
		// value behind a pointer (pointer receiver set), decoded into a nil pointer member
		{"jsonptr", func(v g) ([]byte, error) {
			x := fromG(v)
			return through(func() ([]byte, error) { return json.Marshal(&pholder[T]{A: &x}) },
				func(b []byte) error {
					var p pholder[T]
					if err := json.Unmarshal(b, &p); err != nil {
						return err
					}
					if p.A == nil {
						return fmt.Errorf("pointer member still nil")
					}
					h.A = *p.A
					return nil
				})
		}},
		{"iterptr", func(v g) ([]byte, error) {
			x := fromG(v)
			return through(func() ([]byte, error) { return jsonx.JSONMarshal(&pholder[T]{A: &x}) },
				func(b []byte) error {
					var p pholder[T]
					if err := jsonx.JSONUnmarshal(b, &p); err != nil {
						return err
					}
					if p.A == nil {
						return fmt.Errorf("pointer member still nil")
					}
					h.A = *p.A
					return nil
				})
		}},
		// not addressable: map element (only the value receiver set is available to the encoder)
		{"jsonmap", func(v g) ([]byte, error) {
			return through(func() ([]byte, error) { return json.Marshal(map[string]T{"a": fromG(v)}) },
				func(b []byte) error {
					m := map[string]T{}
					if err := json.Unmarshal(b, &m); err != nil {
						return err
					}
					x, ok := m["a"]
					if !ok {
						return fmt.Errorf("member missing")
					}
					h.A = x
					return nil
				})
		}},
		{"itermap", func(v g) ([]byte, error) {
			return through(func() ([]byte, error) { return jsonx.JSONMarshal(map[string]T{"a": fromG(v)}) },
				func(b []byte) error {
					m := map[string]T{}
					if err := jsonx.JSONUnmarshal(b, &m); err != nil {
						return err
					}
					x, ok := m["a"]
					if !ok {
						return fmt.Errorf("member missing")
					}
					h.A = x
					return nil
				})
		}},
	}
	return w
}

func bytesVal(b []byte) interface{} { return tr.Ints(b) }

// scribbleBytes overwrites a slice the code under test handed out, up to its capacity
func scribbleBytes(b []byte) {
	b = b[:cap(b)]
	for i := range b {
		b[i] = 0xA5 ^ byte(i)
	}
}

// rle renders a long byte list compactly ([value, run length] pairs); used for both sides of the
// round trips of very long lists, where only equality is judged
func rle(v interface{}) interface{} {
	l, ok := v.([]int)
	if !ok {
		return v
	}
	out := make([][]int, 0, 8)
	for i := 0; i < len(l); {
		j := i
		for j < len(l) && l[j] == l[i] {
			j++
		}
		out = append(out, []int{l[i], j - i})
		i = j
	}
	return out
}

func genI64(r *rand.Rand) g {
	edges := []int64{0, 1, -1, 9, 10, 255, 256, math.MaxInt32, math.MinInt32, math.MaxInt32 + 1, math.MinInt32 - 1,
		math.MaxUint32, math.MaxUint32 + 1, 1 << 53, 1<<53 + 1, math.MaxInt64, math.MinInt64, math.MaxInt64 - 1,
		math.MinInt64 + 1, 1e18, -1e18, 999999999999999999}
	switch r.Intn(4) {
	case 0:
		return g{i: edges[r.Intn(len(edges))]}
	case 1:
		return g{i: int64(r.Uint64())}
	case 2:
		return g{i: int64(r.Uint64()) >> uint(r.Intn(64))}
	}
	return g{i: int64(r.Intn(2001) - 1000)}
}

func genU64(r *rand.Rand) g {
	edges := []uint64{0, 1, 9, 10, 255, 256, math.MaxInt32, math.MaxUint32, math.MaxUint32 + 1, 1 << 53, math.MaxInt64,
		math.MaxInt64 + 1, math.MaxUint64, math.MaxUint64 - 1, 1e19, 9999999999999999999}
	switch r.Intn(4) {
	case 0:
		return g{u: edges[r.Intn(len(edges))]}
	case 1:
		return g{u: r.Uint64()}
	case 2:
		return g{u: r.Uint64() >> uint(r.Intn(64))}
	}
	return g{u: uint64(r.Intn(1000))}
}

func genBytes(r *rand.Rand) g {
	n := []int{0, 0, 1, 1, 2, 3, 5, 8, 17}[r.Intn(9)]
	b := make([]byte, n)
	edges := []byte{0, 1, 9, 10, 99, 100, 127, 128, 254, 255}
	for i := range b {
		if r.Intn(2) == 0 {
			b[i] = edges[r.Intn(len(edges))]
		} else {
			b[i] = byte(r.Intn(256))
		}
	}
	return g{b: b}
}

func gI(v g) interface{} { return valI(v.i, 10) }
func gU(v g) interface{} { return valU(v.u, 10) }
func gB(v g) interface{} { return bytesVal(v.b) }

func wrappers() []*wrap {
	var ws []*wrap
	ws = append(ws, jsonWrap[tex.JsInt64]("i64", "dec", tex.JsInt64(7777),
		func(x tex.JsInt64) interface{} { return valI(int64(x), 10) },
		func(v g) tex.JsInt64 { return tex.JsInt64(v.i) }, gI, genI64))
	ws = append(ws, jsonWrap[tex.JsUInt64]("u64", "dec", tex.JsUInt64(7777),
		func(x tex.JsUInt64) interface{} { return valU(uint64(x), 10) },
		func(v g) tex.JsUInt64 { return tex.JsUInt64(v.u) }, gU, genU64))
	stamp := jsonWrap[tex.UnixStamp]("stamp", "dec", tex.UnixStamp(7777),
		func(x tex.UnixStamp) interface{} { return valI(int64(x), 10) },
		func(v g) tex.UnixStamp { return tex.UnixStamp(v.i) }, gI, genI64)
	ws = append(ws, stamp)
	ws = append(ws, jsonWrap[tex.JsUnixTime]("unix", "dec", tex.JsUnixTime(time.Unix(7777, 0)),
		func(x tex.JsUnixTime) interface{} { return valI(time.Time(x).Unix(), 10) },
		func(v g) tex.JsUnixTime { return tex.JsUnixTime(time.Unix(v.i, 0)) }, gI, genI64))
	ws = append(ws, jsonWrap[tex.JsNanoTime]("nano", "dec", tex.JsNanoTime(time.Unix(0, 7777)),
		func(x tex.JsNanoTime) interface{} { return valI(time.Time(x).UnixNano(), 10) },
		func(v g) tex.JsNanoTime { return tex.JsNanoTime(time.Unix(0, v.i)) }, gI, genI64))
	dur := jsonWrap[tex.Duration]("dur", "dur", tex.Duration(7777),
		func(x tex.Duration) interface{} { return valI(int64(x), 10) },
		func(v g) tex.Duration { return tex.Duration(v.i) }, gI, genDur)
	ws = append(ws, dur)
	ws = append(ws, jsonWrap[tex.JsByte]("bytes", "list", tex.JsByte{7, 77},
		func(x tex.JsByte) interface{} { return bytesVal(x) },
		func(v g) tex.JsByte { return tex.JsByte(v.b) }, gB, genBytes))
	ws = append(ws, rawWrappers()...)
	return ws
}

// ------------------------------------------------------------------ raw text / SQL forms

func rawWrappers() []*wrap {
	var ws []*wrap

	// hex helpers: value reported in binary digits
	{
		var x int64
		ws = append(ws, &wrap{ty: "hex16i", kind: "hex16", reset: func() { x = 7777 },
			val: func() interface{} { return valI(x, 2) }, gval: func(v g) interface{} { return valI(v.i, 2) }, genv: genI64,
			dec: []via{{"func", func(t []byte) error {
				v, err := tex.HexI64(string(t))
				if err == nil {
					x = v
				}
				return err
			}}},
			rt: []rtvia{{"func", func(v g) ([]byte, error) {
				s := tex.I64Hex(v.i)
				b, err := tex.HexI64(s)
				if err == nil {
					x = b
				}
				return []byte(s), err
			}}}})
	}
	{
		var x uint64
		ws = append(ws, &wrap{ty: "hex16u", kind: "hex16", reset: func() { x = 7777 },
			val: func() interface{} { return valU(x, 2) }, gval: func(v g) interface{} { return valU(v.u, 2) }, genv: genU64,
			dec: []via{{"func", func(t []byte) error {
				v, err := tex.HexU64(string(t))
				if err == nil {
					x = v
				}
				return err
			}}},
			rt: []rtvia{{"func", func(v g) ([]byte, error) {
				s := tex.U64Hex(v.u)
				b, err := tex.HexU64(s)
				if err == nil {
					x = b
				}
				return []byte(s), err
			}}}})
	}
	{
		var x int64
		ws = append(ws, &wrap{ty: "hex32i", kind: "hex32", reset: func() { x = 7777 },
			val: func() interface{} { return valI(x, 2) }, gval: func(v g) interface{} { return valI(v.i, 2) }, genv: genI64,
			dec: []via{{"func", func(t []byte) error {
				v, err := tex.HexI64V2(string(t))
				if err == nil {
					x = v
				}
				return err
			}}},
			rt: []rtvia{{"func", func(v g) ([]byte, error) {
				s := tex.I64HexV2(v.i)
				b, err := tex.HexI64V2(s)
				if err == nil {
					x = b
				}
				return []byte(s), err
			}}}})
	}
	{
		var x uint64
		ws = append(ws, &wrap{ty: "hex32u", kind: "hex32", reset: func() { x = 7777 },
			val: func() interface{} { return valU(x, 2) }, gval: func(v g) interface{} { return valU(v.u, 2) }, genv: genU64,
			dec: []via{{"func", func(t []byte) error {
				v, err := tex.HexU64V2(string(t))
				if err == nil {
					x = v
				}
				return err
			}}},
			rt: []rtvia{{"func", func(v g) ([]byte, error) {
				s := tex.U64HexV2(v.u)
				b, err := tex.HexU64V2(s)
				if err == nil {
					x = b
				}
				return []byte(s), err
			}}}})
	}

	// Base64Bytes: sql Scan / Value
	{
		var x tex.Base64Bytes
		sqlText := func(v g) (string, error) {
			dv, err := tex.Base64Bytes(v.b).Value()
			if err != nil {
				return "", err
			}
			s, ok := dv.(string)
			if !ok {
				return "", fmt.Errorf("Value() is %T", dv)
			}
			return s, nil
		}
		ws = append(ws, &wrap{ty: "b64", kind: "b64", reset: func() { x = tex.Base64Bytes{7, 77} },
			fresh: func() { x = nil },
			keep: func() func() interface{} {
				v := x
				return func() interface{} { return bytesVal(v) }
			},
			scanner:  func(v interface{}) error { return x.Scan(v) },
			timeText: func(t time.Time) (string, bool) { return "time", true },
			scribble: func() { scribbleBytes(x) },
			val:      func() interface{} { return bytesVal(x) }, gval: gB, genv: genBytes,
			dec: []via{
				{"scanstring", func(t []byte) error { return x.Scan(string(t)) }},
				{"scanbytes", func(t []byte) error { return x.Scan(t) }}, // t is the harness's driver buffer
			},
			rt: []rtvia{
				{"sqlstring", func(v g) ([]byte, error) {
					s, err := sqlText(v)
					if err != nil {
						return nil, err
					}
					return []byte(s), x.Scan(s)
				}},
				{"sqlbytes", func(v g) ([]byte, error) {
					s, err := sqlText(v)
					if err != nil {
						return nil, err
					}
					return []byte(s), x.Scan([]byte(s))
				}},
			}})
	}

	// UnixNano2Time / Unix2Time: sql Scan of the integer kinds a driver may hand over, Value
	scanKinds := func(scan func(interface{}) error) []via {
		parse := func(t []byte) uint64 {
			u, err := strconv.ParseUint(strings.TrimPrefix(string(t), "-"), 10, 64)
			if err != nil {
				tr.Fatal("scan token %q: %v", t, err)
			}
			return u
		}
		sgn := func(t []byte) int64 {
			i, err := strconv.ParseInt(string(t), 10, 64)
			if err != nil {
				tr.Fatal("scan token %q: %v", t, err)
			}
			return i
		}
		return []via{
			{"int64", func(t []byte) error { return scan(sgn(t)) }},
			{"int", func(t []byte) error { return scan(int(sgn(t))) }},
			{"int32", func(t []byte) error { return scan(int32(sgn(t))) }},
			{"uint64", func(t []byte) error { return scan(parse(t)) }},
			{"uint", func(t []byte) error { return scan(uint(parse(t))) }},
			{"uint32", func(t []byte) error { return scan(uint32(parse(t))) }},
		}
	}
	{
		var x tex.UnixNano2Time
		ws = append(ws, &wrap{ty: "scannano", kind: "scan", reset: func() { x = tex.UnixNano2Time(time.Unix(0, 7777)) },
			scanner: func(v interface{}) error { return x.Scan(v) },
			timeText: func(t time.Time) (string, bool) {
				if t.Year() < 1700 || t.Year() > 2250 {
					return "", false
				}
				return strconv.FormatInt(t.UnixNano(), 10), true
			},
			val: func() interface{} { return valI(time.Time(x).UnixNano(), 10) }, gval: gI, genv: genI64,
			dec: scanKinds(func(v interface{}) error { return x.Scan(v) }),
			rt: []rtvia{{"sql", func(v g) ([]byte, error) {
				dv, err := tex.UnixNano2Time(time.Unix(0, v.i)).Value()
				if err != nil {
					return nil, err
				}
				return []byte(fmt.Sprint(dv)), x.Scan(dv)
			}}}})
	}
	{
		var x tex.Unix2Time
		ws = append(ws, &wrap{ty: "scanunix", kind: "scan", reset: func() { x = tex.Unix2Time(time.Unix(7777, 0)) },
			scanner: func(v interface{}) error { return x.Scan(v) }, timeText: func(t time.Time) (string, bool) { return strconv.FormatInt(t.Unix(), 10), true },
			val: func() interface{} { return valI(time.Time(x).Unix(), 10) }, gval: gI, genv: genI64,
			dec: scanKinds(func(v interface{}) error { return x.Scan(v) }),
			rt: []rtvia{{"sql", func(v g) ([]byte, error) {
				dv, err := tex.Unix2Time(time.Unix(v.i, 0)).Value()
				if err != nil {
					return nil, err
				}
				return []byte(fmt.Sprint(dv)), x.Scan(dv)
			}}}})
	}
	// UnixStamp / SQLTime2Unix as SQL datetime: Value gives a time.Time, Scan takes it back
	{
		var x tex.UnixStamp
		ws = append(ws, &wrap{ty: "sqlstamp", kind: "none", reset: func() { x = 7777 },
			scanner: func(v interface{}) error { return x.Scan(v) }, timeText: func(t time.Time) (string, bool) { return strconv.FormatInt(t.Unix(), 10), true },
			val: func() interface{} { return valI(int64(x), 10) }, gval: gI, genv: genI64,
			rt: []rtvia{{"sql", func(v g) ([]byte, error) {
				dv, err := tex.UnixStamp(v.i).Value()
				if err != nil {
					return nil, err
				}
				return timeText(dv), x.Scan(dv)
			}}}})
	}
	{
		var x tex.SQLTime2Unix
		ws = append(ws, &wrap{ty: "sqltime", kind: "none", reset: func() { x = 7777 },
			scanner: func(v interface{}) error { return x.Scan(v) }, timeText: func(t time.Time) (string, bool) { return strconv.FormatInt(t.Unix(), 10), true },
			val: func() interface{} { return valI(int64(x), 10) }, gval: gI, genv: genI64,
			rt: []rtvia{{"sql", func(v g) ([]byte, error) {
				dv, err := tex.SQLTime2Unix(v.i).Value()
				if err != nil {
					return nil, err
				}
				return timeText(dv), x.Scan(dv)
			}}}})
	}
	// JsByte text form without JSON: FromString / ToString / ToJS
	{
		var x tex.JsByte
		ws = append(ws, &wrap{ty: "bytestext", kind: "rawlist", reset: func() { x = tex.JsByte{7, 77} },
			scribble: func() { scribbleBytes(x) },
			fresh:    func() { x = nil },
			keep: func() func() interface{} {
				v := x
				return func() interface{} { return bytesVal(v) }
			},
			val: func() interface{} { return bytesVal(x) }, gval: gB, genv: genBytes,
			dec: []via{{"fromstring", func(t []byte) error { return x.FromString(string(t)) }}},
			rt: []rtvia{
				{"tostring", func(v g) ([]byte, error) {
					s := tex.JsByte(v.b).ToString()
					return []byte(s), x.FromString(s)
				}},
				{"tojs", func(v g) ([]byte, error) {
					s := tex.JsByte(v.b).ToJS()
					return s, x.FromString(string(s))
				}},
			}})
	}
	// Duration from TOML strings
	{
		var x tex.Duration
		ws = append(ws, &wrap{ty: "durtext", kind: "rawdur", reset: func() { x = 7777 },
			scanner:  func(v interface{}) error { return x.UnmarshalTOML(v) }, // takes interface{}: every kind
			timeText: func(t time.Time) (string, bool) { return "time", true },
			val: func() interface{} { return valI(int64(x), 10) }, gval: gI, genv: genDur,
			dec: []via{{"toml", func(t []byte) error { return x.UnmarshalTOML(string(t)) }}},
			rt: []rtvia{{"toml", func(v g) ([]byte, error) {
				s := time.Duration(v.i).String()
				return []byte(s), x.UnmarshalTOML(s)
			}}}})
	}
	return ws
}

func timeText(dv driver.Value) []byte {
	t, ok := dv.(time.Time)
	if !ok {
		return []byte(fmt.Sprintf("%T", dv))
	}
	return []byte(strconv.FormatInt(t.Unix(), 10))
}

// ------------------------------------------------------------------ token generators

const junk = "abexEXz._,:;+-/ #*~"

var decEdges = []string{"0", "1", "9", "10", "99", "100", "255", "256", "65535", "65536", "2147483647", "2147483648",
	"4294967295", "4294967296", "9007199254740992", "999999999999999999", "1000000000000000000",
	"9223372036854775807", "9223372036854775808", "9999999999999999999", "10000000000000000000",
	"18446744073709551615", "18446744073709551616", "99999999999999999999", "100000000000000000000000"}

func randDigits(r *rand.Rand, n int) string {
	b := make([]byte, n)
	for i := range b {
		b[i] = byte('0' + r.Intn(10))
	}
	return string(b)
}

// magnitude text without sign and without leading zeros
func randMag(r *rand.Rand) string {
	switch r.Intn(3) {
	case 0:
		n, _ := new(big.Int).SetString(decEdges[r.Intn(len(decEdges))], 10)
		n.Add(n, big.NewInt(int64(r.Intn(5)-2)))
		return n.Abs(n).String()
	case 1:
		s := strings.TrimLeft(randDigits(r, 1+r.Intn(25)), "0")
		if s == "" {
			return "0"
		}
		return s
	}
	return strconv.Itoa(r.Intn(1000))
}

func pick(r *rand.Rand, xs ...string) string { return xs[r.Intn(len(xs))] }

func quote(s string) []byte { return []byte(`"` + s + `"`) }

// plain: usable as the content of a JSON string without escapes
func plain(s string) bool {
	if !utf8.ValidString(s) {
		return false
	}
	for i := 0; i < len(s); i++ {
		if s[i] < 32 || s[i] == '"' || s[i] == '\\' || s[i] == 127 {
			return false
		}
	}
	return true
}

// scalarToken: a well-formed JSON scalar token (what a JSON library hands to UnmarshalJSON)
func scalarToken(t []byte) bool {
	if len(t) == 0 || t[0] == '{' || t[0] == '[' || t[0] == ' ' || t[len(t)-1] == ' ' {
		return false
	}
	if t[0] == '"' {
		// escapes allowed (the decoders get the raw token); surrogate escapes are not judged, not made
		return len(t) >= 2 && t[len(t)-1] == '"' && utf8.Valid(t) && json.Valid(t)
	}
	return json.Valid(t)
}

// escaped: the same string content written with JSON escapes, sometimes with one more escaped
// character at an end or inside
func escaped(r *rand.Rand, content string) string {
	var b strings.Builder
	for _, c := range content {
		switch k := r.Intn(10); {
		case k < 3 && c < 0xd800:
			if r.Intn(2) == 0 {
				fmt.Fprintf(&b, `\u%04x`, c)
			} else {
				fmt.Fprintf(&b, `\u%04X`, c)
			}
		case c == '/' && k < 6:
			b.WriteString(`\/`)
		default:
			b.WriteRune(c)
		}
	}
	s := b.String()
	if r.Intn(3) == 0 {
		ins := pick(r, `\n`, `\t`, `\r`, `\f`, `\b`, `\"`, `\\`, `\u0020`, `\u00b5s`, `\u0661`, `\u0000`, `\u000a`)
		switch r.Intn(3) {
		case 0:
			s = ins + s
		case 1:
			s += ins
		default:
			p := r.Intn(len(content) + 1)
			s = escaped(r, content[:p]) + ins + content[p:]
		}
	}
	return s
}

var escFixed = []string{`"\u0031\u0032"`, `"1\u0032"`, `"\u002d5"`, `"\u002B5"`, `"1\/2"`, `"1\u002f2"`, `"\t12"`, `"12\n"`, `"\u002012"`,
	`"\"12\""`, `"\\12"`, `"12\\"`, `"1\u00b5s"`, `"1\u00B5s"`, `"1\u03bcs"`, `"\u0661\u0662"`, `"\u0031h"`, `"1\u0068"`,
	`"2\u00355"`, `"25\u0036"`, `"\u0030"`, `"\u0000"`, `"1\u00002"`, `"\b1"`, `"\/"`, `"\u0022"`}

// escTokens: escaped spellings of a sample of the quoted tokens
func escTokens(r *rand.Rand, toks [][]byte, n int) [][]byte {
	var out [][]byte
	for _, s := range escFixed {
		out = append(out, []byte(s))
	}
	for tries := 0; len(out) < n+len(escFixed) && tries < 20*n; tries++ {
		t := toks[r.Intn(len(toks))]
		if len(t) < 3 || t[0] != '"' || !plain(string(t[1:len(t)-1])) {
			continue
		}
		e := quote(escaped(r, string(t[1:len(t)-1])))
		if scalarToken(e) {
			out = append(out, e)
		}
	}
	return out
}

func withJunk(r *rand.Rand, s string) string {
	p := r.Intn(len(s) + 1)
	c := junk[r.Intn(len(junk))]
	return s[:p] + string(c) + s[p:]
}

// a decimal with point and/or exponent built from an integer text
func fracExp(r *rand.Rand) string {
	m := randMag(r)
	if len(m) > 22 {
		m = m[:22]
	}
	if r.Intn(3) == 0 {
		m += strings.Repeat("0", r.Intn(4))
	}
	s := m
	fl := 0
	if r.Intn(3) > 0 {
		p := 1 + r.Intn(len(m))
		if p < len(m) {
			s = m[:p] + "." + m[p:]
			fl = len(m) - p
		} else {
			z := 1 + r.Intn(3)
			s = m + "." + strings.Repeat("0", z)
			fl = z
		}
		if r.Intn(5) == 0 {
			s = "0." + strings.Repeat("0", r.Intn(3)) + m
			fl = len(s) - 2
		}
	}
	if r.Intn(3) > 0 {
		e := r.Intn(28) - 6
		if r.Intn(2) == 0 {
			e = fl + r.Intn(3) - 1 // near the point where the value becomes an integer
		}
		es := strconv.Itoa(e)
		if e >= 0 && r.Intn(3) == 0 {
			es = "+" + es
		}
		s += pick(r, "e", "E") + es
	}
	return pick(r, "", "", "-") + s
}

var decFixed = []string{`null`, `true`, `false`, `""`, `" "`, `"  "`,
	`0`, `1`, `2`, `5`, `9`, `10`, `12`, `-1`, `-0`, `99`, `100`, `101`, `105`, `123`, `-12`, `-123`, `1234`, `120`,
	`1.5`, `1.0`, `10.0`, `-0.0`, `0.0`, `1e3`, `1E3`, `1e+3`, `15e-1`, `1.5e1`, `150e-1`, `0e0`, `0e999`, `1e-3`, `0.000`,
	`1e18`, `1e19`, `1e20`, `9.223372036854775807e18`, `9.223372036854775808e18`, `1.8446744073709551615e19`, `1e400`, `-1e400`,
	`1e-400`, `123e0`, `1230e-1`, `12.3e1`, `0.5`, `-0.5`, `2e0`,
	`"+"`, `"-"`, `"--1"`, `"+-1"`, `"1-"`, `"1 2"`, `" 12"`, `"12 "`, `" 12 "`, `"1_000"`, `"0x10"`, `"0b1"`, `"0o7"`, `"1,2"`,
	`"１２"`, `"١٢"`, `"12abc"`, `"abc"`, `"a"`, `"1e3"`, `"1.0"`, `"1.5"`, `".5"`, `"5."`, `"."`, `"e"`, `"1e"`, `"e1"`,
	`"Infinity"`, `"NaN"`, `"nil"`, `"null"`, `"true"`, `"+0"`, `"-0"`, `"-000"`, `"000"`, `"00012"`, `"+12"`, `"+ 12"`, `"- 12"`,
	`"1/2"`, `"12h"`, `"0"`, `"1"`, `"7"`, `"'12'"`, `"(12)"`, `"12."`, `"12.0"`, `"12e0"`, `"1.2e1"`}

func decTokens(r *rand.Rand, n int) [][]byte {
	var out [][]byte
	for _, s := range decFixed {
		out = append(out, []byte(s))
	}
	for _, e := range decEdges {
		for _, sg := range []string{"", "-", "+"} {
			out = append(out, quote(sg+e))
			if sg != "+" {
				out = append(out, []byte(sg+e))
			}
		}
		out = append(out, quote("0"+e), quote(" "+e), quote(e+" "))
	}
	for len(out) < n+len(decFixed)+len(decEdges)*8 {
		var t []byte
		switch k := r.Intn(100); {
		case k < 40:
			t = quote(pick(r, "", "", "-", "-", "+") + strings.Repeat("0", []int{0, 0, 0, 1, 2, 3}[r.Intn(6)]) + randMag(r))
		case k < 58:
			t = []byte(pick(r, "", "-") + randMag(r))
		case k < 66:
			t = quote(strings.Repeat(" ", r.Intn(3)) + pick(r, "", "-", "+") + randMag(r) + strings.Repeat(" ", r.Intn(3)))
		case k < 78:
			t = quote(withJunk(r, pick(r, "", "-")+randMag(r)))
		case k < 90:
			t = []byte(fracExp(r))
		case k < 95:
			t = quote(fracExp(r))
		default:
			t = []byte(withJunk(r, pick(r, "", "-")+randMag(r)))
		}
		if !scalarToken(t) {
			t = quote(string(t))
			if !scalarToken(t) {
				continue
			}
		}
		out = append(out, t)
	}
	return out
}

var listElems = []string{"0", "1", "9", "10", "99", "100", "127", "128", "200", "254", "255", "256", "257", "300", "511", "512",
	"-1", "-0", "+5", "007", "0255", "0256", "1000", "65536", "65541", "4294967296", "4294967297", "18446744073709551616",
	"18446744073709551617", "-256", "-255"}
var listBad = []string{"", " 1", "1 ", "a", "1.0", "1e2", "2.5", "1e0", "0x1", " "}

var listFixed = []string{`null`, `true`, `false`, `""`, `" "`, `"/"`, `"//"`, `"1/"`, `"/1"`, `"1//2"`, `"1,2"`, `"1/2/3"`,
	`0`, `1`, `7`, `12`, `123`, `255`, `256`, `1255`, `2550`, `-1`, `-12`, `1.5`, `1e2`, `120`, `"0"`, `"255"`, `"256"`, `"-1"`,
	`"0/128/255"`, `"1/256"`, `"256/1"`, `"1/2/"`, `"a"`, `"1/a"`, `"1 /2"`, `"1/ 2"`}

func listTokens(r *rand.Rand, n int) [][]byte {
	var out [][]byte
	for _, s := range listFixed {
		out = append(out, []byte(s))
	}
	for _, e := range listElems {
		out = append(out, quote(e), quote("1/"+e), quote(e+"/2"))
	}
	for len(out) < n+len(listFixed)+3*len(listElems) {
		k := r.Intn(7)
		parts := make([]string, k)
		for i := range parts {
			switch j := r.Intn(20); {
			case j < 9:
				parts[i] = strconv.Itoa(r.Intn(256))
			case j < 18:
				parts[i] = listElems[r.Intn(len(listElems))]
			default:
				parts[i] = listBad[r.Intn(len(listBad))]
			}
		}
		s := strings.Join(parts, pickW(r, "/", 20, ",", 1, " ", 1))
		if r.Intn(25) == 0 {
			s += "/"
		}
		var t []byte
		if r.Intn(12) == 0 {
			t = []byte(strconv.Itoa(r.Intn(3000) - 300))
		} else {
			t = quote(s)
		}
		if scalarToken(t) {
			out = append(out, t)
		}
	}
	return out
}

func pickW(r *rand.Rand, a string, wa int, b string, wb int, c string, wc int) string {
	k := r.Intn(wa + wb + wc)
	if k < wa {
		return a
	}
	if k < wa+wb {
		return b
	}
	return c
}

// durations: components whose fraction is a whole number of nanoseconds (the property says
// nothing about texts like "1.5ns", and Go's float arithmetic on them is not neptune's)
var durUnits = []struct {
	u  string
	fl int
}{{"ns", 0}, {"us", 3}, {"µs", 3}, {"μs", 3}, {"ms", 6}, {"s", 9}, {"m", 10}, {"h", 11}}
var durBadUnits = []string{"d", "S", "H", "sec", "", "hr", "M", "n", "u", " s"}

func durComp(r *rand.Rand) string {
	un := durUnits[r.Intn(len(durUnits))]
	ip := pick(r, "0", "1", "2", "9", "10", "59", "60", "61", "100", "999", "1000", "2562047", "2562048", "47", "16", "153722867",
		"9223372036", "9223372037", "9223372036854775807", "9223372036854775808", "9223372036854", "9223372036855", "",
		strconv.Itoa(r.Intn(100000)), randDigits(r, 1+r.Intn(12)))
	s := ip
	if un.fl > 0 && r.Intn(3) == 0 {
		f := pick(r, "", "0", "5", "25", "854775807", "854775808", "000000001", randDigits(r, 1+r.Intn(un.fl)))
		s += "." + f[:min(len(f), un.fl)]
	}
	if s == "" {
		s = "1"
	}
	u := un.u
	if r.Intn(25) == 0 {
		u = durBadUnits[r.Intn(len(durBadUnits))]
	}
	return s + u
}

func min(a, b int) int {
	if a < b {
		return a
	}
	return b
}

var durFixed = []string{`null`, `true`, `false`, `""`, `" "`, `"0"`, `"+0"`, `"-0"`, `"1"`, `"100"`, `"s"`, `".s"`, `"1.s"`, `".5s"`,
	`"1d"`, `"1h "`, `" 1h"`, `"1 h"`, `"1h 2m"`, `"--1s"`, `"+-1s"`, `"1s-"`, `"1e3s"`, `"1_0s"`, `"0x1s"`,
	`"9223372036854775807ns"`, `"9223372036854775808ns"`, `"-9223372036854775808ns"`, `"-9223372036854775809ns"`,
	`"2562047h47m16.854775807s"`, `"2562047h47m16.854775808s"`, `"-2562047h47m16.854775808s"`, `"-2562047h47m16.854775809s"`,
	`"2562048h"`, `"-2562048h"`, `"0.000000001s"`, `"1µs"`, `"1μs"`, `"1us"`, `"1ns"`, `"1ms"`, `"1s"`, `"1m"`, `"1h"`, `"1m1ms"`,
	`"1.5h"`, `"-1.5h"`, `"+1.5h"`, `"1h2m3s4ms5us6ns"`, `"0s"`, `"0h0m0s"`, `"00001h"`, `"1.50s"`, `"1.0s"`, `"0.5m"`,
	`"9223372036.854775807s"`, `"9223372036.854775808s"`, `"153722867m16.854775807s"`, `"18446744073709551616ns"`,
	`"99999999999999999999h"`, `"0.00000000001h"`,
	`0`, `1`, `7`, `10`, `100`, `105`, `1000`, `101`, `-10`, `-100`, `1.5`, `1e3`, `100e0`, `1.0e2`, `12345`, `909`, `500`}

func durTokens(r *rand.Rand, n int, quoted bool) [][]byte {
	var out [][]byte
	for _, s := range durFixed {
		if quoted {
			out = append(out, []byte(s))
		} else if s[0] == '"' {
			out = append(out, []byte(s[1:len(s)-1]))
		} else {
			out = append(out, []byte(s))
		}
	}
	for len(out) < n+len(durFixed) {
		k := 1 + []int{0, 0, 0, 1, 1, 2, 3}[r.Intn(7)]
		s := pick(r, "", "", "", "-", "-", "+")
		for i := 0; i < k; i++ {
			s += durComp(r)
		}
		switch r.Intn(20) {
		case 0:
			s = withJunk(r, s)
		case 1:
			s = " " + s
		case 2:
			s += " "
		}
		var t []byte
		switch {
		case !quoted:
			t = []byte(s)
		case r.Intn(15) == 0:
			t = []byte(pick(r, "", "-") + randMag(r))
		default:
			t = quote(s)
		}
		if quoted && !scalarToken(t) {
			continue
		}
		if !quoted && !plain(string(t)) {
			continue
		}
		out = append(out, t)
	}
	return out
}

func genDur(r *rand.Rand) g {
	units := []int64{1, 1e3, 1e6, 1e9, 60e9, 3600e9}
	switch r.Intn(5) {
	case 0:
		return genI64(r)
	case 1:
		return g{i: int64(r.Intn(200)-100) * units[r.Intn(6)]}
	case 2:
		return g{i: int64(r.Intn(100))*units[r.Intn(6)] + int64(r.Intn(1000))*units[r.Intn(4)]}
	case 3:
		return g{i: -int64(r.Uint64() >> uint(1+r.Intn(63)))}
	}
	return g{i: int64(r.Uint64() >> uint(1+r.Intn(63)))}
}

func radTokens(r *rand.Rand, n int, base int) [][]byte {
	const all = "0123456789abcdefghijklmnopqrstuvwxyz"
	var fixed []string
	if base == 16 {
		fixed = []string{"", "0", "-0", "+0", "7fffffffffffffff", "8000000000000000", "-8000000000000000", "-8000000000000001",
			"ffffffffffffffff", "10000000000000000", "FFFFFFFFFFFFFFFF", "0x10", "0X10", "-0x10", "0x", "x", "1_0", " 1", "1 ", "g", "1g",
			"00000000000000000001", "0000000000000000ffffffffffffffff", "+ff", "-ff", "--1", "+-1", "-", "+", "7FFFFFFFFFFFFFFF", "1.0", "1e1", "aBcD"}
	} else {
		fixed = []string{"", "0", "-0", "+0", "7vvvvvvvvvvvv", "8000000000000", "-8000000000000", "-8000000000001", "fvvvvvvvvvvvv",
			"g000000000000", "FVVVVVVVVVVVV", "vvvvvvvvvvvvv", "10000000000000", "0x10", "w", "1w", "z", " 1", "1 ", "1_0",
			"000000000000000000001", "0000fvvvvvvvvvvvv", "+vv", "-vv", "--1", "-", "+", "1.0", "aV"}
	}
	var out [][]byte
	for _, s := range fixed {
		out = append(out, []byte(s))
	}
	for len(out) < n+len(fixed) {
		l := 1 + r.Intn(18)
		b := make([]byte, l)
		for i := range b {
			c := all[r.Intn(base)]
			if r.Intn(3) == 0 && c >= 'a' {
				c -= 32
			}
			b[i] = c
		}
		s := pick(r, "", "", "", "-", "-", "+") + strings.Repeat("0", []int{0, 0, 0, 1, 3}[r.Intn(5)]) + string(b)
		switch r.Intn(14) {
		case 0:
			s = withJunk(r, s)
		case 1:
			p := r.Intn(len(s) + 1)
			s = s[:p] + string(all[base+r.Intn(len(all)-base)]) + s[p:]
		}
		if plain(s) {
			out = append(out, []byte(s))
		}
	}
	return out
}

func b64Tokens(r *rand.Rand, n int) [][]byte {
	const alpha = "ABCDEFGHIJKLMNOPQRSTUVWXYZabcdefghijklmnopqrstuvwxyz0123456789+/"
	fixed := []string{"", "Q", "QQ", "QR", "QUI", "QUJ", "QUJD", "QUJDR", "QQ==", "QQ=", "QUI=", "QUI==", "QUJD=", "====", "=", "Q=Q",
		"QQ\n", "QU\nJD", "QU\r\nJD", "QQ ", " QQ", "Q Q", "QQ-", "QQ_", "-_-_", "+/+/", "////", "AAAA", "AA", "AAA", "/w", "/w==", "//8", "//8="}
	var out [][]byte
	for _, s := range fixed {
		out = append(out, []byte(s))
	}
	for len(out) < n+len(fixed) {
		l := r.Intn(15)
		b := make([]byte, l)
		for i := range b {
			b[i] = alpha[r.Intn(64)]
		}
		s := string(b)
		switch r.Intn(12) {
		case 0:
			s += "="
		case 1:
			s += "=="
		case 2:
			if l > 0 {
				p := r.Intn(l)
				s = s[:p] + pick(r, "-", "_", " ", "\n", "=", ".", "*", "\r\n") + s[p:]
			}
		}
		out = append(out, []byte(s))
	}
	return out
}

// integers as a SQL driver hands them over; the via decides the Go kind, so the value must fit
func scanTokens(r *rand.Rand, n int) map[string][][]byte {
	m := map[string][][]byte{}
	add := func(k string, v int64) { m[k] = append(m[k], []byte(strconv.FormatInt(v, 10))) }
	for i := 0; i < n; i++ {
		v := genI64(r).i
		add("int64", v)
		add("int", v)
		add("int32", int64(int32(v)))
		if v < 0 {
			v = -(v + 1)
		}
		add("uint64", v)
		add("uint", v)
		add("uint32", int64(uint32(v)))
	}
	return m
}

// every string over alphabet up to maxLen that is a well-formed JSON scalar token
func enumerate(alphabet string, maxLen int, keep func([]byte) bool) [][]byte {
	var out [][]byte
	var rec func(cur []byte)
	rec = func(cur []byte) {
		if len(cur) > 0 && keep(cur) {
			out = append(out, append([]byte{}, cur...))
		}
		if len(cur) == maxLen {
			return
		}
		for i := 0; i < len(alphabet); i++ {
			rec(append(cur, alphabet[i]))
		}
	}
	rec(nil)
	return out
}

// ------------------------------------------------------------------ execution

type runner struct {
	w      *tr.W
	wr     *wrap
	n      int
	maxLen int
	decs   int
	rts    int
	traces int
	pool   [][]byte // private copies of wire forms the encoders produced (texts that decode)
	// cold-start rounds run several runners at once: events are collected and written afterwards
	buffered bool
	buf      []tr.E
}

func (x *runner) emit(e tr.E) {
	if x.buffered {
		x.buf = append(x.buf, e)
		return
	}
	x.w.Emit(e)
}

// progress of the calls into the code under test, for the watchdog
var inCalls, lastDone atomic.Int64

// watchdog: a call into neptune that does not come back is an observation (a `hang` event the
// trace spec cannot explain), not a harness timeout.
func watchdog(w *tr.W, limit time.Duration) {
	lastDone.Store(time.Now().UnixNano())
	go func() {
		for {
			time.Sleep(500 * time.Millisecond)
			if inCalls.Load() > 0 && time.Since(time.Unix(0, lastDone.Load())) > limit {
				w.Emit(tr.E{"ev": "reset", "ty": "hang", "cur": valI(0, 10)})
				w.Emit(tr.E{"ev": "hang", "calls": int(inCalls.Load())})
				w.Close()
				fmt.Println("a call into the code under test did not return")
				os.Exit(0)
			}
		}
	}()
}

func call(f func() error) (out string) {
	inCalls.Add(1)
	defer func() {
		lastDone.Store(time.Now().UnixNano())
		inCalls.Add(-1)
	}()
	defer func() {
		if p := recover(); p != nil {
			s := fmt.Sprint(p)
			if len(s) > 80 {
				s = s[:80]
			}
			out = "panic: " + s
		}
	}()
	if err := f(); err != nil {
		return "err"
	}
	return "ok"
}

func (x *runner) begin() {
	x.wr.reset()
	x.emit(tr.E{"ev": "reset", "ty": x.wr.ty, "cur": x.wr.val()})
	x.n = 0
	x.traces++
}

func (x *runner) step() {
	if x.n >= x.maxLen {
		x.begin()
	}
	x.n++
}

// dec: the decoder gets its own buffer; tok stays the harness's private copy, so `inmut` says
// whether the decoder wrote into its argument.
func (x *runner) dec(v via, tok []byte) {
	x.step()
	in := append(make([]byte, 0, len(tok)), tok...)
	out := call(func() error { return v.f(in) })
	x.emit(tr.E{"ev": "dec", "via": v.name, "tok": tr.Ints(tok), "out": out, "v": x.wr.val(),
		"inmut": !bytes.Equal(in, tok), "keep": false})
	x.decs++
	scribbleBytes(in) // the source buffer is the caller's again
	if x.wr.scribble != nil && out == "ok" && x.decs%3 == 0 {
		x.wr.scribble() // and so is the value: the caller overwrites it and carries on
		x.freshDest()
	}
}

// repeat: one decode and one round trip done n times in a row (n around 2^8 and 2^16: counters,
// sequence numbers, pools that a change may have introduced and narrowed).  Consecutive calls with
// the same observable outcome are logged as one event with the run length `rep`; the variable is
// in the same state before each of them, so the event stands for all of them.
func (x *runner) repeat(v via, tok []byte, rv rtvia, val g, n int) {
	type obs struct{ out, v string }
	render := func(out string) obs { return obs{out, fmt.Sprint(x.wr.val())} }
	flush := func(e tr.E, rep int) {
		if e != nil {
			e["rep"] = rep
			x.emit(e)
		}
	}
	if x.n+70 >= x.maxLen {
		x.begin()
	}
	events := 0
	if len(x.wr.dec) > 0 && x.wr.kind != "scan" {
		var cur tr.E
		var last obs
		rep := 0
		for i := 0; i < n && events < 30; i++ {
			in := append(make([]byte, 0, len(tok)), tok...)
			out := call(func() error { return v.f(in) })
			o := render(out)
			if i > 1 && o == last && bytes.Equal(in, tok) { // i = 0 sets the state, i = 1 starts the run
				rep++
				continue
			}
			flush(cur, rep)
			x.n++
			events++
			cur = tr.E{"ev": "dec", "via": v.name, "tok": tr.Ints(tok), "out": out, "v": x.wr.val(),
				"inmut": !bytes.Equal(in, tok), "keep": false}
			last, rep = o, 1
			x.decs++
		}
		flush(cur, rep)
	}
	var cur tr.E
	var last obs
	var lastEnc []byte
	rep := 0
	events = 0
	for i := 0; i < n && events < 30; i++ {
		x.wr.reset()
		var enc []byte
		out := call(func() error {
			var err error
			enc, err = rv.f(val)
			return err
		})
		if enc == nil {
			enc = []byte{}
		}
		o := render(out)
		if i > 0 && o == last && bytes.Equal(enc, lastEnc) {
			rep++
			scribbleBytes(enc)
			continue
		}
		flush(cur, rep)
		x.n++
		events++
		cur = tr.E{"ev": "rt", "via": rv.name, "v": x.wr.gval(val), "enc": tr.Ints(enc), "out": out, "back": x.wr.val(), "keep": false}
		last, lastEnc, rep = o, append([]byte{}, enc...), 1
		x.rts++
		scribbleBytes(enc)
	}
	flush(cur, rep)
}

// bigRoundTrip: very long lists (lengths around 2^16), both sides logged run-length encoded
func (x *runner) bigRoundTrip(v rtvia, val g) {
	x.step()
	x.wr.reset()
	var enc []byte
	out := call(func() error {
		var err error
		enc, err = v.f(val)
		return err
	})
	x.emit(tr.E{"ev": "rt", "via": v.name, "v": rle(x.wr.gval(val)), "enc": []int{}, "enclen": len(enc), "out": out,
		"back": rle(x.wr.val()), "keep": false})
	x.rts++
	x.freshDest() // back to a variable whose value is logged in full
}

// scanAny: the sql.Scanner entry is handed every kind of source value database/sql can produce
// (int64, float64, bool, []byte, string, time.Time, nil), each logged with its text.
func (x *runner) scanAny(rng *rand.Rand, n int) {
	type src struct {
		kind string
		v    interface{}
		tok  string
	}
	var srcs []src
	ints := []int64{0, 1, -1, 7777, 1700000000, 1700000000123456789, math.MaxInt64, math.MinInt64}
	floats := []float64{0, 1, -1, 1.5, 0.5, -2.5e9, 1e18, 1e19, 9007199254740993, 1700000000, math.Copysign(0, -1),
		math.NaN(), math.Inf(1), math.Inf(-1), 1e-9, 123456789.000001}
	texts := []string{"123", "", " 12", "-5", "1.5", "abc", "1e3", "QUJD", "QQ", "QR", "Q", "2023-01-01 00:00:00",
		"9223372036854775808", "1700000000", "0", "true", "null", "7777"}
	times := []time.Time{time.Unix(0, 0), time.Unix(7777, 0), time.Unix(1700000000, 123456789), time.Unix(-1, 0),
		time.Unix(-1, 999), {}, time.Unix(1<<40, 0), time.Unix(86400, 5).In(time.FixedZone("x", 3*3600)),
		time.Date(2262, 4, 11, 23, 47, 16, 854775807, time.UTC), time.Date(1969, 12, 31, 23, 59, 59, 999999999, time.UTC)}
	for i := 0; i < n; i++ {
		ints = append(ints, genI64(rng).i)
		floats = append(floats, float64(genI64(rng).i>>uint(rng.Intn(40))), float64(rng.Intn(100000))/8)
		times = append(times, time.Unix(rng.Int63n(1<<33)-(1<<31), rng.Int63n(1e9)))
		if len(x.pool) > 0 {
			texts = append(texts, string(x.pool[rng.Intn(len(x.pool))]))
		}
		texts = append(texts, strconv.FormatInt(genI64(rng).i, 10))
	}
	for _, v := range ints {
		srcs = append(srcs, src{"int64", v, strconv.FormatInt(v, 10)})
	}
	for _, v := range floats {
		srcs = append(srcs, src{"float64", v, strconv.FormatFloat(v, 'f', -1, 64)})
	}
	srcs = append(srcs, src{"bool", true, "true"}, src{"bool", false, "false"}, src{"nil", nil, "null"})
	// further dynamic kinds an interface{} parameter can carry
	var np *int64
	n7 := int64(7)
	srcs = append(srcs, src{"other", np, "nilptr"}, src{"other", &n7, "ptr"}, src{"other", struct{ A int }{7}, "struct"},
		src{"other", map[string]int{"a": 7}, "map"}, src{"other", []int{7}, "ints"}, src{"other", func() {}, "func"},
		src{"other", json.Number("7"), "json.Number"}, src{"other", int8(7), "int8"}, src{"other", float32(7), "float32"},
		src{"other", []string{"7"}, "strings"}, src{"other", [2]byte{55, 55}, "array"},
		src{"bytes", []byte(nil), ""}, src{"bytes", []byte{}, ""}, src{"string", "", ""})
	for _, v := range texts {
		srcs = append(srcs, src{"string", v, v}, src{"bytes", nil, v})
	}
	for _, v := range times {
		if t, ok := x.wr.timeText(v); ok {
			srcs = append(srcs, src{"time", v, t})
		}
	}
	rng.Shuffle(len(srcs), func(i, j int) { srcs[i], srcs[j] = srcs[j], srcs[i] })
	for _, c := range srcs {
		x.step()
		inmut := false
		var out string
		if c.kind == "bytes" {
			in := append(make([]byte, 0, len(c.tok)), c.tok...)
			if b, isb := c.v.([]byte); isb && b == nil {
				in = nil // a nil []byte is a source of its own
			}
			out = call(func() error { return x.wr.scanner(in) })
			inmut = string(in) != c.tok
		} else {
			v := c.v
			out = call(func() error { return x.wr.scanner(v) })
		}
		x.emit(tr.E{"ev": "scan", "kind": c.kind, "tok": tr.Str(c.tok), "out": out, "v": x.wr.val(), "inmut": inmut})
		x.decs++
	}
}

// decNil: a nil source
func (x *runner) decNil(v via) {
	x.step()
	out := call(func() error { return v.f(nil) })
	x.emit(tr.E{"ev": "dec", "via": v.name, "tok": []int{}, "out": out, "v": x.wr.val(), "inmut": false, "keep": false})
	x.decs++
}

func (x *runner) freshDest() {
	if x.wr.fresh != nil {
		x.wr.fresh()
	} else {
		x.wr.reset()
	}
	x.emit(tr.E{"ev": "fresh", "cur": x.wr.val()})
}

func (x *runner) keepNow() func() interface{} {
	if x.wr.keep != nil {
		return x.wr.keep()
	}
	r := x.wr.val()
	return func() interface{} { return r }
}

// rows: the harness behaves like a database/sql driver (or a JSON reader) with ONE reusable
// buffer: each row's text is copied into it and handed to the decoder, every row is decoded into
// a fresh destination, and the same source is sometimes decoded twice.  Results (and encoder
// outputs) are kept exactly as returned and rendered only when the history is over (`final`):
// what a call reported must still be what it reported.
func (x *runner) rows(rng *rand.Rand, texts [][]byte, nrows int) {
	x.begin()
	col := make([]byte, 0, 64)
	var kept []func() interface{}
	var in, text []byte
	var seen [][]byte
	for r := 0; r < nrows; r++ {
		switch k := rng.Intn(10); {
		case r > 0 && k < 2: // the same source once more
		case k < 5 && len(x.wr.rt) > 0: // the next row is what the encoder makes of a value
			val := x.wr.genv(rng)
			rv := x.wr.rt[rng.Intn(len(x.wr.rt))]
			x.freshDest()
			var enc []byte
			out := call(func() error {
				var err error
				enc, err = rv.f(val)
				return err
			})
			if enc == nil {
				enc = []byte{}
			}
			x.emit(tr.E{"ev": "rt", "via": rv.name, "v": x.wr.gval(val), "enc": tr.Ints(enc), "out": out,
				"back": x.wr.val(), "keep": true})
			x.rts++
			e := enc
			kept = append(kept, func() interface{} { return tr.Ints(e) }, x.keepNow())
			text = append([]byte{}, enc...)
			in = append(col[:0], text...)
			col = in[:0]
		default:
			if len(seen) > 1 && rng.Intn(3) == 0 {
				text = seen[rng.Intn(len(seen))] // an earlier row's text again (A B A)
			} else {
				text = texts[rng.Intn(len(texts))]
			}
			in = append(col[:0], text...)
			col = in[:0]
		}
		seen = append(seen, text)
		x.freshDest()
		v := x.wr.dec[rng.Intn(len(x.wr.dec))]
		src := in
		out := call(func() error { return v.f(src) })
		ok := out == "ok"
		x.emit(tr.E{"ev": "dec", "via": v.name, "tok": tr.Ints(text), "out": out, "v": x.wr.val(),
			"inmut": !bytes.Equal(in, text), "keep": ok})
		x.decs++
		if ok {
			kept = append(kept, x.keepNow())
		}
	}
	vals := make([]interface{}, len(kept))
	for i, k := range kept {
		vals[i] = k()
	}
	x.emit(tr.E{"ev": "final", "vals": vals})
	x.n = x.maxLen
}

func (x *runner) roundTrip(v rtvia, val g) {
	x.step()
	x.wr.reset() // a decoder that silently does nothing must not look like a round trip
	var enc []byte
	out := call(func() error {
		var err error
		enc, err = v.f(val)
		return err
	})
	if enc == nil {
		enc = []byte{}
	}
	x.emit(tr.E{"ev": "rt", "via": v.name, "v": x.wr.gval(val), "enc": tr.Ints(enc), "out": out, "back": x.wr.val(),
		"keep": false})
	x.rts++
	if out == "ok" && len(x.pool) < 400 {
		x.pool = append(x.pool, append([]byte{}, enc...))
	}
	// the wire form is also a text of its own: what it is decoded to must be what it denotes
	if len(x.wr.dec) > 0 && x.wr.kind != "scan" {
		x.dec(x.wr.dec[0], enc)
	}
	// the caller owns what it was given: it overwrites the wire form (and the decoded aggregate)
	scribbleBytes(enc)
	if x.wr.scribble != nil {
		x.wr.scribble()
		x.freshDest()
	}
}

// genTokens: boundary + seeded texts for a token family, and the small-scope exhaustive set
func genTokens(kind string, rng *rand.Rand, ntok, elen int) (toks, exh [][]byte) {
	all := func([]byte) bool { return true }
	switch kind {
	case "dec":
		toks = decTokens(rng, ntok)
		exh = enumerate("\"-012.e ", elen+1, scalarToken)
	case "dur":
		toks = durTokens(rng, ntok, true)
		exh = enumerate("\"-10.hms", elen+2, scalarToken)
	case "list":
		toks = listTokens(rng, ntok)
		exh = enumerate("\"-/0256", elen+2, scalarToken)
	case "hex16":
		toks = radTokens(rng, ntok, 16)
		exh = enumerate("-+0f9xG", elen, all)
	case "hex32":
		toks = radTokens(rng, ntok, 32)
		exh = enumerate("-+0v9wG", elen, all)
	case "b64":
		toks = b64Tokens(rng, ntok)
		exh = enumerate("QR/w=-\n", elen, all)
	case "rawlist":
		for _, t := range listTokens(rng, ntok) {
			if t[0] == '"' {
				toks = append(toks, t[1:len(t)-1])
			}
		}
		exh = enumerate("-/0256 ", elen, all)
	case "rawdur":
		toks = durTokens(rng, ntok, false)
		exh = enumerate("-10.hms", elen, all)
	}
	return
}

var sizes = []int{2, 3, 4, 5, 6, 7, 8, 9, 15, 16, 17, 31, 32, 33, 47, 48, 49, 63, 64, 65, 127, 128, 129, 255, 256, 257, 300}

// extremes of the value domain of a wrapper (round trips start with these)
func extremes(wr *wrap) []g {
	var vals []g
	switch wr.gval(g{}).(type) {
	case []int:
		vals = []g{{b: nil}, {b: []byte{}}, {b: []byte{0}}, {b: []byte{255}}, {b: []byte{0, 0}}, {b: []byte{1, 2, 3}}, {b: []byte{255, 0, 128, 127}}}
		// lengths around the block sizes in sight (base64 groups of 3, 64-byte small buffers, 256,
		// 1 KiB decoder chunks; 4 KiB pages in the thorough tier)
		all := make([]byte, 4200)
		for i := range all {
			all[i] = byte(i*7 + i/256)
		}
		for _, n := range sizes {
			vals = append(vals, g{b: all[:n]})
		}
	default:
		for _, i := range []int64{0, 1, -1, math.MaxInt64, math.MinInt64, math.MaxInt64 - 1, math.MinInt64 + 1, math.MaxInt32, math.MinInt32,
			1e9, -1e9, 1500000000, -1500000000, 3600e9, -3600e9, 1e6, 1001, 999999999, -999999999, 60e9 + 1,
			-62135596800 /* the zero time.Time in seconds */} {
			vals = append(vals, g{i: i, u: uint64(i)})
		}
		vals = append(vals, g{i: -1, u: math.MaxUint64}, g{i: math.MinInt64, u: 1 << 63})
	}
	return vals
}

// coldRound: the very first use of the package in this process is made by several goroutines at
// once (released together by a spin barrier), each with its own set of wrapper variables.  The
// wrappers share nothing a caller can see, so every goroutine's history must be explained on its
// own; events are collected per goroutine and written afterwards.
func coldRound(w *tr.W, seed int64, workers int) {
	var gate atomic.Int32
	var wg sync.WaitGroup
	runs := make([][]*runner, workers)
	for i := 0; i < workers; i++ {
		ws := wrappers()
		for _, wr := range ws {
			runs[i] = append(runs[i], &runner{w: w, wr: wr, maxLen: 120, buffered: true})
		}
		wg.Add(1)
		go func(i int) {
			defer wg.Done()
			rng := rand.New(rand.NewSource(seed*131 + int64(i)))
			type job struct {
				toks [][]byte
				vals []g
			}
			jobs := make([]job, len(runs[i]))
			for k, x := range runs[i] { // inputs are made before the barrier, without touching tex
				toks, _ := genTokens(x.wr.kind, rng, 4, 0)
				rng.Shuffle(len(toks), func(a, b int) { toks[a], toks[b] = toks[b], toks[a] })
				if len(toks) > 10 {
					toks = toks[:10]
				}
				vals := extremes(x.wr)
				rng.Shuffle(len(vals), func(a, b int) { vals[a], vals[b] = vals[b], vals[a] })
				vals = append(vals[:3:3], x.wr.genv(rng), x.wr.genv(rng))
				jobs[k] = job{toks, vals}
			}
			gate.Add(1)
			for gate.Load() < int32(workers) {
			}
			for k, x := range runs[i] {
				x.begin()
				for j, v := range jobs[k].vals {
					x.roundTrip(x.wr.rt[(i+j)%len(x.wr.rt)], v)
				}
				if x.wr.kind != "scan" && len(x.wr.dec) > 0 {
					for j, t := range jobs[k].toks {
						x.dec(x.wr.dec[(i+j)%len(x.wr.dec)], t)
					}
				}
			}
		}(i)
	}
	wg.Wait()
	for i := range runs {
		for _, x := range runs[i] {
			for _, e := range x.buf {
				w.Emit(e)
			}
		}
	}
}

func main() {
	out := flag.String("out", "c20.ndjson", "trace file")
	seed := flag.Int64("seed", 1, "seed")
	ntok := flag.Int("n", 300, "random tokens per wrapper (on top of the fixed boundary tokens)")
	nval := flag.Int("vals", 150, "random values per wrapper for round trips")
	elen := flag.Int("elen", 4, "exhaustive part: all tokens up to this length over the small alphabets")
	nrows := flag.Int("rows", 12, "driver-style histories per wrapper (one reused buffer, results kept as returned)")
	cold := flag.Int("cold", 4, "goroutines of the cold-start round that opens the run (0 = none)")
	coldOnly := flag.Bool("coldonly", false, "only the cold-start round")
	big := flag.Bool("big", false, "thorough sizes: lists around 1 KiB / 4 KiB, runs and lists around 2^16")
	flag.Parse()
	if *big {
		sizes = append(sizes, 511, 512, 513, 767, 768, 769, 1023, 1024, 1025)
	}
	rng := rand.New(rand.NewSource(*seed))
	w := tr.Create(*out)
	watchdog(w, 20*time.Second)
	if *cold > 0 {
		coldRound(w, *seed, *cold)
	}
	if *coldOnly {
		w.Close()
		fmt.Printf("events=%d\n", w.N())
		return
	}
	total := map[string]int{}
	for _, wr := range wrappers() {
		x := &runner{w: w, wr: wr, maxLen: 120}
		x.begin()
		toks, exh := genTokens(wr.kind, rng, *ntok, *elen)
		if wr.kind == "scan" {
			m := scanTokens(rng, *ntok/3+10)
			for _, v := range wr.dec {
				for _, t := range m[v.name] {
					x.dec(v, t)
				}
			}
		}
		nfixed := len(toks) - *ntok
		for i, t := range toks {
			if i < nfixed && len(wr.dec) > 1 { // boundary tokens: through every entry point
				for _, v := range wr.dec {
					x.dec(v, t)
				}
			} else {
				x.dec(wr.dec[rng.Intn(len(wr.dec))], t)
			}
		}
		for i, t := range exh {
			x.dec(wr.dec[i%len(wr.dec)], t)
		}
		if wr.kind == "dec" || wr.kind == "dur" || wr.kind == "list" { // escaped spellings of string tokens
			for i, t := range escTokens(rng, toks, *ntok/6+10) {
				if i < len(escFixed) {
					for _, v := range wr.dec {
						x.dec(v, t)
					}
				} else {
					x.dec(wr.dec[rng.Intn(len(wr.dec))], t)
				}
			}
		}
		// round trips: extremes first, then seeded values
		vals := extremes(wr)
		nx := len(vals)
		for i := 0; i < *nval; i++ {
			vals = append(vals, wr.genv(rng))
		}
		for i, v := range vals {
			if i < nx && len(v.b) <= 70 {
				for _, rv := range wr.rt {
					x.roundTrip(rv, v)
				}
			} else {
				x.roundTrip(wr.rt[rng.Intn(len(wr.rt))], v)
			}
		}
		// degenerate sources: nothing at all
		if wr.kind == "dec" || wr.kind == "dur" || wr.kind == "list" {
			x.dec(wr.dec[0], []byte{})
			x.decNil(wr.dec[0])
		}
		// long runs of one operation, very long lists
		runs := []int{257}
		if *big {
			runs = []int{255, 256, 257, 65535, 65536, 65537}
		}
		for _, n := range runs {
			v := vals[rng.Intn(len(vals))]
			var d via
			var tok []byte
			if len(wr.dec) > 0 && len(x.pool) > 0 {
				d, tok = wr.dec[rng.Intn(len(wr.dec))], x.pool[rng.Intn(len(x.pool))]
			}
			x.repeat(d, tok, wr.rt[rng.Intn(len(wr.rt))], v, n)
		}
		if _, isList := wr.gval(g{}).([]int); isList {
			lens := []int{4095, 4096, 4097}
			if *big {
				lens = append(lens, 65535, 65536, 65537)
			}
			for _, n := range lens {
				b := make([]byte, n)
				for i := range b {
					b[i] = byte(i / 1000)
				}
				b[n-1] = 7
				for _, rv := range wr.rt {
					x.bigRoundTrip(rv, g{b: b})
				}
			}
		}
		if wr.scanner != nil {
			x.scanAny(rng, *ntok/25+4)
		}
		if len(wr.dec) > 0 && wr.kind != "scan" {
			texts := append([][]byte{}, x.pool...)
			for i := 0; i < len(toks) && i < len(x.pool)/3+5; i++ { // and some texts that may not decode
				texts = append(texts, toks[rng.Intn(len(toks))])
			}
			for i := 0; i < *nrows; i++ {
				x.rows(rng, texts, 3+rng.Intn(8))
			}
		}
		total[wr.ty] = x.decs + x.rts
		fmt.Printf("%s: traces=%d dec=%d rt=%d\n", wr.ty, x.traces, x.decs, x.rts)
	}
	w.Close()
	fmt.Printf("events=%d\n", w.N())
}
