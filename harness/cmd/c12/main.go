// c12: executes queue plans (from specs/queue/Queue_Gen, PriQueue_Gen) and seeded histories against
// the real pipe/q.Q, pipe/async.Q, pipe/mux.Q, pipe/mq.MQ, queue/syncq.SyncQueue and
// queue/priq.PriQueue, recording one ndjson event per call (action, real reply, what the type's
// accessors show afterwards) for validation by TLC (Queue_Trace.tla / PriQueue_Trace.tla).
//
// Only calls that the property says return are issued: a Pop goes out only when the harness's own
// count model of the property (qa.Model; never the implementation's answers) says the queue is
// non-empty or closed.  Every possibly blocking call nevertheless runs on a helper goroutine; if it does not come
// back and the Go runtime reports the goroutine parked in sync.Cond.Wait, the call is logged with
// reply "blocked" (which the specification cannot explain) and the trace ends.
package main

import (
	"bufio"
	"encoding/json"
	"flag"
	"fmt"
	"math"
	"math/rand"
	"os"
	"path/filepath"
	"runtime"
	"sort"
	"strconv"
	"strings"
	"time"

	"verif/harness/cmd/c12/qa"
	"verif/harness/internal/qx"
	"verif/harness/internal/tr"
)

// ---------------------------------------------------------------- helper goroutine for calls that may block
type helper struct {
	cmd chan func() tr.E
	res chan tr.E
	gid int
}

func goid() int {
	var buf [64]byte
	n := runtime.Stack(buf[:], false)
	f := strings.Fields(string(buf[:n]))
	id, _ := strconv.Atoi(f[1])
	return id
}

func newHelper() *helper {
	h := &helper{cmd: make(chan func() tr.E), res: make(chan tr.E, 1)}
	ready := make(chan int)
	go func() {
		ready <- goid()
		for f := range h.cmd {
			h.res <- f()
		}
	}()
	h.gid = <-ready
	return h
}

// call runs f on the helper.  ok=false: the helper is parked inside the call (a fact read from the
// runtime's goroutine states, the timer only decides when to look).
// call runs f on the helper and watches it.  "" = returned; "blocked": the runtime reports the
// helper parked inside the call (a fact read from the goroutine states, the timer only decides when
// to look); "hang": it has neither returned nor parked for a minute - it is running inside the call.
// Both are observations about the code under test, logged as replies no action of the spec has.
func (h *helper) call(f func() tr.E) (tr.E, string) {
	h.cmd <- f
	t := time.NewTimer(300 * time.Millisecond)
	defer t.Stop()
	parkedSeen := 0
	for i := 0; i < 600; i++ {
		select {
		case r := <-h.res:
			return r, ""
		case <-t.C:
			st := qx.Goroutines()[h.gid]
			if st == "sync.Cond.Wait" || st == "chan receive" || st == "select" || st == "sync.Mutex.Lock" ||
				st == "chan send" || st == "semacquire" || st == "sleep" {
				parkedSeen++
				if parkedSeen >= 2 && st != "sleep" || parkedSeen >= 20 {
					return nil, "blocked"
				}
			} else {
				parkedSeen = 0
			}
			t.Reset(100 * time.Millisecond)
		}
	}
	return nil, "hang"
}

func (h *helper) stop() { close(h.cmd) }

// ---------------------------------------------------------------- execution
type runner struct {
	w    *tr.W
	q    qa.Queue
	kind string
	h    *helper
	m    qa.Model // the harness's own count model of the property: decides what is issued
	dead bool     // a call blocked: the trace is over
	// retained results: in a "late" history every item a call handed out is kept AS RETURNED and
	// decoded into the trace only when the history is over (it must still be what it was); the
	// events of such a history are written at its end.  The other histories are written at once.
	late    bool
	buf     []tr.E
	kept    map[int]interface{}
	got     interface{}
	haveGot bool
}

func (r *runner) emit(e tr.E) {
	if !r.late {
		r.w.Emit(e)
		return
	}
	if r.haveGot {
		r.kept[len(r.buf)] = r.got
	}
	r.buf = append(r.buf, e)
}

// finish renders the kept items and writes a late history.
func (r *runner) finish() {
	for i, e := range r.buf {
		if x, ok := r.kept[i]; ok {
			e["r"] = qa.ItemReply(x)
		}
		r.w.Emit(e)
	}
	r.buf = nil
}

func (r *runner) step(a qa.Act) {
	if r.dead || !qa.Supports(r.kind, a) {
		return
	}
	if !r.m.Returns(a) {
		return // would block by the property: not part of the sequential exploration
	}
	if r.h == nil {
		r.h = newHelper()
	}
	r.haveGot = false
	q := r.q
	rep, bad := r.h.call(func() tr.E { return qa.Safe(q, a) }) // every call is watched, not only Pops
	if bad != "" {
		r.haveGot = false
		r.emit(tr.E{"ev": "call", "a": a.Rec(), "r": qa.Rp(bad, 0), "obs": tr.E{"k": 0}})
		r.dead = true
		r.h = nil // the goroutine stays behind in the abandoned queue
		return
	}
	r.emit(tr.E{"ev": "call", "a": a.Rec(), "r": rep, "obs": r.q.Obs()})
	r.m.Apply(a)
}

// drain: close, then take out whatever is left so that the content of every queue is compared.
func (r *runner) drain(rng *rand.Rand) {
	if r.kind == "priq" {
		for i := r.m.Len() + 1; i >= 0 && !r.dead; i-- {
			r.step(qa.Act{Op: "pop"})
		}
		r.step(qa.Act{Op: "len"})
		if r.h != nil {
			r.h.stop()
			r.h = nil
		}
		return
	}
	if !r.m.Closed {
		if r.kind == "mq" && rng.Intn(2) == 0 {
			r.step(qa.Act{Op: "tryclose"})
		}
		r.step(qa.Act{Op: "close"})
	}
	if r.kind == "mq" {
		r.step(qa.Act{Op: "tryclear"})
	}
	for i := r.m.Len() + 1; i >= 0 && !r.dead; i-- {
		if r.kind == "syncq" && rng.Intn(2) == 0 {
			r.step(qa.Act{Op: "trypop"})
		} else {
			r.step(qa.Act{Op: "pop", Any: true})
		}
	}
	// the waiters' view of the life cycle (unsupported calls are skipped per kind)
	r.step(qa.Act{Op: "waitclose", Bg: true})
	r.step(qa.Act{Op: "waitclear", Bg: rng.Intn(2) == 0})
	if r.kind == "mq" {
		r.step(qa.Act{Op: "tryclear"})
		r.step(qa.Act{Op: "iscleared"})
		r.step(qa.Act{Op: "waitclear", Bg: true})
	}
	if r.h != nil {
		r.h.stop()
		r.h = nil
	}
}

// prioPool: the priorities of one priq trace, ascending; the trace logs ranks (index+1).  Extremes
// and random 64-bit values: only their order matters, and a comparator must get it right over the
// whole int range.
func prioPool(rng *rand.Rand, n int) []int {
	ext := []int{math.MinInt, math.MinInt + 1, -1, 0, 1, math.MaxInt - 1, math.MaxInt}
	set := map[int]bool{}
	switch rng.Intn(5) {
	case 0: // small, like a user would
		for len(set) < n {
			set[rng.Intn(2*n+1)-n] = true
		}
	case 1: // extremes only
		if n > len(ext) {
			n = len(ext)
		}
		for len(set) < n {
			set[ext[rng.Intn(len(ext))]] = true
		}
	case 2: // random 64-bit patterns
		for len(set) < n {
			set[int(rng.Uint64())] = true
		}
	default: // mixture
		for len(set) < n {
			switch rng.Intn(3) {
			case 0:
				set[ext[rng.Intn(len(ext))]] = true
			case 1:
				set[int(rng.Uint64())] = true
			default:
				set[rng.Intn(7)-3] = true
			}
		}
	}
	out := make([]int, 0, len(set))
	for v := range set {
		out = append(out, v)
	}
	sort.Ints(out)
	return out
}

func runTrace(w *tr.W, rng *rand.Rand, src, kind string, ccap, rcap, rep int, plan []qa.Act) {
	r := &runner{w: w, kind: kind, m: qa.Model{Kind: kind, Ccap: ccap, Rcap: rcap},
		late: rng.Intn(2) == 0, kept: map[int]interface{}{}}
	// capacities beyond what TLC's integers hold are logged clamped (they are never reached)
	reset := tr.E{"ev": "reset", "kind": kind, "ccap": qa.Clamp(ccap), "rcap": qa.Clamp(rcap), "src": src,
		"rep": rep, "late": r.late}
	if kind == "priq" {
		nr := 1
		for _, a := range plan {
			if a.Op == "push" && a.Pr > nr {
				nr = a.Pr
			}
		}
		pool := prioPool(rng, nr)
		for len(pool) < nr { // fewer distinct extremes than ranks: fall back to a mixture
			pool = prioPool(rng, nr)
		}
		r.q = qa.NewPri(rcap, pool)
		limbs := make([][]int, len(pool))
		for i, v := range pool {
			limbs[i] = tr.Limbs(uint64(v))
		}
		reset["prios"] = limbs // documentation: rank i+1 = this 64-bit two's-complement pattern
	} else {
		r.q = qa.New(kind, ccap, rcap, rep)
	}
	r.q.(qa.Keeper).SetKeep(func(x interface{}) { r.got, r.haveGot = x, true })
	w.Emit(reset)
	var earlier []int
	for _, a := range plan {
		qa.Dress(rng.Intn, kind, rep, &a, earlier) // the item value is a dimension of the history
		if (a.Op == "add" || a.Op == "addw") && a.Vk == qa.VkDefault && rep == 2 {
			earlier = append(earlier, a.V)
		}
		r.step(a)
	}
	r.drain(rng)
	r.finish()
}

func readPlan(path string) []qa.Act {
	f, err := os.Open(path)
	if err != nil {
		tr.Fatal("%v", err)
	}
	defer f.Close()
	var out []qa.Act
	sc := bufio.NewScanner(f)
	for sc.Scan() {
		var l qa.PlanLine
		if err := json.Unmarshal(sc.Bytes(), &l); err != nil {
			tr.Fatal("plan %s: %v", path, err)
		}
		out = append(out, l.A)
	}
	return out
}

// randHistory: boundary-biased history for one list queue.  Item ids are fresh (1, 2, 3 ...).
func randHistory(rng *rand.Rand, kind string, n int) []qa.Act {
	var out []qa.Act
	id := 0
	closeAt := -1
	switch rng.Intn(4) {
	case 0: // never closed before the drain
	case 1:
		closeAt = n / 2
	default:
		closeAt = n/3 + rng.Intn(n/2+1)
	}
	pAdd := 30 + rng.Intn(30) // add-heavy histories reach the bound, pop-heavy ones the empty queue
	for i := 0; i < n; i++ {
		if i == closeAt {
			out = append(out, qa.Act{Op: "close"})
			continue
		}
		x := rng.Intn(100)
		switch {
		case x < pAdd:
			id++
			lane := "req"
			if kind == "mq" && rng.Intn(5) < 2 {
				lane = "ctrl"
			}
			if kind != "syncq" && rng.Intn(6) == 0 {
				out = append(out, qa.Act{Op: "addw", Lane: lane, V: id}) // AddAnyway (skipped while the lane is full)
			} else {
				out = append(out, qa.Act{Op: "add", Lane: lane, Prior: kind != "syncq" && rng.Intn(4) == 0, V: id})
			}
		case x < pAdd+30:
			if kind == "syncq" {
				if rng.Intn(2) == 0 {
					out = append(out, qa.Act{Op: "trypop"})
				} else {
					out = append(out, qa.Act{Op: "pop", Any: true})
				}
			} else {
				out = append(out, qa.Act{Op: "pop", Any: rng.Intn(5) < 2})
			}
		case x < pAdd+36:
			out = append(out, qa.Act{Op: "tryclose"}) // mq only (skipped elsewhere)
		case x < pAdd+40:
			out = append(out, qa.Act{Op: "tryclear"})
		default:
			op := []string{"isclosed", "iscleared", "len", "trypop", "size", "waitclose", "waitclear"}[rng.Intn(7)]
			out = append(out, qa.Act{Op: op, Bg: rng.Intn(2) == 0}) // a live-context wait is skipped while it would block
		}
	}
	return out
}

func randPriHistory(rng *rand.Rand, n int) []qa.Act {
	var out []qa.Act
	id := 0
	nr := 1 + rng.Intn(6) // number of distinct priorities (1: pure FIFO)
	pPush := 40 + rng.Intn(35)
	for i := 0; i < n; i++ {
		x := rng.Intn(100)
		switch {
		case x < pPush:
			id++
			out = append(out, qa.Act{Op: "push", V: id, Pr: 1 + rng.Intn(nr)})
		case x < 92:
			out = append(out, qa.Act{Op: "pop"})
		default:
			out = append(out, qa.Act{Op: "len"})
		}
	}
	return out
}

func main() {
	plans := flag.String("plans", "", "directory of TLC-generated list-queue plans")
	pplans := flag.String("pplans", "", "directory of TLC-generated priority-queue plans")
	out := flag.String("out", "list.ndjson", "list-queue traces")
	pout := flag.String("pout", "priq.ndjson", "priority-queue traces")
	seed := flag.Int64("seed", 1, "seed")
	nhist := flag.Int("hist", 300, "random list-queue histories")
	nphist := flag.Int("phist", 100, "random priority-queue histories")
	maxops := flag.Int("maxops", 60, "maximal history length")
	flag.Parse()
	rng := rand.New(rand.NewSource(*seed))

	w := tr.Create(*out)
	if *plans != "" {
		files, _ := filepath.Glob(filepath.Join(*plans, "*.ndjson"))
		sort.Strings(files)
		for i, f := range files {
			p := readPlan(f)
			if len(p) == 0 || p[0].Op != "init" {
				tr.Fatal("plan %s does not start with init", f)
			}
			// "unbounded" (0 in the plan) is configured in every way the options accept it: 0, a
			// negative size, and the top of the integer range (never reached)
			unb := []int{0, -1, math.MaxInt, 0, math.MinInt, math.MaxInt - 1}
			cc, rc := p[0].Ccap, p[0].Rcap
			if rc == 0 && p[0].Kind != "syncq" {
				rc = unb[i%len(unb)]
			}
			if cc == 0 && p[0].Kind == "mq" {
				cc = unb[(i/2)%len(unb)]
			}
			runTrace(w, rng, "plan:"+filepath.Base(f), p[0].Kind, cc, rc, i%4, p[1:])
		}
	}
	kinds := []string{"q", "async", "mux", "mq", "syncq"}
	caps := []int{0, 1, 2, 3, 0, 1, 2, 5, -1, math.MaxInt, 1, math.MinInt}
	for i := 0; i < *nhist; i++ {
		kind := kinds[i%len(kinds)]
		if i%7 == 6 {
			kind = "mq"
		}
		ccap, rcap := 0, caps[rng.Intn(len(caps))]
		if kind == "mq" {
			ccap = caps[rng.Intn(len(caps))]
		}
		if kind == "syncq" {
			rcap = 0
		}
		n := 12 + rng.Intn(*maxops-11)
		runTrace(w, rng, "rand", kind, ccap, rcap, rng.Intn(4), randHistory(rng, kind, n))
	}
	w.Close()

	pw := tr.Create(*pout)
	if *pplans != "" {
		files, _ := filepath.Glob(filepath.Join(*pplans, "*.ndjson"))
		sort.Strings(files)
		for _, f := range files {
			p := readPlan(f)
			if len(p) == 0 || p[0].Op != "init" {
				tr.Fatal("plan %s does not start with init", f)
			}
			runTrace(pw, rng, "plan:"+filepath.Base(f), "priq", 0, p[0].Rcap, 0, p[1:])
		}
	}
	// priq has no unbounded mode: Push is refused iff len >= capacity, so 0 and negative capacities
	// refuse everything and MaxInt never refuses
	pcaps := []int{1, 2, 3, 4, 7, 16, 1000, 0, -1, math.MaxInt, 1, 2, math.MinInt}
	for i := 0; i < *nphist; i++ {
		n := 12 + rng.Intn(*maxops-11)
		runTrace(pw, rng, "rand", "priq", 0, pcaps[rng.Intn(len(pcaps))], 0, randPriHistory(rng, n))
	}
	pw.Close()
	fmt.Printf("list_events=%d priq_events=%d\n", w.N(), pw.N())
}
