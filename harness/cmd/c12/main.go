// c12: executes queue plans (from specs/queue/Queue_Gen, PriQueue_Gen) and seeded histories against
// the real pipe/q.Q, pipe/async.Q, pipe/mux.Q, pipe/mq.MQ, queue/syncq.SyncQueue and
// queue/priq.PriQueue, recording one ndjson event per call (action, real reply, what the type's
// accessors show afterwards) for validation by TLC (Queue_Trace.tla / PriQueue_Trace.tla).
//
// Only calls that the property says return are issued: a Pop goes out only when the count of
// accepted-minus-handed-out items (taken from the REAL replies) is positive or the queue was
// closed.  Every possibly blocking call nevertheless runs on a helper goroutine; if it does not come
// back and the Go runtime reports the goroutine parked in sync.Cond.Wait, the call is logged with
// reply "blocked" (which the specification cannot explain) and the trace ends.
package main

import (
	"bufio"
	"encoding/json"
	"flag"
	"fmt"
	"math/rand"
	"os"
	"path/filepath"
	"runtime"
	"sort"
	"strconv"
	"strings"
	"time"

	"github.com/pinealctx/neptune/queue/priq"
	"github.com/pinealctx/neptune/queue/syncq"
	aq "github.com/pinealctx/neptune/syncx/pipe/async"
	"github.com/pinealctx/neptune/syncx/pipe/mq"
	muxq "github.com/pinealctx/neptune/syncx/pipe/mux"
	pq "github.com/pinealctx/neptune/syncx/pipe/q"

	"verif/harness/internal/qx"
	"verif/harness/internal/tr"
)

type act struct {
	Op    string `json:"op"`
	Lane  string `json:"lane"`
	Prior bool   `json:"prior"`
	V     int    `json:"v"`
	Any   bool   `json:"any"`
	Pr    int    `json:"pr"`
	Kind  string `json:"kind"`
	Ccap  int    `json:"ccap"`
	Rcap  int    `json:"rcap"`
}

type planLine struct {
	A act `json:"a"`
}

func (a act) rec() tr.E {
	switch a.Op {
	case "add":
		return tr.E{"op": a.Op, "lane": a.Lane, "prior": a.Prior, "v": a.V}
	case "pop":
		return tr.E{"op": a.Op, "any": a.Any}
	case "push":
		return tr.E{"op": a.Op, "v": a.V, "pr": a.Pr}
	}
	return tr.E{"op": a.Op}
}

func rp(st string, v int) tr.E { return tr.E{"st": st, "v": v} }
func rb(b bool) tr.E {
	if b {
		return rp("true", 0)
	}
	return rp("false", 0)
}

// ---------------------------------------------------------------- items
// The queues carry interface{}: use several representations of the same item id.
type boxed struct{ id int }

func mkItem(rep, id int) interface{} {
	switch rep {
	case 1:
		return "i-" + strconv.Itoa(id)
	case 2:
		return &boxed{id}
	case 3:
		return int64(id)
	}
	return id
}

func unItem(x interface{}) (int, bool) {
	switch v := x.(type) {
	case int:
		return v, true
	case string:
		n, err := strconv.Atoi(strings.TrimPrefix(v, "i-"))
		return n, err == nil
	case *boxed:
		if v == nil {
			return 0, false
		}
		return v.id, true
	case int64:
		return int(v), true
	}
	return 0, false
}

func itemReply(x interface{}) tr.E {
	if id, ok := unItem(x); ok {
		return rp("item", id)
	}
	return rp("foreign", 0)
}

type pitem struct{ id, pr int }

func (p *pitem) GetPriority() int { return p.pr }

// ---------------------------------------------------------------- queues
type queue interface {
	do(a act) tr.E // must not block unless a.Op == "pop"
	obs() tr.E
}

func errReply(err error, closed error, fulls ...error) tr.E {
	if err == nil {
		return rp("ok", 0)
	}
	if err == closed {
		return rp("closed", 0)
	}
	for _, f := range fulls {
		if err == f {
			return rp("full", 0)
		}
	}
	return rp("err", 0)
}

func popReply(x interface{}, err error, closed error) tr.E {
	if err == nil {
		return itemReply(x)
	}
	if err == closed && x == nil {
		return rp("closed", 0)
	}
	return rp("err", 0)
}

type qQ struct {
	q   *pq.Q
	rep int
}

func (w *qQ) do(a act) tr.E {
	switch a.Op {
	case "add":
		if a.Prior {
			return errReply(w.q.AddPriorReq(mkItem(w.rep, a.V)), pq.ErrClosed, pq.ErrReqQFull)
		}
		return errReply(w.q.AddReq(mkItem(w.rep, a.V)), pq.ErrClosed, pq.ErrReqQFull)
	case "pop":
		if a.Any {
			x, err := w.q.PopAnyway()
			return popReply(x, err, pq.ErrClosed)
		}
		x, err := w.q.Pop()
		return popReply(x, err, pq.ErrClosed)
	case "close":
		w.q.Close()
		return rp("ok", 0)
	}
	tr.Fatal("q.Q: unsupported op %q", a.Op)
	return nil
}
func (w *qQ) obs() tr.E { return tr.E{"k": 0} }

type asyncQ struct {
	q   *aq.Q
	rep int
}

func (w *asyncQ) do(a act) tr.E {
	switch a.Op {
	case "add":
		if a.Prior {
			return errReply(w.q.AddPrior(mkItem(w.rep, a.V)), aq.ErrClosed, aq.ErrFull)
		}
		return errReply(w.q.Add(mkItem(w.rep, a.V)), aq.ErrClosed, aq.ErrFull)
	case "pop":
		if a.Any {
			x, err := w.q.PopAnyway()
			return popReply(x, err, aq.ErrClosed)
		}
		x, err := w.q.Pop()
		return popReply(x, err, aq.ErrClosed)
	case "close":
		w.q.Close()
		return rp("ok", 0)
	case "isclosed":
		return rb(w.q.IsClosed())
	}
	tr.Fatal("async.Q: unsupported op %q", a.Op)
	return nil
}
func (w *asyncQ) obs() tr.E { return tr.E{"closed": w.q.IsClosed()} }

type muxQ struct {
	q   *muxq.Q
	rep int
}

func (w *muxQ) do(a act) tr.E {
	switch a.Op {
	case "add":
		if a.Prior {
			return errReply(w.q.AddPriorReq(mkItem(w.rep, a.V)), muxq.ErrClosed, muxq.ErrQFull)
		}
		return errReply(w.q.AddReq(mkItem(w.rep, a.V)), muxq.ErrClosed, muxq.ErrQFull)
	case "pop":
		if a.Any {
			x, err := w.q.PopAnyway()
			return popReply(x, err, muxq.ErrClosed)
		}
		x, err := w.q.Pop()
		return popReply(x, err, muxq.ErrClosed)
	case "close":
		w.q.Close()
		return rp("ok", 0)
	case "isclosed":
		return rb(w.q.IsClosed())
	}
	tr.Fatal("mux.Q: unsupported op %q", a.Op)
	return nil
}
func (w *muxQ) obs() tr.E { return tr.E{"closed": w.q.IsClosed()} }

type mqQ struct {
	q   *mq.MQ
	rep int
}

func (w *mqQ) do(a act) tr.E {
	switch a.Op {
	case "add":
		x := mkItem(w.rep, a.V)
		var err error
		switch {
		case a.Lane == "ctrl" && a.Prior:
			err = w.q.AddPriorCtrl(x)
		case a.Lane == "ctrl":
			err = w.q.AddCtrl(x)
		case a.Prior:
			err = w.q.AddPriorReq(x)
		default:
			err = w.q.AddReq(x)
		}
		return errReply(err, mq.ErrClosed, mq.ErrCtrlQFull, mq.ErrReqQFull)
	case "pop":
		if a.Any {
			x, err := w.q.PopAnyway()
			return popReply(x, err, mq.ErrClosed)
		}
		x, err := w.q.Pop()
		return popReply(x, err, mq.ErrClosed)
	case "close":
		w.q.Close()
		return rp("ok", 0)
	case "tryclose":
		return rb(w.q.TryClose())
	case "tryclear":
		return rb(w.q.TryClear())
	case "isclosed":
		return rb(w.q.IsClosed())
	case "iscleared":
		return rb(w.q.IsCleared())
	}
	tr.Fatal("mq.MQ: unsupported op %q", a.Op)
	return nil
}
func (w *mqQ) obs() tr.E { return tr.E{"closed": w.q.IsClosed(), "cleared": w.q.IsCleared()} }

type syncQ struct {
	q   *syncq.SyncQueue
	rep int
}

func (w *syncQ) do(a act) tr.E {
	switch a.Op {
	case "add":
		w.q.Push(mkItem(w.rep, a.V))
		return rp("ok", 0)
	case "pop":
		x := w.q.Pop()
		if x == nil {
			return rp("closed", 0)
		}
		return itemReply(x)
	case "trypop":
		x, ok := w.q.TryPop()
		switch {
		case ok && x == nil:
			return rp("closed", 0)
		case ok:
			return itemReply(x)
		case x == nil:
			return rp("empty", 0)
		}
		return rp("err", 0)
	case "close":
		w.q.Close()
		return rp("ok", 0)
	case "len":
		return rp("len", w.q.Len())
	}
	tr.Fatal("syncq: unsupported op %q", a.Op)
	return nil
}
func (w *syncQ) obs() tr.E { return tr.E{"len": w.q.Len()} }

type priQ struct{ q *priq.PriQueue }

func (w *priQ) do(a act) tr.E {
	switch a.Op {
	case "push":
		err := w.q.Push(&pitem{a.V, a.Pr})
		return errReply(err, nil, priq.ErrQueueIsFull)
	case "pop":
		e := w.q.Pop()
		if e == nil {
			return rp("empty", 0)
		}
		if it, ok := e.(*pitem); ok && it != nil {
			return rp("item", it.id)
		}
		return rp("foreign", 0)
	case "len":
		return rp("len", w.q.Len())
	}
	tr.Fatal("priq: unsupported op %q", a.Op)
	return nil
}
func (w *priQ) obs() tr.E { return tr.E{"len": w.q.Len()} }

func newQueue(kind string, ccap, rcap, rep int) queue {
	switch kind {
	case "q":
		if rcap == 0 && rep%2 == 0 {
			return &qQ{pq.NewQ(), rep}
		}
		return &qQ{pq.NewQ(pq.WithSize(rcap)), rep}
	case "async":
		return &asyncQ{aq.NewQ(rcap), rep}
	case "mux":
		return &muxQ{muxq.NewQ(rcap), rep}
	case "mq":
		if ccap == 0 && rcap == 0 && rep%2 == 0 {
			return &mqQ{mq.NewMQ(), rep}
		}
		return &mqQ{mq.NewMQ(mq.WithQCtrlSize(ccap), mq.WithQReqSize(rcap)), rep}
	case "syncq":
		return &syncQ{syncq.NewSyncQueue(), rep}
	case "priq":
		return &priQ{priq.NewPriQueue(rcap)}
	}
	tr.Fatal("unknown kind %q", kind)
	return nil
}

// ---------------------------------------------------------------- helper goroutine for calls that may block
type helper struct {
	cmd chan func() tr.E
	res chan tr.E
	gid int
}

func goid() int {
	var buf [64]byte
	n := runtime.Stack(buf[:], false)
	f := strings.Fields(string(buf[:n]))
	id, _ := strconv.Atoi(f[1])
	return id
}

func newHelper() *helper {
	h := &helper{cmd: make(chan func() tr.E), res: make(chan tr.E, 1)}
	ready := make(chan int)
	go func() {
		ready <- goid()
		for f := range h.cmd {
			h.res <- f()
		}
	}()
	h.gid = <-ready
	return h
}

// call runs f on the helper.  ok=false: the helper is parked inside the call (a fact read from the
// runtime's goroutine states, the timer only decides when to look).
func (h *helper) call(f func() tr.E) (tr.E, bool) {
	h.cmd <- f
	t := time.NewTimer(300 * time.Millisecond)
	defer t.Stop()
	parkedSeen := 0
	for i := 0; i < 200; i++ {
		select {
		case r := <-h.res:
			return r, true
		case <-t.C:
			st := qx.Goroutines()[h.gid]
			if st == "sync.Cond.Wait" || st == "chan receive" || st == "select" || st == "sync.Mutex.Lock" {
				parkedSeen++
				if parkedSeen >= 2 {
					return nil, false
				}
			} else {
				parkedSeen = 0
			}
			t.Reset(100 * time.Millisecond)
		}
	}
	tr.Fatal("helper call neither returned nor parked")
	return nil, false
}

func (h *helper) stop() { close(h.cmd) }

// safe converts a panic inside the library into a reply the spec cannot explain.
func safe(q queue, a act) (r tr.E) {
	defer func() {
		if p := recover(); p != nil {
			r = rp("panic", 0)
		}
	}()
	return q.do(a)
}

// ---------------------------------------------------------------- execution
type runner struct {
	w      *tr.W
	q      queue
	kind   string
	h      *helper
	cnt    int  // accepted minus handed out, from the real replies
	closed bool // a close (or successful try-close) was issued
	dead   bool // a call blocked: the trace is over
}

func supports(kind string, a act) bool {
	switch a.Op {
	case "add":
		if kind == "priq" {
			return false
		}
		if a.Lane == "ctrl" {
			return kind == "mq"
		}
		return a.Lane == "req" && !(kind == "syncq" && a.Prior)
	case "pop":
		return kind != "syncq" || a.Any
	case "close":
		return kind != "priq"
	case "isclosed":
		return kind == "async" || kind == "mux" || kind == "mq"
	case "tryclose", "tryclear", "iscleared":
		return kind == "mq"
	case "trypop":
		return kind == "syncq"
	case "len":
		return kind == "syncq" || kind == "priq"
	case "push":
		return kind == "priq"
	}
	return false
}

func (r *runner) step(a act) {
	if r.dead || !supports(r.kind, a) {
		return
	}
	if r.kind == "priq" {
		rep := safe(r.q, a)
		r.w.Emit(tr.E{"ev": "call", "a": a.rec(), "r": rep, "obs": r.q.obs()})
		if a.Op == "push" && rep["st"] == "ok" {
			r.cnt++
		}
		if a.Op == "pop" && rep["st"] == "item" {
			r.cnt--
		}
		return
	}
	var rep tr.E
	if a.Op == "pop" {
		if r.cnt <= 0 && !r.closed {
			return // would block by the property: not part of the sequential exploration
		}
		if r.h == nil {
			r.h = newHelper()
		}
		var ok bool
		q := r.q
		rep, ok = r.h.call(func() tr.E { return safe(q, a) })
		if !ok {
			r.w.Emit(tr.E{"ev": "call", "a": a.rec(), "r": rp("blocked", 0), "obs": tr.E{"k": 0}})
			r.dead = true
			r.h = nil // the goroutine stays parked in the abandoned queue
			return
		}
	} else {
		rep = safe(r.q, a)
	}
	r.w.Emit(tr.E{"ev": "call", "a": a.rec(), "r": rep, "obs": r.q.obs()})
	switch a.Op {
	case "add":
		if rep["st"] == "ok" && !r.closed {
			r.cnt++
		}
	case "pop", "trypop":
		if rep["st"] == "item" {
			r.cnt--
		}
	case "close":
		r.closed = true
	case "tryclose":
		if rep["st"] == "true" {
			r.closed = true
		}
	}
}

// drain: close, then take out whatever is left so that the content of every queue is compared.
func (r *runner) drain(rng *rand.Rand) {
	if r.kind == "priq" {
		for i := r.cnt + 1; i >= 0 && !r.dead; i-- {
			r.step(act{Op: "pop"})
		}
		r.step(act{Op: "len"})
		return
	}
	if !r.closed {
		if r.kind == "mq" && rng.Intn(2) == 0 {
			r.step(act{Op: "tryclose"})
		}
		r.step(act{Op: "close"})
	}
	if r.kind == "mq" {
		r.step(act{Op: "tryclear"})
	}
	for i := r.cnt + 1; i >= 0 && !r.dead; i-- {
		if r.kind == "syncq" && rng.Intn(2) == 0 {
			r.step(act{Op: "trypop"})
		} else {
			r.step(act{Op: "pop", Any: true})
		}
	}
	if r.kind == "mq" {
		r.step(act{Op: "tryclear"})
		r.step(act{Op: "iscleared"})
	}
	if r.h != nil {
		r.h.stop()
		r.h = nil
	}
}

func runTrace(w *tr.W, rng *rand.Rand, src, kind string, ccap, rcap, rep int, plan []act) {
	r := &runner{w: w, q: newQueue(kind, ccap, rcap, rep), kind: kind}
	w.Emit(tr.E{"ev": "reset", "kind": kind, "ccap": ccap, "rcap": rcap, "src": src, "rep": rep})
	for _, a := range plan {
		r.step(a)
	}
	r.drain(rng)
}

func readPlan(path string) []act {
	f, err := os.Open(path)
	if err != nil {
		tr.Fatal("%v", err)
	}
	defer f.Close()
	var out []act
	sc := bufio.NewScanner(f)
	for sc.Scan() {
		var l planLine
		if err := json.Unmarshal(sc.Bytes(), &l); err != nil {
			tr.Fatal("plan %s: %v", path, err)
		}
		out = append(out, l.A)
	}
	return out
}

// randHistory: boundary-biased history for one list queue.  Item ids are fresh (1, 2, 3 ...).
func randHistory(rng *rand.Rand, kind string, n int) []act {
	var out []act
	id := 0
	closeAt := -1
	switch rng.Intn(4) {
	case 0: // never closed before the drain
	case 1:
		closeAt = n / 2
	default:
		closeAt = n/3 + rng.Intn(n/2+1)
	}
	pAdd := 30 + rng.Intn(30) // add-heavy histories reach the bound, pop-heavy ones the empty queue
	for i := 0; i < n; i++ {
		if i == closeAt {
			out = append(out, act{Op: "close"})
			continue
		}
		x := rng.Intn(100)
		switch {
		case x < pAdd:
			id++
			lane := "req"
			if kind == "mq" && rng.Intn(5) < 2 {
				lane = "ctrl"
			}
			out = append(out, act{Op: "add", Lane: lane, Prior: kind != "syncq" && rng.Intn(4) == 0, V: id})
		case x < pAdd+30:
			if kind == "syncq" {
				if rng.Intn(2) == 0 {
					out = append(out, act{Op: "trypop"})
				} else {
					out = append(out, act{Op: "pop", Any: true})
				}
			} else {
				out = append(out, act{Op: "pop", Any: rng.Intn(5) < 2})
			}
		case x < pAdd+36:
			out = append(out, act{Op: "tryclose"}) // mq only (skipped elsewhere)
		case x < pAdd+40:
			out = append(out, act{Op: "tryclear"})
		default:
			out = append(out, act{Op: []string{"isclosed", "iscleared", "len", "trypop"}[rng.Intn(4)]})
		}
	}
	return out
}

func randPriHistory(rng *rand.Rand, n int) []act {
	var out []act
	id := 0
	prios := []int{1, 2, 3}
	switch rng.Intn(4) {
	case 0:
		prios = []int{5}
	case 1:
		prios = []int{-2147483648, -1, 0, 1, 2147483647}
	case 2:
		prios = []int{1, 2}
	}
	pPush := 40 + rng.Intn(35)
	for i := 0; i < n; i++ {
		x := rng.Intn(100)
		switch {
		case x < pPush:
			id++
			out = append(out, act{Op: "push", V: id, Pr: prios[rng.Intn(len(prios))]})
		case x < 92:
			out = append(out, act{Op: "pop"})
		default:
			out = append(out, act{Op: "len"})
		}
	}
	return out
}

func main() {
	plans := flag.String("plans", "", "directory of TLC-generated list-queue plans")
	pplans := flag.String("pplans", "", "directory of TLC-generated priority-queue plans")
	out := flag.String("out", "list.ndjson", "list-queue traces")
	pout := flag.String("pout", "priq.ndjson", "priority-queue traces")
	seed := flag.Int64("seed", 1, "seed")
	nhist := flag.Int("hist", 300, "random list-queue histories")
	nphist := flag.Int("phist", 100, "random priority-queue histories")
	maxops := flag.Int("maxops", 60, "maximal history length")
	flag.Parse()
	rng := rand.New(rand.NewSource(*seed))

	w := tr.Create(*out)
	if *plans != "" {
		files, _ := filepath.Glob(filepath.Join(*plans, "*.ndjson"))
		sort.Strings(files)
		for i, f := range files {
			p := readPlan(f)
			if len(p) == 0 || p[0].Op != "init" {
				tr.Fatal("plan %s does not start with init", f)
			}
			runTrace(w, rng, "plan:"+filepath.Base(f), p[0].Kind, p[0].Ccap, p[0].Rcap, i%4, p[1:])
		}
	}
	kinds := []string{"q", "async", "mux", "mq", "syncq"}
	caps := []int{0, 1, 2, 3, 0, 1, 2, 5}
	for i := 0; i < *nhist; i++ {
		kind := kinds[i%len(kinds)]
		if i%7 == 6 {
			kind = "mq"
		}
		ccap, rcap := 0, caps[rng.Intn(len(caps))]
		if kind == "mq" {
			ccap = caps[rng.Intn(len(caps))]
		}
		if kind == "syncq" {
			rcap = 0
		}
		n := 12 + rng.Intn(*maxops-11)
		runTrace(w, rng, "rand", kind, ccap, rcap, rng.Intn(4), randHistory(rng, kind, n))
	}
	w.Close()

	pw := tr.Create(*pout)
	if *pplans != "" {
		files, _ := filepath.Glob(filepath.Join(*pplans, "*.ndjson"))
		sort.Strings(files)
		for _, f := range files {
			p := readPlan(f)
			if len(p) == 0 || p[0].Op != "init" {
				tr.Fatal("plan %s does not start with init", f)
			}
			runTrace(pw, rng, "plan:"+filepath.Base(f), "priq", 0, p[0].Rcap, 0, p[1:])
		}
	}
	pcaps := []int{1, 2, 3, 4, 7, 16, 1000}
	for i := 0; i < *nphist; i++ {
		n := 12 + rng.Intn(*maxops-11)
		runTrace(pw, rng, "rand", "priq", 0, pcaps[rng.Intn(len(pcaps))], 0, randPriHistory(rng, n))
	}
	pw.Close()
	fmt.Printf("list_events=%d priq_events=%d\n", w.N(), pw.N())
}
