// Package qa adapts the six neptune queue types to one action/reply vocabulary shared by the C12 and
// C13 harnesses (the action records are the ones of specs/queue/Queue.tla and PriQueue.tla; every
// reply has the shape {"st": string, "v": int}).
package qa

import (
	"context"
	"strconv"
	"strings"
	"time"

	"github.com/pinealctx/neptune/queue/priq"
	"github.com/pinealctx/neptune/queue/syncq"
	aq "github.com/pinealctx/neptune/syncx/pipe/async"
	"github.com/pinealctx/neptune/syncx/pipe/mq"
	muxq "github.com/pinealctx/neptune/syncx/pipe/mux"
	pq "github.com/pinealctx/neptune/syncx/pipe/q"

	"verif/harness/internal/tr"
)

// Act is one action record.
type Act struct {
	Op    string `json:"op"`
	Lane  string `json:"lane"`
	Prior bool   `json:"prior"`
	V     int    `json:"v"`
	Any   bool   `json:"any"`
	Pr    int    `json:"pr"`
	Kind  string `json:"kind"`
	Ccap  int    `json:"ccap"`
	Rcap  int    `json:"rcap"`
	Bg    bool   `json:"bg"` // waitclose / waitclear: live context (false: a context that has ended)
}

// PlanLine is one line of a TLC-generated plan.
type PlanLine struct {
	A Act `json:"a"`
}

// Rec is the action record as logged.
func (a Act) Rec() tr.E {
	switch a.Op {
	case "add":
		return tr.E{"op": a.Op, "lane": a.Lane, "prior": a.Prior, "v": a.V}
	case "pop":
		return tr.E{"op": a.Op, "any": a.Any}
	case "push":
		return tr.E{"op": a.Op, "v": a.V, "pr": a.Pr}
	case "addw":
		return tr.E{"op": a.Op, "lane": a.Lane, "v": a.V}
	case "waitclose", "waitclear":
		return tr.E{"op": a.Op, "bg": a.Bg}
	}
	return tr.E{"op": a.Op}
}

// Rp builds a reply.
func Rp(st string, v int) tr.E { return tr.E{"st": st, "v": v} }

// Rb builds a boolean reply.
func Rb(b bool) tr.E {
	if b {
		return Rp("true", 0)
	}
	return Rp("false", 0)
}

// ---------------------------------------------------------------- items
// The queues carry interface{}: use several representations of the same item id.
type boxed struct{ id int }

func mkItem(rep, id int) interface{} {
	switch rep {
	case 1:
		return "i-" + strconv.Itoa(id)
	case 2:
		return &boxed{id}
	case 3:
		return int64(id)
	}
	return id
}

func unItem(x interface{}) (int, bool) {
	switch v := x.(type) {
	case int:
		return v, true
	case string:
		n, err := strconv.Atoi(strings.TrimPrefix(v, "i-"))
		return n, err == nil
	case *boxed:
		if v == nil {
			return 0, false
		}
		return v.id, true
	case int64:
		return int(v), true
	}
	return 0, false
}

func itemReply(x interface{}) tr.E {
	if id, ok := unItem(x); ok {
		return Rp("item", id)
	}
	return Rp("foreign", 0)
}

// keepT lets a harness keep every item a call handed out AS RETURNED (the very interface value) and
// decode it again later: a popped item must stay what it was.
type keepT struct{ keep func(interface{}) }

// SetKeep installs the sink for returned items.
func (k *keepT) SetKeep(f func(interface{})) { k.keep = f }

func (k *keepT) item(x interface{}) tr.E {
	if k.keep != nil {
		k.keep(x)
	}
	return itemReply(x)
}

// Keeper is implemented by every adapter.
type Keeper interface{ SetKeep(func(interface{})) }

// ItemReply decodes a kept item (list queues: int / string / *boxed / int64; priq: *pitem).
func ItemReply(x interface{}) tr.E {
	if it, ok := x.(*pitem); ok && it != nil {
		return Rp("item", it.id)
	}
	return itemReply(x)
}

// ctxFor: a live context, or one that has already ended.
func ctxFor(bg bool) context.Context {
	if bg {
		return context.Background()
	}
	c, cancel := context.WithCancel(context.Background())
	cancel()
	return c
}

func waitReply(err error) tr.E {
	switch err {
	case nil:
		return Rp("ok", 0)
	case context.Canceled:
		return Rp("canceled", 0)
	}
	return Rp("err", 0)
}

// the pause of AddAnyway between two tries; it only matters when the lane stays full (the call is
// then blocked by the property and is reported as such)
const addwSleep = 5 * time.Millisecond

type pitem struct{ id, pr int }

func (p *pitem) GetPriority() int { return p.pr }

// ---------------------------------------------------------------- queues
// Queue is the common surface.
type Queue interface {
	Do(a Act) tr.E // blocks only for a.Op == "pop"
	Obs() tr.E
}

func errReply(err error, closed error, fulls ...error) tr.E {
	if err == nil {
		return Rp("ok", 0)
	}
	if err == closed {
		return Rp("closed", 0)
	}
	for _, f := range fulls {
		if err == f {
			return Rp("full", 0)
		}
	}
	return Rp("err", 0)
}

func (k *keepT) popReply(x interface{}, err error, closed error) tr.E {
	if err == nil {
		return k.item(x)
	}
	if err == closed && x == nil {
		return Rp("closed", 0)
	}
	return Rp("err", 0)
}

type qQ struct {
	keepT
	q   *pq.Q
	rep int
}

func (w *qQ) Do(a Act) tr.E {
	switch a.Op {
	case "add":
		if a.Prior {
			return errReply(w.q.AddPriorReq(mkItem(w.rep, a.V)), pq.ErrClosed, pq.ErrReqQFull)
		}
		return errReply(w.q.AddReq(mkItem(w.rep, a.V)), pq.ErrClosed, pq.ErrReqQFull)
	case "pop":
		if a.Any {
			x, err := w.q.PopAnyway()
			return w.popReply(x, err, pq.ErrClosed)
		}
		x, err := w.q.Pop()
		return w.popReply(x, err, pq.ErrClosed)
	case "close":
		w.q.Close()
		return Rp("ok", 0)
	case "addw":
		return errReply(w.q.AddReqAnyway(mkItem(w.rep, a.V), addwSleep), pq.ErrClosed, pq.ErrReqQFull)
	}
	tr.Fatal("q.Q: unsupported op %q", a.Op)
	return nil
}
func (w *qQ) Obs() tr.E { return tr.E{"k": 0} }

type asyncQ struct {
	keepT
	q   *aq.Q
	rep int
}

func (w *asyncQ) Do(a Act) tr.E {
	switch a.Op {
	case "add":
		if a.Prior {
			return errReply(w.q.AddPrior(mkItem(w.rep, a.V)), aq.ErrClosed, aq.ErrFull)
		}
		return errReply(w.q.Add(mkItem(w.rep, a.V)), aq.ErrClosed, aq.ErrFull)
	case "pop":
		if a.Any {
			x, err := w.q.PopAnyway()
			return w.popReply(x, err, aq.ErrClosed)
		}
		x, err := w.q.Pop()
		return w.popReply(x, err, aq.ErrClosed)
	case "close":
		w.q.Close()
		return Rp("ok", 0)
	case "isclosed":
		return Rb(w.q.IsClosed())
	case "addw":
		return errReply(w.q.AddAnyway(mkItem(w.rep, a.V), addwSleep), aq.ErrClosed, aq.ErrFull)
	case "size":
		return Rp("size", Clamp(w.q.Size()))
	}
	tr.Fatal("async.Q: unsupported op %q", a.Op)
	return nil
}
func (w *asyncQ) Obs() tr.E { return tr.E{"closed": w.q.IsClosed()} }

type muxQ struct {
	keepT
	q   *muxq.Q
	rep int
}

func (w *muxQ) Do(a Act) tr.E {
	switch a.Op {
	case "add":
		if a.Prior {
			return errReply(w.q.AddPriorReq(mkItem(w.rep, a.V)), muxq.ErrClosed, muxq.ErrQFull)
		}
		return errReply(w.q.AddReq(mkItem(w.rep, a.V)), muxq.ErrClosed, muxq.ErrQFull)
	case "pop":
		if a.Any {
			x, err := w.q.PopAnyway()
			return w.popReply(x, err, muxq.ErrClosed)
		}
		x, err := w.q.Pop()
		return w.popReply(x, err, muxq.ErrClosed)
	case "close":
		w.q.Close()
		return Rp("ok", 0)
	case "isclosed":
		return Rb(w.q.IsClosed())
	case "addw":
		return errReply(w.q.AddReqAnyway(mkItem(w.rep, a.V), addwSleep), muxq.ErrClosed, muxq.ErrQFull)
	case "waitclose":
		return waitReply(w.q.WaitClose(ctxFor(a.Bg)))
	}
	tr.Fatal("mux.Q: unsupported op %q", a.Op)
	return nil
}
func (w *muxQ) Obs() tr.E { return tr.E{"closed": w.q.IsClosed()} }

type mqQ struct {
	keepT
	q   *mq.MQ
	rep int
}

func (w *mqQ) Do(a Act) tr.E {
	switch a.Op {
	case "add":
		x := mkItem(w.rep, a.V)
		var err error
		switch {
		case a.Lane == "ctrl" && a.Prior:
			err = w.q.AddPriorCtrl(x)
		case a.Lane == "ctrl":
			err = w.q.AddCtrl(x)
		case a.Prior:
			err = w.q.AddPriorReq(x)
		default:
			err = w.q.AddReq(x)
		}
		return errReply(err, mq.ErrClosed, mq.ErrCtrlQFull, mq.ErrReqQFull)
	case "pop":
		if a.Any {
			x, err := w.q.PopAnyway()
			return w.popReply(x, err, mq.ErrClosed)
		}
		x, err := w.q.Pop()
		return w.popReply(x, err, mq.ErrClosed)
	case "close":
		w.q.Close()
		return Rp("ok", 0)
	case "tryclose":
		return Rb(w.q.TryClose())
	case "tryclear":
		return Rb(w.q.TryClear())
	case "isclosed":
		return Rb(w.q.IsClosed())
	case "iscleared":
		return Rb(w.q.IsCleared())
	case "addw":
		if a.Lane == "ctrl" {
			return errReply(w.q.AddCtrlAnyway(mkItem(w.rep, a.V), addwSleep), mq.ErrClosed, mq.ErrCtrlQFull, mq.ErrReqQFull)
		}
		return errReply(w.q.AddReqAnyway(mkItem(w.rep, a.V), addwSleep), mq.ErrClosed, mq.ErrCtrlQFull, mq.ErrReqQFull)
	case "waitclose":
		return waitReply(w.q.WaitClose(ctxFor(a.Bg)))
	case "waitclear":
		return waitReply(w.q.WaitClear(ctxFor(a.Bg)))
	}
	tr.Fatal("mq.MQ: unsupported op %q", a.Op)
	return nil
}
func (w *mqQ) Obs() tr.E { return tr.E{"closed": w.q.IsClosed(), "cleared": w.q.IsCleared()} }

type syncQ struct {
	keepT
	q   *syncq.SyncQueue
	rep int
}

func (w *syncQ) Do(a Act) tr.E {
	switch a.Op {
	case "add":
		w.q.Push(mkItem(w.rep, a.V))
		return Rp("ok", 0)
	case "pop":
		x := w.q.Pop()
		if x == nil {
			return Rp("closed", 0)
		}
		return w.item(x)
	case "trypop":
		x, ok := w.q.TryPop()
		switch {
		case ok && x == nil:
			return Rp("closed", 0)
		case ok:
			return w.item(x)
		case x == nil:
			return Rp("empty", 0)
		}
		return Rp("err", 0)
	case "close":
		w.q.Close()
		return Rp("ok", 0)
	case "len":
		return Rp("len", w.q.Len())
	}
	tr.Fatal("syncq: unsupported op %q", a.Op)
	return nil
}
func (w *syncQ) Obs() tr.E { return tr.E{"len": w.q.Len()} }

// priQ: the action record carries the RANK of the priority (1 = lowest) among the priorities used
// in the trace; the entry handed to the real queue carries prios[rank-1], any int (64-bit) value.
// Only the order of priorities matters to the property, and ranks fit TLC's integers.
type priQ struct {
	keepT
	q     *priq.PriQueue
	prios []int
}

// NewPri creates a priority queue whose rank r stands for priority prios[r-1] (prios ascending).
func NewPri(rcap int, prios []int) Queue { return &priQ{q: priq.NewPriQueue(rcap), prios: prios} }

func (w *priQ) Do(a Act) tr.E {
	switch a.Op {
	case "push":
		pr := a.Pr
		if w.prios != nil {
			pr = w.prios[a.Pr-1]
		}
		err := w.q.Push(&pitem{a.V, pr})
		return errReply(err, nil, priq.ErrQueueIsFull)
	case "pop":
		e := w.q.Pop()
		if e == nil {
			return Rp("empty", 0)
		}
		if it, ok := e.(*pitem); ok && it != nil {
			if w.keep != nil {
				w.keep(e)
			}
			return Rp("item", it.id)
		}
		return Rp("foreign", 0)
	case "len":
		return Rp("len", w.q.Len())
	}
	tr.Fatal("priq: unsupported op %q", a.Op)
	return nil
}
func (w *priQ) Obs() tr.E { return tr.E{"len": w.q.Len()} }

// New creates a queue of the given kind.
func New(kind string, ccap, rcap, rep int) Queue {
	switch kind {
	case "q":
		if rcap == 0 && rep%2 == 0 {
			return &qQ{q: pq.NewQ(), rep: rep}
		}
		return &qQ{q: pq.NewQ(pq.WithSize(rcap)), rep: rep}
	case "async":
		return &asyncQ{q: aq.NewQ(rcap), rep: rep}
	case "mux":
		return &muxQ{q: muxq.NewQ(rcap), rep: rep}
	case "mq":
		if ccap == 0 && rcap == 0 && rep%2 == 0 {
			return &mqQ{q: mq.NewMQ(), rep: rep}
		}
		return &mqQ{q: mq.NewMQ(mq.WithQCtrlSize(ccap), mq.WithQReqSize(rcap)), rep: rep}
	case "syncq":
		return &syncQ{q: syncq.NewSyncQueue(), rep: rep}
	case "priq":
		return &priQ{q: priq.NewPriQueue(rcap)}
	}
	tr.Fatal("unknown kind %q", kind)
	return nil
}

// Safe converts a panic inside the library into a reply the spec cannot explain.
func Safe(q Queue, a Act) (r tr.E) {
	defer func() {
		if p := recover(); p != nil {
			r = Rp("panic", 0)
		}
	}()
	return q.Do(a)
}

// Clamp renders a configuration value that TLC's 32-bit integers cannot hold: everything beyond
// +-2^30 is logged as +-2^30 (far beyond any length a history reaches).
func Clamp(v int) int {
	const lim = 1 << 30
	if v > lim {
		return lim
	}
	if v < -lim {
		return -lim
	}
	return v
}

// Supports reports whether the kind has the call.
func Supports(kind string, a Act) bool {
	switch a.Op {
	case "add":
		if kind == "priq" {
			return false
		}
		if a.Lane == "ctrl" {
			return kind == "mq"
		}
		return a.Lane == "req" && !(kind == "syncq" && a.Prior)
	case "addw":
		if a.Lane == "ctrl" {
			return kind == "mq"
		}
		return a.Lane == "req" && (kind == "q" || kind == "async" || kind == "mux" || kind == "mq")
	case "size":
		return kind == "async"
	case "waitclose":
		return kind == "mux" || kind == "mq"
	case "waitclear":
		return kind == "mq"
	case "pop":
		return kind != "syncq" || a.Any
	case "close":
		return kind != "priq"
	case "isclosed":
		return kind == "async" || kind == "mux" || kind == "mq"
	case "tryclose", "tryclear", "iscleared":
		return kind == "mq"
	case "trypop":
		return kind == "syncq"
	case "len":
		return kind == "syncq" || kind == "priq"
	case "push":
		return kind == "priq"
	}
	return false
}

// Model is the harness's own count model of the property (lengths and the closed flag only).  It
// decides which calls are issued (a Pop only when the property says it returns, how many drain
// calls) so that generation never depends on what the implementation under test answered.
type Model struct {
	Kind       string
	Ccap, Rcap int
	Nc, Nr     int
	Closed     bool
	Cleared    bool
}

// Returns: the property says the call returns instead of blocking (a Pop on an empty open queue,
// an AddAnyway on a full open lane, a WaitClose / WaitClear with a live context before the close /
// clear block).
func (m *Model) Returns(a Act) bool {
	switch a.Op {
	case "pop":
		return m.Kind == "priq" || m.PopReturns()
	case "addw":
		n, c := m.Nr, m.Rcap
		if a.Lane == "ctrl" {
			n, c = m.Nc, m.Ccap
		}
		return m.Closed || c <= 0 || n < c
	case "waitclose":
		return !a.Bg || m.Closed
	case "waitclear":
		return !a.Bg || m.Cleared
	}
	return true
}

// Len is the number of queued items according to the property.
func (m *Model) Len() int { return m.Nc + m.Nr }

// PopReturns: a Pop / PopAnyway returns instead of blocking.
func (m *Model) PopReturns() bool { return m.Closed || m.Len() > 0 }

func (m *Model) take() {
	if m.Nc > 0 {
		m.Nc--
	} else if m.Nr > 0 {
		m.Nr--
	}
}

// Apply advances the model by one call.
func (m *Model) Apply(a Act) {
	switch a.Op {
	case "add", "addw":
		if m.Closed {
			return
		}
		n, c := &m.Nr, m.Rcap
		if a.Lane == "ctrl" {
			n, c = &m.Nc, m.Ccap
		}
		if (!a.Prior || a.Op == "addw") && c > 0 && *n >= c {
			return
		}
		*n++
	case "push":
		if m.Nr < m.Rcap {
			m.Nr++
		}
	case "pop":
		if m.Kind == "priq" || a.Any || !m.Closed {
			m.take()
		}
	case "trypop":
		m.take()
	case "close":
		m.Closed = true
	case "tryclose":
		if m.Len() == 0 {
			m.Closed = true
		}
	case "tryclear":
		if m.Closed && m.Len() == 0 {
			m.Cleared = true
		}
	}
}
