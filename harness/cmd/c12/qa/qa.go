// Package qa adapts the six neptune queue types to one action/reply vocabulary shared by the C12 and
// C13 harnesses (the action records are the ones of specs/queue/Queue.tla and PriQueue.tla; every
// reply has the shape {"st": string, "v": int}).
package qa

import (
	"context"
	"strconv"
	"strings"
	"sync"
	"time"

	"github.com/pinealctx/neptune/queue/priq"
	"github.com/pinealctx/neptune/queue/syncq"
	aq "github.com/pinealctx/neptune/syncx/pipe/async"
	"github.com/pinealctx/neptune/syncx/pipe/mq"
	muxq "github.com/pinealctx/neptune/syncx/pipe/mux"
	pq "github.com/pinealctx/neptune/syncx/pipe/q"

	"verif/harness/internal/tr"
)

// Act is one action record.
type Act struct {
	Op    string `json:"op"`
	Lane  string `json:"lane"`
	Prior bool   `json:"prior"`
	V     int    `json:"v"`
	Any   bool   `json:"any"`
	Pr    int    `json:"pr"`
	Kind  string `json:"kind"`
	Ccap  int    `json:"ccap"`
	Rcap  int    `json:"rcap"`
	Bg    bool   `json:"bg"`  // waitclose / waitclear: live context (false: a context that has ended)
	Vk    int    `json:"-"`   // value kind of the item of an add (harness side only)
	Val   int    `json:"val"` // value class of the item (0: same as V)
}

func (a Act) class() int {
	if a.Val != 0 {
		return a.Val
	}
	return a.V
}

// PlanLine is one line of a TLC-generated plan.
type PlanLine struct {
	A Act `json:"a"`
}

// Rec is the action record as logged.
func (a Act) Rec() tr.E {
	switch a.Op {
	case "add":
		return tr.E{"op": a.Op, "lane": a.Lane, "prior": a.Prior, "v": a.V, "val": a.class()}
	case "pop":
		return tr.E{"op": a.Op, "any": a.Any}
	case "push":
		return tr.E{"op": a.Op, "v": a.V, "pr": a.Pr}
	case "addw", "paddw":
		return tr.E{"op": a.Op, "lane": a.Lane, "v": a.V, "val": a.class()}
	case "waitclose", "waitclear":
		return tr.E{"op": a.Op, "bg": a.Bg}
	}
	return tr.E{"op": a.Op}
}

// Rp builds a reply.
func Rp(st string, v int) tr.E { return tr.E{"st": st, "v": v} }

// Rb builds a boolean reply.
func Rb(b bool) tr.E {
	if b {
		return Rp("true", 0)
	}
	return Rp("false", 0)
}

// ---------------------------------------------------------------- items
// The queues carry interface{}: the ITEM VALUE is a dimension of the histories.  Every add has an
// item id V (fresh) and a value; the trace carries the value class Val: V itself for values that
// are unique to the item, the id of the first owner for a value pushed twice, and a negative class
// for values that have no identity (untyped nil, typed nil pointer, zero values).  A pop is logged
// with the class of what came out; the spec compares it with the class of the item it expects.
type boxed struct{ id int }
type boxedV struct{ id int }

// value kinds (Act.Vk); 0 = the trace's default representation (Act rep: int, string, *boxed, int64)
const (
	VkDefault  = 0
	VkNil      = 4  // untyped nil                      class -1
	VkTypedNil = 5  // (*boxed)(nil)                    class -2
	VkZeroInt  = 6  // 0                                class -3
	VkEmptyStr = 7  // ""                               class -4
	VkSlice    = 8  // []int{id}          (uncomparable: a queue that compares items panics)
	VkMap      = 9  // map[int]int{id: 1} (uncomparable)
	VkFunc     = 10 // func() int         (uncomparable)
	VkStruct   = 11 // boxedV{id}         (a value, not a pointer)
	VkSame     = 12 // the very pointer of an earlier item (class = that item's id)
)

// ClassOf is the value class a dressed add is logged with.
func ClassOf(vk, id, same int) int {
	switch vk {
	case VkNil:
		return -1
	case VkTypedNil:
		return -2
	case VkZeroInt:
		return -3
	case VkEmptyStr:
		return -4
	case VkSame:
		return same
	}
	return id
}

// values builds item values; pointers are remembered so that the same one can be added twice.
type values struct {
	rep  int
	mu   sync.Mutex // adds of a race build their values on different goroutines
	ptrs map[int]*boxed
}

func (m *values) value(a Act) interface{} {
	switch a.Vk {
	case VkNil:
		return nil
	case VkTypedNil:
		return (*boxed)(nil)
	case VkZeroInt:
		return 0
	case VkEmptyStr:
		return ""
	case VkSlice:
		return []int{a.V}
	case VkMap:
		return map[int]int{a.V: 1}
	case VkFunc:
		id := a.V
		return func() int { return id }
	case VkStruct:
		return boxedV{a.V}
	case VkSame:
		m.mu.Lock()
		p := m.ptrs[a.Val]
		m.mu.Unlock()
		if p != nil {
			return p
		}
		return &boxed{a.Val} // the earlier add was never issued: an equal value all the same
	}
	x := mkItem(m.rep, a.V)
	if p, ok := x.(*boxed); ok {
		m.mu.Lock()
		defer m.mu.Unlock()
		if m.ptrs == nil {
			m.ptrs = map[int]*boxed{}
		}
		m.ptrs[a.V] = p
	}
	return x
}

func mkItem(rep, id int) interface{} {
	switch rep {
	case 1:
		return "i-" + strconv.Itoa(id)
	case 2:
		return &boxed{id}
	case 3:
		return int64(id)
	}
	return id
}

// unItem: the value class of a returned item.
func unItem(x interface{}) (int, bool) {
	switch v := x.(type) {
	case nil:
		return -1, true
	case int:
		if v == 0 {
			return -3, true
		}
		return v, true
	case string:
		if v == "" {
			return -4, true
		}
		n, err := strconv.Atoi(strings.TrimPrefix(v, "i-"))
		return n, err == nil
	case *boxed:
		if v == nil {
			return -2, true
		}
		return v.id, true
	case int64:
		return int(v), true
	case []int:
		if len(v) == 1 {
			return v[0], true
		}
	case map[int]int:
		for k := range v {
			return k, len(v) == 1
		}
	case func() int:
		if v != nil {
			return v(), true
		}
	case boxedV:
		return v.id, true
	}
	return 0, false
}

func itemReply(x interface{}) tr.E {
	if id, ok := unItem(x); ok {
		return Rp("item", id)
	}
	return Rp("foreign", 0)
}

// keepT lets a harness keep every item a call handed out AS RETURNED (the very interface value) and
// decode it again later: a popped item must stay what it was.
type keepT struct{ keep func(interface{}) }

// SetKeep installs the sink for returned items.
func (k *keepT) SetKeep(f func(interface{})) { k.keep = f }

func (k *keepT) item(x interface{}) tr.E {
	if k.keep != nil {
		k.keep(x)
	}
	return itemReply(x)
}

// Keeper is implemented by every adapter.
type Keeper interface{ SetKeep(func(interface{})) }

// ItemReply decodes a kept item (list queues: int / string / *boxed / int64; priq: *pitem).
func ItemReply(x interface{}) tr.E {
	if id, ok := entryID(x); ok {
		return Rp("item", id)
	}
	return itemReply(x)
}

// ctxFor: a live context, or one that has already ended.
func ctxFor(bg bool) context.Context {
	if bg {
		return context.Background()
	}
	c, cancel := context.WithCancel(context.Background())
	cancel()
	return c
}

func waitReply(err error) tr.E {
	switch err {
	case nil:
		return Rp("ok", 0)
	case context.Canceled:
		return Rp("canceled", 0)
	}
	return Rp("err", 0)
}

// the pause of AddAnyway between two tries; it only matters when the lane stays full (the call is
// then blocked by the property and is reported as such)
const addwSleep = AddwSleep

// AddwSleep is the pause handed to AddAnyway.
const AddwSleep = time.Millisecond

type pitem struct{ id, pr int }

func (p *pitem) GetPriority() int { return p.pr }

// entries of other kinds: a plain value, and an uncomparable value (a queue that compares entries
// with == would panic on it)
type vitem struct{ id, pr int }

func (p vitem) GetPriority() int { return p.pr }

type uitem struct {
	id []int
	pr int
}

func (p uitem) GetPriority() int { return p.pr }

func entryID(e interface{}) (int, bool) {
	switch it := e.(type) {
	case *pitem:
		if it != nil {
			return it.id, true
		}
	case vitem:
		return it.id, true
	case uitem:
		if len(it.id) == 1 {
			return it.id[0], true
		}
	}
	return 0, false
}

// ---------------------------------------------------------------- queues
// Queue is the common surface.
type Queue interface {
	Do(a Act) tr.E // blocks only for a.Op == "pop"
	Obs() tr.E
}

func errReply(err error, closed error, fulls ...error) tr.E {
	if err == nil {
		return Rp("ok", 0)
	}
	if err == closed {
		return Rp("closed", 0)
	}
	for _, f := range fulls {
		if err == f {
			return Rp("full", 0)
		}
	}
	return Rp("err", 0)
}

func (k *keepT) popReply(x interface{}, err error, closed error) tr.E {
	if err == nil {
		return k.item(x)
	}
	if err == closed && x == nil {
		return Rp("closed", 0)
	}
	return Rp("err", 0)
}

type qQ struct {
	keepT
	q *pq.Q
	values
}

func (w *qQ) Do(a Act) tr.E {
	switch a.Op {
	case "add":
		if a.Prior {
			return errReply(w.q.AddPriorReq(w.value(a)), pq.ErrClosed, pq.ErrReqQFull)
		}
		return errReply(w.q.AddReq(w.value(a)), pq.ErrClosed, pq.ErrReqQFull)
	case "pop":
		if a.Any {
			x, err := w.q.PopAnyway()
			return w.popReply(x, err, pq.ErrClosed)
		}
		x, err := w.q.Pop()
		return w.popReply(x, err, pq.ErrClosed)
	case "close":
		w.q.Close()
		return Rp("ok", 0)
	case "addw":
		return errReply(w.q.AddReqAnyway(w.value(a), addwSleep), pq.ErrClosed, pq.ErrReqQFull)
	}
	tr.Fatal("q.Q: unsupported op %q", a.Op)
	return nil
}
func (w *qQ) Obs() tr.E { return tr.E{"k": 0} }

type asyncQ struct {
	keepT
	q *aq.Q
	values
}

func (w *asyncQ) Do(a Act) tr.E {
	switch a.Op {
	case "add":
		if a.Prior {
			return errReply(w.q.AddPrior(w.value(a)), aq.ErrClosed, aq.ErrFull)
		}
		return errReply(w.q.Add(w.value(a)), aq.ErrClosed, aq.ErrFull)
	case "pop":
		if a.Any {
			x, err := w.q.PopAnyway()
			return w.popReply(x, err, aq.ErrClosed)
		}
		x, err := w.q.Pop()
		return w.popReply(x, err, aq.ErrClosed)
	case "close":
		w.q.Close()
		return Rp("ok", 0)
	case "isclosed":
		return Rb(w.q.IsClosed())
	case "addw":
		return errReply(w.q.AddAnyway(w.value(a), addwSleep), aq.ErrClosed, aq.ErrFull)
	case "size":
		return Rp("size", Clamp(w.q.Size()))
	}
	tr.Fatal("async.Q: unsupported op %q", a.Op)
	return nil
}
func (w *asyncQ) Obs() tr.E { return tr.E{"closed": w.q.IsClosed()} }

type muxQ struct {
	keepT
	q *muxq.Q
	values
}

func (w *muxQ) Do(a Act) tr.E {
	switch a.Op {
	case "add":
		if a.Prior {
			return errReply(w.q.AddPriorReq(w.value(a)), muxq.ErrClosed, muxq.ErrQFull)
		}
		return errReply(w.q.AddReq(w.value(a)), muxq.ErrClosed, muxq.ErrQFull)
	case "pop":
		if a.Any {
			x, err := w.q.PopAnyway()
			return w.popReply(x, err, muxq.ErrClosed)
		}
		x, err := w.q.Pop()
		return w.popReply(x, err, muxq.ErrClosed)
	case "close":
		w.q.Close()
		return Rp("ok", 0)
	case "isclosed":
		return Rb(w.q.IsClosed())
	case "addw":
		return errReply(w.q.AddReqAnyway(w.value(a), addwSleep), muxq.ErrClosed, muxq.ErrQFull)
	case "waitclose":
		return waitReply(w.q.WaitClose(ctxFor(a.Bg)))
	}
	tr.Fatal("mux.Q: unsupported op %q", a.Op)
	return nil
}
func (w *muxQ) Obs() tr.E { return tr.E{"closed": w.q.IsClosed()} }

type mqQ struct {
	keepT
	q *mq.MQ
	values
}

func (w *mqQ) Do(a Act) tr.E {
	switch a.Op {
	case "add":
		x := w.value(a)
		var err error
		switch {
		case a.Lane == "ctrl" && a.Prior:
			err = w.q.AddPriorCtrl(x)
		case a.Lane == "ctrl":
			err = w.q.AddCtrl(x)
		case a.Prior:
			err = w.q.AddPriorReq(x)
		default:
			err = w.q.AddReq(x)
		}
		return errReply(err, mq.ErrClosed, mq.ErrCtrlQFull, mq.ErrReqQFull)
	case "pop":
		if a.Any {
			x, err := w.q.PopAnyway()
			return w.popReply(x, err, mq.ErrClosed)
		}
		x, err := w.q.Pop()
		return w.popReply(x, err, mq.ErrClosed)
	case "close":
		w.q.Close()
		return Rp("ok", 0)
	case "tryclose":
		return Rb(w.q.TryClose())
	case "tryclear":
		return Rb(w.q.TryClear())
	case "isclosed":
		return Rb(w.q.IsClosed())
	case "iscleared":
		return Rb(w.q.IsCleared())
	case "addw":
		if a.Lane == "ctrl" {
			return errReply(w.q.AddCtrlAnyway(w.value(a), addwSleep), mq.ErrClosed, mq.ErrCtrlQFull, mq.ErrReqQFull)
		}
		return errReply(w.q.AddReqAnyway(w.value(a), addwSleep), mq.ErrClosed, mq.ErrCtrlQFull, mq.ErrReqQFull)
	case "waitclose":
		return waitReply(w.q.WaitClose(ctxFor(a.Bg)))
	case "waitclear":
		return waitReply(w.q.WaitClear(ctxFor(a.Bg)))
	}
	tr.Fatal("mq.MQ: unsupported op %q", a.Op)
	return nil
}
func (w *mqQ) Obs() tr.E { return tr.E{"closed": w.q.IsClosed(), "cleared": w.q.IsCleared()} }

type syncQ struct {
	keepT
	q *syncq.SyncQueue
	values
}

func (w *syncQ) Do(a Act) tr.E {
	switch a.Op {
	case "add":
		w.q.Push(w.value(a))
		return Rp("ok", 0)
	case "pop":
		x := w.q.Pop()
		if x == nil {
			return Rp("closed", 0)
		}
		return w.item(x)
	case "trypop":
		x, ok := w.q.TryPop()
		switch {
		case ok && x == nil:
			return Rp("closed", 0)
		case ok:
			return w.item(x)
		case x == nil:
			return Rp("empty", 0)
		}
		return Rp("err", 0)
	case "close":
		w.q.Close()
		return Rp("ok", 0)
	case "len":
		return Rp("len", w.q.Len())
	}
	tr.Fatal("syncq: unsupported op %q", a.Op)
	return nil
}
func (w *syncQ) Obs() tr.E { return tr.E{"len": w.q.Len()} }

// priQ: the action record carries the RANK of the priority (1 = lowest) among the priorities used
// in the trace; the entry handed to the real queue carries prios[rank-1], any int (64-bit) value.
// Only the order of priorities matters to the property, and ranks fit TLC's integers.
type priQ struct {
	keepT
	q     *priq.PriQueue
	prios []int
}

// NewPri creates a priority queue whose rank r stands for priority prios[r-1] (prios ascending).
func NewPri(rcap int, prios []int) Queue { return &priQ{q: priq.NewPriQueue(rcap), prios: prios} }

func (w *priQ) Do(a Act) tr.E {
	switch a.Op {
	case "push":
		pr := a.Pr
		if w.prios != nil {
			pr = w.prios[a.Pr-1]
		}
		var e priq.IEntry = &pitem{a.V, pr}
		switch a.Vk {
		case VkStruct:
			e = vitem{a.V, pr}
		case VkSlice:
			e = uitem{[]int{a.V}, pr}
		}
		err := w.q.Push(e)
		return errReply(err, nil, priq.ErrQueueIsFull)
	case "pop":
		e := w.q.Pop()
		if e == nil {
			return Rp("empty", 0)
		}
		if id, ok := entryID(e); ok {
			if w.keep != nil {
				w.keep(e)
			}
			return Rp("item", id)
		}
		return Rp("foreign", 0)
	case "len":
		return Rp("len", w.q.Len())
	}
	tr.Fatal("priq: unsupported op %q", a.Op)
	return nil
}
func (w *priQ) Obs() tr.E { return tr.E{"len": w.q.Len()} }

// New creates a queue of the given kind.
func New(kind string, ccap, rcap, rep int) Queue {
	switch kind {
	case "q":
		if rcap == 0 && rep%2 == 0 {
			return &qQ{q: pq.NewQ(), values: values{rep: rep}}
		}
		return &qQ{q: pq.NewQ(pq.WithSize(rcap)), values: values{rep: rep}}
	case "async":
		return &asyncQ{q: aq.NewQ(rcap), values: values{rep: rep}}
	case "mux":
		return &muxQ{q: muxq.NewQ(rcap), values: values{rep: rep}}
	case "mq":
		if ccap == 0 && rcap == 0 && rep%2 == 0 {
			return &mqQ{q: mq.NewMQ(), values: values{rep: rep}}
		}
		return &mqQ{q: mq.NewMQ(mq.WithQCtrlSize(ccap), mq.WithQReqSize(rcap)), values: values{rep: rep}}
	case "syncq":
		return &syncQ{q: syncq.NewSyncQueue(), values: values{rep: rep}}
	case "priq":
		return &priQ{q: priq.NewPriQueue(rcap)}
	}
	tr.Fatal("unknown kind %q", kind)
	return nil
}

// Safe converts a panic inside the library into a reply the spec cannot explain.
func Safe(q Queue, a Act) (r tr.E) {
	defer func() {
		if p := recover(); p != nil {
			r = Rp("panic", 0)
		}
	}()
	return q.Do(a)
}

// Clamp renders a configuration value that TLC's 32-bit integers cannot hold: everything beyond
// +-2^30 is logged as +-2^30 (far beyond any length a history reaches).
func Clamp(v int) int {
	const lim = 1 << 30
	if v > lim {
		return lim
	}
	if v < -lim {
		return -lim
	}
	return v
}

// Supports reports whether the kind has the call.
func Supports(kind string, a Act) bool {
	switch a.Op {
	case "add":
		if kind == "priq" {
			return false
		}
		if a.Lane == "ctrl" {
			return kind == "mq"
		}
		return a.Lane == "req" && !(kind == "syncq" && a.Prior)
	case "addw", "paddw":
		if a.Lane == "ctrl" {
			return kind == "mq"
		}
		return a.Lane == "req" && (kind == "q" || kind == "async" || kind == "mux" || kind == "mq")
	case "size":
		return kind == "async"
	case "waitclose":
		return kind == "mux" || kind == "mq"
	case "waitclear":
		return kind == "mq"
	case "pop":
		return kind != "syncq" || a.Any
	case "close":
		return kind != "priq"
	case "isclosed":
		return kind == "async" || kind == "mux" || kind == "mq"
	case "tryclose", "tryclear", "iscleared":
		return kind == "mq"
	case "trypop":
		return kind == "syncq"
	case "len":
		return kind == "syncq" || kind == "priq"
	case "push":
		return kind == "priq"
	}
	return false
}

// Model is the harness's own count model of the property (lengths and the closed flag only).  It
// decides which calls are issued (a Pop only when the property says it returns, how many drain
// calls) so that generation never depends on what the implementation under test answered.
type Model struct {
	Kind       string
	Ccap, Rcap int
	Nc, Nr     int
	Closed     bool
	Cleared    bool
}

// Returns: the property says the call returns instead of blocking (a Pop on an empty open queue,
// an AddAnyway on a full open lane, a WaitClose / WaitClear with a live context before the close /
// clear block).
func (m *Model) Returns(a Act) bool {
	switch a.Op {
	case "pop":
		return m.Kind == "priq" || m.PopReturns()
	case "addw":
		n, c := m.Nr, m.Rcap
		if a.Lane == "ctrl" {
			n, c = m.Nc, m.Ccap
		}
		return m.Closed || c <= 0 || n < c
	case "waitclose":
		return !a.Bg || m.Closed
	case "waitclear":
		return !a.Bg || m.Cleared
	}
	return true
}

// Len is the number of queued items according to the property.
func (m *Model) Len() int { return m.Nc + m.Nr }

// PopReturns: a Pop / PopAnyway returns instead of blocking.
func (m *Model) PopReturns() bool { return m.Closed || m.Len() > 0 }

func (m *Model) take() {
	if m.Nc > 0 {
		m.Nc--
	} else if m.Nr > 0 {
		m.Nr--
	}
}

// Apply advances the model by one call.
func (m *Model) Apply(a Act) {
	switch a.Op {
	case "add", "addw":
		if m.Closed {
			return
		}
		n, c := &m.Nr, m.Rcap
		if a.Lane == "ctrl" {
			n, c = &m.Nc, m.Ccap
		}
		if (!a.Prior || a.Op == "addw") && c > 0 && *n >= c {
			return
		}
		*n++
	case "push":
		if m.Nr < m.Rcap {
			m.Nr++
		}
	case "pop":
		if m.Kind == "priq" || a.Any || !m.Closed {
			m.take()
		}
	case "trypop":
		m.take()
	case "close":
		m.Closed = true
	case "tryclose":
		if m.Len() == 0 {
			m.Closed = true
		}
	case "tryclear":
		if m.Closed && m.Len() == 0 {
			m.Cleared = true
		}
	}
}

// Dress chooses the value of the item of an add (seeded, harness side): mostly the trace's default
// representation, otherwise one of the special values; `earlier` are the ids added before in this
// trace with the default pointer representation (for "the same pointer again").
func Dress(rnd func(int) int, kind string, rep int, a *Act, earlier []int) {
	if a.Op != "add" && a.Op != "addw" && a.Op != "paddw" && a.Op != "push" {
		return
	}
	if rnd(100) >= 22 {
		return
	}
	if kind == "priq" { // entries must implement IEntry; a nil entry panics in GetPriority on the clean tree
		a.Vk = []int{VkStruct, VkSlice}[rnd(2)]
		return
	}
	ks := []int{VkNil, VkTypedNil, VkZeroInt, VkEmptyStr, VkSlice, VkMap, VkFunc, VkStruct, VkSame, VkNil, VkTypedNil}
	vk := ks[rnd(len(ks))]
	// SyncQueue.Pop reports "closed" as a nil item: an untyped nil item comes back looking like the
	// closed report, and Queue.tla's ItemR reads it that way (the item is consumed all the same)
	same := 0
	if vk == VkSame {
		if rep != 2 || len(earlier) == 0 {
			vk = VkStruct
		} else {
			same = earlier[rnd(len(earlier))]
		}
	}
	a.Vk = vk
	a.Val = ClassOf(vk, a.V, same)
}
