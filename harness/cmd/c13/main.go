// c13: queues - no lost wake-ups; close releases every blocked consumer.
//
// List queues (q.Q, async.Q, mux.Q, mq.MQ, SyncQueue): four consumer goroutines and one goroutine for
// the non-blocking calls; the driver issues ONE call, waits for global quiescence (internal/qx reads
// the wait reason of every goroutine from the Go runtime) and logs who returned with what and who
// is blocked inside its Pop (parked in sync.Cond.Wait).  Validation: specs/queue/QueueWake_Trace.tla.
//
// priq.PriQueue: four goroutines call Push / Pop; with the gate hooks armed a call stops between
// its mutex hold and its signal, the plan's "gate" step lets it continue.  After every step
// len(WaitCh()), Len() and who stands at a gate are logged.  Validation: PriWake_Trace.tla.
//
// Thorough tier: free-running producers / consumers / closer; the run is judged at its quiescent
// end (everybody returned, items conserved; priq: queue non-empty => token in the channel).
package main

import (
	"bufio"
	"encoding/json"
	"flag"
	"fmt"
	"math"
	"math/rand"
	"os"
	"path/filepath"
	"runtime"
	"sort"
	"strconv"
	"strings"
	"sync"
	"sync/atomic"
	"time"

	"github.com/pinealctx/neptune/queue/priq"
	"github.com/pinealctx/neptune/queue/syncq"
	aq "github.com/pinealctx/neptune/syncx/pipe/async"
	"github.com/pinealctx/neptune/syncx/pipe/mq"
	muxq "github.com/pinealctx/neptune/syncx/pipe/mux"
	pq "github.com/pinealctx/neptune/syncx/pipe/q"

	"verif/harness/cmd/c12/qa"
	"verif/harness/internal/qx"
	"verif/harness/internal/tr"
)

const nCons = 4

type act struct {
	qa.Act
	C    int      `json:"c"`
	P    int      `json:"p"`
	K    int      `json:"k"`    // pushn / popn: calls in the burst
	Acts []qa.Act `json:"acts"` // burst: calls issued back to back by one goroutine; race: calls
	// issued by different goroutines released together
	RC    []int // race: the consumer (list queues; 0 = not a Pop) / proc (priq) of each call
	Delay []int // race: spin iterations of each goroutine after the barrier (seeded skew)
}

const nProd = 3 // goroutines that call AddAnyway (they may stay inside the call while the lane is full)

const nCall = 5 // goroutines for the non-blocking calls of a step (a race may need several)

// executors are reused from trace to trace as long as every worker came back
var xpool = map[int][]*qx.Exec{}

func getExec(n int) *qx.Exec {
	if l := xpool[n]; len(l) > 0 {
		xpool[n] = l[:len(l)-1]
		return l[len(l)-1]
	}
	return qx.New(n)
}

func putExec(n int, x *qx.Exec) {
	for p := 1; p <= n; p++ {
		if x.Busy(p) {
			x.Stop() // somebody is still inside a call (that is the finding): leave it behind
			return
		}
	}
	xpool[n] = append(xpool[n], x)
}

// barrier: every goroutine of a race takes a slot and spins, beating a counter of its own; the
// driver lets all go at once, and only at a moment when it has just seen every one of them beat
// (all of them are on a CPU right now - under machine load a descheduled participant would
// otherwise turn the race into a sequence); then each burns its seeded skew.
type barrier struct {
	slots  int32
	goFlag int32
	beat   [8]struct {
		n int64
		_ [56]byte
	}
}

func (b *barrier) wait(delay int) {
	me := atomic.AddInt32(&b.slots, 1) - 1
	for atomic.LoadInt32(&b.goFlag) == 0 {
		atomic.AddInt64(&b.beat[me&7].n, 1)
	}
	for d := 0; d < delay; d++ {
		_ = atomic.LoadInt32(&b.goFlag) // a few ns each, no shared writes
	}
}

func (b *barrier) release(n int) {
	for atomic.LoadInt32(&b.slots) < int32(n) {
		runtime.Gosched()
	}
	var seen [8]int64
	for try := 0; try < 2000; try++ {
		for i := 0; i < n && i < 8; i++ {
			seen[i] = atomic.LoadInt64(&b.beat[i].n)
		}
		for k := 0; k < 200; k++ { // well under a microsecond
			_ = atomic.LoadInt32(&b.goFlag)
		}
		all := true
		for i := 0; i < n && i < 8; i++ {
			if atomic.LoadInt64(&b.beat[i].n) == seen[i] {
				all = false
				break
			}
		}
		if all {
			break
		}
		runtime.Gosched()
	}
	atomic.StoreInt32(&b.goFlag, 1)
}

type planLine struct {
	A act `json:"a"`
}

func readPlan(path string) []act {
	f, err := os.Open(path)
	if err != nil {
		tr.Fatal("%v", err)
	}
	defer f.Close()
	var out []act
	sc := bufio.NewScanner(f)
	for sc.Scan() {
		var l planLine
		if err := json.Unmarshal(sc.Bytes(), &l); err != nil {
			tr.Fatal("plan %s: %v", path, err)
		}
		out = append(out, l.A)
	}
	return out
}

func none() tr.E { return qa.Rp("none", 0) }

// ================================================================ list queues, step by step
// A step has two phases: issue (hand the call(s) to goroutines) and, after global quiescence,
// collect (who returned with what, who is still inside Pop).  runList does them one world at a
// time; runBatch issues the next step of many independent worlds (each its own queue and
// goroutines), waits for quiescence ONCE and collects them all - thousands of race rounds are cheap.
type pending struct {
	a      act
	worker []int // race: the goroutine of each call
}

type lworld struct {
	emit  func(tr.E)
	q     qa.Queue
	kind  string
	x     *qx.Exec
	pbusy [nProd + 1]bool                // producer has an outstanding AddAnyway
	nx    int                            // goroutines of this world's executor
	brun  int                            // the goroutine of the burst issued last
	pp    []qa.Act                       // count model: adds of producers that the model believes blocked
	busy  [nCons + 1]bool                // consumer has an outstanding Pop
	gid   [nCons + nCall + nProd + 1]int // goroutine ids of the workers (written by the call itself)
	m     qa.Model                       // the harness's own count model of the property (drain length only)
	mp    int                            // consumers parked according to that model
	fuzzy bool                           // after a burst / race the model is only an estimate of the length
	slack int                            // adds of bursts / races refused by the model for capacity
	dead  bool
	pend  *pending
	// the steps still to come: the plan, then the drain
	plan   []act
	dstate int
	dq     []act
}

func (a act) rec() tr.E {
	e := a.Act.Rec()
	if a.Op == "pop" {
		e["c"] = a.C
	}
	if a.Op == "paddw" {
		e["p"] = a.P
	}
	if a.Op == "burst" {
		e["c"] = a.C // the consumer goroutine that runs the burst when it contains Pops (0: a caller goroutine)
	}
	if a.Op == "burst" || a.Op == "race" {
		recs := make([]tr.E, len(a.Acts))
		for i, x := range a.Acts {
			recs[i] = x.Rec()
			if a.Op == "race" && x.Op == "pop" {
				recs[i]["c"] = a.RC[i]
			}
			if a.Op == "race" && x.Op == "paddw" {
				recs[i]["p"] = a.RC[i]
			}
		}
		e["acts"] = recs
	}
	return e
}

// issue hands the call(s) of step a to goroutines; false: the step does not apply here.
func (wd *lworld) issue(a act) bool {
	if wd.dead {
		return false
	}
	q := wd.q
	switch a.Op {
	case "race":
		return wd.issueRace(a)
	case "burst":
		// one goroutine, the calls back to back, no quiescence in between: woken consumers race
		// with the rest of the burst
		var keep []qa.Act
		closedBefore := wd.m.Closed
		for _, x := range a.Acts {
			if x.Op == "pop" { // only where it cannot block: PopAnyway... any Pop after a close
				if a.C >= 1 && a.C <= nCons && !wd.busy[a.C] && closedBefore && qa.Supports(wd.kind, x) {
					keep = append(keep, x)
				}
				continue
			}
			if x.Op != "addw" && x.Op != "paddw" && qa.Supports(wd.kind, x) && wd.m.Returns(x) {
				keep = append(keep, x)
				if x.Op == "close" {
					closedBefore = true
				}
			}
		}
		if len(keep) == 0 {
			return false
		}
		a.Acts = keep
		runner := nCons + 1
		for _, x := range keep {
			if x.Op == "pop" {
				runner = a.C
			}
		}
		if runner == nCons+1 {
			a.C = 0
		}
		wd.brun = runner
		wd.x.Issue(runner, func() interface{} {
			rs := make([]tr.E, len(keep))
			for i, x := range keep {
				rs[i] = qa.Safe(q, x)
			}
			return rs
		})
	case "pop":
		if !qa.Supports(wd.kind, a.Act) || a.C < 1 || a.C > nCons || wd.busy[a.C] {
			return false
		}
		wd.busy[a.C] = true
		inner := a.Act
		gid := &wd.gid[a.C]
		wd.x.Issue(a.C, func() interface{} {
			*gid = goid()
			return qa.Safe(q, inner)
		})
	case "paddw":
		// AddAnyway on a producer goroutine: it may stay inside the call while the lane is full
		if !qa.Supports(wd.kind, a.Act) || a.P < 1 || a.P > nProd || wd.pbusy[a.P] {
			return false
		}
		wd.pbusy[a.P] = true
		sleepers++
		inner := a.Act
		inner.Op = "addw"
		gid := &wd.gid[nCons+nCall+a.P]
		wd.x.Issue(nCons+nCall+a.P, func() interface{} {
			*gid = goid()
			return qa.Safe(q, inner)
		})
	default:
		// AddAnyway on a full lane / WaitClose with a live context before the close block by the
		// property: issued only when the count model (Len an upper bound, Closed a certainty) says
		// they return
		if !qa.Supports(wd.kind, a.Act) || !wd.m.Returns(a.Act) {
			return false
		}
		if wd.fuzzy && (a.Op == "addw" || (a.Op == "waitclear" && a.Bg)) {
			return false // whether it returns depends on the exact length: only issued while the model is exact
		}
		inner := a.Act
		wd.x.Issue(nCons+1, func() interface{} { return qa.Safe(q, inner) })
	}
	wd.pend = &pending{a: a}
	return true
}

// issueRace: the calls of the step go to different goroutines (Pops to their consumers, the others
// to the caller goroutines) and are released together by a spin barrier.
func (wd *lworld) issueRace(a act) bool {
	var acts []qa.Act
	var rc, delay, worker []int
	used := map[int]bool{}
	ncall := 0
	for i, x := range a.Acts {
		if !qa.Supports(wd.kind, x) || (x.Op != "pop" && x.Op != "paddw" && (x.Op == "addw" || !wd.m.Returns(x))) {
			continue
		}
		w := 0
		if x.Op == "paddw" {
			p := a.RC[i]
			if p < 1 || p > nProd || wd.pbusy[p] || used[-p] {
				continue
			}
			used[-p], w = true, nCons+nCall+p
		} else if x.Op == "pop" {
			c := a.RC[i]
			if c < 1 || c > nCons || wd.busy[c] || used[c] {
				continue
			}
			used[c], w = true, c
		} else {
			if ncall == nCall {
				continue
			}
			ncall++
			w = nCons + ncall
		}
		d := 0
		if i < len(a.Delay) {
			d = a.Delay[i]
		}
		acts, rc, worker, delay = append(acts, x), append(rc, a.RC[i]), append(worker, w), append(delay, d)
	}
	if len(acts) < 2 {
		return false
	}
	a.Acts, a.RC = acts, rc
	q := wd.q
	b := &barrier{}
	for i, x := range acts {
		x, d := x, delay[i]
		if x.Op == "pop" {
			wd.busy[worker[i]] = true
		}
		if x.Op == "paddw" {
			wd.pbusy[worker[i]-nCons-nCall] = true
			sleepers++
			x.Op = "addw"
		}
		gid := &wd.gid[worker[i]]
		wd.x.Issue(worker[i], func() interface{} {
			*gid = goid()
			b.wait(d)
			return qa.Safe(q, x)
		})
	}
	b.release(len(acts))
	wd.pend = &pending{a: a, worker: worker}
	return true
}

// collect logs the stable picture of the step issued last (call after global quiescence).
func (wd *lworld) collect() {
	p := wd.pend
	wd.pend = nil
	a := p.a
	rep := qa.Rp("parked", 0)
	rs := make([]tr.E, 0)
	switch a.Op {
	case "pop", "paddw":
	case "race":
		rep = qa.Rp("race", 0)
		for i, x := range a.Acts {
			r := qa.Rp("parked", 0) // a Pop / AddAnyway: what it returned (if it did) is in st / pt
			if x.Op != "pop" && x.Op != "paddw" {
				if v, ok := wd.x.Take(p.worker[i]); ok {
					r = v.(tr.E)
				} else {
					r = qa.Rp("blocked", 0) // a call that must not block: nothing in the spec has this reply
					wd.dead = true
				}
			}
			rs = append(rs, r)
		}
	default:
		from := nCons + 1
		if a.Op == "burst" {
			from = wd.brun
		}
		r, ok := wd.x.Take(from)
		switch {
		case !ok:
			rep = qa.Rp("blocked", 0)
			for range a.Acts {
				rs = append(rs, rep)
			}
			wd.dead = true
		case a.Op == "burst":
			rep, rs = qa.Rp("burst", 0), r.([]tr.E)
		default:
			rep = r.(tr.E)
		}
	}
	st := make([]tr.E, nCons)
	for c := 1; c <= nCons; c++ {
		switch {
		case !wd.busy[c]:
			st[c-1] = tr.E{"s": "idle", "r": none()}
		default:
			for tries := 0; ; tries++ {
				if r, ok := wd.x.Take(c); ok {
					wd.busy[c] = false
					re := r.(tr.E)
					st[c-1] = tr.E{"s": "ret", "r": re}
					if c == a.C && a.Op == "pop" {
						rep = re
					}
					break
				}
				// global quiescence and no reply: the consumer is blocked inside its Pop, whatever
				// primitive the queue waits on (the wait reason is logged, not compared).  "Parked" is
				// only logged for a goroutine that the runtime reports blocked right now; anything
				// else means the picture is not final yet: wait for quiescence again.
				why := lastSnap[wd.gid[c]] // one snapshot per quiescence, shared by all worlds
				if blockedState[why] {
					st[c-1] = tr.E{"s": "parked", "r": none(), "why": why}
					break
				}
				if tries >= 8 { // neither returned nor blocked: logged as such, the spec has no such status
					st[c-1] = tr.E{"s": "unsettled:" + why, "r": none()}
					wd.dead = true
					break
				}
				settle()
			}
		}
	}
	// the producers: returned from AddAnyway with a reply, or still inside it (asleep between two
	// tries on the unchanged tree; parked on a condition variable would do as well)
	pt := make([]tr.E, nProd)
	for pr := 1; pr <= nProd; pr++ {
		w := nCons + nCall + pr
		switch {
		case !wd.pbusy[pr]:
			pt[pr-1] = tr.E{"s": "idle", "r": none()}
		default:
			for tries := 0; ; tries++ {
				if r, ok := wd.x.Take(w); ok {
					wd.pbusy[pr] = false
					sleepers--
					pt[pr-1] = tr.E{"s": "ret", "r": r.(tr.E)}
					break
				}
				why := lastSnap[wd.gid[w]]
				if blockedState[why] || why == "sleep" {
					pt[pr-1] = tr.E{"s": "parked", "r": none(), "why": why}
					break
				}
				if tries >= 8 {
					pt[pr-1] = tr.E{"s": "unsettled:" + why, "r": none()}
					wd.dead = true
					break
				}
				settle()
			}
		}
	}
	ev := tr.E{"ev": "step", "a": a.rec(), "r": rep, "st": st, "pt": pt}
	// the count model: Closed must be a certainty (a WaitClose with a live context is issued on it),
	// so a try-close only counts while the model is exact and nothing is added in the same step
	wasFuzzy := wd.fuzzy
	adds := 0
	for _, x := range a.Acts {
		if x.Op == "add" {
			adds++
		}
	}
	tryCloseCounts := !wasFuzzy && adds == 0
	switch a.Op {
	case "burst":
		ev["rs"] = rs
		wd.fuzzy = true
		for _, x := range a.Acts {
			if x.Op == "pop" {
				wd.modelPop(x)
			} else if x.Op != "tryclose" || tryCloseCounts {
				wd.model(x)
			}
		}
	case "race":
		ev["rs"] = rs
		wd.fuzzy = true
		// adds first, then close, then the Pops
		for _, x := range a.Acts {
			if x.Op == "add" {
				wd.model(x)
			}
		}
		for _, x := range a.Acts {
			if x.Op == "close" || (x.Op == "tryclose" && tryCloseCounts) {
				wd.model(x)
			}
		}
		for _, x := range a.Acts {
			if x.Op == "paddw" {
				wd.modelProd(x)
			}
		}
		for _, x := range a.Acts {
			if x.Op == "pop" {
				wd.modelPop(x)
			}
		}
	case "pop":
		wd.modelPop(a.Act)
	case "paddw":
		wd.modelProd(a.Act)
	case "tryclose":
		if tryCloseCounts {
			wd.model(a.Act)
		}
	default:
		wd.model(a.Act)
	}
	wd.emit(ev)
}

var blockedState = map[string]bool{
	"sync.Cond.Wait": true, "chan receive": true, "chan send": true, "select": true,
	"sync.Mutex.Lock": true, "sync.RWMutex.Lock": true, "sync.RWMutex.RLock": true, "semacquire": true,
	"sync.WaitGroup.Wait": true,
}

// modelProd: an AddAnyway either happens or is remembered as pending (the lane is full).
func (wd *lworld) modelProd(x qa.Act) {
	x.Op = "addw"
	if wd.m.Returns(x) {
		wd.model(x)
	} else {
		wd.pp = append(wd.pp, x)
	}
}

func (wd *lworld) modelPop(x qa.Act) {
	if wd.m.PopReturns() {
		wd.model(x)
	} else {
		wd.mp++
	}
}

// model advances the count model: parked consumers take what arrives, a close releases them.
func (wd *lworld) model(x qa.Act) {
	before := wd.m.Len()
	wd.m.Apply(x)
	if x.Op == "add" && wd.fuzzy && !wd.m.Closed && wd.m.Len() == before {
		wd.slack++
	}
	for again := true; again; {
		again = false
		for wd.mp > 0 && wd.m.Len() > 0 {
			wd.m.Apply(qa.Act{Op: "pop", Any: true})
			wd.mp--
			again = true
		}
		for i := 0; i < len(wd.pp); i++ { // blocked producers get on when there is room (refused once closed)
			if wd.m.Returns(wd.pp[i]) {
				wd.m.Apply(wd.pp[i])
				wd.pp = append(wd.pp[:i], wd.pp[i+1:]...)
				i--
				again = true
			}
		}
	}
	if wd.m.Closed {
		wd.mp = 0
	}
}

// bursts rewrites a plan: runs of consecutive non-blocking calls (adds, close, try-close; the
// internal "wake" lines of the plan are dropped first) become one burst step of up to 4 calls.
func bursts(plan []act) []act {
	var out []act
	var run []qa.Act
	flush := func() {
		for len(run) > 0 {
			n := len(run)
			if n > 4 {
				n = 4
			}
			if n == 1 {
				out = append(out, act{Act: run[0]})
			} else {
				out = append(out, act{Act: qa.Act{Op: "burst"}, Acts: append([]qa.Act{}, run[:n]...)})
			}
			run = run[n:]
		}
	}
	for _, a := range plan {
		switch a.Op {
		case "wake":
		case "add", "close", "tryclose":
			run = append(run, a.Act)
		default:
			flush()
			out = append(out, a)
		}
	}
	flush()
	return out
}

func mkAct(op string) act { return act{Act: qa.Act{Op: op}} }

// next: the plan, then the drain.  The drain is a sequential observation of what the queue holds
// and says about itself: the accessors the type has (IsClosed / IsCleared / Len), a close (every
// parked consumer must come back), the residue taken out with PopAnyway by a free consumer until
// "closed", TryClear, and the accessors again - so that a stranded or lost item is visible even when
// every reply looked plausible.
func (wd *lworld) next() (act, bool) {
	if len(wd.plan) > 0 {
		a := wd.plan[0]
		wd.plan = wd.plan[1:]
		return a, true
	}
	for {
		if len(wd.dq) > 0 {
			a := wd.dq[0]
			wd.dq = wd.dq[1:]
			return a, true
		}
		switch wd.dstate {
		case 0:
			wd.dstate = 1
			wd.dq = []act{mkAct("isclosed"), mkAct("iscleared"), mkAct("len")}
			if !wd.m.Closed {
				wd.dq = append(wd.dq, mkAct("close"))
			}
		case 1:
			wd.dstate = 2
			free := 0
			for c := 1; c <= nCons; c++ {
				if !wd.busy[c] {
					free = c
					break
				}
			}
			if free != 0 {
				// an upper bound of what is queued: the model's length plus the adds of bursts / races
				// that the model refused for capacity (in another order they may have been accepted)
				for i := wd.m.Len() + wd.slack + len(wd.pp) + 1; i > 0; i-- {
					wd.dq = append(wd.dq, act{Act: qa.Act{Op: "pop", Any: true}, C: free})
				}
			}
			wd.dq = append(wd.dq, mkAct("tryclear"), mkAct("iscleared"), mkAct("isclosed"), mkAct("len"))
		default:
			return act{}, false
		}
	}
}

// advance issues the next applicable step; false: the world is finished.
func (wd *lworld) advance() bool {
	for !wd.dead {
		a, ok := wd.next()
		if !ok {
			return false
		}
		if wd.issue(a) {
			return true
		}
	}
	return false
}

// dress gives the items of a plan their values (see qa.Dress), also inside bursts and races.
func dress(kind string, rep int, plan []act) {
	var earlier, now []int // "the same pointer again" refers to items of EARLIER steps only
	one := func(a *qa.Act) {
		qa.Dress(dressRng.Intn, kind, rep, a, earlier)
		if (a.Op == "add" || a.Op == "addw") && a.Vk == qa.VkDefault && rep == 2 {
			now = append(now, a.V)
		}
	}
	for i := range plan {
		one(&plan[i].Act)
		for j := range plan[i].Acts {
			one(&plan[i].Acts[j])
		}
		earlier, now = append(earlier, now...), nil
	}
}

var dressRng = rand.New(rand.NewSource(1))

func hasProd(plan []act) bool {
	for _, a := range plan {
		if a.Op == "paddw" {
			return true
		}
		for _, x := range a.Acts {
			if x.Op == "paddw" {
				return true
			}
		}
	}
	return false
}

func newWorld(src, kind string, ccap, rcap, rep int, plan []act, emit func(tr.E)) *lworld {
	dress(kind, rep, plan)
	nx := nCons + nCall // producer goroutines only for the worlds that have producers
	if hasProd(plan) {
		nx += nProd
	}
	wd := &lworld{emit: emit, q: qa.New(kind, ccap, rcap, rep), kind: kind, x: getExec(nx), nx: nx,
		m: qa.Model{Kind: kind, Ccap: ccap, Rcap: rcap}, plan: plan}
	emit(tr.E{"ev": "reset", "kind": kind, "ccap": qa.Clamp(ccap), "rcap": qa.Clamp(rcap), "src": src, "rep": rep})
	return wd
}

// settle waits for global quiescence and keeps the goroutine states seen right after it.
var dbgSettles, dbgExtra int
var dbgT0 = time.Now()
var dbgSettleTime, dbgExtraTime time.Duration

func settle() {
	t0 := time.Now()
	defer func() { dbgSettles++; dbgSettleTime += time.Since(t0) }()
	settleWith(settler)
	// A producer inside AddAnyway polls (sleep, retry) on the unchanged tree: "asleep" counts as
	// quiet, but it will try again.  While any producer is inside a call, quiescence is only final
	// after every sleeper has had its retries: the driver sleeps several poll periods (when its own
	// timer has fired the earlier ones have too) and waits for quiescence again, twice.
	if sleepers > 0 {
		t1 := time.Now()
		for round := 0; round < 2; round++ {
			time.Sleep(3*qa.AddwSleep + time.Millisecond)
			settleWith(settler)
		}
		dbgExtra++
		dbgExtraTime += time.Since(t1)
	}
	lastSnap = qx.Goroutines()
}

var sleepers int // producers with an outstanding AddAnyway, over all worlds

// settleWith: no quiescence within the budget is retried; if a goroutine is then still RUNNING
// inside neptune's code (a call that neither returns nor blocks), that is an observation about the
// code under test: a `hang` event is written - every trace spec rejects it - and the harness ends
// normally.  Anything else (nothing of neptune running) stays a harness problem (exit 2).
func settleWith(x *qx.Exec) {
	var err error
	for try := 0; try < 3; try++ {
		if err = x.Settle(); err == nil {
			return
		}
	}
	if where := stuckInNeptune(); where != "" {
		onHang(where)
	}
	tr.Fatal("%v", err)
}

// runningInNeptune: the goroutines that are running / runnable with a neptune frame on top of the
// harness frames, as "goroutine id -> function".
func runningInNeptune() map[string]string {
	out := map[string]string{}
	buf := make([]byte, 4<<20)
	n := runtime.Stack(buf, true)
	for _, blk := range strings.Split(string(buf[:n]), "\n\n") {
		nl := strings.IndexByte(blk, '\n')
		if nl < 0 {
			continue
		}
		head := blk[:nl]
		if !(strings.Contains(head, "[running") || strings.Contains(head, "[runnable")) {
			continue
		}
		for _, ln := range strings.Split(blk[nl+1:], "\n") {
			if strings.HasPrefix(ln, "github.com/pinealctx/neptune/") {
				if k := strings.LastIndex(ln, "("); k > 0 {
					ln = ln[:k]
				}
				out[strings.Fields(head)[1]] = ln
				break
			}
			if strings.HasPrefix(ln, "main.") && !strings.Contains(ln, ".func") {
				break
			}
		}
	}
	return out
}

// stuckInNeptune: the same goroutine is found running in the same neptune function at six probes
// two seconds apart (a starved but progressing process shows changing pictures).
func stuckInNeptune() string {
	cand := runningInNeptune()
	for probe := 0; probe < 5 && len(cand) > 0; probe++ {
		time.Sleep(2 * time.Second)
		now := runningInNeptune()
		for g, f := range cand {
			if now[g] != f {
				delete(cand, g)
			}
		}
	}
	for _, f := range cand {
		return f
	}
	return ""
}

// onHang is installed by main: flush what was recorded, append the hang event, end the harness.
var (
	onHang     = func(where string) {}
	batchFlush func()
	curW       *tr.W
)

var lastSnap map[int]string

func goid() int {
	var buf [64]byte
	n := runtime.Stack(buf[:], false)
	f := strings.Fields(string(buf[:n]))
	id, _ := strconv.Atoi(f[1])
	return id
}

// a caller asleep between two tries of AddAnyway is blocked (the lane is full), not busy
var settler = func() *qx.Exec {
	x := qx.New(0)
	x.Ignore = map[string]bool{"sleep": true}
	return x
}()

type spec struct {
	src, kind       string
	ccap, rcap, rep int
	plan            []act
}

// runBatch runs independent worlds in lock-step: every world issues its next step, ONE global
// quiescence, every world logs its picture.  Each world's events stay contiguous in the file.
func runBatch(w *tr.W, specs []spec) {
	curW = w
	worlds := make([]*lworld, len(specs))
	bufs := make([][]tr.E, len(specs))
	for i, sp := range specs {
		i := i
		worlds[i] = newWorld(sp.src, sp.kind, sp.ccap, sp.rcap, sp.rep, sp.plan,
			func(e tr.E) { bufs[i] = append(bufs[i], e) })
	}
	// goroutines idling in the pool make every snapshot of the runtime dearer: executors of a size
	// this batch does not use are ended
	for n, l := range xpool {
		if len(worlds) > 0 && n != worlds[0].nx {
			for _, x := range l {
				x.Stop()
			}
			delete(xpool, n)
		}
	}
	batchFlush = func() { // a hang ends the harness: what the worlds recorded so far is kept
		for i := range worlds {
			for _, e := range bufs[i] {
				w.Emit(e)
			}
		}
	}
	defer func() { batchFlush = nil }()
	for {
		var active []*lworld
		for _, wd := range worlds {
			if wd.advance() {
				active = append(active, wd)
			}
		}
		if len(active) == 0 {
			break
		}
		settle()
		for _, wd := range active {
			wd.collect()
		}
	}
	for i, wd := range worlds {
		for pr := 1; pr <= nProd; pr++ { // a producer left behind inside its call no longer counts
			if wd.pbusy[pr] {
				sleepers--
			}
		}
		putExec(wd.nx, wd.x)
		for _, e := range bufs[i] {
			w.Emit(e)
		}
	}
}

func randList(rng *rand.Rand, kind string, n int) []act {
	var out []act
	id := 0
	closeAt := -1
	if rng.Intn(3) != 0 {
		closeAt = n/3 + rng.Intn(n/2+1)
	}
	pPop := 30 + rng.Intn(35)
	for i := 0; i < n; i++ {
		if i == closeAt {
			if kind == "mq" && rng.Intn(2) == 0 {
				out = append(out, mkAct("tryclose"))
			} else {
				out = append(out, mkAct("close"))
			}
			continue
		}
		x := rng.Intn(100)
		switch {
		case x < pPop:
			out = append(out, act{Act: qa.Act{Op: "pop", Any: kind == "syncq" || rng.Intn(5) < 2}, C: rng.Intn(nCons) + 1})
		case x < pPop+30:
			mk := func() qa.Act {
				id++
				lane := "req"
				if kind == "mq" && rng.Intn(5) < 2 {
					lane = "ctrl"
				}
				return qa.Act{Op: "add", Lane: lane, Prior: kind != "syncq" && rng.Intn(4) == 0, V: id}
			}
			if rng.Intn(3) == 0 { // a burst of adds, sometimes with the close right behind
				b := act{Act: qa.Act{Op: "burst"}}
				for k := 2 + rng.Intn(3); k > 0; k-- {
					b.Acts = append(b.Acts, mk())
				}
				if rng.Intn(6) == 0 {
					b.Acts = append(b.Acts, qa.Act{Op: "close"})
				}
				out = append(out, b)
			} else {
				out = append(out, act{Act: mk()})
			}
		case x < pPop+36 && kind != "syncq":
			id++
			out = append(out, act{Act: qa.Act{Op: "paddw", Lane: "req", V: id}, P: 1 + rng.Intn(nProd)})
		default:
			out = append(out, mkAct([]string{"isclosed", "tryclose", "tryclear", "len", "trypop"}[rng.Intn(5)]))
		}
	}
	return out
}

// ================================================================ list queues, free running
type rawQ interface {
	add(v int) bool // false: refused
	pop(any bool) (int, bool)
	close()
}

type rq struct{ q *pq.Q }

func (r rq) add(v int) bool { return r.q.AddReq(v) == nil }
func (r rq) pop(any bool) (int, bool) {
	var x interface{}
	var err error
	if any {
		x, err = r.q.PopAnyway()
	} else {
		x, err = r.q.Pop()
	}
	if err != nil {
		return 0, false
	}
	return x.(int), true
}
func (r rq) close() { r.q.Close() }

type ra struct{ q *aq.Q }

func (r ra) add(v int) bool { return r.q.Add(v) == nil }
func (r ra) pop(any bool) (int, bool) {
	var x interface{}
	var err error
	if any {
		x, err = r.q.PopAnyway()
	} else {
		x, err = r.q.Pop()
	}
	if err != nil {
		return 0, false
	}
	return x.(int), true
}
func (r ra) close() { r.q.Close() }

type rm struct{ q *muxq.Q }

func (r rm) add(v int) bool { return r.q.AddReq(v) == nil }
func (r rm) pop(any bool) (int, bool) {
	var x interface{}
	var err error
	if any {
		x, err = r.q.PopAnyway()
	} else {
		x, err = r.q.Pop()
	}
	if err != nil {
		return 0, false
	}
	return x.(int), true
}
func (r rm) close() { r.q.Close() }

type rmq struct{ q *mq.MQ }

func (r rmq) add(v int) bool {
	if v%3 == 0 {
		return r.q.AddCtrl(v) == nil
	}
	return r.q.AddReq(v) == nil
}
func (r rmq) pop(any bool) (int, bool) {
	var x interface{}
	var err error
	if any {
		x, err = r.q.PopAnyway()
	} else {
		x, err = r.q.Pop()
	}
	if err != nil {
		return 0, false
	}
	return x.(int), true
}
func (r rmq) close() { r.q.Close() }

type rs struct{ q *syncq.SyncQueue }

func (r rs) add(v int) bool { r.q.Push(v); return true }
func (r rs) pop(bool) (int, bool) {
	x := r.q.Pop()
	if x == nil {
		return 0, false
	}
	return x.(int), true
}
func (r rs) close() { r.q.Close() }

func newRaw(kind string, rcap int) rawQ {
	switch kind {
	case "q":
		return rq{pq.NewQ(pq.WithSize(rcap))}
	case "async":
		return ra{aq.NewQ(rcap)}
	case "mux":
		return rm{muxq.NewQ(rcap)}
	case "mq":
		return rmq{mq.NewMQ(mq.WithQCtrlSize(rcap), mq.WithQReqSize(rcap))}
	}
	return rs{syncq.NewSyncQueue()}
}

// stressList: producers add distinct items, consumers pop until "closed", a closer closes when the
// producers are done (sometimes earlier).  At global quiescence every consumer must have returned.
func stressList(w *tr.W, rng *rand.Rand, kind string, rcap, nprod, ncons, per int) {
	curW = w
	q := newRaw(kind, rcap)
	var mu sync.Mutex
	got := make([]int, 0, nprod*per)
	accepted := make([]int, 0, nprod*per)
	var running, pdone int32
	var pwg sync.WaitGroup
	early := kind != "syncq" && rng.Intn(3) == 0
	for p := 0; p < nprod; p++ {
		pwg.Add(1)
		go func(p int) {
			defer pwg.Done()
			mine := make([]int, 0, per)
			for i := 0; i < per; i++ {
				v := p*per + i + 1
				if q.add(v) {
					mine = append(mine, v)
				}
			}
			mu.Lock()
			accepted = append(accepted, mine...)
			mu.Unlock()
			atomic.AddInt32(&pdone, 1)
		}(p)
	}
	for c := 0; c < ncons; c++ {
		atomic.AddInt32(&running, 1)
		any := kind == "syncq" || c%2 == 0
		go func() {
			mine := make([]int, 0, per)
			for {
				v, ok := q.pop(any)
				if !ok {
					break
				}
				mine = append(mine, v)
			}
			mu.Lock()
			got = append(got, mine...)
			mu.Unlock()
			atomic.AddInt32(&running, -1)
		}()
	}
	go func() {
		if !early {
			pwg.Wait()
		}
		q.close()
	}()
	// quiescence, not pwg.Wait(): a producer that never comes back is counted, not waited for
	settleWith(settler)
	stuck := int(atomic.LoadInt32(&running)) + nprod - int(atomic.LoadInt32(&pdone))
	// the residue of the closed queue (adds on a syncq after close are dropped silently, so the
	// "accepted" set of a syncq is what was pushed before the close: not observable -> only unbounded,
	// late close for syncq, see main)
	residue := make([]int, 0)
	if stuck == 0 {
		for {
			v, ok := q.pop(true)
			if !ok {
				break
			}
			residue = append(residue, v)
		}
	}
	mu.Lock()
	sort.Ints(accepted)
	w.Emit(tr.E{"ev": "reset", "kind": kind, "ccap": 0, "rcap": rcap, "src": "stress", "rep": 0})
	w.Emit(tr.E{"ev": "stress", "stuck": stuck, "got": got, "residue": residue, "accepted": accepted,
		"nprod": nprod, "ncons": ncons, "early": early})
	mu.Unlock()
}

// ================================================================ priq, step by step with gates
var (
	gateArmed int32
	gateCh    = make(chan chan struct{}, 16)
)

func gate(string) {
	if atomic.LoadInt32(&gateArmed) == 0 {
		return
	}
	c := make(chan struct{})
	gateCh <- c
	<-c
}

type pent struct{ id int }

func (p *pent) GetPriority() int { return p.id % 3 }

type pworld struct {
	w    *tr.W
	q    *priq.PriQueue
	x    *qx.Exec
	rel  [nCons + 1]chan struct{} // non-nil: the worker stands at a gate
	id   int
	dead bool
}

func (wd *pworld) call(p int, op string) {
	q := wd.q
	if op == "push" || op == "pushx" {
		wd.id++
		e := &pent{wd.id}
		wd.x.Issue(p, func() (r interface{}) {
			defer func() {
				if pv := recover(); pv != nil {
					r = qa.Rp("panic", 0)
				}
			}()
			if err := q.Push(e); err == priq.ErrQueueIsFull {
				return qa.Rp("full", 0)
			} else if err != nil {
				return qa.Rp("err", 0)
			}
			return qa.Rp("ok", 0)
		})
		return
	}
	wd.x.Issue(p, func() (r interface{}) {
		defer func() {
			if pv := recover(); pv != nil {
				r = qa.Rp("panic", 0)
			}
		}()
		if e := q.Pop(); e == nil {
			return qa.Rp("empty", 0)
		}
		return qa.Rp("item", 0)
	})
}

// race: pushx / popx / len / recv by distinct procs, released together, gates open.
func (wd *pworld) race(a act) {
	var recs []tr.E
	var procs []int
	var fns []func() tr.E
	used := map[int]bool{}
	q := wd.q
	for i, x := range a.Acts {
		p := a.RC[i]
		if p < 1 || p > nCons || used[p] || wd.rel[p] != nil {
			continue
		}
		var f func() tr.E
		switch x.Op {
		case "pushx":
			wd.id++
			e := &pent{wd.id}
			f = func() tr.E {
				if err := q.Push(e); err == priq.ErrQueueIsFull {
					return qa.Rp("full", 0)
				} else if err != nil {
					return qa.Rp("err", 0)
				}
				return qa.Rp("ok", 0)
			}
		case "popx":
			f = func() tr.E {
				if q.Pop() == nil {
					return qa.Rp("empty", 0)
				}
				return qa.Rp("item", 0)
			}
		case "len":
			f = func() tr.E { return qa.Rp("len", q.Len()) }
		case "recv":
			f = func() tr.E {
				select {
				case <-q.WaitCh():
					return qa.Rp("true", 0)
				default:
					return qa.Rp("false", 0)
				}
			}
		default:
			continue
		}
		used[p] = true
		recs, procs, fns = append(recs, tr.E{"op": x.Op, "p": p}), append(procs, p), append(fns, f)
	}
	if len(fns) < 2 {
		return
	}
	b := &barrier{}
	for i := range fns {
		f, d := fns[i], 0
		if i < len(a.Delay) {
			d = a.Delay[i]
		}
		wd.x.Issue(procs[i], func() (r interface{}) {
			defer func() {
				if pv := recover(); pv != nil {
					r = qa.Rp("panic", 0)
				}
			}()
			b.wait(d)
			return f()
		})
	}
	b.release(len(fns))
	settleWith(wd.x)
	rs := make([]tr.E, len(fns))
	for i, p := range procs {
		if r, ok := wd.x.Take(p); ok {
			rs[i] = r.(tr.E)
		} else {
			rs[i] = qa.Rp("blocked:"+wd.x.WaitState(p), 0)
			wd.dead = true
		}
	}
	st := make([]string, nCons)
	for i := 1; i <= nCons; i++ {
		st[i-1] = "idle"
		if wd.rel[i] != nil {
			st[i-1] = "gate"
		}
	}
	wd.w.Emit(tr.E{"ev": "step", "a": tr.E{"op": "race", "acts": recs}, "r": qa.Rp("race", 0), "rs": rs,
		"sig": len(wd.q.WaitCh()), "len": wd.q.Len(), "st": st})
}

func (wd *pworld) step(a act) {
	if a.Op == "race" {
		if !wd.dead {
			wd.race(a)
		}
		return
	}
	p := a.P
	if wd.dead || (a.Op != "gateall" && (p < 1 || p > nCons)) {
		return
	}
	atGate := a.Op != "gateall" && wd.rel[p] != nil
	var rep tr.E
	switch a.Op {
	case "push", "pop", "pushx", "popx":
		if atGate {
			return
		}
		armed := a.Op == "push" || a.Op == "pop"
		if armed {
			atomic.StoreInt32(&gateArmed, 1)
		}
		wd.call(p, a.Op)
		settleWith(wd.x)
		atomic.StoreInt32(&gateArmed, 0)
		if r, ok := wd.x.Take(p); ok {
			rep = r.(tr.E)
		} else {
			select {
			case c := <-gateCh:
				wd.rel[p] = c
				rep = qa.Rp("gate", 0)
			default:
				rep = qa.Rp("blocked:"+wd.x.WaitState(p), 0)
				wd.dead = true
			}
		}
	case "gate":
		if !atGate {
			return
		}
		close(wd.rel[p])
		wd.rel[p] = nil
		settleWith(wd.x)
		if r, ok := wd.x.Take(p); ok {
			rep = r.(tr.E)
		} else {
			rep = qa.Rp("blocked:"+wd.x.WaitState(p), 0)
			wd.dead = true
		}
	case "pushn", "popn":
		// k calls back to back on one goroutine, gates open
		if atGate || a.K < 1 {
			return
		}
		q, k, push := wd.q, a.K, a.Op == "pushn"
		base := wd.id
		wd.id += k
		wd.x.Issue(p, func() (r interface{}) {
			defer func() {
				if pv := recover(); pv != nil {
					r = qa.Rp("panic", 0)
				}
			}()
			n := 0
			for i := 1; i <= k; i++ {
				if push {
					if q.Push(&pent{base + i}) == nil {
						n++
					}
				} else if q.Pop() != nil {
					n++
				}
			}
			if push {
				return qa.Rp("ok", n)
			}
			return qa.Rp("item", n)
		})
		settleWith(wd.x)
		if r, ok := wd.x.Take(p); ok {
			rep = r.(tr.E)
		} else {
			rep = qa.Rp("blocked:"+wd.x.WaitState(p), 0)
			wd.dead = true
		}
	case "gateall":
		// every call standing at a gate continues at once
		n := 0
		for i := 1; i <= nCons; i++ {
			if wd.rel[i] != nil {
				close(wd.rel[i])
				wd.rel[i] = nil
				n++
			}
		}
		settleWith(wd.x)
		rep = qa.Rp("ok", n)
		for i := 1; i <= nCons; i++ {
			if wd.x.Busy(i) {
				if _, ok := wd.x.Take(i); !ok {
					rep = qa.Rp("blocked:"+wd.x.WaitState(i), 0)
					wd.dead = true
				}
			}
		}
	case "recv":
		if atGate {
			return
		}
		select {
		case <-wd.q.WaitCh():
			rep = qa.Rp("true", 0)
		default:
			rep = qa.Rp("false", 0)
		}
	default:
		return
	}
	st := make([]string, nCons)
	for i := 1; i <= nCons; i++ {
		if wd.rel[i] != nil {
			st[i-1] = "gate"
		} else {
			st[i-1] = "idle"
		}
	}
	rec := tr.E{"op": a.Op, "p": p}
	switch a.Op {
	case "pushn", "popn":
		rec["k"] = a.K
	case "gateall":
		rec = tr.E{"op": a.Op}
	}
	wd.w.Emit(tr.E{"ev": "step", "a": rec, "r": rep,
		"sig": len(wd.q.WaitCh()), "len": wd.q.Len(), "st": st})
}

func runPri(w *tr.W, src string, rcap int, plan []act) {
	curW = w
	wd := &pworld{w: w, q: priq.NewPriQueue(rcap), x: getExec(nCons)}
	w.Emit(tr.E{"ev": "reset", "kind": "priq", "ccap": 0, "rcap": qa.Clamp(rcap), "src": src})
	for _, a := range plan {
		wd.step(a)
	}
	// let everybody finish, then empty the queue the way a consumer does: token, then Pop
	for p := 1; p <= nCons; p++ {
		wd.step(act{Act: qa.Act{Op: "gate"}, P: p})
	}
	left := rcap // what may be queued: at most the capacity, and the plans push a few dozen at most
	if left > 40 {
		left = 40
	}
	for i := 0; i < 3*left+6 && !wd.dead; i++ {
		wd.step(act{Act: qa.Act{Op: "recv"}, P: 1})
		wd.step(act{Act: qa.Act{Op: "popx"}, P: 1})
	}
	putExec(nCons, wd.x)
}

func skews(rng *rand.Rand, n int) []int {
	// sweep the calls over each other: windows inside a call are a few instructions wide
	d := make([]int, n)
	for i := range d {
		switch rng.Intn(4) {
		case 0, 1:
			d[i] = rng.Intn(64)
		case 2:
			d[i] = rng.Intn(400)
		}
	}
	return d
}

// reader: a call that only looks (accessors, a WaitClose / WaitClear whose context has ended, and
// for the sync queue the non-blocking TryPop) - readers take part in the races as calls with replies.
func reader(rng *rand.Rand, kind string) (qa.Act, bool) {
	var ops []string
	switch kind {
	case "async":
		ops = []string{"isclosed", "size"}
	case "mux":
		ops = []string{"isclosed", "waitclose"}
	case "mq":
		ops = []string{"isclosed", "iscleared", "waitclose", "waitclear"}
	case "syncq":
		ops = []string{"len", "trypop"}
	default:
		return qa.Act{}, false
	}
	return qa.Act{Op: ops[rng.Intn(len(ops))]}, true
}

// raceList: the race itself on a fresh, empty or nearly empty queue: k consumers entering Pop
// together with a close, adds, or both.
func raceList(rng *rand.Rand, kind string) (plan []act) {
	id := 0
	add := func() qa.Act {
		id++
		lane := "req"
		if kind == "mq" && rng.Intn(3) == 0 {
			lane = "ctrl"
		}
		return qa.Act{Op: "add", Lane: lane, Prior: kind != "syncq" && rng.Intn(5) == 0, V: id}
	}
	if rng.Intn(4) == 0 {
		plan = append(plan, act{Act: add()})
	}
	r := act{Act: qa.Act{Op: "race"}}
	var ext []qa.Act
	switch rng.Intn(6) {
	case 0, 1, 2:
		ext = []qa.Act{{Op: "close"}}
	case 3:
		ext = []qa.Act{add()}
	case 4:
		ext = []qa.Act{add(), add()}
	default:
		ext = []qa.Act{add(), {Op: "close"}}
		if kind == "mq" && rng.Intn(2) == 0 {
			ext[1].Op = "tryclose"
		}
	}
	// several consumers contend for the queue's mutex on their way in: that spreads the moments at
	// which each of them is about to sleep
	k := 1 + rng.Intn(5-len(ext))
	if len(ext) == 1 && rng.Intn(2) == 0 {
		k = 3 + rng.Intn(2)
	}
	for c := 1; c <= k; c++ {
		r.Acts = append(r.Acts, qa.Act{Op: "pop", Any: kind == "syncq" || rng.Intn(2) == 0})
		r.RC = append(r.RC, c)
	}
	for _, x := range ext {
		r.Acts = append(r.Acts, x)
		r.RC = append(r.RC, 0)
	}
	if x, ok := reader(rng, kind); ok && len(r.Acts) < 5 && rng.Intn(3) == 0 {
		r.Acts, r.RC = append(r.Acts, x), append(r.RC, 0)
	}
	rng.Shuffle(len(r.Acts), func(i, j int) {
		r.Acts[i], r.Acts[j] = r.Acts[j], r.Acts[i]
		r.RC[i], r.RC[j] = r.RC[j], r.RC[i]
	})
	r.Delay = skews(rng, len(r.Acts))
	return append(plan, r)
}

// raceCtl: the calls that end a queue's life racing producers: {try-close | try-clear | close} x
// {1-3 adds / prior adds}, with and without parked consumers, on an empty or one-item queue (a
// closed one for try-clear).  Kinds without TryClose / TryClear get Close.
func raceCtl(rng *rand.Rand, kind string) (plan []act) {
	id := 0
	add := func() qa.Act {
		id++
		lane := "req"
		if kind == "mq" && rng.Intn(3) == 0 {
			lane = "ctrl"
		}
		return qa.Act{Op: "add", Lane: lane, Prior: kind != "syncq" && rng.Intn(3) == 0, V: id}
	}
	ctl := "close"
	if kind == "mq" {
		ctl = []string{"tryclose", "tryclose", "tryclear", "close"}[rng.Intn(4)]
	}
	if rng.Intn(4) == 0 {
		plan = append(plan, act{Act: add()})
	}
	if ctl == "tryclear" && rng.Intn(3) != 0 {
		plan = append(plan, mkAct([]string{"close", "tryclose"}[rng.Intn(2)]))
	}
	for c, n := 1, rng.Intn(5)-2; c <= n; c++ { // 0 (mostly), 1 or 2 consumers parked beforehand
		plan = append(plan, act{Act: qa.Act{Op: "pop", Any: kind == "syncq" || rng.Intn(2) == 0}, C: c})
	}
	r := act{Act: qa.Act{Op: "race"}}
	r.Acts, r.RC = []qa.Act{{Op: ctl}}, []int{0}
	for n := []int{1, 2, 2, 3, 3, 3}[rng.Intn(6)]; n > 0; n-- { // more producers, more chances to overlap
		r.Acts, r.RC = append(r.Acts, add()), append(r.RC, 0)
	}
	if x, ok := reader(rng, kind); ok && rng.Intn(3) == 0 {
		r.Acts, r.RC = append(r.Acts, x), append(r.RC, 0)
	}
	rng.Shuffle(len(r.Acts), func(i, j int) { r.Acts[i], r.Acts[j] = r.Acts[j], r.Acts[i] })
	r.Delay = skews(rng, len(r.Acts))
	return append(plan, r)
}

// raceParked: consumers already asleep in Pop when the producers come.
//
//	"take": 1-2 consumers parked on the empty open queue, then 1-2 adds racing 1-2 Pops of OTHER
//	        consumers (a woken sleeper may find the item gone: it must go back to sleep, not answer);
//	"feed": k consumers parked, then m adds issued together (m < k, m = k, m > k): after quiescence
//	        exactly min(k, m) of them returned, with distinct items, the others still sleep.
func raceParked(rng *rand.Rand, kind string, take bool) (plan []act) {
	id := 0
	add := func() qa.Act {
		id++
		lane := "req"
		if kind == "mq" && rng.Intn(3) == 0 {
			lane = "ctrl"
		}
		return qa.Act{Op: "add", Lane: lane, Prior: kind != "syncq" && rng.Intn(4) == 0, V: id}
	}
	pop := func() qa.Act { return qa.Act{Op: "pop", Any: kind == "syncq" || rng.Intn(2) == 0} }
	k := 1 + rng.Intn(3)
	if take {
		k = 1 + rng.Intn(2)
	}
	for c := 1; c <= k; c++ {
		plan = append(plan, act{Act: pop(), C: c})
	}
	nr := 1
	if take {
		nr = 2 // a second race on the same queue while it is still open
	}
	for round := 0; round < nr; round++ {
		r := act{Act: qa.Act{Op: "race"}}
		m := 1 + rng.Intn(3)
		if take {
			m = 1 + rng.Intn(2)
		}
		for j := 0; j < m; j++ {
			r.Acts, r.RC = append(r.Acts, add()), append(r.RC, 0)
		}
		if take {
			for c, n := nCons, 1+rng.Intn(2); n > 0 && len(r.Acts) < 4; c, n = c-1, n-1 {
				r.Acts, r.RC = append(r.Acts, pop()), append(r.RC, c) // consumers 4, 3: not the sleepers
			}
		}
		if !take && rng.Intn(3) == 0 { // the sleepers are fed and the queue is closed at the same moment
			r.Acts, r.RC = append(r.Acts, qa.Act{Op: "close"}), append(r.RC, 0)
			if rng.Intn(2) == 0 { // ... by one goroutine: the adds, then the close, back to back
				plan = append(plan, act{Act: qa.Act{Op: "burst"}, Acts: r.Acts})
				continue
			}
		}
		if len(r.Acts) < 2 { // a race needs two calls: a single add is an ordinary step
			plan = append(plan, act{Act: r.Acts[0]})
			continue
		}
		rng.Shuffle(len(r.Acts), func(i, j int) {
			r.Acts[i], r.Acts[j] = r.Acts[j], r.Acts[i]
			r.RC[i], r.RC[j] = r.RC[j], r.RC[i]
		})
		r.Delay = skews(rng, len(r.Acts))
		plan = append(plan, r)
	}
	return plan
}

// raceProd: producers blocked in AddAnyway are first-class: a bounded lane is filled, 1-3 producers
// go to sleep inside AddAnyway, then Pops of 1-3 consumers (room for the producers, whose items the
// other consumers must get) race a close (the sleeping producers must be refused) and/or another
// producer; a second race of Pops follows while the queue is still open.
func raceProd(rng *rand.Rand, kind string, rcap int) (plan []act) {
	id := 0
	next := func() int { id++; return id }
	for i := 0; i < rcap; i++ {
		plan = append(plan, act{Act: qa.Act{Op: "add", Lane: "req", V: next()}})
	}
	k := 1 + rng.Intn(nProd)
	if rng.Intn(2) == 0 {
		k = 2 + rng.Intn(nProd-1)
	}
	for p := 1; p <= k; p++ {
		plan = append(plan, act{Act: qa.Act{Op: "paddw", Lane: "req", V: next()}, P: p})
	}
	for round := 0; round < 2; round++ {
		mode := rng.Intn(4) // round 0: 0 = close-and-drain burst, 1 = race with a close, else Pops only
		if round == 0 && mode == 0 {
			// one goroutine closes and at once takes items out with PopAnyway: the producers woken by the
			// close find room in a closed queue
			b := act{Act: qa.Act{Op: "burst"}, C: 1}
			b.Acts = []qa.Act{{Op: "close"}}
			for n := 1 + rng.Intn(2); n > 0; n-- {
				b.Acts = append(b.Acts, qa.Act{Op: "pop", Any: true})
			}
			plan = append(plan, b)
			continue
		}
		r := act{Act: qa.Act{Op: "race"}}
		closing := round == 0 && mode == 1
		for c, n := 1, 2; c <= n; c++ { // two consumers: the second one may find the queue empty (more only costs TLC time)
			// beside a close only PopAnyway still makes room (for a producer that must NOT use it)
			r.Acts, r.RC = append(r.Acts, qa.Act{Op: "pop", Any: closing || rng.Intn(2) == 0}), append(r.RC, c)
		}
		if closing {
			r.Acts, r.RC = append(r.Acts, qa.Act{Op: "close"}), append(r.RC, 0)
		}
		if k < nProd && !closing && rng.Intn(4) == 0 {
			r.Acts, r.RC = append(r.Acts, qa.Act{Op: "paddw", Lane: "req", V: next()}), append(r.RC, k+1)
		}
		if len(r.Acts) < 2 {
			r.Acts, r.RC = append(r.Acts, qa.Act{Op: "pop", Any: true}), append(r.RC, 4)
		}
		rng.Shuffle(len(r.Acts), func(i, j int) {
			r.Acts[i], r.Acts[j] = r.Acts[j], r.Acts[i]
			r.RC[i], r.RC[j] = r.RC[j], r.RC[i]
		})
		r.Delay = skews(rng, len(r.Acts))
		plan = append(plan, r)
	}
	return plan
}

// racePri: a (nearly) full queue, a consumer that holds the token and Pops, together with Len()
// pollers, pushers (rejected when full) and other poppers.
func racePri(rng *rand.Rand, rcap int) (plan []act) {
	if rng.Intn(3) == 0 {
		// cold start: the fresh queue is first touched by several goroutines at once
		r := act{Act: qa.Act{Op: "race"}}
		for p := 1; p <= nCons; p++ {
			op := []string{"pushx", "pushx", "popx", "len", "recv"}[rng.Intn(5)]
			r.Acts, r.RC = append(r.Acts, qa.Act{Op: op}), append(r.RC, p)
		}
		r.Delay = skews(rng, len(r.Acts))
		plan = append(plan, r)
	}
	fill := rcap - rng.Intn(2)
	if fill < 1 {
		fill = 1
	}
	plan = append(plan, act{Act: qa.Act{Op: "pushn"}, P: 4, K: fill})
	plan = append(plan, act{Act: qa.Act{Op: "recv"}, P: 1})
	for round := 0; round < 2; round++ {
		r := act{Act: qa.Act{Op: "race"}}
		r.Acts, r.RC = []qa.Act{{Op: "popx"}}, []int{1}
		for p := 2; p <= nCons; p++ {
			if rng.Intn(4) == 0 {
				continue
			}
			op := []string{"len", "len", "pushx", "pushx", "popx", "recv"}[rng.Intn(6)]
			r.Acts, r.RC = append(r.Acts, qa.Act{Op: op}), append(r.RC, p)
		}
		r.Delay = skews(rng, len(r.Acts))
		plan = append(plan, r)
		plan = append(plan, act{Act: qa.Act{Op: "pushn"}, P: 4, K: 1 + rng.Intn(2)})
		plan = append(plan, act{Act: qa.Act{Op: "recv"}, P: 1})
	}
	return plan
}

func randPri(rng *rand.Rand, n int) []act {
	ops := []string{"push", "push", "pushx", "pop", "pop", "popx", "gate", "gate", "gate", "recv", "recv",
		"pushn", "popn", "gateall"}
	var out []act
	for i := 0; i < n; i++ {
		out = append(out, act{Act: qa.Act{Op: ops[rng.Intn(len(ops))]}, P: rng.Intn(nCons) + 1, K: 2 + rng.Intn(3)})
	}
	return out
}

// stressPri: producers push (a small capacity makes many pushes fail with "full": they are not
// retried, so the run always ends), Len() pollers run along, consumers follow the documented
// protocol (receive a token, then Pop once).  At global quiescence nobody is inside a call, every
// token was followed by a Pop and all consumers sleep on the channel: the queue must be empty, or
// the channel must hold a token (which cannot be while they sleep); accepted = got + left.
func stressPri(w *tr.W, rng *rand.Rand, nprod, ncons, per int) {
	curW = w
	capa := nprod*per + 1
	if rng.Intn(3) != 0 {
		capa = 1 + rng.Intn(4)
	}
	npoll := rng.Intn(3)
	q := priq.NewPriQueue(capa)
	var got, accepted int32
	var pdone int32
	b := &barrier{}
	for p := 0; p < nprod; p++ {
		go func(p int) {
			defer atomic.AddInt32(&pdone, 1)
			b.wait(0)
			for i := 0; i < per; i++ {
				if q.Push(&pent{p*per + i}) == nil {
					atomic.AddInt32(&accepted, 1)
				}
			}
		}(p)
	}
	for p := 0; p < npoll; p++ {
		go func() {
			defer atomic.AddInt32(&pdone, 1)
			b.wait(0)
			for i := 0; i < 3*per; i++ {
				_ = q.Len()
			}
		}()
	}
	for c := 0; c < ncons; c++ {
		go func() {
			for range q.WaitCh() {
				if q.Pop() != nil {
					atomic.AddInt32(&got, 1)
				}
			}
		}()
	}
	b.release(nprod + npoll)
	// quiescence, not pwg.Wait(): a producer or poller that never comes back is counted (stuck)
	settleWith(settler)
	w.Emit(tr.E{"ev": "reset", "kind": "priq", "ccap": 0, "rcap": capa, "src": "stress"})
	w.Emit(tr.E{"ev": "pstress", "stuck": nprod + npoll - int(atomic.LoadInt32(&pdone)), "left": q.Len(), "sig": len(q.WaitCh()), "got": int(atomic.LoadInt32(&got)),
		"accepted": int(atomic.LoadInt32(&accepted)), "nprod": nprod, "ncons": ncons, "npoll": npoll})
}

func main() {
	plans := flag.String("plans", "", "directory of QueueWake plans")
	pplans := flag.String("pplans", "", "directory of PriWake plans")
	out := flag.String("out", "wake.ndjson", "list-queue step traces")
	pout := flag.String("pout", "priwake.ndjson", "priq step traces")
	sout := flag.String("stress", "stress.ndjson", "list-queue stress summaries")
	psout := flag.String("pstress", "pstress.ndjson", "priq stress summaries")
	seed := flag.Int64("seed", 1, "seed")
	nrand := flag.Int("rand", 60, "random list-queue schedules")
	nprand := flag.Int("prand", 40, "random priq schedules")
	nstress := flag.Int("nstress", 0, "stress runs per queue type")
	nrace := flag.Int("race", 0, "race rounds per list-queue type")
	nprace := flag.Int("prace", 0, "priq race rounds")
	nbatch := flag.Int("batch", 20, "worlds per lock-step batch")
	rounds := flag.String("rounds", "enter,ctl,take,feed,prod", "kinds of race rounds: enter (consumers entering Pop x close/adds), "+
		"ctl ({close|try-close|try-clear} x adds), take (sleepers, adds x other Pops), feed (k sleepers, m adds), "+
		"prod (producers asleep in AddAnyway on a full lane x Pops / close)")
	npstress := flag.Int("npstress", 0, "additional priq stress runs")
	flag.Parse()
	rng := rand.New(rand.NewSource(*seed))
	dressRng = rand.New(rand.NewSource(*seed + 7))
	priq.VerifGate = gate

	var open []*tr.W
	create := func(path string) *tr.W {
		x := tr.Create(path)
		open = append(open, x)
		return x
	}
	onHang = func(where string) {
		if batchFlush != nil {
			batchFlush()
		}
		curW.Emit(tr.E{"ev": "reset", "kind": "q", "ccap": 0, "rcap": 0, "src": "hang", "rep": 0})
		curW.Emit(tr.E{"ev": "hang", "where": where})
		for _, x := range open {
			x.Close()
		}
		fmt.Printf("hang: a goroutine keeps running in %s\n", where)
		os.Exit(0)
	}
	w := create(*out)
	// independent worlds run in lock-step batches (one global quiescence per step of the batch)
	// worlds whose plan has producers (AddAnyway may sleep inside the call: quiescence costs a few
	// poll periods more, see settle) are batched apart from the others
	var batch, pbatch []spec
	flush := func() {
		if len(batch) > 0 {
			runBatch(w, batch)
			batch = nil
		}
		if len(pbatch) > 0 {
			runBatch(w, pbatch)
			pbatch = nil
		}
	}
	queue := func(sp spec) {
		prod := hasProd(sp.plan)
		if prod {
			pbatch = append(pbatch, sp)
			if len(pbatch) >= *nbatch {
				runBatch(w, pbatch)
				pbatch = nil
			}
			return
		}
		batch = append(batch, sp)
		if len(batch) >= *nbatch {
			runBatch(w, batch)
			batch = nil
		}
	}
	if *plans != "" {
		files, _ := filepath.Glob(filepath.Join(*plans, "*.ndjson"))
		sort.Strings(files)
		for i, f := range files {
			p := readPlan(f)
			if len(p) == 0 || p[0].Op != "init" {
				tr.Fatal("plan %s does not start with init", f)
			}
			steps := p[1:]
			if i%2 == 1 {
				steps = bursts(steps)
			}
			queue(spec{"plan:" + filepath.Base(f), p[0].Kind, p[0].Ccap, p[0].Rcap, i % 4, steps})
		}
	}
	kinds := []string{"syncq", "q", "async", "mux", "mq"}
	caps := []int{0, 1, 2, 0, 3, -1, math.MaxInt}
	for i := 0; i < *nrand; i++ {
		kind := kinds[i%len(kinds)]
		ccap, rcap := 0, caps[rng.Intn(len(caps))]
		if kind == "mq" {
			ccap = caps[rng.Intn(len(caps))]
		}
		if kind == "syncq" {
			rcap = 0
		}
		rep := rng.Intn(4)
		queue(spec{"rand", kind, ccap, rcap, rep, randList(rng, kind, 10+rng.Intn(16))})
	}
	// the wake-up scenario itself, for every kind: c consumers parked, then k adds in one burst
	for i := 0; i < *nrand/3+10; i++ {
		kind := kinds[i%len(kinds)]
		c, k := 2+rng.Intn(nCons-1), 2+rng.Intn(3)
		var plan []act
		for j := 1; j <= c; j++ {
			plan = append(plan, act{Act: qa.Act{Op: "pop", Any: kind == "syncq" || rng.Intn(2) == 0}, C: j})
		}
		b := act{Act: qa.Act{Op: "burst"}}
		for j := 1; j <= k; j++ {
			lane := "req"
			if kind == "mq" && rng.Intn(2) == 0 {
				lane = "ctrl"
			}
			b.Acts = append(b.Acts, qa.Act{Op: "add", Lane: lane, Prior: kind != "syncq" && rng.Intn(4) == 0, V: j})
		}
		plan = append(plan, b)
		rcap := 0
		if kind != "syncq" && rng.Intn(3) == 0 {
			rcap = 1 + rng.Intn(3)
		}
		queue(spec{"scenario", kind, 0, rcap, rng.Intn(4), plan})
	}
	sel := strings.Split(*rounds, ",")
	for i := 0; i < *nrace; i++ {
		for _, kind := range kinds {
			rcap := []int{0, 0, 1, 2, 0, 1, -1, math.MaxInt}[rng.Intn(8)]
			if kind == "syncq" {
				rcap = 0
			}
			rep := rng.Intn(4)
			switch sel[i%len(sel)] {
			case "enter":
				queue(spec{"race", kind, 0, rcap, rep, raceList(rng, kind)})
			case "take":
				queue(spec{"racetake", kind, 0, rcap, rep, raceParked(rng, kind, true)})
			case "feed":
				queue(spec{"racefeed", kind, 0, rcap, rep, raceParked(rng, kind, false)})
			case "prod":
				if kind != "syncq" { // no AddAnyway, no bound
					pc := 1 + rng.Intn(2)
					queue(spec{"raceprod", kind, 0, pc, rep, raceProd(rng, kind, pc)})
				}
			default:
				queue(spec{"racectl", kind, 0, rcap, rep, raceCtl(rng, kind)})
				if kind == "mq" { // three life-ending calls instead of one: proportionally more rounds
					queue(spec{"racectl", kind, 0, rcap, rep, raceCtl(rng, kind)})
					queue(spec{"racectl", kind, 0, 0, rep, raceCtl(rng, kind)})
				}
			}
		}
	}
	flush()
	w.Close()

	for n, l := range xpool { // the priq worlds wait for quiescence one by one: no idle goroutines around
		for _, x := range l {
			x.Stop()
		}
		delete(xpool, n)
	}
	pw := create(*pout)
	if *pplans != "" {
		files, _ := filepath.Glob(filepath.Join(*pplans, "*.ndjson"))
		sort.Strings(files)
		for _, f := range files {
			p := readPlan(f)
			if len(p) == 0 || p[0].Op != "init" {
				tr.Fatal("plan %s does not start with init", f)
			}
			runPri(pw, "plan:"+filepath.Base(f), p[0].Rcap, p[1:])
		}
	}
	for i := 0; i < *nprand; i++ {
		runPri(pw, "rand", []int{1, 2, 3, 4, 8, 0, -1, math.MaxInt}[rng.Intn(8)], randPri(rng, 15+rng.Intn(25)))
	}
	for i := 0; i < *nprace; i++ {
		rcap := 1 + rng.Intn(3)
		runPri(pw, "race", rcap, racePri(rng, rcap))
	}
	pw.Close()

	sw := create(*sout)
	psw := create(*psout)
	for i := 0; i < *nstress; i++ {
		for _, kind := range kinds {
			rcap := []int{0, 0, 2, 5}[rng.Intn(4)]
			if kind == "syncq" {
				rcap = 0
			}
			stressList(sw, rng, kind, rcap, 1+rng.Intn(3), 2+rng.Intn(4), 20+rng.Intn(60))
		}
		stressPri(psw, rng, 1+rng.Intn(3), 1+rng.Intn(4), 20+rng.Intn(80))
	}
	for i := 0; i < *npstress; i++ {
		stressPri(psw, rng, 1+rng.Intn(3), 1+rng.Intn(4), 20+rng.Intn(80))
	}
	sw.Close()
	psw.Close()
	fmt.Printf("settles=%d (%v) extra=%d (%v)\n", dbgSettles, dbgSettleTime, dbgExtra, dbgExtraTime)
	fmt.Printf("wake_events=%d priwake_events=%d stress=%d pstress=%d\n", w.N(), pw.N(), sw.N(), psw.N())
}
