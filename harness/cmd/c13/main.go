// c13: queues - no lost wake-ups; close releases every blocked consumer.
//
// List queues (q.Q, async.Q, mux.Q, mq.MQ, SyncQueue): four consumer goroutines and one goroutine for
// the non-blocking calls; the driver issues ONE call, waits for global quiescence (internal/qx reads
// the wait reason of every goroutine from the Go runtime) and logs who returned with what and who
// is blocked inside its Pop (parked in sync.Cond.Wait).  Validation: specs/queue/QueueWake_Trace.tla.
//
// priq.PriQueue: four goroutines call Push / Pop; with the gate hooks armed a call stops between
// its mutex hold and its signal, the plan's "gate" step lets it continue.  After every step
// len(WaitCh()), Len() and who stands at a gate are logged.  Validation: PriWake_Trace.tla.
//
// Thorough tier: free-running producers / consumers / closer; the run is judged at its quiescent
// end (everybody returned, items conserved; priq: queue non-empty => token in the channel).
package main

import (
	"bufio"
	"encoding/json"
	"flag"
	"fmt"
	"math/rand"
	"os"
	"path/filepath"
	"sort"
	"sync"
	"sync/atomic"

	"github.com/pinealctx/neptune/queue/priq"
	"github.com/pinealctx/neptune/queue/syncq"
	aq "github.com/pinealctx/neptune/syncx/pipe/async"
	"github.com/pinealctx/neptune/syncx/pipe/mq"
	muxq "github.com/pinealctx/neptune/syncx/pipe/mux"
	pq "github.com/pinealctx/neptune/syncx/pipe/q"

	"verif/harness/cmd/c12/qa"
	"verif/harness/internal/qx"
	"verif/harness/internal/tr"
)

const nCons = 4

type act struct {
	qa.Act
	C    int      `json:"c"`
	P    int      `json:"p"`
	K    int      `json:"k"`    // pushn / popn: calls in the burst
	Acts []qa.Act `json:"acts"` // burst: calls issued back to back by one goroutine
}

type planLine struct {
	A act `json:"a"`
}

func readPlan(path string) []act {
	f, err := os.Open(path)
	if err != nil {
		tr.Fatal("%v", err)
	}
	defer f.Close()
	var out []act
	sc := bufio.NewScanner(f)
	for sc.Scan() {
		var l planLine
		if err := json.Unmarshal(sc.Bytes(), &l); err != nil {
			tr.Fatal("plan %s: %v", path, err)
		}
		out = append(out, l.A)
	}
	return out
}

func none() tr.E { return qa.Rp("none", 0) }

// ================================================================ list queues, step by step
type lworld struct {
	w    *tr.W
	q    qa.Queue
	kind string
	x    *qx.Exec
	busy [nCons + 1]bool // consumer has an outstanding Pop
	m    qa.Model        // the harness's own count model of the property (drain length only)
	mp   int             // consumers parked according to that model
	dead bool
}

func (a act) rec() tr.E {
	e := a.Act.Rec()
	if a.Op == "pop" {
		e["c"] = a.C
	}
	if a.Op == "burst" {
		recs := make([]tr.E, len(a.Acts))
		for i, x := range a.Acts {
			recs[i] = x.Rec()
		}
		e["acts"] = recs
	}
	return e
}

// step issues one call, waits for quiescence, logs the stable picture.
func (wd *lworld) step(a act) {
	if wd.dead {
		return
	}
	if a.Op == "burst" {
		var keep []qa.Act
		for _, x := range a.Acts {
			if x.Op != "pop" && qa.Supports(wd.kind, x) {
				keep = append(keep, x)
			}
		}
		if len(keep) == 0 {
			return
		}
		a.Acts = keep
	} else if !qa.Supports(wd.kind, a.Act) {
		return
	}
	q := wd.q
	inner := a.Act
	if a.Op == "burst" {
		// one goroutine, the calls back to back, no quiescence in between: woken consumers race
		// with the rest of the burst
		acts := a.Acts
		wd.x.Issue(nCons+1, func() interface{} {
			rs := make([]tr.E, len(acts))
			for i, x := range acts {
				rs[i] = qa.Safe(q, x)
			}
			return rs
		})
	} else if a.Op == "pop" {
		if a.C < 1 || a.C > nCons || wd.busy[a.C] {
			return
		}
		wd.busy[a.C] = true
		wd.x.Issue(a.C, func() interface{} { return qa.Safe(q, inner) })
	} else {
		wd.x.Issue(nCons+1, func() interface{} { return qa.Safe(q, inner) })
	}
	if err := wd.x.Settle(); err != nil {
		tr.Fatal("%v", err)
	}
	rep := qa.Rp("parked", 0)
	rs := make([]tr.E, 0)
	if a.Op != "pop" {
		r, ok := wd.x.Take(nCons + 1)
		switch {
		case !ok:
			// a call that must not block is parked: nothing in the spec has this reply
			rep = qa.Rp("blocked", 0)
			for range a.Acts {
				rs = append(rs, rep)
			}
			wd.dead = true
		case a.Op == "burst":
			rep, rs = qa.Rp("burst", 0), r.([]tr.E)
		default:
			rep = r.(tr.E)
		}
	}
	st := make([]tr.E, nCons)
	for c := 1; c <= nCons; c++ {
		switch {
		case !wd.busy[c]:
			st[c-1] = tr.E{"s": "idle", "r": none()}
		default:
			if r, ok := wd.x.Take(c); ok {
				wd.busy[c] = false
				re := r.(tr.E)
				st[c-1] = tr.E{"s": "ret", "r": re}
				if c == a.C && a.Op == "pop" {
					rep = re
				}
			} else {
				// global quiescence and no reply: the consumer is blocked inside its Pop, whatever
				// primitive the queue waits on (the wait reason is logged, not compared)
				st[c-1] = tr.E{"s": "parked", "r": none(), "why": wd.x.WaitState(c)}
			}
		}
	}
	ev := tr.E{"ev": "step", "a": a.rec(), "r": rep, "st": st}
	switch {
	case a.Op == "burst":
		ev["rs"] = rs
		for _, x := range a.Acts {
			wd.model(x)
		}
	case a.Op == "pop" && !wd.m.PopReturns():
		wd.mp++
	default:
		wd.model(a.Act)
	}
	wd.w.Emit(ev)
}

// model advances the count model: parked consumers take what arrives, a close releases them.
func (wd *lworld) model(x qa.Act) {
	wd.m.Apply(x)
	for wd.mp > 0 && wd.m.Len() > 0 {
		wd.m.Apply(qa.Act{Op: "pop", Any: true})
		wd.mp--
	}
	if wd.m.Closed {
		wd.mp = 0
	}
}

// bursts rewrites a plan: runs of consecutive non-blocking calls (adds, close, try-close; the
// internal "wake" lines of the plan are dropped first) become one burst step of up to 4 calls.
func bursts(plan []act) []act {
	var out []act
	var run []qa.Act
	flush := func() {
		for len(run) > 0 {
			n := len(run)
			if n > 4 {
				n = 4
			}
			if n == 1 {
				out = append(out, act{Act: run[0]})
			} else {
				out = append(out, act{Act: qa.Act{Op: "burst"}, Acts: append([]qa.Act{}, run[:n]...)})
			}
			run = run[n:]
		}
	}
	for _, a := range plan {
		switch a.Op {
		case "wake":
		case "add", "close", "tryclose":
			run = append(run, a.Act)
		default:
			flush()
			out = append(out, a)
		}
	}
	flush()
	return out
}

func mkAct(op string) act { return act{Act: qa.Act{Op: op}} }

// drain: close (every parked consumer must come back), then take out the residue.
func (wd *lworld) drain() {
	if !wd.m.Closed {
		wd.step(mkAct("close"))
	}
	free := 0
	for c := 1; c <= nCons; c++ {
		if !wd.busy[c] {
			free = c
			break
		}
	}
	if free != 0 {
		for i := wd.m.Len() + 1; i >= 0 && !wd.dead; i-- {
			wd.step(act{Act: qa.Act{Op: "pop", Any: true}, C: free})
		}
	}
	wd.x.Stop() // consumers that are still parked stay behind (that is the finding)
}

func runList(w *tr.W, src, kind string, ccap, rcap, rep int, plan []act) {
	wd := &lworld{w: w, q: qa.New(kind, ccap, rcap, rep), kind: kind, x: qx.New(nCons + 1),
		m: qa.Model{Kind: kind, Ccap: ccap, Rcap: rcap}}
	w.Emit(tr.E{"ev": "reset", "kind": kind, "ccap": ccap, "rcap": rcap, "src": src, "rep": rep})
	for _, a := range plan {
		wd.step(a)
	}
	wd.drain()
}

func randList(rng *rand.Rand, kind string, n int) []act {
	var out []act
	id := 0
	closeAt := -1
	if rng.Intn(3) != 0 {
		closeAt = n/3 + rng.Intn(n/2+1)
	}
	pPop := 30 + rng.Intn(35)
	for i := 0; i < n; i++ {
		if i == closeAt {
			if kind == "mq" && rng.Intn(2) == 0 {
				out = append(out, mkAct("tryclose"))
			} else {
				out = append(out, mkAct("close"))
			}
			continue
		}
		x := rng.Intn(100)
		switch {
		case x < pPop:
			out = append(out, act{Act: qa.Act{Op: "pop", Any: kind == "syncq" || rng.Intn(5) < 2}, C: rng.Intn(nCons) + 1})
		case x < pPop+30:
			mk := func() qa.Act {
				id++
				lane := "req"
				if kind == "mq" && rng.Intn(5) < 2 {
					lane = "ctrl"
				}
				return qa.Act{Op: "add", Lane: lane, Prior: kind != "syncq" && rng.Intn(4) == 0, V: id}
			}
			if rng.Intn(3) == 0 { // a burst of adds, sometimes with the close right behind
				b := act{Act: qa.Act{Op: "burst"}}
				for k := 2 + rng.Intn(3); k > 0; k-- {
					b.Acts = append(b.Acts, mk())
				}
				if rng.Intn(6) == 0 {
					b.Acts = append(b.Acts, qa.Act{Op: "close"})
				}
				out = append(out, b)
			} else {
				out = append(out, act{Act: mk()})
			}
		default:
			out = append(out, mkAct([]string{"isclosed", "tryclose", "tryclear", "len", "trypop"}[rng.Intn(5)]))
		}
	}
	return out
}

// ================================================================ list queues, free running
type rawQ interface {
	add(v int) bool // false: refused
	pop(any bool) (int, bool)
	close()
}

type rq struct{ q *pq.Q }

func (r rq) add(v int) bool { return r.q.AddReq(v) == nil }
func (r rq) pop(any bool) (int, bool) {
	var x interface{}
	var err error
	if any {
		x, err = r.q.PopAnyway()
	} else {
		x, err = r.q.Pop()
	}
	if err != nil {
		return 0, false
	}
	return x.(int), true
}
func (r rq) close() { r.q.Close() }

type ra struct{ q *aq.Q }

func (r ra) add(v int) bool { return r.q.Add(v) == nil }
func (r ra) pop(any bool) (int, bool) {
	var x interface{}
	var err error
	if any {
		x, err = r.q.PopAnyway()
	} else {
		x, err = r.q.Pop()
	}
	if err != nil {
		return 0, false
	}
	return x.(int), true
}
func (r ra) close() { r.q.Close() }

type rm struct{ q *muxq.Q }

func (r rm) add(v int) bool { return r.q.AddReq(v) == nil }
func (r rm) pop(any bool) (int, bool) {
	var x interface{}
	var err error
	if any {
		x, err = r.q.PopAnyway()
	} else {
		x, err = r.q.Pop()
	}
	if err != nil {
		return 0, false
	}
	return x.(int), true
}
func (r rm) close() { r.q.Close() }

type rmq struct{ q *mq.MQ }

func (r rmq) add(v int) bool {
	if v%3 == 0 {
		return r.q.AddCtrl(v) == nil
	}
	return r.q.AddReq(v) == nil
}
func (r rmq) pop(any bool) (int, bool) {
	var x interface{}
	var err error
	if any {
		x, err = r.q.PopAnyway()
	} else {
		x, err = r.q.Pop()
	}
	if err != nil {
		return 0, false
	}
	return x.(int), true
}
func (r rmq) close() { r.q.Close() }

type rs struct{ q *syncq.SyncQueue }

func (r rs) add(v int) bool { r.q.Push(v); return true }
func (r rs) pop(bool) (int, bool) {
	x := r.q.Pop()
	if x == nil {
		return 0, false
	}
	return x.(int), true
}
func (r rs) close() { r.q.Close() }

func newRaw(kind string, rcap int) rawQ {
	switch kind {
	case "q":
		return rq{pq.NewQ(pq.WithSize(rcap))}
	case "async":
		return ra{aq.NewQ(rcap)}
	case "mux":
		return rm{muxq.NewQ(rcap)}
	case "mq":
		return rmq{mq.NewMQ(mq.WithQCtrlSize(rcap), mq.WithQReqSize(rcap))}
	}
	return rs{syncq.NewSyncQueue()}
}

// stressList: producers add distinct items, consumers pop until "closed", a closer closes when the
// producers are done (sometimes earlier).  At global quiescence every consumer must have returned.
func stressList(w *tr.W, rng *rand.Rand, kind string, rcap, nprod, ncons, per int) {
	q := newRaw(kind, rcap)
	var mu sync.Mutex
	got := make([]int, 0, nprod*per)
	accepted := make([]int, 0, nprod*per)
	var running int32
	var pwg sync.WaitGroup
	early := kind != "syncq" && rng.Intn(3) == 0
	for p := 0; p < nprod; p++ {
		pwg.Add(1)
		go func(p int) {
			defer pwg.Done()
			mine := make([]int, 0, per)
			for i := 0; i < per; i++ {
				v := p*per + i + 1
				if q.add(v) {
					mine = append(mine, v)
				}
			}
			mu.Lock()
			accepted = append(accepted, mine...)
			mu.Unlock()
		}(p)
	}
	for c := 0; c < ncons; c++ {
		atomic.AddInt32(&running, 1)
		any := kind == "syncq" || c%2 == 0
		go func() {
			mine := make([]int, 0, per)
			for {
				v, ok := q.pop(any)
				if !ok {
					break
				}
				mine = append(mine, v)
			}
			mu.Lock()
			got = append(got, mine...)
			mu.Unlock()
			atomic.AddInt32(&running, -1)
		}()
	}
	go func() {
		if !early {
			pwg.Wait()
		}
		q.close()
	}()
	x := qx.New(0)
	pwg.Wait()
	if err := x.Settle(); err != nil {
		tr.Fatal("stress: %v", err)
	}
	stuck := int(atomic.LoadInt32(&running))
	// the residue of the closed queue (adds on a syncq after close are dropped silently, so the
	// "accepted" set of a syncq is what was pushed before the close: not observable -> only unbounded,
	// late close for syncq, see main)
	residue := make([]int, 0)
	if stuck == 0 {
		for {
			v, ok := q.pop(true)
			if !ok {
				break
			}
			residue = append(residue, v)
		}
	}
	mu.Lock()
	sort.Ints(accepted)
	w.Emit(tr.E{"ev": "reset", "kind": kind, "ccap": 0, "rcap": rcap, "src": "stress", "rep": 0})
	w.Emit(tr.E{"ev": "stress", "stuck": stuck, "got": got, "residue": residue, "accepted": accepted,
		"nprod": nprod, "ncons": ncons, "early": early})
	mu.Unlock()
}

// ================================================================ priq, step by step with gates
var (
	gateArmed int32
	gateCh    = make(chan chan struct{}, 16)
)

func gate(string) {
	if atomic.LoadInt32(&gateArmed) == 0 {
		return
	}
	c := make(chan struct{})
	gateCh <- c
	<-c
}

type pent struct{ id int }

func (p *pent) GetPriority() int { return p.id % 3 }

type pworld struct {
	w    *tr.W
	q    *priq.PriQueue
	x    *qx.Exec
	rel  [nCons + 1]chan struct{} // non-nil: the worker stands at a gate
	id   int
	dead bool
}

func (wd *pworld) call(p int, op string) {
	q := wd.q
	if op == "push" || op == "pushx" {
		wd.id++
		e := &pent{wd.id}
		wd.x.Issue(p, func() (r interface{}) {
			defer func() {
				if pv := recover(); pv != nil {
					r = qa.Rp("panic", 0)
				}
			}()
			if err := q.Push(e); err == priq.ErrQueueIsFull {
				return qa.Rp("full", 0)
			} else if err != nil {
				return qa.Rp("err", 0)
			}
			return qa.Rp("ok", 0)
		})
		return
	}
	wd.x.Issue(p, func() (r interface{}) {
		defer func() {
			if pv := recover(); pv != nil {
				r = qa.Rp("panic", 0)
			}
		}()
		if e := q.Pop(); e == nil {
			return qa.Rp("empty", 0)
		}
		return qa.Rp("item", 0)
	})
}

func (wd *pworld) step(a act) {
	p := a.P
	if wd.dead || (a.Op != "gateall" && (p < 1 || p > nCons)) {
		return
	}
	atGate := a.Op != "gateall" && wd.rel[p] != nil
	var rep tr.E
	switch a.Op {
	case "push", "pop", "pushx", "popx":
		if atGate {
			return
		}
		armed := a.Op == "push" || a.Op == "pop"
		if armed {
			atomic.StoreInt32(&gateArmed, 1)
		}
		wd.call(p, a.Op)
		if err := wd.x.Settle(); err != nil {
			tr.Fatal("%v", err)
		}
		atomic.StoreInt32(&gateArmed, 0)
		if r, ok := wd.x.Take(p); ok {
			rep = r.(tr.E)
		} else {
			select {
			case c := <-gateCh:
				wd.rel[p] = c
				rep = qa.Rp("gate", 0)
			default:
				rep = qa.Rp("blocked:"+wd.x.WaitState(p), 0)
				wd.dead = true
			}
		}
	case "gate":
		if !atGate {
			return
		}
		close(wd.rel[p])
		wd.rel[p] = nil
		if err := wd.x.Settle(); err != nil {
			tr.Fatal("%v", err)
		}
		if r, ok := wd.x.Take(p); ok {
			rep = r.(tr.E)
		} else {
			rep = qa.Rp("blocked:"+wd.x.WaitState(p), 0)
			wd.dead = true
		}
	case "pushn", "popn":
		// k calls back to back on one goroutine, gates open
		if atGate || a.K < 1 {
			return
		}
		q, k, push := wd.q, a.K, a.Op == "pushn"
		base := wd.id
		wd.id += k
		wd.x.Issue(p, func() (r interface{}) {
			defer func() {
				if pv := recover(); pv != nil {
					r = qa.Rp("panic", 0)
				}
			}()
			n := 0
			for i := 1; i <= k; i++ {
				if push {
					if q.Push(&pent{base + i}) == nil {
						n++
					}
				} else if q.Pop() != nil {
					n++
				}
			}
			if push {
				return qa.Rp("ok", n)
			}
			return qa.Rp("item", n)
		})
		if err := wd.x.Settle(); err != nil {
			tr.Fatal("%v", err)
		}
		if r, ok := wd.x.Take(p); ok {
			rep = r.(tr.E)
		} else {
			rep = qa.Rp("blocked:"+wd.x.WaitState(p), 0)
			wd.dead = true
		}
	case "gateall":
		// every call standing at a gate continues at once
		n := 0
		for i := 1; i <= nCons; i++ {
			if wd.rel[i] != nil {
				close(wd.rel[i])
				wd.rel[i] = nil
				n++
			}
		}
		if err := wd.x.Settle(); err != nil {
			tr.Fatal("%v", err)
		}
		rep = qa.Rp("ok", n)
		for i := 1; i <= nCons; i++ {
			if wd.x.Busy(i) {
				if _, ok := wd.x.Take(i); !ok {
					rep = qa.Rp("blocked:"+wd.x.WaitState(i), 0)
					wd.dead = true
				}
			}
		}
	case "recv":
		if atGate {
			return
		}
		select {
		case <-wd.q.WaitCh():
			rep = qa.Rp("true", 0)
		default:
			rep = qa.Rp("false", 0)
		}
	default:
		return
	}
	st := make([]string, nCons)
	for i := 1; i <= nCons; i++ {
		if wd.rel[i] != nil {
			st[i-1] = "gate"
		} else {
			st[i-1] = "idle"
		}
	}
	rec := tr.E{"op": a.Op, "p": p}
	switch a.Op {
	case "pushn", "popn":
		rec["k"] = a.K
	case "gateall":
		rec = tr.E{"op": a.Op}
	}
	wd.w.Emit(tr.E{"ev": "step", "a": rec, "r": rep,
		"sig": len(wd.q.WaitCh()), "len": wd.q.Len(), "st": st})
}

func runPri(w *tr.W, src string, rcap int, plan []act) {
	wd := &pworld{w: w, q: priq.NewPriQueue(rcap), x: qx.New(nCons)}
	w.Emit(tr.E{"ev": "reset", "kind": "priq", "ccap": 0, "rcap": rcap, "src": src})
	for _, a := range plan {
		wd.step(a)
	}
	// let everybody finish, then empty the queue the way a consumer does: token, then Pop
	for p := 1; p <= nCons; p++ {
		wd.step(act{Act: qa.Act{Op: "gate"}, P: p})
	}
	for i := 0; i < 3*rcap+6 && !wd.dead; i++ {
		wd.step(act{Act: qa.Act{Op: "recv"}, P: 1})
		wd.step(act{Act: qa.Act{Op: "popx"}, P: 1})
	}
	wd.x.Stop()
}

func randPri(rng *rand.Rand, n int) []act {
	ops := []string{"push", "push", "pushx", "pop", "pop", "popx", "gate", "gate", "gate", "recv", "recv",
		"pushn", "popn", "gateall"}
	var out []act
	for i := 0; i < n; i++ {
		out = append(out, act{Act: qa.Act{Op: ops[rng.Intn(len(ops))]}, P: rng.Intn(nCons) + 1, K: 2 + rng.Intn(3)})
	}
	return out
}

// stressPri: producers push, consumers follow the documented protocol (receive a token, then Pop
// once).  At global quiescence all consumers sleep on the channel; the queue must be empty (or the
// channel must hold a token, which cannot be while they sleep).
func stressPri(w *tr.W, rng *rand.Rand, nprod, ncons, per int) {
	q := priq.NewPriQueue(nprod*per + 1)
	var got, accepted int32
	var pwg sync.WaitGroup
	for p := 0; p < nprod; p++ {
		pwg.Add(1)
		go func(p int) {
			defer pwg.Done()
			for i := 0; i < per; i++ {
				if q.Push(&pent{p*per + i}) == nil {
					atomic.AddInt32(&accepted, 1)
				}
			}
		}(p)
	}
	for c := 0; c < ncons; c++ {
		go func() {
			for range q.WaitCh() {
				if q.Pop() != nil {
					atomic.AddInt32(&got, 1)
				}
			}
		}()
	}
	x := qx.New(0)
	pwg.Wait()
	if err := x.Settle(); err != nil {
		tr.Fatal("pstress: %v", err)
	}
	w.Emit(tr.E{"ev": "reset", "kind": "priq", "ccap": 0, "rcap": nprod*per + 1, "src": "stress"})
	w.Emit(tr.E{"ev": "pstress", "left": q.Len(), "sig": len(q.WaitCh()), "got": int(atomic.LoadInt32(&got)),
		"accepted": int(atomic.LoadInt32(&accepted)), "nprod": nprod, "ncons": ncons})
}

func main() {
	plans := flag.String("plans", "", "directory of QueueWake plans")
	pplans := flag.String("pplans", "", "directory of PriWake plans")
	out := flag.String("out", "wake.ndjson", "list-queue step traces")
	pout := flag.String("pout", "priwake.ndjson", "priq step traces")
	sout := flag.String("stress", "stress.ndjson", "list-queue stress summaries")
	psout := flag.String("pstress", "pstress.ndjson", "priq stress summaries")
	seed := flag.Int64("seed", 1, "seed")
	nrand := flag.Int("rand", 60, "random list-queue schedules")
	nprand := flag.Int("prand", 40, "random priq schedules")
	nstress := flag.Int("nstress", 0, "stress runs per queue type")
	flag.Parse()
	rng := rand.New(rand.NewSource(*seed))
	priq.VerifGate = gate

	w := tr.Create(*out)
	if *plans != "" {
		files, _ := filepath.Glob(filepath.Join(*plans, "*.ndjson"))
		sort.Strings(files)
		for i, f := range files {
			p := readPlan(f)
			if len(p) == 0 || p[0].Op != "init" {
				tr.Fatal("plan %s does not start with init", f)
			}
			steps := p[1:]
			if i%2 == 1 {
				steps = bursts(steps)
			}
			runList(w, "plan:"+filepath.Base(f), p[0].Kind, p[0].Ccap, p[0].Rcap, i%4, steps)
		}
	}
	kinds := []string{"syncq", "q", "async", "mux", "mq"}
	caps := []int{0, 1, 2, 0, 3}
	for i := 0; i < *nrand; i++ {
		kind := kinds[i%len(kinds)]
		ccap, rcap := 0, caps[rng.Intn(len(caps))]
		if kind == "mq" {
			ccap = caps[rng.Intn(len(caps))]
		}
		if kind == "syncq" {
			rcap = 0
		}
		runList(w, "rand", kind, ccap, rcap, rng.Intn(4), randList(rng, kind, 10+rng.Intn(16)))
	}
	// the wake-up scenario itself, for every kind: c consumers parked, then k adds in one burst
	for i := 0; i < *nrand/3+10; i++ {
		kind := kinds[i%len(kinds)]
		c, k := 2+rng.Intn(nCons-1), 2+rng.Intn(3)
		var plan []act
		for j := 1; j <= c; j++ {
			plan = append(plan, act{Act: qa.Act{Op: "pop", Any: kind == "syncq" || rng.Intn(2) == 0}, C: j})
		}
		b := act{Act: qa.Act{Op: "burst"}}
		for j := 1; j <= k; j++ {
			lane := "req"
			if kind == "mq" && rng.Intn(2) == 0 {
				lane = "ctrl"
			}
			b.Acts = append(b.Acts, qa.Act{Op: "add", Lane: lane, Prior: kind != "syncq" && rng.Intn(4) == 0, V: j})
		}
		plan = append(plan, b)
		rcap := 0
		if kind != "syncq" && rng.Intn(3) == 0 {
			rcap = 1 + rng.Intn(3)
		}
		runList(w, "scenario", kind, 0, rcap, rng.Intn(4), plan)
	}
	w.Close()

	pw := tr.Create(*pout)
	if *pplans != "" {
		files, _ := filepath.Glob(filepath.Join(*pplans, "*.ndjson"))
		sort.Strings(files)
		for _, f := range files {
			p := readPlan(f)
			if len(p) == 0 || p[0].Op != "init" {
				tr.Fatal("plan %s does not start with init", f)
			}
			runPri(pw, "plan:"+filepath.Base(f), p[0].Rcap, p[1:])
		}
	}
	for i := 0; i < *nprand; i++ {
		runPri(pw, "rand", []int{1, 2, 3, 4, 8}[rng.Intn(5)], randPri(rng, 15+rng.Intn(25)))
	}
	pw.Close()

	sw := tr.Create(*sout)
	psw := tr.Create(*psout)
	for i := 0; i < *nstress; i++ {
		for _, kind := range kinds {
			rcap := []int{0, 0, 2, 5}[rng.Intn(4)]
			if kind == "syncq" {
				rcap = 0
			}
			stressList(sw, rng, kind, rcap, 1+rng.Intn(3), 2+rng.Intn(4), 20+rng.Intn(60))
		}
		stressPri(psw, rng, 1+rng.Intn(3), 1+rng.Intn(4), 20+rng.Intn(80))
	}
	sw.Close()
	psw.Close()
	fmt.Printf("wake_events=%d priwake_events=%d stress=%d pstress=%d\n", w.N(), pw.N(), sw.N(), psw.N())
}
