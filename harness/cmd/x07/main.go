// x07: the small validators and token generators - strvali (IsValidEmail, IsValidPhoneNum),
// idgen/random (GenNonceStr, SecGenNonceStr, MD5UUID, SHA256UUID), randx *Secure 64-bit ids
// (distinctness only; ranges and widths are X03's).  Specification growth beyond C01..C20.
//
//	strs.go    every string over small alphabets up to a length, grammar-built near-valid addresses
//	           with seeded damage, boundary inputs; phone: CN plan sweep, a table of public numbers
//	           in damaged spellings, every cut of one digit string into (area, phone).
//	tokens.go  nonce generators on boundary bases / lengths, hash-UUID format, distinctness of
//	           >= 64-bit tokens over a run with 1..8 concurrent callers.
//
// Validation: specs/tokens/Tokens_Trace.tla.  Nothing here judges: results are only recorded.
package main

import (
	"flag"
	"fmt"
	"math/rand"

	"verif/harness/internal/tr"
)

var (
	fOut    = flag.String("out", "", "trace file: validators, nonce, hex")
	fSplits = flag.String("splits", "", "trace file: cuts of one digit string")
	fLong   = flag.String("longarea", "", "trace file: phone calls whose area has more than 4 bytes")
	fUniq   = flag.String("uniq", "", "trace file: distinctness runs")
	fSeed   = flag.Int64("seed", 1, "seed")
	fL4     = flag.Int("l4", 7, "email: all strings over {a @ . -} up to this length")
	fL8     = flag.Int("l8", 4, "email: all strings over 8 class representatives up to this length")
	fNGram  = flag.Int("ngram", 12000, "email: grammar-built addresses")
	fNPhone = flag.Int("nphone", 3000, "phone: random calls per group")
	fNUniq  = flag.Int("nuniq", 20000, "calls per distinctness run")
)

func main() {
	flag.Parse()
	rng := rand.New(rand.NewSource(*fSeed))
	if *fOut != "" {
		w := tr.Create(*fOut)
		ne, nacc := runEmail(w, rng)
		var wl *tr.W
		if *fLong != "" {
			wl = tr.Create(*fLong)
			defer wl.Close()
		}
		np, npacc := runPhone(w, wl, rng)
		nn := runNonce(w, rng)
		w.Close()
		fmt.Printf("email_calls=%d email_accepted=%d phone_calls=%d phone_accepted=%d nonce_calls=%d\n", ne, nacc, np, npacc, nn)
	}
	if *fSplits != "" {
		w := tr.Create(*fSplits)
		n, multi := runSplits(w, rng)
		w.Close()
		fmt.Printf("split_strings=%d split_multi=%d\n", n, multi)
	}
	if *fUniq != "" {
		w := tr.Create(*fUniq)
		n := runUniq(w)
		w.Close()
		fmt.Printf("uniq_runs=%d\n", n)
	}
}
