package main

import (
	"fmt"
	"math/rand"
	"strconv"
	"strings"
	"sync"

	"github.com/pinealctx/neptune/idgen/random"
	"github.com/pinealctx/neptune/randx"

	"verif/harness/internal/tr"
)

const alnum62 = "0123456789ABCDEFGHIJKLMNOPQRSTUVWXYZabcdefghijklmnopqrstuvwxyz"

var nonceFns = []struct {
	id string
	f  func(string, int) string
}{{"gen", random.GenNonceStr}, {"sec", random.SecGenNonceStr}}

func distinctBytes(s string) int {
	m := map[byte]bool{}
	for i := 0; i < len(s); i++ {
		m[s[i]] = true
	}
	return len(m)
}

func runNonce(w *tr.W, rng *rand.Rand) (n int) {
	cnt := 0
	do := func(fi int, base string, ln int) {
		if cnt%200 == 0 {
			w.Emit(tr.E{"ev": "reset", "kind": "nonce"})
		}
		cnt++
		n++
		r, out := "ok", ""
		func() {
			defer func() {
				if x := recover(); x != nil {
					r = fmt.Sprint("panic: ", x)
				}
			}()
			out = nonceFns[fi].f(base, ln)
		}()
		// a small base must be exhausted by a long output (miss probability < 1e-40)
		full := len(base) > 0 && distinctBytes(base) <= 4 && len(base) <= 8 && ln >= 800
		w.Emit(tr.E{"ev": "nonce", "a": tr.E{"fn": nonceFns[fi].id, "base": tr.Str(base), "n": ln, "full": full},
			"r": r, "out": tr.Str(out)})
	}
	bases := []string{"a", "ab", "abc", "abcd", "aab", "0123456789", alnum62, "\x00\xff", " \n", "你好", "é", "", strings.Repeat("xy", 300)}
	lens := []int{-5, -1, 0, 1, 2, 3, 7, 16, 32, 64, 255, 800, 2000}
	for fi := range nonceFns {
		for _, b := range bases {
			for _, ln := range lens {
				do(fi, b, ln)
			}
		}
		for i := 0; i < 150; i++ {
			b := pick(rng, alnum62+"-_.", 1+rng.Intn(12))
			do(fi, b, rng.Intn(70)-3)
		}
	}
	// format of the hash ids
	w.Emit(tr.E{"ev": "reset", "kind": "hex"})
	for i := 0; i < 150; i++ {
		w.Emit(tr.E{"ev": "hex", "fn": "md5", "out": tr.Str(random.MD5UUID())})
		w.Emit(tr.E{"ev": "hex", "fn": "sha256", "out": tr.Str(random.SHA256UUID())})
		n += 2
	}
	return
}

var uniqFns = []struct {
	id string
	f  func() string
}{
	{"gen", func() string { return random.GenNonceStr(alnum62, 32) }},
	{"sec", func() string { return random.SecGenNonceStr(alnum62, 32) }},
	{"md5", random.MD5UUID},
	{"sha256", random.SHA256UUID},
	{"u64s", func() string { return strconv.FormatUint(randx.RandUint64Secure(), 16) }},
	{"i64s", func() string { return strconv.FormatInt(randx.RandInt64Secure(), 16) }},
	{"uints", func() string { return strconv.FormatUint(uint64(randx.RandUintSecure()), 16) }},
	{"ints", func() string { return strconv.Itoa(randx.RandIntSecure()) }},
}

// n calls spread over g goroutines that start together; only the number of distinct results and a
// sample of repeated ones are recorded
func runUniq(w *tr.W) (runs int) {
	for _, fn := range uniqFns {
		for _, g := range []int{1, 4, 8} {
			per := *fNUniq / g
			outs := make([][]string, g)
			var wg sync.WaitGroup
			start := make(chan struct{})
			for k := 0; k < g; k++ {
				wg.Add(1)
				go func(k int) {
					defer wg.Done()
					o := make([]string, 0, per)
					<-start
					for i := 0; i < per; i++ {
						o = append(o, fn.f())
					}
					outs[k] = o
				}(k)
			}
			close(start)
			wg.Wait()
			seen := make(map[string]int, per*g)
			dups := make([][]int, 0)
			for _, o := range outs {
				for _, s := range o {
					seen[s]++
					if seen[s] == 2 && len(dups) < 3 {
						dups = append(dups, tr.Str(s))
					}
				}
			}
			w.Emit(tr.E{"ev": "reset", "kind": "uniq"})
			w.Emit(tr.E{"ev": "uniq", "fn": fn.id, "g": g, "conc": g > 1, "n": per * g, "distinct": len(seen), "dups": dups})
			runs++
		}
	}
	return
}
