package main

import (
	"fmt"
	"math/rand"
	"strings"

	"github.com/pinealctx/neptune/strvali"

	"verif/harness/internal/tr"
)

func email(w *tr.W, s string) bool {
	r, p := false, ""
	func() {
		defer func() {
			if x := recover(); x != nil {
				p = fmt.Sprint("panic: ", x)
			}
		}()
		r = strvali.IsValidEmail(s)
	}()
	w.Emit(tr.E{"ev": "email", "s": tr.Str(s), "r": r, "p": p})
	return r
}

// all strings over alpha with length 0..maxLen
func allStrings(alpha string, maxLen int, f func(string)) {
	var rec func(prefix []byte)
	rec = func(prefix []byte) {
		f(string(prefix))
		if len(prefix) == maxLen {
			return
		}
		for i := 0; i < len(alpha); i++ {
			rec(append(prefix, alpha[i]))
		}
	}
	rec(make([]byte, 0, maxLen+1))
}

func pick(rng *rand.Rand, pool string, n int) string {
	b := make([]byte, n)
	for i := range b {
		b[i] = pool[rng.Intn(len(pool))]
	}
	return string(b)
}

const (
	letters = "abzAMZ"
	alnum   = "abzAMZ0189"
)

var damage = []string{" ", "\n", "\t", "\x00", "é", "＠", "。", "中", "@", ".", "+", "-", "_", "!", "%", "/", "\xff", "1", "q"}

// an address built from the parts the statement names, each part sometimes out of its bounds
func gramEmail(rng *rand.Rand) string {
	var sb strings.Builder
	first := "abZ09_"
	if rng.Intn(12) == 0 {
		first = "-.+ @"
	}
	if rng.Intn(25) != 0 {
		sb.WriteString(pick(rng, first, 1))
	}
	sb.WriteString(pick(rng, alnum+"_-.+", rng.Intn(6)))
	switch rng.Intn(14) {
	case 0:
	case 1:
		sb.WriteString("@@")
	default:
		sb.WriteString("@")
	}
	nl := 1 + rng.Intn(3)
	if rng.Intn(15) == 0 {
		nl = 0
	}
	for i := 0; i < nl; i++ {
		lf := alnum
		if rng.Intn(10) == 0 {
			lf = "-_"
		}
		if rng.Intn(20) != 0 {
			sb.WriteString(pick(rng, lf, 1))
		}
		sb.WriteString(pick(rng, alnum+"-_", rng.Intn(4)))
		if rng.Intn(25) != 0 {
			sb.WriteString(".")
		}
	}
	tl := []int{0, 1, 2, 2, 3, 3, 4, 6, 13, 14, 14, 15, 16, 30}[rng.Intn(14)]
	tld := pick(rng, letters, tl)
	if tl > 0 && rng.Intn(10) == 0 {
		b := []byte(tld)
		b[rng.Intn(tl)] = "0-_"[rng.Intn(3)]
		tld = string(b)
	}
	sb.WriteString(tld)
	s := sb.String()
	for rng.Intn(5) == 0 { // damage: insert / replace / drop somewhere
		i := rng.Intn(len(s) + 1)
		d := damage[rng.Intn(len(damage))]
		switch rng.Intn(3) {
		case 0:
			s = s[:i] + d + s[i:]
		case 1:
			if i < len(s) {
				s = s[:i] + d + s[i+1:]
			}
		default:
			if i < len(s) {
				s = s[:i] + s[i+1:]
			}
		}
	}
	return s
}

func runEmail(w *tr.W, rng *rand.Rand) (n, acc int) {
	cnt := 0
	do := func(s string) {
		if cnt%400 == 0 {
			w.Emit(tr.E{"ev": "reset", "kind": "email"})
		}
		cnt++
		n++
		if email(w, s) {
			acc++
		}
	}
	allStrings("a@.-", *fL4, do)
	allStrings("a1_-.+@ ", *fL8, do)
	long := strings.Repeat("a", 3000)
	for _, s := range []string{"", "a@b.cc", "a@b.c", "xxxxx@qq.com", "a@b.cc\n", "\na@b.cc", " a@b.cc", "a@b.cc ", "a@b.cc\x00",
		"é@b.cc", "a@é.cc", "a@b.cé", "a@b.ｃｃ", "a＠b.cc", "a@b。cc", "A@B.CC", "_@0.aa", "-@b.cc", ".a@b.cc", "+a@b.cc",
		"a+tag@b.cc", "a.b-c+d@b.cc", "a@-b.cc", "a@_b.cc", "a@b-.cc", "a@b_.cc", "a@b..cc", "a@.b.cc", "a@b.cc.", "a@b.c1", "a@b.1c",
		"a@b.c-c", "a@b.c_c", "a@b", "a@cc", "@b.cc", "a@", "a", "@", "a@b@c.cc", "a@b.cc@", "a b@c.cc", "a@b c.dd", "a@b.abcdefghijklmn",
		"a@b.abcdefghijklmno", "a@b.abcdefghijklm", "a@1.2.3.ab", "a@b.c.d.e.f.g.hh", long + "@b.cc", "a@" + long + ".cc", "a@b." + long,
		"a@" + strings.Repeat("b.", 1000) + "cc", "a\xff@b.cc", "a@b.cc\r\n", "a@b.cc\n\n", "\xef\xbb\xbfa@b.cc", "a@b.cc "} {
		do(s)
	}
	for i := 0; i < *fNGram; i++ {
		do(gramEmail(rng))
	}
	return
}

func phoneCall(ac, ph string) (r bool, p string) {
	defer func() {
		if x := recover(); x != nil {
			p = fmt.Sprint("panic: ", x)
		}
	}()
	r = strvali.IsValidPhoneNum(ac, ph)
	return
}

// public numbers of several plans: (calling code, national number); whether the code under test
// accepts them is for it to say
var intl = [][2]string{{"1", "2024561111"}, {"1", "6502530000"}, {"1", "2125551212"}, {"44", "7911123456"}, {"44", "2071838750"},
	{"81", "312345678"}, {"81", "9012345678"}, {"49", "30123456"}, {"49", "15112345678"}, {"33", "123456789"}, {"33", "612345678"},
	{"7", "4951234567"}, {"7", "9161234567"}, {"91", "9876543210"}, {"61", "212345678"}, {"61", "412345678"}, {"852", "21234567"},
	{"852", "91234567"}, {"65", "61234567"}, {"65", "81234567"}, {"86", "13890101000"}, {"86", "1012345678"}, {"86", "19912345678"},
	{"39", "0612345678"}, {"39", "3123456789"}, {"886", "912345678"}, {"82", "1012345678"}, {"55", "11987654321"},
	{"234", "8031234567"}, {"971", "501234567"}, {"353", "851234567"}, {"64", "211234567"}, {"27", "711234567"}}

func runPhone(w, wl *tr.W, rng *rand.Rand) (n, acc int) {
	cnt := 0
	do := func(ac, ph string) {
		if len(ac) > 4 && wl != nil {
			// an area of more than "+" and three characters can be no calling code: own small traces
			r, p := phoneCall(ac, ph)
			n++
			wl.Emit(tr.E{"ev": "reset", "kind": "longarea"})
			wl.Emit(tr.E{"ev": "phone", "ac": tr.Str(ac), "ph": tr.Str(ph), "r": r, "p": p})
			return
		}
		if cnt%400 == 0 {
			w.Emit(tr.E{"ev": "reset", "kind": "phone"})
		}
		cnt++
		n++
		r, p := phoneCall(ac, ph)
		if r {
			acc++
		}
		w.Emit(tr.E{"ev": "phone", "ac": tr.Str(ac), "ph": tr.Str(ph), "r": r, "p": p})
	}
	phones := []string{"", "1", "13890101000", "1389010100", "138901010000", "12890101000", "23890101000", "1389010100x", "x3890101000",
		"2024561111", "１３８９０１０１０００", "١٣٨٩٠١٠١٠٠٠", " 13890101000", "13890101000\n", "+13890101000", "138-9010-1000", "138 9010 1000",
		"013890101000", "8613890101000", "7911123456", strings.Repeat("1", 400)}
	allStrings("+861x ", 4, func(ac string) {
		for _, ph := range phones {
			do(ac, ph)
		}
	})
	for _, ac := range []string{"＋86", "+８６", "+86\n", "\n+86", "+86 ", "0086", "+0086", "+086", "86", "+", "++", "+-1", "+1.", "+44", "+1", "+999", "+" + strings.Repeat("8", 300)} {
		for _, ph := range phones {
			do(ac, ph)
		}
	}
	// the mainland plan: 1 d2 and nine more digits, lengths around 11, damage at one place
	for d1 := 0; d1 <= 9; d1++ {
		for d2 := 0; d2 <= 9; d2++ {
			for _, ln := range []int{9, 10, 11, 11, 12} {
				ph := fmt.Sprintf("%d%d%s", d1, d2, pick(rng, "0123456789", ln-2))
				do("+86", ph)
				i := rng.Intn(len(ph) + 1)
				do("+86", ph[:i]+damage[rng.Intn(len(damage))]+ph[i:])
			}
		}
	}
	// public numbers in several spellings
	for _, e := range intl {
		cc, nat := e[0], e[1]
		for _, ac := range []string{"+" + cc, cc, "00" + cc, "+0" + cc, "+00" + cc, " +" + cc, "+" + cc + " ", "x" + cc, "0" + cc, "＋" + cc, "+" + cc + "0"} {
			for _, ph := range []string{nat, "0" + nat, nat + "0", nat[:len(nat)-1], nat[1:], nat[:3] + " " + nat[3:], nat[:3] + "-" + nat[3:], "(" + nat + ")", cc + nat, "+" + cc + nat, nat + nat} {
				do(ac, ph)
			}
		}
	}
	for i := 0; i < *fNPhone; i++ {
		cc := pick(rng, "0123456789", 1+rng.Intn(4))
		if rng.Intn(2) == 0 {
			cc = intl[rng.Intn(len(intl))][0]
		}
		do("+"+cc, pick(rng, "0123456789", 1+rng.Intn(17)))
	}
	return
}

// every cut of one digit string into ("+" first k digits, rest), k = 1..3
func runSplits(w *tr.W, rng *rand.Rand) (n, multi int) {
	do := func(d string) {
		acc := make([]bool, 0, 3)
		p, k := "", 0
		for i := 1; i <= 3 && i < len(d); i++ {
			r, pp := phoneCall("+"+d[:i], d[i:])
			if pp != "" {
				p = pp
			}
			if r {
				k++
			}
			acc = append(acc, r)
		}
		n++
		if k > 1 {
			multi++
		}
		w.Emit(tr.E{"ev": "reset", "kind": "splits"})
		w.Emit(tr.E{"ev": "splits", "d": tr.Str(d), "acc": acc, "p": p})
	}
	for _, e := range intl {
		do(e[0] + e[1])
	}
	for i := 0; i < *fNPhone/10; i++ {
		do(pick(rng, "0123456789", 4+rng.Intn(13)))
		e := intl[rng.Intn(len(intl))]
		do(e[0] + e[1][:1] + pick(rng, "0123456789", len(e[1])-1))
	}
	return
}
