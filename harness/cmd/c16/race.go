// Race rounds: thousands of tiny sessions whose two loops leave at the same moment.
//
// Each session gets a connection on which the receive loop is parked in Read and the send loop is
// parked in Write (something was queued, the peer does not read).  ONE event - the peer resets the
// connection, the peer closes, both deadlines expire together - fails both calls at once: both wait
// on one channel, and (in half of the sessions) meet at a spin barrier before they return, so that
// the two loops run their exit paths on two processors at the same instant.  No driver step lies
// between the two exits.  Per session only the cheap facts are recorded (OnExit calls, connection
// closed), per batch the manager's count and the goroutines left - one compact event per batch,
// one batch per trace.
package main

import (
	"fmt"
	"io"
	"math/rand"
	"net"
	"runtime"
	"strconv"
	"strings"
	"sync/atomic"
	"time"

	"github.com/pinealctx/neptune/stcp"

	"verif/harness/internal/qx"
	"verif/harness/internal/tr"
)

type rconn struct {
	name     string
	cut      chan struct{}
	barrier  bool
	arrived  int32
	rpend    int32
	wpend    int32
	closes   int32
	rerr     error
	werr     error
	exits    int32
	reads    int32
	writes   int32
	lateCall int32 // a Read / Write after the connection was closed (harmless, counted)
}

func (c *rconn) meet() {
	if !c.barrier {
		return
	}
	atomic.AddInt32(&c.arrived, 1)
	for i := 0; i < 2000000 && atomic.LoadInt32(&c.arrived) < 2; i++ {
	}
}

func (c *rconn) Read(p []byte) (int, error) {
	if atomic.LoadInt32(&c.closes) > 0 {
		atomic.AddInt32(&c.lateCall, 1)
		return 0, errClosed
	}
	atomic.AddInt32(&c.reads, 1)
	atomic.StoreInt32(&c.rpend, 1)
	<-c.cut
	c.meet()
	return 0, c.rerr
}

func (c *rconn) Write(p []byte) (int, error) {
	if atomic.LoadInt32(&c.closes) > 0 {
		atomic.AddInt32(&c.lateCall, 1)
		return 0, errClosed
	}
	atomic.AddInt32(&c.writes, 1)
	atomic.StoreInt32(&c.wpend, 1)
	<-c.cut
	c.meet()
	return 0, c.werr
}

func (c *rconn) Close() error                       { atomic.AddInt32(&c.closes, 1); return nil }
func (c *rconn) LocalAddr() net.Addr                { return addr("local") }
func (c *rconn) RemoteAddr() net.Addr               { return addr(c.name) }
func (c *rconn) SetDeadline(t time.Time) error      { return nil }
func (c *rconn) SetReadDeadline(t time.Time) error  { return nil }
func (c *rconn) SetWriteDeadline(t time.Time) error { return nil }

// rhandler does as little as possible on the racing path.
type rhandler struct{ conns []*rconn }

func (h *rhandler) Read(s *stcp.Session) error {
	var b [1]byte
	return s.Read(b[:])
}

func (h *rhandler) OnExit(s *stcp.Session) {
	i, err := strconv.Atoi(strings.TrimPrefix(s.RemoteAddr(), "r"))
	if err != nil || i < 0 || i >= len(h.conns) {
		return // shows as exits = 0
	}
	atomic.AddInt32(&h.conns[i].exits, 1)
}

// runRace runs one batch; false if the run must stop (something did not come back).
func runRace(w *tr.W, rng *rand.Rand, x *qx.Exec, batch int) bool {
	h := &rhandler{}
	mgr := stcp.NewSessionMgr(h)
	mgr.SetLogger(quiet)
	emit(w, tr.E{"ev": "reset", "maxc": 100000, "free": false, "src": "race", "n": batch})
	for i := 0; i < batch; i++ {
		c := &rconn{name: fmt.Sprintf("r%d", i), cut: make(chan struct{}), barrier: rng.Intn(2) == 0}
		switch rng.Intn(3) {
		case 0: // the peer resets the connection
			c.rerr, c.werr = errIO, errIO
		case 1: // the peer closes
			c.rerr, c.werr = io.EOF, errIO
		default: // read and write deadline expire together
			c.rerr, c.werr = timeoutErr{}, timeoutErr{}
		}
		h.conns = append(h.conns, c)
	}
	before := mgr.ConnCount()
	sess := make([]*stcp.Session, batch)
	guard(w, "starting a batch of sessions", func() {
		for i, c := range h.conns {
			sess[i] = stcp.NewSession(mgr, c)
			sess[i].Start()
			if sess[i].Send([]byte{byte(i), 1, 2}) != nil {
				return
			}
		}
	})
	// every session: reader parked in Read, writer parked in Write
	deadline := time.Now().Add(freeBudget)
	for _, c := range h.conns {
		for atomic.LoadInt32(&c.rpend) == 0 || atomic.LoadInt32(&c.wpend) == 0 {
			if time.Now().After(deadline) {
				stuck(w, "stuck", "race round: a session did not get to a pending Read and a pending Write")
			}
			runtime.Gosched()
		}
	}
	started := mgr.ConnCount()
	for _, c := range h.conns {
		close(c.cut) // the one event
	}
	settle(w, x)
	exits, closed := make([]int, batch), make([]bool, batch)
	for i, c := range h.conns {
		exits[i], closed[i] = int(atomic.LoadInt32(&c.exits)), atomic.LoadInt32(&c.closes) > 0
	}
	// one compact record: per session OnExit calls and "connection closed", per batch the count
	emit(w, tr.E{"ev": "race", "n": batch, "exits": exits, "closed": closed, "before": int(before),
		"started": int(started), "after": int(mgr.ConnCount()), "g": stcpGoroutines()})
	return true
}
