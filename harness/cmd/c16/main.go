// c16: drives real stcp sessions.
//
// Scripted worlds: every session gets a scripted net.Conn whose Read and Write block until the
// driver commands them (data / eof / error / timeout; write ok / partial write + error) and a
// handler that reads one byte per frame through Session.Read ('P' makes it panic, 'E' return an
// error).  The driver performs one external action, waits for global quiescence (internal/qx) and
// records what is observable: ConnCount, OnExit calls, connection closed, Read / Write in flight,
// bytes at the peer, goroutines the session still owns.  Actions marked hold are fired without
// waiting, so that the next action races with the loops on the real code.
//
// Free worlds: a real stcp.Server on a loopback port with WithMaxConn(m); clients dial (one at a
// time or in bursts), the server side sends and closes, clients close / send poison frames / stay
// silent until the read deadline fires.  The driver waits on positive signals (handler called,
// OnExit called, client saw the end of the stream), then for quiescence, and records the same
// projection as far as sockets show it.
//
// The verdict is TLC's (specs/session/Session_Trace.tla); this program only records.
package main

import (
	"bufio"
	"bytes"
	"encoding/json"
	"errors"
	"flag"
	"fmt"
	"io"
	"math/rand"
	"net"
	"os"
	"path/filepath"
	"runtime"
	"sort"
	"strconv"
	"strings"
	"sync"
	"sync/atomic"
	"time"

	"github.com/pinealctx/neptune/stcp"
	"github.com/pinealctx/neptune/syncx/pipe/q"
	"github.com/pinealctx/neptune/ulog"
	"go.uber.org/zap"
	"go.uber.org/zap/zapcore"

	"verif/harness/internal/qx"
	"verif/harness/internal/tr"
)

const budget = 20 * time.Second

var quiet, loud *ulog.Logger

// exitEnd: OnExit callbacks that panic / Goexit (off by default, see checks/c16.py)
var exitEnd bool

// opts: manager / server options; drawn by the plan's init line (TLC) or by the seeded generator
type opts struct {
	Wt, Rt int  // write / read timeout in ms (zero and negative values are passed on as they are); dflt = library default
	DefMax bool // free worlds: no WithMaxConn (the library's default limit, 65535)
}

const dflt = -1 << 30

func (o opts) mopts() []stcp.MOption {
	var r []stcp.MOption
	if o.Wt != dflt {
		r = append(r, stcp.WithWriteTimeout(time.Duration(o.Wt)*time.Millisecond))
	}
	if o.Rt != dflt {
		r = append(r, stcp.WithReadTimeout(time.Duration(o.Rt)*time.Millisecond))
	}
	return r
}

type act struct {
	Op   string `json:"op"`
	S    int    `json:"s"`
	B    []int  `json:"b"`
	N    int    `json:"n"`
	K    string `json:"k"`
	R    string `json:"r"`
	Hold bool   `json:"hold"`
	F    string `json:"f"`  // rok: what the handler does with the frame: "" / x, send, close
	Wt   int    `json:"wt"` // init line only
	Rt   int    `json:"rt"`
	Race bool   `json:"-"` // executed concurrently with the complementary start / close that follows
}

func goid() int {
	var buf [64]byte
	n := runtime.Stack(buf[:], false)
	f := strings.Fields(string(buf[:n]))
	id, _ := strconv.Atoi(f[1])
	return id
}

// ---------------------------------------------------------------------------------------------
// recording

// emitMu: handlers of the code under test record their own re-entrant calls, so events are written
// from several goroutines
var emitMu sync.Mutex

func emit(w *tr.W, e tr.E) {
	emitMu.Lock()
	defer emitMu.Unlock()
	w.Emit(e)
}

// stuck: something of the code under test did not come back (a call that never returns, a goroutine
// that spins instead of parking, a value it computed that names nothing).  That is an observation
// about neptune, not a harness problem: it is recorded as an event of its own kind, which no step of
// the specification explains, and the run ends there (what follows would only wait as long again).
func stuck(w *tr.W, kind, msg string) {
	fmt.Printf("c16: %s: %s\n", kind, msg)
	emit(w, tr.E{"ev": kind, "msg": msg})
	os.Exit(0)
}

// guard runs one call into the code under test with a watchdog.
func guard(w *tr.W, what string, f func()) {
	done := make(chan struct{})
	go func() {
		defer close(done)
		f()
	}()
	t := time.NewTimer(freeBudget)
	defer t.Stop()
	select {
	case <-done:
	case <-t.C:
		stuck(w, "stuck", what+" did not return within "+freeBudget.String())
	}
}

// settle waits for global quiescence.  If it does not come and a goroutine inside package stcp is
// the one that keeps running, that is recorded (stuck); otherwise the run is inconclusive (exit 2).
func settle(w *tr.W, x *qx.Exec) {
	err := x.Settle()
	if err == nil {
		return
	}
	for _, blk := range strings.Split(allStacks(), "\n\n") {
		if !strings.Contains(blk, "neptune/stcp.") {
			continue
		}
		head := blk
		if i := strings.IndexByte(blk, '\n'); i >= 0 {
			head = blk[:i]
		}
		if strings.Contains(head, "[running") || strings.Contains(head, "[runnable") || strings.Contains(head, "[sleep") {
			stuck(w, "stuck", "no quiescence: "+head)
		}
	}
	tr.Fatal("%v", err)
}

// ---------------------------------------------------------------------------------------------
// scripted connection

type addr string

func (a addr) Network() string { return "scripted" }
func (a addr) String() string  { return string(a) }

type timeoutErr struct{}

func (timeoutErr) Error() string   { return "scripted i/o timeout" }
func (timeoutErr) Timeout() bool   { return true }
func (timeoutErr) Temporary() bool { return true }

// tempErr: temporary but not a timeout (the package's ITemporary predicate)
type tempErr struct{}

func (tempErr) Error() string   { return "scripted: resource temporarily unavailable" }
func (tempErr) Temporary() bool { return true }

var (
	errClosed  = errors.New("scripted: use of closed connection")
	errIO      = errors.New("scripted: connection reset")
	errHandler = errors.New("scripted: handler rejects frame")
	// the connection is closed, but Close says so with an error
	errCloseReport = errors.New("scripted: failed to send close alert (but connection was closed anyway)")
	errDeadline    = errors.New("scripted: set deadline failed")
)

// sentinels: the exported errors of the packages the session code touches (io, net, os, the send
// queue), plain and wrapped; every one can come out of the connection's Read / Write or out of the
// handler ("c:" / "h:" + name in the trace).
var sentinels = map[string]error{
	"unexp": io.ErrUnexpectedEOF, "pipe": io.ErrClosedPipe, "short": io.ErrShortWrite, "nobuf": io.ErrShortBuffer,
	"netclosed": net.ErrClosed, "deadline": os.ErrDeadlineExceeded, "osclosed": os.ErrClosed,
	"qclosed": q.ErrClosed, "qfull": q.ErrReqQFull, "qsync": q.ErrSync, "eof": io.EOF,
}
var sentinelNames []string

func init() {
	for k, e := range sentinels {
		sentinels["w:"+k] = fmt.Errorf("wrapped by the transport: %w", e)
	}
	for k := range sentinels {
		sentinelNames = append(sentinelNames, k)
	}
	sort.Strings(sentinelNames)
}

// errOf maps an error kind of a command to the error the connection returns.
func errOf(kind string) error {
	switch kind {
	case "eof":
		return io.EOF
	case "timeout":
		return timeoutErr{}
	case "temp":
		return tempErr{}
	}
	if e, ok := sentinels[strings.TrimPrefix(kind, "c:")]; ok {
		return e
	}
	return errIO
}

// endings: the ways a callback can end other than by returning - a panic with a value of any kind
// (the module says go 1.19: recover() returns nil for panic(nil) and for a nil error) or
// runtime.Goexit.  Frame byte 0x10+i makes the read handler end with endings[i].
var endings = []string{"string", "error", "struct", "int", "typednil", "nil", "nilerr", "goexit"}

func endWith(kind string) {
	switch kind {
	case "error":
		panic(errors.New("handler panics with an error"))
	case "struct":
		panic(struct{ Code int }{7})
	case "int":
		panic(42)
	case "typednil":
		panic((*kz)(nil))
	case "nil":
		panic(nil)
	case "nilerr":
		var err error
		panic(err)
	case "goexit":
		runtime.Goexit()
	}
	panic("scripted handler panic")
}

func endingIndex(kind string) int {
	for i, k := range endings {
		if k == kind {
			return i
		}
	}
	return 0
}

type cmd struct {
	kind string // read: data eof err timeout; write: ok err timeout
	b    byte
	n    int
	ack  chan bool
}

type sconn struct {
	name     string
	mu       sync.Mutex
	closed   bool
	closes   int
	closedCh chan struct{}
	rcmd     chan cmd
	wcmd     chan cmd
	pendW    []byte
	pendR    bool
	peer     []byte
	closeErr bool // Close closes and returns an error
	failRDL  bool // armed: the next SetReadDeadline fails
	failWDL  bool // armed: the next SetWriteDeadline fails
	wdlFired bool // ... and it did; not yet logged
}

func newConn(name string) *sconn {
	return &sconn{name: name, closedCh: make(chan struct{}), rcmd: make(chan cmd), wcmd: make(chan cmd),
		peer: []byte{}}
}

func (c *sconn) Read(p []byte) (int, error) {
	c.mu.Lock()
	if c.closed {
		c.mu.Unlock()
		return 0, errClosed
	}
	if len(p) == 0 {
		c.mu.Unlock()
		return 0, nil
	}
	c.pendR = true
	c.mu.Unlock()
	select {
	case m := <-c.rcmd:
		c.mu.Lock()
		c.pendR = false
		if c.closed {
			c.mu.Unlock()
			m.ack <- false
			return 0, errClosed
		}
		c.mu.Unlock()
		m.ack <- true
		switch m.kind {
		case "data":
			p[0] = m.b
			return 1, nil
		}
		return 0, errOf(m.kind)
	case <-c.closedCh:
		c.mu.Lock()
		c.pendR = false
		c.mu.Unlock()
		return 0, errClosed
	}
}

func (c *sconn) Write(p []byte) (int, error) {
	c.mu.Lock()
	if c.closed {
		c.mu.Unlock()
		return 0, errClosed
	}
	c.pendW = append([]byte{}, p...)
	c.mu.Unlock()
	select {
	case m := <-c.wcmd:
		c.mu.Lock()
		c.pendW = nil
		if c.closed {
			c.mu.Unlock()
			m.ack <- false
			return 0, errClosed
		}
		var n int
		var err error
		switch m.kind {
		case "ok":
			n = len(p)
		default:
			n, err = m.n, errOf(m.kind)
		}
		c.peer = append(c.peer, p[:n]...)
		c.mu.Unlock()
		m.ack <- true
		return n, err
	case <-c.closedCh:
		c.mu.Lock()
		c.pendW = nil
		c.mu.Unlock()
		return 0, errClosed
	}
}

func (c *sconn) Close() error {
	c.mu.Lock()
	defer c.mu.Unlock()
	c.closes++
	if c.closed {
		return errClosed
	}
	c.closed = true
	close(c.closedCh)
	if c.closeErr {
		// like tls.Conn whose peer vanished: closed for everybody, but Close reports an error
		return errCloseReport
	}
	return nil
}

func (c *sconn) deadline(armed *bool, fired *bool) error {
	c.mu.Lock()
	defer c.mu.Unlock()
	if c.closed {
		return errClosed
	}
	if armed != nil && *armed {
		*armed = false
		if fired != nil {
			*fired = true
		}
		return errDeadline
	}
	return nil
}
func (c *sconn) LocalAddr() net.Addr                { return addr("local") }
func (c *sconn) RemoteAddr() net.Addr               { return addr(c.name) }
func (c *sconn) SetDeadline(t time.Time) error      { return c.deadline(nil, nil) }
func (c *sconn) SetReadDeadline(t time.Time) error  { return c.deadline(&c.failRDL, nil) }
func (c *sconn) SetWriteDeadline(t time.Time) error { return c.deadline(&c.failWDL, &c.wdlFired) }

// command delivers m to the Read / Write in flight; false if the connection closed first.
func (c *sconn) command(ch chan cmd, m cmd) bool {
	m.ack = make(chan bool, 1)
	t := time.NewTimer(budget)
	defer t.Stop()
	select {
	case ch <- m:
		return <-m.ack
	case <-c.closedCh:
		return false
	case <-t.C:
		tr.Fatal("scripted connection %s: nobody took command %q", c.name, m.kind)
	}
	return false
}

// ---------------------------------------------------------------------------------------------
// scripted world

type ssn struct {
	id      int
	conn    *sconn
	st      string
	sess    *stcp.Session
	reg     chan *stcp.Session
	exits   int32
	starter int
	pendW   []byte // as of the last sync
	pendR   bool
	usedR   bool // ports used since the last sync
	usedW   bool
	drained bool
	vkind   string // dynamic kind of the value given to Session.Set
	// re-entrant use: the handler's own calls into its session
	reentDone chan struct{} // the Read handler has made and recorded its call
	exitSend  bool          // OnExit calls Send
	exitClose bool          // OnExit calls Close
	exitEnd   string        // OnExit ends this way instead of returning (endings; "" = returns)
	// every slice handed to Send, as handed over, and a private copy: Send has no business writing to it
	sent, sentCopy [][]byte
	accBytes       int   // bytes accepted from the driver's Sends
	hBytes         int32 // bytes accepted from the handler's own Sends
	scribbled      int   // slices of sent that were overwritten after delivery
}

type world struct {
	mgr       *stcp.SessionMgr
	ss        []*ssn
	x         *qx.Exec
	w         *tr.W
	own       bool // per-session handler (UpdateHandler) instead of the manager's
	useDo     bool // SessionMgr.Do instead of NewSession + Start
	empty     bool
	dirty     int32 // something was fired since the last sync (atomic: handlers record too)
	waitReent *ssn  // the Read handler of this session is about to make a call of its own
	reent     bool  // OnExit calls back into the session (Send, Close); every action is followed by a sync
}

// attributed: at least one goroutine was attributed to a session through the runtime's
// "created by ... in goroutine N" line, i.e. the observation "goroutines left" is not vacuous
var attributed bool

type shandler struct{ wd *world }

func (h *shandler) find(s *stcp.Session) *ssn {
	a := s.RemoteAddr()
	i, err := strconv.Atoi(strings.TrimPrefix(a, "s"))
	if err != nil || i < 1 || i > len(h.wd.ss) {
		// RemoteAddr is computed by the code under test from the connection it was given
		stuck(h.wd.w, "alien", fmt.Sprintf("handler called for a session whose RemoteAddr is %q", a))
	}
	return h.wd.ss[i-1]
}

func (h *shandler) Read(s *stcp.Session) error {
	x := h.find(s)
	select {
	case x.reg <- s:
		if h.wd.useDo {
			setValue(s, x.vkind) // through SessionMgr.Do the handler is the first to see the session
		}
	default:
	}
	var b [1]byte
	if x.id%2 == 0 {
		// a zero-length read asks for nothing: it succeeds without touching the connection
		if err := s.Read(b[:0]); err != nil {
			return err
		}
	}
	if err := s.Read(b[:]); err != nil {
		return err
	}
	if i := int(b[0]) - 0x80; i >= 0 && i < len(sentinelNames) {
		return sentinels[sentinelNames[i]]
	}
	if i := int(b[0]) - 0x10; i >= 0 && i < len(endings) {
		endWith(endings[i])
	}
	switch b[0] {
	case 'P':
		panic("scripted handler panic")
	case 'E':
		return errHandler
	case 'S': // the handler answers the frame: Send from inside Read, on the receive loop's goroutine
		h.reSend(x, s, []byte{0xA5, byte(x.id)})
		x.reentDone <- struct{}{}
	case 'C': // the handler ends the conversation: Close from inside Read
		h.reClose(x, s)
		x.reentDone <- struct{}{}
	}
	return nil
}

func (h *shandler) reClose(x *ssn, s *stcp.Session) {
	callMu.Lock()
	defer callMu.Unlock()
	s.Close()
	h.wd.fire(tr.E{"op": "close", "s": x.id})
}

func (h *shandler) reSend(x *ssn, s *stcp.Session, bs []byte) {
	callMu.Lock()
	defer callMu.Unlock()
	r := "ok"
	if err := s.Send(bs); err != nil {
		r = "err"
	}
	if r == "ok" {
		atomic.AddInt32(&x.hBytes, int32(len(bs)))
	}
	h.wd.fire(tr.E{"op": "send", "s": x.id, "b": tr.Ints(bs), "r": r})
}

// OnExit may use the session it is told about (a last message, Close for good measure): both calls
// come from inside the exit body, on whichever loop runs it.
func (h *shandler) OnExit(s *stcp.Session) {
	x := h.find(s)
	if x.exitSend {
		h.reSend(x, s, []byte{0x5A, byte(x.id)})
	}
	if x.exitClose {
		h.reClose(x, s)
	}
	atomic.AddInt32(&x.exits, 1)
	if x.exitEnd != "" {
		endWith(x.exitEnd) // the exit callback itself ends by a panic / Goexit (flag -exitend)
	}
}

// the manager's handler in worlds whose sessions carry their own (UpdateHandler): it must never be
// used; if it is, the recorded trace shows something the specification cannot explain
type deadHandler struct{ wd *world }

func (d deadHandler) Read(s *stcp.Session) error {
	panic("manager handler used although the session has its own")
}
func (d deadHandler) OnExit(s *stcp.Session) {
	atomic.AddInt32(&(&shandler{d.wd}).find(s).exits, 100)
}

func newWorld(w *tr.W, rng *rand.Rand, o opts, n int, own, useDo, empty bool, src string) *world {
	wd := &world{x: qx.New(0), w: w, own: own && !useDo, useDo: useDo, empty: empty}
	wd.x.Budget = budget
	h := &shandler{wd}
	if wd.own {
		if rng.Intn(2) == 0 {
			wd.mgr = stcp.NewSessionMgr(nil, o.mopts()...) // no manager handler at all: sessions bring their own
		} else {
			wd.mgr = stcp.NewSessionMgr(deadHandler{wd}, o.mopts()...)
		}
	} else {
		wd.mgr = stcp.NewSessionMgr(h, o.mopts()...)
	}
	if rng.Intn(2) == 0 {
		wd.mgr.SetLogger(loud) // every log statement is evaluated and rendered (into /dev/null)
	} else {
		wd.mgr.SetLogger(quiet)
	}
	for i := 1; i <= n; i++ {
		wd.ss = append(wd.ss, &ssn{id: i, conn: newConn(fmt.Sprintf("s%d", i)), st: "new",
			reg: make(chan *stcp.Session, 1), reentDone: make(chan struct{}, 4)})
	}
	wd.reent = rng.Intn(4) == 0
	vk := make([]string, n)
	for i, x := range wd.ss {
		x.vkind = valueKinds[rng.Intn(len(valueKinds))]
		vk[i] = x.vkind
	}
	for _, x := range wd.ss {
		if wd.reent {
			x.exitSend, x.exitClose = rng.Intn(2) == 0, rng.Intn(2) == 0
			if exitEnd {
				x.exitEnd = endings[rng.Intn(len(endings))]
			}
		}
	}
	cerr := make([]bool, n)
	for i, x := range wd.ss {
		// a third of the connections close "with an error" (closed all the same)
		x.conn.closeErr = rng.Intn(3) == 0
		cerr[i] = x.conn.closeErr
	}
	emit(w, tr.E{"ev": "reset", "maxc": 100000, "free": false, "src": src, "own": wd.own, "do": useDo, "closeerr": cerr, "wt": o.Wt, "rt": o.Rt, "reent": wd.reent, "vkinds": vk})
	return wd
}

func (wd *world) fire(a tr.E) {
	atomic.StoreInt32(&wd.dirty, 1)
	emit(wd.w, tr.E{"ev": "fire", "a": a})
}

// ownedBy counts goroutines created by goroutine `starter` that are inside package stcp.
func ownedBy(stacks string, starter int) int {
	suffix := fmt.Sprintf(" in goroutine %d", starter)
	n := 0
	for _, blk := range strings.Split(stacks, "\n\n") {
		if !strings.Contains(blk, "neptune/stcp.") {
			continue
		}
		for _, ln := range strings.Split(blk, "\n") {
			if strings.HasPrefix(ln, "created by ") && strings.HasSuffix(ln, suffix) {
				n++
			}
		}
	}
	return n
}

func allStacks() string {
	buf := make([]byte, 1<<18)
	for {
		n := runtime.Stack(buf, true)
		if n < len(buf) {
			return string(buf[:n])
		}
		buf = make([]byte, 2*len(buf))
	}
}

func (wd *world) sync() {
	settle(wd.w, wd.x)
	stacks := allStacks()
	obs := make([]tr.E, len(wd.ss))
	for _, x := range wd.ss {
		// a SetWriteDeadline failure since the last sync: the item the send loop had taken is lost
		// and the loop ends - in the specification's terms a Write that fails after 0 bytes
		x.conn.mu.Lock()
		f := x.conn.wdlFired
		x.conn.wdlFired = false
		x.conn.mu.Unlock()
		if f {
			wd.fire(tr.E{"op": "wfault", "s": x.id, "n": 0, "k": "dl"})
		}
	}
	for i, x := range wd.ss {
		c := x.conn
		c.mu.Lock()
		x.pendW, x.pendR = append([]byte{}, c.pendW...), c.pendR
		if c.pendW == nil {
			x.pendW = nil
		}
		peer := tr.Ints(c.peer)
		closed := c.closed
		npeer := len(c.peer)
		c.mu.Unlock()
		if npeer == x.accBytes+int(atomic.LoadInt32(&x.hBytes)) && rngScribble(x) {
			// everything the driver handed to Send has reached the peer: the caller owns its slices
			// again and overwrites them; nothing observed later may change because of that
			for i := x.scribbled; i < len(x.sent); i++ {
				for j := range x.sent[i] {
					x.sent[i][j], x.sentCopy[i][j] = 0xDD, 0xDD
				}
			}
			x.scribbled = len(x.sent)
		}
		x.usedR, x.usedW = false, false
		g := 0
		if x.st == "run" {
			g = ownedBy(stacks, x.starter)
			if g > 0 {
				attributed = true
			}
		}
		obs[i] = tr.E{"st": x.st, "exits": int(atomic.LoadInt32(&x.exits)), "closed": closed,
			"w": tr.Ints(x.pendW), "r": x.pendR, "peer": peer, "g": g, "inmut": x.inmut()}
	}
	emit(wd.w, tr.E{"ev": "sync", "obs": tr.E{"count": int(wd.mgr.ConnCount()), "ss": obs}})
	atomic.StoreInt32(&wd.dirty, 0)
}

func rngScribble(x *ssn) bool { return x.id%2 == 1 }

// inmut: no slice handed to Send has been written to
func (x *ssn) inmut() bool {
	for i := range x.sent {
		if !bytes.Equal(x.sent[i], x.sentCopy[i]) {
			return false
		}
	}
	return true
}

func (wd *world) session(x *ssn) *stcp.Session {
	if x.sess != nil {
		return x.sess
	}
	t := time.NewTimer(budget)
	defer t.Stop()
	select {
	case x.sess = <-x.reg:
	case <-t.C:
		stuck(wd.w, "stuck", fmt.Sprintf("session %d was started through SessionMgr.Do but its handler was never called", x.id))
	}
	return x.sess
}

// reachable: the session object exists for the caller.  Through SessionMgr.Do that is only after
// the start; with NewSession the object can be used (Send, Close) before Start.
func (wd *world) reachable(x *ssn) bool {
	if x.st == "run" {
		return true
	}
	if x.st != "new" || wd.useDo {
		return false
	}
	wd.ensure(x)
	return true
}

func (wd *world) ensure(x *ssn) {
	if x.sess == nil && !wd.useDo {
		x.sess = stcp.NewSession(wd.mgr, x.conn)
		if wd.own {
			x.sess.UpdateHandler(&shandler{wd})
		}
		setValue(x.sess, x.vkind)
	}
}

// Session.Set takes any value (it only feeds the log fields): the dynamic kind is drawn too.
type kz struct{ name string }

func (k *kz) KeyZaps(ext ...zap.Field) []zap.Field { return append(ext, zap.String("who", k.name)) } // nil receiver: panics
type kzSafe struct{ name string }

func (k *kzSafe) KeyZaps(ext ...zap.Field) []zap.Field {
	if k == nil {
		return ext
	}
	return append(ext, zap.String("who", k.name))
}

var valueKinds = []string{"none", "int", "string", "struct", "ptr", "slice", "map", "func", "keyzap", "nilkeyzap", "nilsafe"}

func setValue(s *stcp.Session, kind string) {
	switch kind {
	case "int":
		s.Set(42)
	case "string":
		s.Set("user-42")
	case "struct":
		s.Set(struct{ A, B int }{1, 2})
	case "ptr":
		s.Set(&struct{ A int }{7})
	case "slice":
		s.Set([]int{1, 2, 3})
	case "map":
		s.Set(map[string]int{"a": 1})
	case "func":
		s.Set(func() {})
	case "keyzap":
		s.Set(&kz{"k"})
	case "nilkeyzap":
		s.Set((*kz)(nil)) // typed nil: the interface is not nil, the method call panics inside the log call
	case "nilsafe":
		s.Set((*kzSafe)(nil))
	}
}

// start starts session x from a goroutine of its own (goroutine attribution).  withClose: Close is
// called from a second goroutine at the same moment.
func (wd *world) start(x *ssn, rng *rand.Rand, withClose bool) {
	wd.ensure(x)
	again := rng.Intn(4) == 0
	done := make(chan int)
	var wg sync.WaitGroup
	gate := make(chan struct{})
	if withClose {
		wg.Add(1)
		go func() {
			defer wg.Done()
			<-gate
			x.sess.Close()
		}()
	}
	go func() {
		id := goid()
		<-gate
		if wd.useDo {
			wd.mgr.Do(x.conn)
		} else {
			x.sess.Start()
			if again {
				x.sess.Start() // startOnce: a second Start changes nothing
			}
		}
		done <- id
	}()
	close(gate)
	t := time.NewTimer(freeBudget)
	defer t.Stop()
	select {
	case x.starter = <-done:
	case <-t.C:
		wd.fire(tr.E{"op": "start", "s": x.id, "r": "admitted"})
		stuck(wd.w, "stuck", fmt.Sprintf("Start / Do of session %d did not return within %v", x.id, freeBudget))
	}
	guard(wd.w, "Close racing Start", wg.Wait)
	x.st = "run"
}

// coldStart: first use under contention - every session of a fresh manager is started at the same
// moment, each from a goroutine of its own, released together.
func (wd *world) coldStart() {
	type res struct{ i, id int }
	gate, done := make(chan struct{}), make(chan res, len(wd.ss))
	for i, x := range wd.ss {
		wd.ensure(x)
		go func(i int, x *ssn) {
			id := goid()
			<-gate
			if wd.useDo {
				wd.mgr.Do(x.conn)
			} else {
				x.sess.Start()
			}
			done <- res{i, id}
		}(i, x)
	}
	callMu.Lock()
	close(gate)
	t := time.NewTimer(freeBudget)
	for range wd.ss {
		select {
		case r := <-done:
			x := wd.ss[r.i]
			x.starter, x.st = r.id, "run"
			wd.fire(tr.E{"op": "start", "s": x.id, "r": "admitted"})
		case <-t.C:
			stuck(wd.w, "stuck", "Start / Do did not return when all sessions were started together")
		}
	}
	t.Stop()
	callMu.Unlock()
	wd.sync()
}

// step performs one plan action if it is applicable; reports whether something was done.
// callMu makes "call into the session + record it" one unit, for the driver and for the handlers'
// own re-entrant calls alike, so that the order of the log is the order of the calls.  It is never
// held across a sync (a handler waiting for it would look parked).
var callMu sync.Mutex

func (wd *world) step(a act, rng *rand.Rand) bool {
	if a.Op == "wdl" {
		return wd.step1(a, rng)
	}
	wd.waitReent = nil
	callMu.Lock()
	ok := wd.step1(a, rng)
	callMu.Unlock()
	if x := wd.waitReent; x != nil {
		// the handler's own call is recorded by the handler; nothing else is done before that
		t := time.NewTimer(freeBudget)
		select {
		case <-x.reentDone:
		case <-t.C:
			stuck(wd.w, "stuck", fmt.Sprintf("session %d: the call the handler made from inside Read did not return", x.id))
		}
		t.Stop()
	}
	return ok
}

func (wd *world) step1(a act, rng *rand.Rand) bool {
	if a.S < 1 || a.S > len(wd.ss) {
		return false
	}
	x := wd.ss[a.S-1]
	c := x.conn
	switch a.Op {
	case "start":
		if x.st != "new" {
			return false
		}
		wd.start(x, rng, a.Race)
		wd.fire(tr.E{"op": "start", "s": a.S, "r": "admitted"})
		if a.Race { // Close runs concurrently with Start (plan order: start, close)
			wd.fire(tr.E{"op": "close", "s": a.S})
		}
	case "send":
		if !wd.reachable(x) || (len(a.B) == 0 && !wd.empty) {
			return false
		}
		bs := make([]byte, len(a.B))
		for i, v := range a.B {
			bs[i] = byte(v)
		}
		if len(bs) == 0 && rng.Intn(2) == 0 {
			bs = nil // nil and empty are both "nothing to send"
		}
		x.sent, x.sentCopy = append(x.sent, bs), append(x.sentCopy, append([]byte{}, bs...))
		sess := wd.session(x)
		times := 1
		if rng.Intn(12) == 0 && !wd.armed() {
			// the very same slice handed over twice (not while a deadline failure is armed: it would
			// happen between the two calls and be recorded after them)
			times = 2
		}
		for ; times > 0; times-- {
			r := "ok"
			guard(wd.w, "Send", func() {
				if err := sess.Send(bs); err != nil {
					r = "err"
				}
			})
			wd.fire(tr.E{"op": "send", "s": a.S, "b": tr.Ints(bs), "r": r})
			if r == "ok" {
				x.accBytes += len(bs)
			}
		}
	case "close":
		if !wd.reachable(x) {
			return false
		}
		if a.Race && x.st == "new" { // plan order: close, start - executed concurrently
			wd.fire(tr.E{"op": "close", "s": a.S})
			wd.start(x, rng, true)
			wd.fire(tr.E{"op": "start", "s": a.S, "r": "admitted"})
			break
		}
		guard(wd.w, "Close", wd.session(x).Close)
		wd.fire(tr.E{"op": "close", "s": a.S})
	case "wok", "wfault":
		if x.pendW == nil || x.usedW {
			return false
		}
		x.usedW = true
		if a.Op == "wok" {
			if !c.command(c.wcmd, cmd{kind: "ok"}) {
				return false
			}
			wd.fire(tr.E{"op": "wok", "s": a.S})
		} else {
			n := a.N
			if n >= len(x.pendW) {
				n = len(x.pendW) - 1
			}
			kind := []string{"err", "timeout", "temp", "c:" + sentinelNames[rng.Intn(len(sentinelNames))]}[rng.Intn(4)]
			if !c.command(c.wcmd, cmd{kind: kind, n: n}) {
				return false
			}
			wd.fire(tr.E{"op": "wfault", "s": a.S, "n": n, "k": kind})
		}
	case "rok", "rfault", "panic":
		if !x.pendR || x.usedR {
			return false
		}
		x.usedR = true
		m := cmd{kind: "data", b: 'x'}
		rec := tr.E{"op": a.Op, "s": a.S}
		switch a.Op {
		case "rok":
			switch a.F {
			case "send":
				m.b = 'S'
			case "close":
				m.b = 'C'
			}
		case "panic":
			m.b = byte(0x10 + endingIndex(a.K)) // a.K: the kind of the panic value / Goexit
			rec["k"] = endings[endingIndex(a.K)]
		case "rfault":
			rec["k"] = a.K
			switch a.K {
			case "herr":
				m.b = 'E'
			case "dl":
				// the frame arrives, the handler returns nil, and the SetReadDeadline before the
				// next Read fails: the receive loop ends exactly as with an error from Read
				c.mu.Lock()
				c.failRDL = true
				c.mu.Unlock()
			case "eof", "err", "timeout", "temp":
				m.kind = a.K
			default:
				name := strings.TrimPrefix(strings.TrimPrefix(a.K, "c:"), "h:")
				i := sort.SearchStrings(sentinelNames, name)
				if i >= len(sentinelNames) || sentinelNames[i] != name {
					return false
				}
				if strings.HasPrefix(a.K, "h:") {
					m.b = byte(0x80 + i) // the handler returns this sentinel itself
				} else {
					m.kind = "c:" + name
					rec["k"] = m.kind
				}
			}
		}
		if !c.command(c.rcmd, m) {
			c.mu.Lock()
			c.failRDL = false
			c.mu.Unlock()
			return false
		}
		wd.fire(rec)
		if m.kind == "data" && (m.b == 'S' || m.b == 'C') {
			wd.waitReent = x
		}
	case "wdl":
		// arm a failure of the next SetWriteDeadline; nothing happens now, nothing is logged now.
		// Armed only in a quiescent state, so that the failure is caused by a later action.
		if atomic.LoadInt32(&wd.dirty) != 0 {
			wd.sync()
		}
		c.mu.Lock()
		if x.st == "run" && !c.closed {
			c.failWDL = true
		}
		c.mu.Unlock()
		return false
	default:
		return false
	}
	return true
}

// armed: some SetWriteDeadline failure is waiting to happen; until it has been logged every
// action is followed by a sync, so that the log order is the real order
func (wd *world) armed() bool {
	for _, x := range wd.ss {
		x.conn.mu.Lock()
		a := (x.conn.failWDL && !x.conn.closed) || x.conn.wdlFired // waiting, or happened and not yet logged
		x.conn.mu.Unlock()
		if a {
			return true
		}
	}
	return false
}

// drain ends every session that is still alive with a local Close and a reading peer, so that
// every trace ends with the flush / single exit / count observation.
func (wd *world) drain(rng *rand.Rand) {
	wd.sync()
	for round := 0; round < 200; round++ {
		did := false
		for _, x := range wd.ss {
			if x.st != "run" || atomic.LoadInt32(&x.exits) > 0 {
				continue
			}
			if x.pendW != nil {
				did = wd.step(act{Op: "wok", S: x.id}, rng) || did
			} else if !x.drained {
				x.drained = true
				did = wd.step(act{Op: "close", S: x.id}, rng) || did
			}
		}
		if !did {
			break
		}
		wd.sync()
	}
}

func runPlan(w *tr.W, rng *rand.Rand, o opts, src string, n int, own, useDo, empty bool, plan []act) {
	wd := newWorld(w, rng, o, n, own, useDo, empty, src)
	if rng.Intn(5) == 0 {
		wd.coldStart()
	}
	for i := 0; i < len(plan); i++ {
		a := plan[i]
		// a held start directly followed by close of the same session (or the other way round) is a
		// real race: both calls are made at the same moment from two goroutines
		if i+1 < len(plan) && a.Hold && !useDo && !wd.reent && plan[i+1].S == a.S &&
			((a.Op == "start" && plan[i+1].Op == "close") || (a.Op == "close" && plan[i+1].Op == "start")) &&
			a.S >= 1 && a.S <= len(wd.ss) && wd.ss[a.S-1].st == "new" {
			a.Race, a.Hold = true, plan[i+1].Hold
			i++
		}
		if wd.step(a, rng) && (!a.Hold || wd.armed() || wd.reent) {
			wd.sync()
		}
	}
	wd.drain(rng)
}

func readPlan(path string) []act {
	f, err := os.Open(path)
	if err != nil {
		tr.Fatal("%v", err)
	}
	defer f.Close()
	var out []act
	sc := bufio.NewScanner(f)
	sc.Buffer(make([]byte, 1<<20), 1<<24)
	for sc.Scan() {
		var a act
		if err := json.Unmarshal(sc.Bytes(), &a); err != nil {
			tr.Fatal("plan %s: %v", path, err)
		}
		if a.Op == "tau" || a.Op == "end" {
			continue
		}
		out = append(out, a)
	}
	return out
}

func randBytes(rng *rand.Rand, n int) []int {
	b := make([]int, n)
	for i := range b {
		b[i] = rng.Intn(256)
	}
	return b
}

// randPlan: sessions live longer than in TLC's walks (more sends / partial flushes before an
// ending event), larger payloads, arbitrary byte values.
func randPlan(rng *rand.Rand, n, steps int, empty bool) []act {
	var out []act
	for i := 0; i < steps; i++ {
		s := rng.Intn(n) + 1
		hold := rng.Intn(4) == 0
		var a act
		switch x := rng.Intn(100); {
		case x < 10:
			a = act{Op: "start"}
		case x < 40:
			k := 1 + rng.Intn(5)
			if rng.Intn(10) == 0 {
				k = 20 + rng.Intn(60)
			}
			if empty && rng.Intn(25) == 0 {
				k = 0
			}
			a = act{Op: "send", B: randBytes(rng, k)}
		case x < 62:
			a = act{Op: "wok"}
		case x < 72:
			a = act{Op: "rok", F: []string{"x", "x", "send", "close"}[rng.Intn(4)]}
		case x < 80:
			a = act{Op: "close"}
		case x < 86:
			a = act{Op: "wfault", N: rng.Intn(4)}
		case x < 95:
			a = act{Op: "rfault", K: []string{"eof", "err", "timeout", "herr", "dl", "temp",
				"c:" + sentinelNames[rng.Intn(len(sentinelNames))], "h:" + sentinelNames[rng.Intn(len(sentinelNames))]}[rng.Intn(8)]}
		case x < 97:
			a = act{Op: "wdl"}
		default:
			a = act{Op: "panic", K: endings[rng.Intn(len(endings))]}
		}
		a.S, a.Hold = s, hold
		if len(out) < n && rng.Intn(2) == 0 {
			a = act{Op: "start", S: len(out) + 1}
		}
		out = append(out, a)
		if (a.Op == "start" || a.Op == "close") && rng.Intn(5) == 0 {
			// Close racing Start (either plan order)
			out[len(out)-1].Hold = true
			b := act{Op: "close", S: a.S}
			if a.Op == "close" {
				b.Op = "start"
			}
			out = append(out, b)
		}
	}
	return out
}

// ---------------------------------------------------------------------------------------------
// free worlds: real server, loopback sockets

// clientCfg: how a client consumes the stream.  block == 0: every byte is an element of the
// recorded stream.  block > 0 (bulk transfers): the stream is a sequence of blocks of that size,
// block k is pattern(k); what is recorded is the sequence of block numbers received complete and
// intact (-1 for a block that is not the pattern of its number), plus the length of an incomplete
// tail.  chunk / slow: read at most chunk bytes, then pause - a peer that reads, but slower than
// the sender writes.
type clientCfg struct {
	block int
	chunk int
	slow  time.Duration
}

type client struct {
	c     net.Conn
	cfg   clientCfg
	mu    sync.Mutex
	got   []int  // elements received so far
	part  []byte // incomplete block
	end   string // "" | eof | reset | self
	self  bool
	wrote bool // the client has sent something (it is not a pure reader)
	done  chan struct{}
}

func pattern(k, size int) []byte {
	b := make([]byte, size)
	for i := range b {
		b[i] = byte(i*31 + k*7 + i>>9)
	}
	b[0], b[1], b[2], b[3] = byte(k>>24), byte(k>>16), byte(k>>8), byte(k)
	return b
}

func (cl *client) write(b []byte) {
	cl.mu.Lock()
	cl.wrote = true
	cl.mu.Unlock()
	cl.c.Write(b)
}

func (cl *client) take(p []byte) {
	if cl.cfg.block == 0 {
		for _, x := range p {
			cl.got = append(cl.got, int(x))
		}
		return
	}
	cl.part = append(cl.part, p...)
	for len(cl.part) >= cl.cfg.block {
		blk := cl.part[:cl.cfg.block]
		k := int(blk[0])<<24 | int(blk[1])<<16 | int(blk[2])<<8 | int(blk[3])
		if k > 1<<20 || !bytes.Equal(blk, pattern(k, cl.cfg.block)) {
			k = -1
		}
		cl.got = append(cl.got, k)
		cl.part = append([]byte{}, cl.part[cl.cfg.block:]...)
	}
}

func (cl *client) run() {
	n := 4096
	if cl.cfg.chunk > 0 {
		n = cl.cfg.chunk
	}
	buf := make([]byte, n)
	for {
		n, err := cl.c.Read(buf)
		cl.mu.Lock()
		cl.take(buf[:n])
		if err != nil {
			switch {
			case cl.self:
				cl.end = "self"
			case err == io.EOF:
				cl.end = "eof"
			default:
				cl.end = "reset"
			}
			cl.mu.Unlock()
			close(cl.done)
			return
		}
		cl.mu.Unlock()
		if cl.cfg.slow > 0 {
			time.Sleep(cl.cfg.slow)
		}
	}
}

type fsess struct {
	id     int
	cl     *client
	st     string
	sess   *stcp.Session
	issued bool // an ending action was issued
}

type fhandler struct {
	mu      sync.Mutex
	mgr     *stcp.SessionMgr
	reg     map[string]chan *stcp.Session
	exit    map[string]chan struct{}
	exits   map[string]int
	maxseen int32
	minseen int32
}

func (h *fhandler) chans(a string) (chan *stcp.Session, chan struct{}) {
	h.mu.Lock()
	defer h.mu.Unlock()
	if h.reg[a] == nil {
		h.reg[a] = make(chan *stcp.Session, 1)
		h.exit[a] = make(chan struct{}, 8)
	}
	return h.reg[a], h.exit[a]
}

func (h *fhandler) Read(s *stcp.Session) error {
	r, _ := h.chans(s.RemoteAddr())
	select {
	case r <- s:
	default:
	}
	n := h.mgr.ConnCount()
	for {
		m := atomic.LoadInt32(&h.maxseen)
		if n <= m || atomic.CompareAndSwapInt32(&h.maxseen, m, n) {
			break
		}
	}
	var b [1]byte
	if err := s.Read(b[:]); err != nil {
		return err
	}
	if i := int(b[0]) - 0x10; i >= 0 && i < len(endings) {
		endWith(endings[i])
	}
	switch b[0] {
	case 'P':
		panic("handler panic on poison frame")
	case 'E':
		return errHandler
	}
	return nil
}

func (h *fhandler) OnExit(s *stcp.Session) {
	a := s.RemoteAddr()
	_, e := h.chans(a)
	h.mu.Lock()
	h.exits[a]++
	h.mu.Unlock()
	e <- struct{}{}
}

type fworld struct {
	w       *tr.W
	x       *qx.Exec
	h       *fhandler
	mgr     *stcp.SessionMgr
	srv     *stcp.Server
	eh      <-chan error
	addr    string
	ss      []*fsess
	maxc    int
	ccfg    clientCfg // for the clients dialled from now on
	stopped bool
	// a positive signal did not arrive: record what is there and stop
	failed bool
}

func freePort() string {
	l, err := net.Listen("tcp", "127.0.0.1:0")
	if err != nil {
		tr.Fatal("loopback listen: %v", err)
	}
	a := l.Addr().String()
	l.Close()
	return a
}

// wait blocks until the positive signal arrives.  Loopback delivery is synchronous inside the
// sender's system call and everything after it is goroutine scheduling, so a signal that has not
// arrived after freeBudget, with every goroutine parked (the sync that follows checks that), will
// not arrive: the world is then recorded as it is and abandoned; TLC judges the observation.
const freeBudget = 10 * time.Second

func (fw *fworld) wait(ch <-chan struct{}, what string) bool {
	if fw.failed {
		return false
	}
	t := time.NewTimer(freeBudget)
	defer t.Stop()
	select {
	case <-ch:
		return true
	case <-t.C:
		fmt.Printf("free world: no %s within %v\n", what, freeBudget)
		fw.failed = true
		return false
	}
}

func newFree(w *tr.W, maxc int, o opts, src string) *fworld {
	fw := &fworld{w: w, x: qx.New(0), maxc: maxc}
	fw.x.Budget = budget
	fw.x.Ignore = map[string]bool{"IO wait": true}
	for try := 0; ; try++ {
		fw.h = &fhandler{reg: map[string]chan *stcp.Session{}, exit: map[string]chan struct{}{}, exits: map[string]int{}}
		fw.mgr = stcp.NewSessionMgr(fw.h, o.mopts()...)
		fw.h.mgr = fw.mgr
		fw.addr = freePort()
		fw.srv = stcp.NewTCPSrv(fw.addr, fw.mgr)
		so := []stcp.Option{stcp.WithLogger(quiet)}
		if o.DefMax {
			fw.maxc, maxc = 65535, 65535
		} else {
			so = append(so, stcp.WithMaxConn(int32(maxc)))
		}
		fw.eh = fw.srv.Start(so...)
		// wait until it listens: a probe connection would be a session, so look at the error
		// channel and at the socket table instead
		ok := false
		for i := 0; i < 20000 && !ok; i++ {
			select {
			case err := <-fw.eh:
				_ = err
				i = 1 << 30
			default:
				ok = listening(fw.addr)
				if !ok {
					time.Sleep(100 * time.Microsecond)
				}
			}
		}
		if ok {
			break
		}
		if try > 20 {
			tr.Fatal("cannot start a loopback server")
		}
	}
	emit(w, tr.E{"ev": "reset", "maxc": maxc, "free": true, "src": src, "own": false, "do": true, "wt": o.Wt, "rt": o.Rt})
	return fw
}

// listening reports whether a LISTEN socket for addr exists (from /proc/net/tcp).
func listening(a string) bool {
	_, ps, _ := net.SplitHostPort(a)
	p, _ := strconv.Atoi(ps)
	data, err := os.ReadFile("/proc/net/tcp")
	if err != nil {
		tr.Fatal("read /proc/net/tcp: %v", err)
	}
	want := fmt.Sprintf("0100007F:%04X", p)
	for _, ln := range strings.Split(string(data), "\n") {
		f := strings.Fields(ln)
		if len(f) > 3 && f[1] == want && f[3] == "0A" {
			return true
		}
	}
	return false
}

// sample reads ConnCount as fast as it can while connections are accepted / sessions end, and keeps
// the extremes: the reader takes part in the race, the count must stay within 0..max at every instant.
func (fw *fworld) sample() (stop func()) {
	quit, done := make(chan struct{}), make(chan struct{})
	go func() {
		defer close(done)
		for {
			select {
			case <-quit:
				return
			default:
			}
			n := fw.mgr.ConnCount()
			for {
				m := atomic.LoadInt32(&fw.h.maxseen)
				if n <= m || atomic.CompareAndSwapInt32(&fw.h.maxseen, m, n) {
					break
				}
			}
			for {
				m := atomic.LoadInt32(&fw.h.minseen)
				if n >= m || atomic.CompareAndSwapInt32(&fw.h.minseen, m, n) {
					break
				}
			}
			runtime.Gosched()
		}
	}()
	return func() { close(quit); <-done }
}

func (fw *fworld) fire(a tr.E) { emit(fw.w, tr.E{"ev": "fire", "a": a}) }

// dial connects k clients at once and waits, for each, for the positive sign of its fate: the
// handler was called for it (admitted) or its stream ended (refused).
func (fw *fworld) dial(k int) {
	type res struct {
		cl   *client
		sess *stcp.Session
		reg  chan *stcp.Session
		hung bool
	}
	out := make([]res, k)
	var wg sync.WaitGroup
	start := make(chan struct{})
	for i := 0; i < k; i++ {
		wg.Add(1)
		go func(i int) {
			defer wg.Done()
			<-start // the whole burst connects back to back: surplus connections queue up in the backlog
			c, err := net.Dial("tcp", fw.addr)
			if err != nil {
				// the listener was seen listening and nobody closed it: the server no longer accepts
				stuck(fw.w, "noaccept", fmt.Sprintf("dial %s: %v", fw.addr, err))
			}
			cl := &client{c: c, cfg: fw.ccfg, got: []int{}, done: make(chan struct{})}
			r, _ := fw.h.chans(c.LocalAddr().String())
			go cl.run()
			t := time.NewTimer(freeBudget)
			defer t.Stop()
			select {
			case s := <-r:
				out[i] = res{cl: cl, sess: s}
			case <-cl.done:
				out[i] = res{cl: cl}
				select { // admitted and already over (a read deadline in the past): the handler was called
				case s := <-r:
					out[i].sess = s
				default:
				}
			case <-t.C:
				out[i] = res{cl: cl, reg: r, hung: true}
			}
		}(i)
	}
	stop := fw.sample()
	close(start)
	wg.Wait()
	stop()
	// A connection that was neither handed to a session nor closed within the budget: if the
	// process is still busy this says nothing (exit 2).  If every goroutine is parked (the accept
	// loop back in Accept, nobody left who could close the socket) it is a fact about the server:
	// it is recorded as the outcome of that accept and TLC judges it.
	nhung := 0
	for i := range out {
		if out[i].hung {
			nhung++
		}
	}
	if nhung > 0 {
		settle(fw.w, fw.x)
		for i := range out {
			if !out[i].hung {
				continue
			}
			select { // resolved late, but resolved
			case s := <-out[i].reg:
				out[i].sess, out[i].hung = s, false
			case <-out[i].cl.done:
				out[i].hung = false
			default:
				fmt.Printf("free world: connection %s neither admitted nor closed after %v, process quiescent\n",
					out[i].cl.c.LocalAddr(), freeBudget)
				fw.failed = true
			}
		}
	}
	// the order in which the accept loop took the connections is not observable; no session ends
	// during a burst, so the admitted ones came first
	rank := func(r res) int {
		switch {
		case r.sess != nil:
			return 0
		case r.hung:
			return 2
		}
		return 1
	}
	sort.SliceStable(out, func(i, j int) bool { return rank(out[i]) < rank(out[j]) })
	for _, r := range out {
		x := &fsess{id: len(fw.ss) + 1, cl: r.cl, sess: r.sess, st: "run"}
		rr := "admitted"
		switch rank(r) {
		case 1:
			x.st, rr = "refused", "refused"
		case 2:
			x.st, rr = "hung", "hung" // no step of the specification: an accept admits or closes
		}
		fw.ss = append(fw.ss, x)
		fw.fire(tr.E{"op": "start", "s": x.id, "r": rr})
	}
}

func (fw *fworld) awaitEnd(x *fsess, clientToo bool) {
	_, e := fw.h.chans(x.cl.c.LocalAddr().String())
	defer fw.sample()()
	if fw.wait(e, "OnExit") && clientToo {
		fw.wait(x.cl.done, "end of the client's stream")
	}
}

func stcpGoroutines() int {
	n := 0
	for _, blk := range strings.Split(allStacks(), "\n\n") {
		if strings.Contains(blk, "neptune/stcp.") && !strings.Contains(blk, "stcp.(*Server)") {
			n++
		}
	}
	return n
}

func (fw *fworld) sync() {
	settle(fw.w, fw.x)
	obs := make([]tr.E, len(fw.ss))
	for i, x := range fw.ss {
		x.cl.mu.Lock()
		got, end := append([]int{}, x.cl.got...), x.cl.end
		tail, pure := len(x.cl.part), !x.cl.wrote && !x.cl.self
		x.cl.mu.Unlock()
		fw.h.mu.Lock()
		ex := fw.h.exits[x.cl.c.LocalAddr().String()]
		fw.h.mu.Unlock()
		obs[i] = tr.E{"st": x.st, "exits": ex, "got": got, "eof": end == "eof", "gone": end == "eof" || end == "reset",
			"pure": pure, "tail": tail}
	}
	emit(fw.w, tr.E{"ev": "sync", "obs": tr.E{"count": int(fw.mgr.ConnCount()), "maxseen": int(atomic.LoadInt32(&fw.h.maxseen)), "minseen": int(atomic.LoadInt32(&fw.h.minseen)),
		"g": stcpGoroutines(), "ss": obs}})
}

func (fw *fworld) alive() []*fsess {
	var r []*fsess
	for _, x := range fw.ss {
		if x.st == "run" && !x.issued {
			r = append(r, x)
		}
	}
	return r
}

func (fw *fworld) end(x *fsess, how string) {
	fw.issue(x, how)
	fw.awaitEnd(x, true)
}

// issue performs the ending action and returns at once.
func (fw *fworld) issue(x *fsess, how string) {
	x.issued = true
	switch how {
	case "close":
		fw.fire(tr.E{"op": "close", "s": x.id})
		guard(fw.w, "Close", x.sess.Close)
	case "peer":
		fw.fire(tr.E{"op": "rfault", "s": x.id, "k": "eof"})
		x.cl.mu.Lock()
		x.cl.self = true
		x.cl.mu.Unlock()
		x.cl.c.Close()
	case "panic":
		k := x.id % len(endings) // the kind of the panic value / Goexit
		fw.fire(tr.E{"op": "panic", "s": x.id, "k": endings[k]})
		x.cl.write([]byte{byte(0x10 + k)})
	case "herr":
		fw.fire(tr.E{"op": "rfault", "s": x.id, "k": "herr"})
		x.cl.write([]byte{'E'})
	case "timeout": // the fire event was logged when the session was admitted
	}
}

func (fw *fworld) send(x *fsess, rng *rand.Rand) {
	k := 1 + rng.Intn(6)
	if rng.Intn(8) == 0 {
		k = 100 + rng.Intn(400)
	}
	bs := make([]byte, k)
	for i := range bs {
		bs[i] = byte(rng.Intn(256))
	}
	r := "ok"
	guard(fw.w, "Send", func() {
		if err := x.sess.Send(bs); err != nil {
			r = "err"
		}
	})
	fw.fire(tr.E{"op": "send", "s": x.id, "b": tr.Ints(bs), "r": r})
}

func (fw *fworld) stopServer() {
	if fw.stopped {
		return
	}
	fw.stopped = true
	if err := fw.srv.Close(); err != nil {
		fmt.Printf("c16: server close: %v\n", err) // not part of the property
	}
	if fw.failed {
		// something unexplained is already on record for this world (and judged by TLC); whether its
		// accept loop still ends must not turn that into a harness error
		return
	}
	t := time.NewTimer(budget)
	defer t.Stop()
	select {
	case <-fw.eh:
	case <-t.C:
		// how the accept loop ends is not part of the property; without it the run cannot go on
		tr.Fatal("accept loop did not return after the listener was closed")
	}
}

// restart: the same Server object is stopped and started again on the same address with another
// connection limit, while the manager (its count, its live sessions) carries over: the new limit is
// the one that holds from now on.
func (fw *fworld) restart(newMax int) {
	fw.sync()
	if fw.failed {
		return
	}
	fw.stopServer()
	eh := fw.srv.Start(stcp.WithMaxConn(int32(newMax)), stcp.WithLogger(quiet))
	ok := false
	for i := 0; i < 50000 && !ok; i++ {
		select {
		case <-eh:
			i = 1 << 30 // could not listen again (address taken meanwhile): the world ends here
		default:
			if ok = listening(fw.addr); !ok {
				time.Sleep(100 * time.Microsecond)
			}
		}
	}
	if !ok {
		return // stays stopped
	}
	fw.eh, fw.stopped, fw.maxc = eh, false, newMax
	atomic.StoreInt32(&fw.h.maxseen, fw.mgr.ConnCount()) // the extremes are per configuration
	atomic.StoreInt32(&fw.h.minseen, fw.mgr.ConnCount())
	emit(fw.w, tr.E{"ev": "reconf", "maxc": newMax})
}

// finish ends what is alive.  Orders: the server is stopped before or after its sessions; the
// sessions are closed one by one or all at the same moment (exits racing on the shared count).
func (fw *fworld) finish(rng *rand.Rand) {
	if rng.Intn(3) == 0 {
		fw.stopServer() // sessions outlive the listener
	}
	if al := fw.alive(); !fw.failed && len(al) > 1 && rng.Intn(2) == 0 {
		// at most three at once: TLC has to interleave the exits of all of them
		for len(al) > 3 {
			fw.end(al[0], "close")
			fw.sync()
			al = al[1:]
		}
		var wg sync.WaitGroup
		gate := make(chan struct{})
		for _, x := range al {
			x.issued = true
			fw.fire(tr.E{"op": "close", "s": x.id})
			wg.Add(1)
			go func(x *fsess) {
				defer wg.Done()
				<-gate
				x.sess.Close()
			}(x)
		}
		stop := fw.sample()
		close(gate)
		guard(fw.w, "concurrent Close of all sessions", wg.Wait)
		for _, x := range al {
			fw.awaitEnd(x, true)
		}
		stop()
		fw.sync()
	}
	for _, x := range fw.alive() {
		if !fw.failed {
			fw.end(x, "close")
			fw.sync() // one at a time for TLC as well: sessions that are left open multiply its states
		}
	}
	fw.sync()
	fw.stopServer()
	for _, x := range fw.ss {
		x.cl.c.Close()
	}
}

// runBulk: flush before a local Close over a real TCP connection taken through Server -> Do, with
// the manager options of a plan.  Megabytes are accepted by Send in blocks and Close follows at
// once, so that the close happens while the kernel still holds what the (slower) reader has not
// taken yet; the client reads to the end of the stream, however it ends, and reports which blocks
// arrived intact and in which order.
func runBulk(w *tr.W, rng *rand.Rand, o opts, idx int) bool {
	// block (= payload unit) sizes: 128 KB for the kernel-queue scenario, and sizes at and next to
	// powers of two (page, 64 KB) so that payload lengths are k*2^j and k*2^j +- 1
	blk := 128 << 10
	if idx >= 0 {
		blk = []int{4096, 65537, 4095, 4097, 65535, 65536, 1023, 1025, 128 << 10}[idx%9]
	}
	fw := newFree(w, 1+rng.Intn(3), o, "free-bulk")
	fw.ccfg = clientCfg{block: blk, chunk: 64 << 10, slow: time.Millisecond}
	fw.dial(1)
	fw.sync()
	if fw.failed || len(fw.ss) != 1 || fw.ss[0].st != "run" {
		fw.finish(rng)
		return !fw.failed
	}
	x := fw.ss[0]
	nb := 48 + rng.Intn(17) // 6 .. 8 MB with 128 KB blocks
	if blk < 128<<10 {
		nb = 60 + rng.Intn(40)
	}
	for k := 1; k <= nb; {
		n := 1 + rng.Intn(3)
		if k+n-1 > nb {
			n = nb - k + 1
		}
		var bs []byte
		ids := make([]int, 0, n)
		for i := 0; i < n; i++ {
			bs = append(bs, pattern(k+i, blk)...)
			ids = append(ids, k+i)
		}
		r := "ok"
		guard(fw.w, "Send", func() {
			if err := x.sess.Send(bs); err != nil {
				r = "err"
			}
		})
		fw.fire(tr.E{"op": "send", "s": x.id, "b": ids, "r": r})
		k += n
	}
	fw.end(x, "close")
	fw.sync()
	fw.finish(rng)
	return !fw.failed
}

func runFree(w *tr.W, rng *rand.Rand, idx int) bool {
	maxc := 1 + rng.Intn(3)
	switch idx % 10 {
	case 3:
		// limit extremes: nothing is admitted (0, negative) / everything is (default, top of int32)
		o := opts{Wt: 10000, Rt: 20000}
		maxc = []int{0, -1, 65535, 1<<31 - 1}[rng.Intn(4)]
		o.DefMax = maxc == 65535
		fw := newFree(w, maxc, o, "free-limit")
		fw.dial(1 + rng.Intn(3))
		fw.sync()
		if !fw.failed {
			fw.dial(2 + rng.Intn(2))
			fw.sync()
		}
		for _, x := range fw.alive() {
			if rng.Intn(2) == 0 {
				fw.send(x, rng)
			}
		}
		fw.sync()
		fw.finish(rng)
		return !fw.failed
	case 7:
		// write deadline already over when the Write starts (timeout 0 / negative): the first Write
		// fails with nothing written, which ends the session
		fw := newFree(w, maxc, opts{Wt: []int{0, -500}[rng.Intn(2)], Rt: 20000}, "free-wt0")
		fw.dial(1)
		fw.sync()
		if al := fw.alive(); !fw.failed && len(al) == 1 {
			x := al[0]
			fw.send(x, rng)
			fw.fire(tr.E{"op": "wfault", "s": x.id, "n": 0, "k": "timeout"})
			if rng.Intn(2) == 0 {
				fw.send(x, rng)
			}
			fw.end(x, "timeout")
			fw.sync()
		}
		fw.finish(rng)
		return !fw.failed
	}
	if idx%5 == 4 {
		// read-deadline world: silent clients, the sessions end by themselves; the deadline may be
		// over before the first Read starts (timeout 0 / negative)
		fw := newFree(w, maxc, opts{Wt: 10000, Rt: []int{30, 30, 1, 0, -1000}[rng.Intn(5)]}, "free-timeout")
		n := 1 + rng.Intn(maxc+1)
		for i := 0; i < n; i++ {
			// one at a time: an earlier session may time out (and free its slot) before a later dial
			fw.dial(1)
			if x := fw.ss[len(fw.ss)-1]; x.st == "run" {
				fw.fire(tr.E{"op": "rfault", "s": x.id, "k": "timeout"})
			}
		}
		for _, x := range fw.alive() {
			if rng.Intn(2) == 0 {
				fw.send(x, rng)
			}
		}
		for _, x := range fw.alive() {
			fw.end(x, "timeout")
		}
		fw.sync()
		fw.finish(rng)
		return !fw.failed
	}
	if idx%5 == 2 {
		// surplus bursts: fill the server, then many connections at once; every surplus one must be
		// closed, and when one slot is free exactly one of a burst gets it
		maxc = 1 + rng.Intn(2)
		fw := newFree(w, maxc, opts{Wt: 10000, Rt: 20000}, "free-burst")
		fw.dial(maxc)
		fw.sync()
		if !fw.failed {
			fw.dial(8 + rng.Intn(5))
			fw.sync()
		}
		if al := fw.alive(); !fw.failed && len(al) > 0 {
			if rng.Intn(2) == 0 {
				fw.send(al[0], rng)
			}
			x, how := al[rng.Intn(len(al))], []string{"close", "peer", "panic"}[rng.Intn(3)]
			if rng.Intn(2) == 0 {
				fw.end(x, how)
				fw.sync()
				if !fw.failed {
					fw.dial(3 + rng.Intn(4))
					fw.sync()
				}
			} else {
				// the exit races the burst: the slot may or may not be free for one of them, never for two
				fw.issue(x, how)
				fw.dial(3 + rng.Intn(4))
				fw.awaitEnd(x, true)
				fw.sync()
			}
		}
		fw.finish(rng)
		return !fw.failed
	}
	fw := newFree(w, maxc, opts{Wt: 10000, Rt: 20000}, "free")
	if rng.Intn(3) == 0 {
		fw.dial(2 + rng.Intn(3)) // first use under contention
		fw.sync()
	}
	steps := 6 + rng.Intn(14)
	for i := 0; i < steps && len(fw.ss) < 6 && !fw.failed; i++ {
		al := fw.alive()
		switch x := rng.Intn(100); {
		case (x < 25 || len(al) == 0) && fw.stopped:
			i = steps // nothing to dial into any more
		case x < 25 || len(al) == 0:
			k := 1
			if rng.Intn(3) == 0 {
				k = 2 + rng.Intn(3)
			}
			if len(fw.ss)+k > 6 {
				k = 6 - len(fw.ss)
			}
			fw.dial(k)
			fw.sync()
		case x < 65:
			fw.send(al[rng.Intn(len(al))], rng)
		case x < 72:
			s := al[rng.Intn(len(al))]
			fw.fire(tr.E{"op": "rok", "s": s.id})
			s.cl.write([]byte{'x'})
		case x < 76 && !fw.stopped:
			fw.restart(rng.Intn(4)) // 0 .. 3: below, at or above the number of live sessions
		default:
			how := []string{"close", "close", "close", "peer", "panic", "herr"}[rng.Intn(6)]
			fw.end(al[rng.Intn(len(al))], how)
			fw.sync()
		}
	}
	fw.finish(rng)
	return !fw.failed
}

// ---------------------------------------------------------------------------------------------

func main() {
	plans := flag.String("plans", "", "directory of TLC-generated plans")
	out := flag.String("out", "steps.ndjson", "scripted traces")
	free := flag.String("free", "free.ndjson", "free traces")
	seed := flag.Int64("seed", 1, "seed")
	nrand := flag.Int("rand", 100, "random scripted plans")
	nfree := flag.Int("nfree", 20, "free worlds")
	empty := flag.Bool("empty", true, "include zero-length sends")
	nbulk := flag.Int("nbulk", 4, "bulk-transfer worlds over real TCP")
	racef := flag.String("race", "race.ndjson", "race-round traces")
	nrace := flag.Int("nrace", 0, "race rounds: number of sessions whose two loops leave at the same moment")
	flag.BoolVar(&exitEnd, "exitend", false, "exit callbacks end by panic / Goexit in worlds with re-entrant OnExit")
	flag.Parse()
	rng := rand.New(rand.NewSource(*seed))
	quiet = ulog.NewSimpleLogger("error")
	quiet.SetLevel(zapcore.FatalLevel + 1)
	if devnull, err := os.OpenFile(os.DevNull, os.O_WRONLY, 0); err == nil {
		stdout := os.Stdout
		os.Stdout = devnull // NewSimpleLogger writes to whatever os.Stdout is when it is made
		loud = ulog.NewSimpleLogger("debug")
		os.Stdout = stdout
	} else {
		loud = quiet
	}

	w := tr.Create(*out)
	fw := tr.Create(*free) // all files exist even if the run ends early on a stuck observation
	rw := tr.Create(*racef)
	var optList []opts // option combinations drawn by the plans, in order of first appearance
	seenOpt := map[opts]bool{}
	if *plans != "" {
		files, _ := filepath.Glob(filepath.Join(*plans, "*.ndjson"))
		sort.Slice(files, func(i, j int) bool {
			if len(files[i]) != len(files[j]) {
				return len(files[i]) < len(files[j])
			}
			return files[i] < files[j]
		})
		for i, f := range files {
			p := readPlan(f)
			if len(p) == 0 || p[0].Op != "init" {
				tr.Fatal("plan %s does not start with init", f)
			}
			o := opts{Wt: p[0].Wt, Rt: p[0].Rt}
			if !seenOpt[o] {
				seenOpt[o] = true
				optList = append(optList, o)
			}
			runPlan(w, rng, o, "plan:"+filepath.Base(f), 4, i%3 == 1, i%3 == 2, *empty, p[1:])
		}
	}
	for i := 0; i < *nrand; i++ {
		n := 1 + rng.Intn(3)
		// the scripted connection never lets a deadline fire, so every value is admissible here
		o := opts{Wt: []int{dflt, -3000, 0, 1, 200, 500, 900, 1000, 3000, 1 << 30}[rng.Intn(10)],
			Rt: []int{dflt, -1, 0, 1, 20000, 45000, 1 << 30}[rng.Intn(7)]}
		runPlan(w, rng, o, "rand", n, i%3 == 1, i%3 == 2, *empty, randPlan(rng, n, 25+rng.Intn(50), *empty))
	}
	w.Close()
	if w.N() > 0 && !attributed {
		tr.Fatal("no goroutine could be attributed to any session (stack dump format changed?)")
	}
	rx := qx.New(0)
	rx.Budget = budget
	for done := 0; done < *nrace; done += 128 {
		runRace(rw, rng, rx, 128)
	}
	// long runs around integer widths (same trace file, one run per trace)
	for _, n := range []int{255, 256, 257, 65535, 65536, 65537} {
		if *nrace > 0 {
			runSends(rw, rx, n, false)
		}
	}
	alive := []int{127, 128, 129, 255, 256, 257}
	if *nrace >= 50000 { // thorough
		alive = append(alive, 32767, 32768, 32769, 65536)
	}
	for _, n := range alive {
		if *nrace > 0 {
			runAlive(rw, rng, rx, n)
		}
	}
	rw.Close()
	ok := true
	for i := 0; i < *nfree && ok; i++ {
		ok = runFree(fw, rng, i) // one unexplained world is enough; the next ones would wait as long
	}
	// bulk worlds: one per write timeout drawn by the plans (then round robin), with that plan's options
	var bulk []opts
	seenWt := map[int]bool{}
	for _, o := range optList {
		if !seenWt[o.Wt] {
			seenWt[o.Wt] = true
			bulk = append(bulk, o)
		}
	}
	if len(bulk) == 0 {
		bulk = []opts{{Wt: 400, Rt: 20000}, {Wt: dflt, Rt: dflt}, {Wt: 1000, Rt: 30000}, {Wt: 2500, Rt: 20000}}
	}
	for i := 0; i < *nbulk && ok; i++ {
		ok = runBulk(fw, rng, bulk[i%len(bulk)], i-len(bulk)) // first one 128 KB world per write timeout
	}
	fw.Close()
	fmt.Printf("scripted_events=%d free_events=%d\n", w.N(), fw.N())
}
