// Long runs around integer widths: a counter, a length or a sequence number that was narrowed
// (uint8, int16, ...) shows only after 256 / 32768 / 65536 repetitions of one operation.  Each run
// is recorded as one run-length-encoded event.
package main

import (
	"fmt"
	"math/rand"
	"net"
	"strconv"
	"strings"
	"sync"
	"sync/atomic"
	"time"

	"github.com/pinealctx/neptune/stcp"

	"verif/harness/internal/qx"
	"verif/harness/internal/tr"
)

// aconn: a peer that reads everything at once.  The i-th byte of the stream must be seq(i).
type aconn struct {
	name      string
	mu        sync.Mutex
	closedCh  chan struct{}
	closes    int32
	delivered int
	inorder   bool
}

func seq(i int) byte { return byte(i*7 + i>>8) }

func newAconn(name string) *aconn {
	return &aconn{name: name, closedCh: make(chan struct{}), inorder: true}
}

func (c *aconn) Read(p []byte) (int, error) {
	<-c.closedCh
	return 0, errClosed
}

func (c *aconn) Write(p []byte) (int, error) {
	c.mu.Lock()
	defer c.mu.Unlock()
	if c.closes > 0 {
		return 0, errClosed
	}
	for _, b := range p {
		if b != seq(c.delivered) {
			c.inorder = false
		}
		c.delivered++
	}
	return len(p), nil
}

func (c *aconn) Close() error {
	c.mu.Lock()
	defer c.mu.Unlock()
	c.closes++
	if c.closes == 1 {
		close(c.closedCh)
	}
	return nil
}
func (c *aconn) LocalAddr() net.Addr                { return addr("local") }
func (c *aconn) RemoteAddr() net.Addr               { return addr(c.name) }
func (c *aconn) SetDeadline(t time.Time) error      { return nil }
func (c *aconn) SetReadDeadline(t time.Time) error  { return nil }
func (c *aconn) SetWriteDeadline(t time.Time) error { return nil }

type ahandler struct{ exits []int32 }

func (h *ahandler) Read(s *stcp.Session) error {
	var b [1]byte
	return s.Read(b[:])
}

func (h *ahandler) OnExit(s *stcp.Session) {
	i, err := strconv.Atoi(strings.TrimPrefix(s.RemoteAddr(), "a"))
	if err == nil && i >= 0 && i < len(h.exits) {
		atomic.AddInt32(&h.exits[i], 1)
	}
}

// runSends: one session, n one-byte Sends, Close, reading peer.
func runSends(w *tr.W, x *qx.Exec, n int, useDo bool) {
	h := &ahandler{exits: make([]int32, 1)}
	mgr := stcp.NewSessionMgr(h)
	mgr.SetLogger(quiet)
	emit(w, tr.E{"ev": "reset", "maxc": 100000, "free": false, "src": "run-sends", "n": n})
	before := mgr.ConnCount()
	c := newAconn("a0")
	s := stcp.NewSession(mgr, c)
	accepted := 0
	var during int32
	guard(w, fmt.Sprintf("a run of %d Sends", n), func() {
		// half of the run is queued before Start, half while the send loop is draining
		for i := 0; i < n/2; i++ {
			if s.Send([]byte{seq(i)}) == nil {
				accepted++
			}
		}
		s.Start()
		during = mgr.ConnCount()
		for i := n / 2; i < n; i++ {
			if s.Send([]byte{seq(i)}) == nil {
				accepted++
			}
		}
		s.Close()
	})
	settle(w, x)
	c.mu.Lock()
	delivered, inorder, closed := c.delivered, c.inorder, c.closes > 0
	c.mu.Unlock()
	emit(w, tr.E{"ev": "run", "kind": "sends", "n": n, "accepted": accepted, "delivered": delivered, "inorder": inorder,
		"exits": int(atomic.LoadInt32(&h.exits[0])), "closed": closed, "before": int(before), "during": int(during),
		"after": int(mgr.ConnCount()), "g": stcpGoroutines()})
}

// runAlive: n sessions alive at once on one manager, then all closed.
func runAlive(w *tr.W, rng *rand.Rand, x *qx.Exec, n int) {
	h := &ahandler{exits: make([]int32, n)}
	mgr := stcp.NewSessionMgr(h)
	mgr.SetLogger(quiet)
	emit(w, tr.E{"ev": "reset", "maxc": 100000, "free": false, "src": "run-alive", "n": n})
	before := mgr.ConnCount()
	conns := make([]*aconn, n)
	sess := make([]*stcp.Session, n)
	var during int32
	guard(w, fmt.Sprintf("a run of %d sessions", n), func() {
		for i := range conns {
			conns[i] = newAconn(fmt.Sprintf("a%d", i))
			if i%2 == 0 {
				sess[i] = stcp.NewSession(mgr, conns[i])
				sess[i].Start()
			} else {
				mgr.Do(conns[i])
			}
		}
		during = mgr.ConnCount()
		// end them: local Close where the session object is at hand, else the peer goes away
		for i := range conns {
			if sess[i] != nil {
				sess[i].Close()
			} else {
				conns[i].Close()
			}
		}
	})
	settle(w, x)
	exits, closed := 0, 0
	for i, c := range conns {
		if atomic.LoadInt32(&h.exits[i]) == 1 {
			exits++
		}
		need := int32(1)
		if sess[i] == nil {
			need = 2 // the peer's own close plus the session's
		}
		c.mu.Lock()
		if c.closes >= need {
			closed++
		}
		c.mu.Unlock()
	}
	emit(w, tr.E{"ev": "run", "kind": "alive", "n": n, "exits": exits, "closed": closed, "before": int(before),
		"during": int(during), "after": int(mgr.ConnCount()), "g": stcpGoroutines()})
}
