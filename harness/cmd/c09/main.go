// c09: executes codec and block-integer scenarios against bitmap1024 (Bit1024.Marshal/Unmarshal,
// BigU32, U32BitTip, BigU32s, U32BitTips), recording one ndjson event per call for validation by TLC
// (specs/bitmapcodec/BitmapCodec_Trace.tla).
//
// Integers are logged as sign + 7 digits in base 1024 (least significant first): digit 1 is the bit
// inside a block, the following digits are the block number.  The real state is read off the raw
// words of the bitmaps (bit j of word k <=> member 64k+j) and the Start fields.
package main

import (
	"bufio"
	"bytes"
	"encoding/json"
	"flag"
	"fmt"
	"math"
	"math/bits"
	"math/rand"
	"os"
	"path/filepath"
	"sort"
	"sync"
	"sync/atomic"
	"time"

	bmp "github.com/pinealctx/neptune/bitmap1024"

	"verif/harness/internal/tr"
)

// ---------------------------------------------------------------- integers as digits
type num struct {
	Neg bool  `json:"neg"`
	D   []int `json:"d"`
}

func digitsU(u uint64) []int {
	d := make([]int, 7)
	for i := 0; i < 7; i++ {
		d[i] = int(u & 1023)
		u >>= 10
	}
	return d
}

func numI64(v int64) tr.E {
	if v < 0 {
		return tr.E{"neg": true, "d": digitsU(uint64(-(v + 1)) + 1)} // also right for MinInt64
	}
	return tr.E{"neg": false, "d": digitsU(uint64(v))}
}

func (n num) i64() int64 {
	var u uint64
	for i := len(n.D) - 1; i >= 0; i-- {
		u = u<<10 | uint64(n.D[i])
	}
	if n.Neg {
		return -int64(u-1) - 1
	}
	return int64(u)
}

func startDigits(s uint32) []int { return digitsU(uint64(s))[:4] }

func membersOf(b bmp.Bit1024) []int {
	if len(b) != 16 {
		return []int{-1} // a bitmap of the wrong shape: nothing the specification can explain
	}
	ms := make([]int, 0, 64)
	for k, w := range b {
		x := uint64(w)
		for x != 0 {
			j := bits.TrailingZeros64(x)
			ms = append(ms, 64*k+j)
			x &^= 1 << uint(j)
		}
	}
	return ms
}

func fromMembers(ms []int) bmp.Bit1024 {
	b := bmp.NewBit1024()
	for _, m := range ms {
		b[m/64] |= 1 << uint(m%64)
	}
	return b
}

// ---------------------------------------------------------------- world
type block struct {
	kind string
	big  *bmp.BigU32
	tip  *bmp.U32BitTip
}

func (b *block) ok() bool { return b != nil && (b.big != nil || b.tip != nil) }

func (b *block) start() uint32 {
	if b.big != nil {
		return b.big.Start
	}
	return b.tip.Start
}

func (b *block) bm() bmp.Bit1024 {
	if b.big != nil {
		return b.big.B1024
	}
	return b.tip.B1024
}

type snap struct {
	ok    bool
	kind  string
	start uint32
	words [16]uint64
	n     int
}

func snapBM(b bmp.Bit1024) (w [16]uint64, n int) {
	n = len(b)
	for i := 0; i < n && i < 16; i++ {
		w[i] = uint64(b[i])
	}
	return
}

func (b *block) snap() snap {
	if !b.ok() {
		return snap{}
	}
	w, n := snapBM(b.bm())
	return snap{ok: true, kind: b.kind, start: b.start(), words: w, n: n}
}

type runner struct {
	w       *tr.W
	rng     *rand.Rand
	cur     bmp.Bit1024
	blk     []*block
	dead    bool
	late    bool
	force   int // next traces: 0 = late at random, -1 = render at once, +1 = late
	pending []pend
	pool    []byte // one input buffer reused for every byte string, like a driver reading into its buffer
}

// lazy is a reply that is rendered later from storage kept as the library returned it.
type lazy func() interface{}

type pend struct {
	ev     tr.E
	render lazy
}

const hangLimit = 40 * time.Second

// THE CALLER OWNS WHAT IT WAS GIVEN: once a returned aggregate has been rendered (every renderer runs
// exactly once) the harness writes all over it - every element flipped, then the whole capacity
// overwritten through s[:0], as a caller recycling the slice as scratch does.  Later calls must not
// notice; the trace specification judges them.
func lzI64(s []int64) lazy {
	return func() interface{} {
		out := numsI64(s)
		for i := range s {
			s[i] = ^s[i]
		}
		for s = s[:0]; len(s) < cap(s); {
			s = append(s, -0x5a5a5a5a5a5a5a5a)
		}
		return out
	}
}

func lzU32(s []uint32) lazy {
	return func() interface{} {
		out := numsU32(s)
		for i := range s {
			s[i] = ^s[i]
		}
		for s = s[:0]; len(s) < cap(s); {
			s = append(s, 0xa5a5a5a5)
		}
		return out
	}
}

func lzBytes(b []byte) lazy {
	return func() interface{} {
		out := tr.Ints(b)
		for i := range b {
			b[i] = ^b[i]
		}
		for b = b[:0]; len(b) < cap(b); {
			b = append(b, 0x5a)
		}
		return out
	}
}

func (r *runner) flush() {
	for _, p := range r.pending {
		if p.render != nil {
			p.ev["r"] = p.render()
		}
		r.w.Emit(p.ev)
	}
	r.pending = r.pending[:0]
}

// put: in `late` traces (about half) the events are held back and every aggregate a call returned
// (Marshal's bytes, the list forms' slices, the caller slice of an iterator) is rendered from the
// very storage the library handed out when the trace is over; the others render at once.
func (r *runner) put(ev tr.E, render lazy) {
	if r.late {
		r.pending = append(r.pending, pend{ev, render})
		return
	}
	if render != nil {
		ev["r"] = render()
	}
	r.w.Emit(ev)
}

func (r *runner) reset(nh int, src string) {
	r.flush()
	r.cur = bmp.NewBit1024()
	r.blk = make([]*block, nh)
	r.dead = false
	r.late = r.rng.Intn(2) == 0
	if r.force != 0 {
		r.late = r.force > 0
	}
	r.w.Emit(tr.E{"ev": "reset", "nh": nh, "src": src, "late": r.late})
}

// hung: the code under test spins inside one call: logged as an event no action explains; the
// process ends normally (the goroutine cannot be stopped).
func (r *runner) hung(rec tr.E) {
	r.flush()
	r.w.Emit(tr.E{"ev": "hang", "a": rec, "msg": fmt.Sprintf("call did not return within %v", hangLimit)})
	r.w.Close()
	fmt.Printf("events=%d (ended by a hanging call)\n", r.w.N())
	os.Exit(0)
}

// emit runs f (one call into the library, on its own goroutine, with a watchdog); discard tells that
// the bitmap `cur` is dropped after a failed Unmarshal (its content is unspecified then).
func (r *runner) emit(rec tr.E, f func() (reply interface{}, discard bool)) {
	if r.dead {
		return
	}
	curW, curN := snapBM(r.cur)
	before := make([]snap, len(r.blk))
	for i, b := range r.blk {
		before[i] = b.snap()
	}
	var reply interface{}
	var discard bool
	var pmsg string
	done := make(chan struct{})
	go func() {
		defer close(done)
		defer func() {
			if p := recover(); p != nil {
				pmsg = fmt.Sprintf("panic: %v", p)
			}
		}()
		reply, discard = f()
	}()
	select {
	case <-done:
	case <-time.After(hangLimit):
		r.hung(rec)
	}
	if pmsg != "" {
		r.flush()
		r.w.Emit(tr.E{"ev": "panic", "a": rec, "msg": pmsg})
		r.dead = true
		return
	}
	obsCur := make([][]int, 0, 1)
	if discard {
		r.cur = bmp.NewBit1024()
	} else if w, n := snapBM(r.cur); w != curW || n != curN {
		obsCur = append(obsCur, membersOf(r.cur))
	}
	obsBlk := make([]tr.E, 0, 1)
	for i, b := range r.blk {
		now := b.snap()
		if now != before[i] {
			obsBlk = append(obsBlk, blkObs(i+1, b))
		}
	}
	ev := tr.E{"ev": "call", "a": rec, "obs": tr.E{"cur": obsCur, "blk": obsBlk}}
	if lz, isLazy := reply.(lazy); isLazy {
		r.put(ev, lz)
		return
	}
	ev["r"] = reply
	r.put(ev, nil)
}

func blkObs(h int, b *block) tr.E {
	if b.ok() {
		return tr.E{"h": h, "ok": true, "kind": b.kind, "start": startDigits(b.start()), "ms": membersOf(b.bm())}
	}
	return tr.E{"h": h, "ok": false, "kind": "", "start": []int{}, "ms": []int{}}
}

// ---------------------------------------------------------------- codec actions
func (r *runner) load(ms []int) {
	if ms == nil {
		ms = []int{}
	}
	r.emit(tr.E{"op": "load", "ms": ms}, func() (interface{}, bool) { r.cur = fromMembers(ms); return 0, false })
}

func (r *runner) fresh() {
	r.emit(tr.E{"op": "fresh"}, func() (interface{}, bool) { r.cur = bmp.NewBit1024(); return 0, false })
}

// marshal returns the bytes for later use as an input: in a late trace the very slice Marshal returned
// (it is rendered and then overwritten only when the trace is over), otherwise a copy, because the
// original is overwritten as soon as it has been rendered.
func (r *runner) marshal() []byte {
	var out []byte
	r.emit(tr.E{"op": "marshal"}, func() (interface{}, bool) {
		got := r.cur.Marshal() // kept as returned
		out = got
		if !r.late {
			out = append([]byte{}, got...)
		}
		return lzBytes(got), false
	})
	return out
}

// unmarshal decodes into a fresh bitmap through one of the three entry points.  The bytes are
// logged from a private copy taken before the call; `inmut` says the callee left the caller's buffer
// alone.  With scribble the caller overwrites its buffer right after the call, as a driver that
// reuses its read buffer does, before the decoded bitmap is looked at.
func (r *runner) unmarshal(buf []byte, via string, scribble bool) {
	priv := append([]byte{}, buf...)
	rec := tr.E{"op": "unmarshal", "bytes": tr.Ints(priv), "via": via}
	r.emit(rec, func() (interface{}, bool) {
		var err error
		switch via {
		case "bit1024":
			b := bmp.NewBit1024()
			r.cur = b
			err = b.Unmarshal(buf)
		case "bigdata":
			var x *bmp.BigU32
			x, err = bmp.NewBigU32FromData(7, buf)
			if err == nil {
				r.cur = x.B1024
			}
		case "tipdata":
			var x *bmp.U32BitTip
			x, err = bmp.NewU32BitTipFromData(7, buf)
			if err == nil {
				r.cur = x.B1024
			}
		default:
			tr.Fatal("via %q", via)
		}
		rec["inmut"] = bytes.Equal(buf, priv)
		if scribble {
			for i := range buf {
				buf[i] ^= 0xa5
			}
		}
		if err != nil {
			return tr.E{"err": true, "ms": []int{}}, true
		}
		return tr.E{"err": false, "ms": membersOf(r.cur)}, false
	})
}

// bload: the harness builds the block struct itself (public fields), no library call.
func (r *runner) bload(h int, kind string, start uint32, ms []int) {
	if ms == nil {
		ms = []int{}
	}
	r.emit(tr.E{"op": "bload", "h": h, "kind": kind, "start": startDigits(start), "ms": ms}, func() (interface{}, bool) {
		if kind == "big" {
			r.blk[h-1] = &block{kind: kind, big: &bmp.BigU32{Start: start, B1024: fromMembers(ms)}}
		} else {
			r.blk[h-1] = &block{kind: kind, tip: &bmp.U32BitTip{Start: start, B1024: fromMembers(ms)}}
		}
		return 0, false
	})
}

// bnew0: the parameterless constructors (empty block number 0), to be filled with Set calls.
func (r *runner) bnew0(h int, kind string) {
	r.emit(tr.E{"op": "bnew0", "h": h, "kind": kind}, func() (interface{}, bool) {
		if kind == "big" {
			r.blk[h-1] = &block{kind: kind, big: bmp.NewBigU32()}
		} else {
			r.blk[h-1] = &block{kind: kind, tip: bmp.NewU32BitTip()}
		}
		return 0, false
	})
}

// bdata: New...FromData(start, bytes) with every admissible block number, then used as a block.
func (r *runner) bdata(h int, kind string, start uint32, buf []byte) {
	priv := append([]byte{}, buf...)
	rec := tr.E{"op": "bdata", "h": h, "kind": kind, "start": startDigits(start), "bytes": tr.Ints(priv)}
	r.emit(rec, func() (interface{}, bool) {
		var err error
		nb := &block{kind: kind}
		if kind == "big" {
			nb.big, err = bmp.NewBigU32FromData(start, buf)
		} else {
			nb.tip, err = bmp.NewU32BitTipFromData(start, buf)
		}
		rec["inmut"] = bytes.Equal(buf, priv)
		if err != nil {
			r.blk[h-1] = nil
			return true, false
		}
		r.blk[h-1] = nb
		return false, false
	})
}

// ---------------------------------------------------------------- block actions
func (r *runner) newBlock(h int, kind string, v int64) {
	rec := tr.E{"op": "new", "h": h, "kind": kind, "v": numI64(v)}
	r.emit(rec, func() (interface{}, bool) {
		if kind == "big" {
			b, err := bmp.NewBigU32FromI64(v)
			if err != nil {
				r.blk[h-1] = nil
				return true, false
			}
			r.blk[h-1] = &block{kind: kind, big: b}
			return false, false
		}
		if v < 0 || v > math.MaxUint32 {
			tr.Fatal("tip value %d is not a uint32", v)
		}
		r.blk[h-1] = &block{kind: kind, tip: bmp.NewU32BitTipFromU32(uint32(v))}
		return false, false
	})
}

func (r *runner) bset(h int, v int64) {
	b := r.blk[h-1]
	if !b.ok() {
		return
	}
	r.emit(tr.E{"op": "bset", "h": h, "v": numI64(v)}, func() (interface{}, bool) {
		if b.big != nil {
			return b.big.SetI64(v) != nil, false
		}
		if v < 0 || v > math.MaxUint32 {
			tr.Fatal("tip value %d is not a uint32", v)
		}
		return b.tip.SetU32(uint32(v)) != nil, false
	})
}

func (r *runner) brev(h, d int) {
	b := r.blk[h-1]
	if !b.ok() {
		return
	}
	r.emit(tr.E{"op": "brev", "h": h, "d": d}, func() (interface{}, bool) {
		if b.big != nil {
			r.blk[d-1] = &block{kind: b.kind, big: b.big.Reverse()}
		} else {
			r.blk[d-1] = &block{kind: b.kind, tip: b.tip.Reverse()}
		}
		return 0, false
	})
}

func numsI64(s []int64) []tr.E {
	out := make([]tr.E, 0, len(s))
	for _, x := range s {
		out = append(out, numI64(x))
	}
	return out
}

func numsU32(s []uint32) []tr.E {
	out := make([]tr.E, 0, len(s))
	for _, x := range s {
		out = append(out, numI64(int64(x)))
	}
	return out
}

func (r *runner) bgetn(h int, dir string, n int) {
	b := r.blk[h-1]
	if !b.ok() || n < 0 {
		return
	}
	r.emit(tr.E{"op": "bgetn", "h": h, "dir": dir, "n": n}, func() (interface{}, bool) {
		if b.big != nil {
			if dir == "r" {
				return lzI64(b.big.RGetNAsI64(n)), false
			}
			return lzI64(b.big.GetNAsI64(n)), false
		}
		if dir == "r" {
			return lzU32(b.tip.RGetNAsU32(n)), false
		}
		return lzU32(b.tip.GetNAsU32(n)), false
	})
}

func (r *runner) biter(h int, dir string, n, pos int) {
	b := r.blk[h-1]
	if !b.ok() {
		return
	}
	// room for what a correct iterator may write after pos, plus slack
	cnt := len(membersOf(b.bm()))
	if n < cnt {
		cnt = n
	}
	if cnt < 0 {
		cnt = 0
	}
	L := pos + cnt + r.rng.Intn(3)
	var sent int64 = -1
	if b.tip != nil {
		sent = math.MaxUint32
	}
	// TLC's integers are 32 bit; the specification uses n only through min(max(n, 0), Len), so an
	// n beyond +-2^30 is logged clamped (same meaning) with the real argument beside it (nreal)
	cn := n
	if cn > 1<<30 {
		cn = 1 << 30
	} else if cn < -(1 << 30) {
		cn = -(1 << 30)
	}
	rec := tr.E{"op": "biter", "h": h, "dir": dir, "n": cn, "pos": pos, "len": L, "sent": numI64(sent)}
	if cn != n {
		rec["nreal"] = numI64(int64(n))
	}
	r.emit(rec, func() (interface{}, bool) {
		if b.big != nil {
			s := make([]int64, L)
			if L == 0 && pos%2 == 0 {
				s = nil // a zero-length slice is nil now and then
			}
			for i := range s {
				s[i] = sent
			}
			var c int
			if dir == "r" {
				c = b.big.RIterAsI64(s, pos, n)
			} else {
				c = b.big.IterAsI64(s, pos, n)
			}
			return lazy(func() interface{} { return tr.E{"c": c, "out": numsI64(s)} }), false
		}
		s := make([]uint32, L)
		if L == 0 && pos%2 == 0 {
			s = nil
		}
		for i := range s {
			s[i] = uint32(sent)
		}
		var c int
		if dir == "r" {
			c = b.tip.RIterAsU32(s, pos, n)
		} else {
			c = b.tip.IterAsU32(s, pos, n)
		}
		return lazy(func() interface{} { return tr.E{"c": c, "out": numsU32(s)} }), false
	})
}

func (r *runner) lgetn(kind string, hs []int, dir string, n int) {
	if n < 0 {
		return
	}
	for _, h := range hs {
		if !r.blk[h-1].ok() || r.blk[h-1].kind != kind {
			return
		}
	}
	if hs == nil {
		hs = []int{}
	}
	r.emit(tr.E{"op": "lgetn", "kind": kind, "hs": hs, "dir": dir, "n": n}, func() (interface{}, bool) {
		if kind == "big" {
			var l bmp.BigU32s
			if len(hs) == 0 && n%2 == 1 {
				l = bmp.BigU32s{} // empty but not nil
			}
			for _, h := range hs {
				l = append(l, r.blk[h-1].big)
			}
			if dir == "r" {
				return lzI64(l.RGetNAsI64(n)), false
			}
			return lzI64(l.GetNAsI64(n)), false
		}
		var l bmp.U32BitTips
		if len(hs) == 0 && n%2 == 1 {
			l = bmp.U32BitTips{}
		}
		for _, h := range hs {
			l = append(l, r.blk[h-1].tip)
		}
		if dir == "r" {
			return lzU32(l.RGetNAsU32(n)), false
		}
		return lzU32(l.GetNAsU32(n)), false
	})
}

// ---------------------------------------------------------------- plans (BitmapCodec_Gen)
type pact struct {
	Op    string `json:"op"`
	H     int    `json:"h"`
	D     int    `json:"d"`
	Kind  string `json:"kind"`
	V     num    `json:"v"`
	Dir   string `json:"dir"`
	N     int    `json:"n"`
	Pos   int    `json:"pos"`
	Hs    []int  `json:"hs"`
	Ms    []int  `json:"ms"`
	Bytes []int  `json:"bytes"`
	Start []int  `json:"start"`
	Lo    int    `json:"lo"`
	Cnt   int    `json:"cnt"`
	Nh    int    `json:"nh"`
}

type pline struct {
	A pact `json:"a"`
}

func readPlan(path string) []pact {
	f, err := os.Open(path)
	if err != nil {
		tr.Fatal("%v", err)
	}
	defer f.Close()
	var out []pact
	sc := bufio.NewScanner(f)
	sc.Buffer(make([]byte, 1<<20), 1<<24)
	for sc.Scan() {
		var l pline
		if err := json.Unmarshal(sc.Bytes(), &l); err != nil {
			tr.Fatal("plan %s: %v", path, err)
		}
		out = append(out, l.A)
	}
	if err := sc.Err(); err != nil {
		tr.Fatal("plan %s: %v", path, err)
	}
	return out
}

func (r *runner) runPlan(p []pact, i int) {
	vias := []string{"bit1024", "bigdata", "tipdata"}
	for k, a := range p {
		switch a.Op {
		case "load":
			r.load(a.Ms)
		case "fresh":
			r.fresh()
		case "marshal":
			r.marshal()
		case "unmarshal":
			buf := make([]byte, len(a.Bytes))
			for j, x := range a.Bytes {
				buf[j] = byte(x)
			}
			r.unmarshal(buf, vias[(i+k)%3], false)
		case "bsetrun":
			r.bsetrun(a.H, a.Lo, a.Cnt)
		case "bnew0":
			r.bnew0(a.H, a.Kind)
		case "bdata":
			buf := make([]byte, len(a.Bytes))
			for j, x := range a.Bytes {
				buf[j] = byte(x)
			}
			var st uint64
			for j := len(a.Start) - 1; j >= 0; j-- {
				st = st<<10 | uint64(a.Start[j])
			}
			r.bdata(a.H, a.Kind, uint32(st), buf)
		case "new":
			r.newBlock(a.H, a.Kind, a.V.i64())
		case "bset":
			r.bset(a.H, a.V.i64())
		case "brev":
			r.brev(a.H, a.D)
		case "bgetn":
			r.bgetn(a.H, a.Dir, a.N)
		case "biter":
			r.biter(a.H, a.Dir, a.N, a.Pos)
		case "lgetn":
			r.lgetn(a.Kind, a.Hs, a.Dir, a.N)
		default:
			tr.Fatal("unknown plan op %q", a.Op)
		}
	}
}

// ---------------------------------------------------------------- generators
func (r *runner) randMembers(n int) []int {
	ms := append([]int{}, r.rng.Perm(1024)[:n]...)
	sort.Ints(ms)
	return ms
}

func (r *runner) roundTrips(extra int) {
	counts := []int{0, 1, 2, 3, 31, 62, 63, 64, 65, 66, 100, 127, 128, 129, 512, 1000, 1022, 1023, 1024}
	for i := 0; i < 3; i++ { // around the multiples of the word size
		counts = append(counts, 64*(2+r.rng.Intn(14))+r.rng.Intn(3)-1)
	}
	for i := 0; i < extra; i++ {
		switch r.rng.Intn(3) {
		case 0:
			counts = append(counts, 56+r.rng.Intn(16))
		case 1:
			counts = append(counts, r.rng.Intn(64))
		default:
			counts = append(counts, r.rng.Intn(1025))
		}
	}
	vias := []string{"bit1024", "bigdata", "tipdata"}
	for i, c := range counts {
		ms := r.randMembers(c)
		switch {
		case c > 0 && c < 1024 && i%3 == 1: // force the extreme members in
			ms[0], ms[len(ms)-1] = 0, 1023
			set := map[int]bool{}
			for _, m := range ms {
				set[m] = true
			}
			ms = ms[:0]
			for m := range set {
				ms = append(ms, m)
			}
			sort.Ints(ms)
		case c > 0 && c <= 960 && i%3 == 2: // a run (dense words) at a random offset
			off := r.rng.Intn(1024 - c + 1)
			for j := range ms {
				ms[j] = off + j
			}
		}
		r.reset(2, "roundtrip")
		r.load(ms)
		buf := r.marshal()
		if i%3 == 0 {
			// a second Marshal of another bitmap before the first result is used: the first
			// result must still be the first bitmap's bytes
			r.load(r.randMembers([]int{1, 5, 63, 64, 200}[r.rng.Intn(5)]))
			r.marshal()
		}
		r.fresh()
		r.unmarshal(buf, vias[i%3], false)
		// the same source decoded a second time, through another entry point
		r.fresh()
		r.unmarshal(buf, vias[(i+1)%3], false)
		// and as the content of a block with an extreme block number, iterated back
		kind := []string{"big", "tip"}[i%2]
		starts := []uint32{0, 1, 1<<22 - 1, 1 << 22, 1<<32 - 2, 12345678}
		if kind == "tip" {
			starts = []uint32{0, 1, 1<<22 - 1, 1 << 21, 4095}
		}
		r.bdata(1, kind, starts[r.rng.Intn(len(starts))], buf)
		if r.blk[0].ok() {
			r.bgetn(1, []string{"f", "r"}[r.rng.Intn(2)], []int{1, 3, c, c + 1}[r.rng.Intn(4)])
			r.biter(1, []string{"f", "r"}[r.rng.Intn(2)], []int{2, c, math.MaxInt}[r.rng.Intn(3)], []int{0, 1, 3}[r.rng.Intn(3)])
		}
	}
}

func le16(v int) []byte { return []byte{byte(v), byte(v >> 8)} }

func (r *runner) arbitraryBytes(per int) {
	vias := []string{"bit1024", "bigdata", "tipdata"}
	k := 0
	if r.pool == nil {
		r.pool = make([]byte, 70000)
	}
	one := func(src []byte) {
		// the caller's buffer is one reused region, overwritten right after the call
		buf := r.pool[:len(src)]
		copy(buf, src)
		if len(src) == 0 && k%2 == 1 {
			buf = nil // no bytes at all: nil as well as empty
		}
		r.reset(1, "bytes")
		r.unmarshal(buf, vias[k%3], true)
		k++
	}
	bad := []int{1024, 1025, 2047, 4096, 32767, 32768, 40000, 65535, 64512}
	lens := make([]int, 0, 140)
	for L := 0; L <= 130; L++ {
		lens = append(lens, L)
	}
	lens = append(lens, 131, 132, 192, 255, 256, 257, 1024, 2048, 65536, 65537)
	for _, L := range lens {
		for rep := 0; rep < per; rep++ {
			if L > 4096 && rep > 0 {
				break
			}
			buf := make([]byte, L)
			switch {
			case L%2 == 1 || L > 128:
				r.rng.Read(buf)
				if rep%2 == 0 { // otherwise well-formed elements: only the length is wrong
					for i := 0; i+1 < L; i += 2 {
						copy(buf[i:], le16(r.rng.Intn(1024)))
					}
				}
			case L == 128:
				switch (rep + k) % 4 {
				case 0:
					r.rng.Read(buf)
				case 1: // would be 64 valid sparse elements: must be read as dense
					for i := 0; i < L; i += 2 {
						copy(buf[i:], le16(r.rng.Intn(1024)))
					}
				case 2:
					for i := range buf {
						buf[i] = 0xff
					}
				default:
					buf[r.rng.Intn(L)] = byte(1 << uint(r.rng.Intn(8)))
				}
			default:
				// valid sparse: unsorted, with repetitions now and then
				for i := 0; i < L; i += 2 {
					copy(buf[i:], le16(r.rng.Intn(1024)))
				}
				if L >= 4 && rep%3 == 1 {
					copy(buf[L-2:], buf[0:2])
				}
				if L >= 2 && rep%2 == 1 { // one element out of range, first / last / somewhere
					pos := []int{0, L - 2, 2 * r.rng.Intn(L/2)}[r.rng.Intn(3)]
					copy(buf[pos:], le16(bad[r.rng.Intn(len(bad))]))
				}
			}
			one(buf)
		}
	}
}

var bigBoundary = []int64{0, 1, 1023, 1024, 1025, 2047, 1<<32 - 1025, 1<<32 - 1024, 1<<32 - 1, 1 << 32, 1<<32 + 1, 1<<32 + 1023, 1<<32 + 1024,
	1 << 33, 1<<33 + 5, 1<<40 + 123, 1<<41 + 1<<32 + 7, 1<<42 - 2049, 1<<42 - 2048, 1<<42 - 1025, 1<<42 - 1024, 1<<42 - 1023, 1<<42 - 1, 1 << 42,
	1<<42 + 1024, 1 << 43, 1 << 50, 1<<52 + 999, math.MaxInt64, math.MaxInt64 - 1023, -1, -2, -1023, -1024, -1025, -(1 << 32), -(1 << 42),
	math.MinInt64, math.MinInt64 + 1, math.MaxUint32, math.MaxUint32 * 1024, math.MaxUint32*1024 - 1, math.MaxInt32, math.MaxInt32 + 1}

var tipBoundary = []int64{0, 1, 1023, 1024, 1025, 2047, 2048, 1 << 20, 1<<22 - 1, 1 << 22, 1<<31 - 1, 1 << 31, 1<<31 + 1023, 1<<32 - 2049, 1<<32 - 2048,
	1<<32 - 1025, 1<<32 - 1024, 1<<32 - 1023, 1<<32 - 2, 1<<32 - 1}

func (r *runner) randBig() int64 {
	switch r.rng.Intn(6) {
	case 0:
		return r.rng.Int63n(1 << 32)
	case 1:
		return 1<<32 + r.rng.Int63n(1<<42-1<<32-1024)
	case 2:
		return int64(r.rng.Uint64()) // anywhere in int64
	case 3:
		k := []int64{1, 1<<22 - 1, 1 << 22, 1<<22 + 1, 1 << 31, 1<<32 - 2, 1<<32 - 1}[r.rng.Intn(7)]
		return k*1024 + int64(r.rng.Intn(3)) - 1
	}
	return r.rng.Int63n(1<<42 - 1024)
}

func (r *runner) randTip() int64 {
	if r.rng.Intn(4) == 0 {
		k := []int64{1, 2, 1 << 10, 1<<21 + 5, 1<<22 - 1}[r.rng.Intn(5)]
		return k*1024 + int64(r.rng.Intn(3)) - 1
	}
	return int64(r.rng.Uint32())
}

// one block scenario: build from v, read back, extend, read, reverse, lists
func (r *runner) blockScenario(kind string, v int64, src string) {
	r.reset(3, src)
	if r.rng.Intn(4) == 0 {
		// construct empty, then fill: block number 0 accepts 0..1023 only
		r.bnew0(3, kind)
		r.bgetn(3, "f", 1)
		for _, x := range []int64{int64(r.rng.Intn(1024)), 1023, 1024, 0, 1<<32 - 1, int64(r.rng.Intn(1024))}[:3+r.rng.Intn(4)] {
			r.bset(3, x)
		}
		r.bgetn(3, []string{"f", "r"}[r.rng.Intn(2)], 5)
	}
	r.newBlock(1, kind, v)
	if !r.blk[0].ok() {
		return
	}
	lim := int64(math.MaxInt64)
	if kind == "tip" {
		lim = math.MaxUint32
	}
	clip := func(w int64) (int64, bool) {
		if kind == "tip" && (w < 0 || w > lim) {
			return 0, false
		}
		return w, true
	}
	r.bgetn(1, "f", 1)
	r.bgetn(1, "r", 2)
	r.biter(1, []string{"f", "r"}[r.rng.Intn(2)], []int{-1, 0, 1, 5}[r.rng.Intn(4)], r.rng.Intn(3))
	first := v - v%1024
	cands := []int64{v, v + 1, v - 1, first, first + 1023, first - 1, first + 1024, v + 1024, v - 1024, first + int64(r.rng.Intn(1024)),
		first + int64(r.rng.Intn(1024)), first + int64(r.rng.Intn(1024)), -1, v % 1024, math.MaxUint32*1024 + v%1024, v + (1 << 42), v + (1 << 32), v ^ (1 << 35)}
	r.rng.Shuffle(len(cands), func(i, j int) { cands[i], cands[j] = cands[j], cands[i] })
	for _, w := range cands[:8+r.rng.Intn(6)] {
		if x, ok := clip(w); ok {
			r.bset(1, x)
		}
	}
	l := len(membersOf(r.blk[0].bm()))
	r.bgetn(1, "f", l)
	r.bgetn(1, "r", l+1)
	r.bgetn(1, "r", 1)
	r.bgetn(1, "f", l-1)
	r.biter(1, "r", l, 1)
	r.biter(1, "f", 2000, 0)
	for _, dir := range []string{"f", "r"} { // 64-bit extremes of n
		pos := []int{0, 1, 3, 7}[r.rng.Intn(4)]
		ex := []int{math.MaxInt, math.MaxInt - 1, math.MaxInt - pos, math.MaxInt - pos + 1, math.MinInt, math.MinInt + 1, 1 << 40, -(1 << 40)}
		r.biter(1, dir, ex[r.rng.Intn(len(ex))], pos)
	}
	if r.rng.Intn(8) == 0 {
		r.bgetn(1, []string{"f", "r"}[r.rng.Intn(2)], 1<<20)
	}
	// a second block: a neighbour or the same block number, a few members
	v2 := v + 1024*int64(r.rng.Intn(3)-1)
	if x, ok := clip(v2); ok {
		r.newBlock(2, kind, x)
	}
	if r.blk[1].ok() {
		f2 := v2 - v2%1024
		for i := 0; i < 3; i++ {
			if x, ok := clip(f2 + int64(r.rng.Intn(1024))); ok {
				r.bset(2, x)
			}
		}
		l2 := len(membersOf(r.blk[1].bm()))
		for _, hs := range [][]int{{1, 2}, {2, 1}, {}, {1}, {2, 2}} {
			for _, dir := range []string{"f", "r"} {
				n := []int{0, 1, l, l + 1, l + l2, l + l2 + 5, 2000}[r.rng.Intn(7)]
				r.lgetn(kind, hs, dir, n)
			}
		}
	}
	// a third block: the complement of the first (dense) or another neighbour; lists of three
	if r.rng.Intn(2) == 0 {
		r.brev(1, 3)
	} else if x, ok := clip(v + 1024*int64(r.rng.Intn(5)-2)); ok {
		r.newBlock(3, kind, x)
		if r.blk[2].ok() {
			if y, ok := clip(x - x%1024 + int64(r.rng.Intn(1024))); ok {
				r.bset(3, y)
			}
		}
	}
	if r.blk[2].ok() {
		l3 := len(membersOf(r.blk[2].bm()))
		r.bgetn(3, []string{"f", "r"}[r.rng.Intn(2)], []int{1, 3, l3 - 1, l3, 2000}[r.rng.Intn(5)])
		lists := [][]int{{3, 1}, {1, 3}}
		if r.blk[1].ok() {
			lists = append(lists, []int{1, 2, 3}, []int{3, 2, 1}, []int{2, 3, 1}, []int{2, 1, 2, 3})
		}
		l2 := 0
		if r.blk[1].ok() {
			l2 = len(membersOf(r.blk[1].bm()))
		}
		for _, hs := range lists {
			dir := []string{"f", "r"}[r.rng.Intn(2)]
			n := []int{2, l, l + 1, l + l2, l + l2 + 1, l + l2 + l3 - 1, l + l2 + l3, l + l2 + l3 + 7, 1023, 1024, 3000, 1 << 20}[r.rng.Intn(12)]
			r.lgetn(kind, hs, dir, n)
		}
	}
}

// encode is the harness's own Marshal (canonical form), so that a cold round needs no library call
// to get its input.
func encode(ms []int) []byte {
	if len(ms) == 0 {
		return []byte{}
	}
	if len(ms) < 64 {
		out := make([]byte, 0, 2*len(ms))
		for _, m := range ms {
			out = append(out, le16(m)...)
		}
		return out
	}
	out := make([]byte, 128)
	for _, m := range ms {
		out[m/8] |= 1 << uint(m%8)
	}
	return out
}

// raceRound: one bitmap, its encoding and two blocks that nobody writes are used by G goroutines
// released together by a spin barrier: Marshal of the shared bitmap, Unmarshal of the shared bytes
// into a bitmap of the goroutine's own, iteration / list forms over the shared blocks.  Values that
// are only read are safe to share, so every reply must be what the call gives alone; results are kept
// as returned and rendered after the round.  With -cold this is the first use of the package in the
// process (the inputs are built by the harness without library calls).
func (r *runner) raceRound(src string, G, per int) {
	r.reset(2, src)
	r.late = true // everything of the round is rendered when it is over
	kind := []string{"big", "tip"}[r.rng.Intn(2)]
	starts := []uint32{0, 1 << 22, 1<<32 - 2, 77}
	if kind == "tip" {
		starts = []uint32{0, 1<<22 - 1, 5, 77}
	}
	ms := r.randMembers([]int{0, 1, 9, 63, 64, 65, 300, 1024}[r.rng.Intn(8)])
	st1 := starts[r.rng.Intn(len(starts))]
	st2 := starts[r.rng.Intn(len(starts))]
	m1 := r.randMembers([]int{1, 2, 10, 70, 1000}[r.rng.Intn(5)])
	m2 := r.randMembers([]int{1, 3, 64, 500}[r.rng.Intn(4)])
	r.load(ms)
	r.bload(1, kind, st1, m1)
	r.bload(2, kind, st2, m2)
	if r.dead {
		return
	}
	shared := encode(ms)
	sharedCopy := append([]byte{}, shared...)
	curW, curN := snapBM(r.cur)
	b1, b2 := r.blk[0].snap(), r.blk[1].snap()
	type res struct {
		rec    tr.E
		render lazy
		pmsg   string
		own    bmp.Bit1024 // unmarshal: the goroutine's own bitmap
		err    bool
	}
	out := make([][]res, G)
	var gate int32
	var ready, wg sync.WaitGroup
	for g := 0; g < G; g++ {
		ready.Add(1)
		wg.Add(1)
		go func(g int, rng *rand.Rand) {
			defer wg.Done()
			var cur tr.E
			defer func() {
				if p := recover(); p != nil {
					out[g] = append(out[g], res{rec: cur, pmsg: fmt.Sprintf("panic: %v", p)})
				}
			}()
			ready.Done()
			for atomic.LoadInt32(&gate) == 0 {
			}
			for k := 0; k < per; k++ {
				h := rng.Intn(2) + 1
				b := r.blk[h-1]
				l := len([][]int{m1, m2}[h-1])
				dir := []string{"f", "r"}[rng.Intn(2)]
				switch x := rng.Intn(10); {
				case x < 2:
					cur = tr.E{"op": "marshal", "gor": g}
					o := r.cur.Marshal()
					out[g] = append(out[g], res{rec: cur, render: lzBytes(o)})
				case x < 4:
					via := []string{"bit1024", "bigdata", "tipdata"}[rng.Intn(3)]
					cur = tr.E{"op": "unmarshal", "bytes": tr.Ints(sharedCopy), "via": via, "gor": g}
					var own bmp.Bit1024
					var err error
					switch via {
					case "bit1024":
						own = bmp.NewBit1024()
						err = own.Unmarshal(shared)
					case "bigdata":
						var x *bmp.BigU32
						if x, err = bmp.NewBigU32FromData(3, shared); err == nil {
							own = x.B1024
						}
					default:
						var x *bmp.U32BitTip
						if x, err = bmp.NewU32BitTipFromData(3, shared); err == nil {
							own = x.B1024
						}
					}
					out[g] = append(out[g], res{rec: cur, own: own, err: err != nil})
				case x < 7:
					n := []int{0, 1, l - 1, l, l + 1, 2000}[rng.Intn(6)]
					if n < 0 {
						n = 0
					}
					cur = tr.E{"op": "bgetn", "h": h, "dir": dir, "n": n, "gor": g}
					var lz lazy
					switch {
					case b.big != nil && dir == "r":
						lz = lzI64(b.big.RGetNAsI64(n))
					case b.big != nil:
						lz = lzI64(b.big.GetNAsI64(n))
					case dir == "r":
						lz = lzU32(b.tip.RGetNAsU32(n))
					default:
						lz = lzU32(b.tip.GetNAsU32(n))
					}
					out[g] = append(out[g], res{rec: cur, render: lz})
				default:
					hs := [][]int{{1, 2}, {2, 1}, {1}, {2, 2, 1}}[rng.Intn(4)]
					n := []int{0, 1, l, len(m1) + len(m2), len(m1) + len(m2) + 3, 3000}[rng.Intn(6)]
					cur = tr.E{"op": "lgetn", "kind": kind, "hs": hs, "dir": dir, "n": n, "gor": g}
					var lz lazy
					if kind == "big" {
						var lst bmp.BigU32s
						for _, x := range hs {
							lst = append(lst, r.blk[x-1].big)
						}
						if dir == "r" {
							lz = lzI64(lst.RGetNAsI64(n))
						} else {
							lz = lzI64(lst.GetNAsI64(n))
						}
					} else {
						var lst bmp.U32BitTips
						for _, x := range hs {
							lst = append(lst, r.blk[x-1].tip)
						}
						if dir == "r" {
							lz = lzU32(lst.RGetNAsU32(n))
						} else {
							lz = lzU32(lst.GetNAsU32(n))
						}
					}
					out[g] = append(out[g], res{rec: cur, render: lz})
				}
			}
		}(g, rand.New(rand.NewSource(r.rng.Int63())))
	}
	ready.Wait()
	atomic.StoreInt32(&gate, 1)
	done := make(chan struct{})
	go func() { wg.Wait(); close(done) }()
	select {
	case <-done:
	case <-time.After(hangLimit):
		r.hung(tr.E{"op": "race", "src": src})
	}
	// nobody wrote: the shared values must be what they were
	obsCur := make([][]int, 0, 1)
	if w, n := snapBM(r.cur); w != curW || n != curN {
		obsCur = append(obsCur, membersOf(r.cur))
	}
	obsBlk := make([]tr.E, 0, 1)
	if r.blk[0].snap() != b1 {
		obsBlk = append(obsBlk, blkObs(1, r.blk[0]))
	}
	if r.blk[1].snap() != b2 {
		obsBlk = append(obsBlk, blkObs(2, r.blk[1]))
	}
	quiet := func() tr.E { return tr.E{"cur": [][]int{}, "blk": []tr.E{}} }
	var panicked *res
	var reads, decs []*res
	for g := range out {
		for i := range out[g] {
			x := &out[g][i]
			switch {
			case x.pmsg != "":
				if panicked == nil {
					panicked = x
				}
			case x.rec["op"] == "unmarshal":
				decs = append(decs, x)
			default:
				reads = append(reads, x)
			}
		}
	}
	for i, x := range reads {
		obs := quiet()
		if i == len(reads)-1 {
			obs = tr.E{"cur": obsCur, "blk": obsBlk}
		}
		r.put(tr.E{"ev": "call", "a": x.rec, "obs": obs}, x.render)
	}
	// the decodings: each went into a bitmap of its own, which becomes `the bitmap` when it is logged
	for _, x := range decs {
		x.rec["inmut"] = bytes.Equal(shared, sharedCopy)
		r.put(tr.E{"ev": "call", "a": tr.E{"op": "fresh"}, "r": 0, "obs": tr.E{"cur": [][]int{{}}, "blk": []tr.E{}}}, nil)
		if x.err {
			r.put(tr.E{"ev": "call", "a": x.rec, "r": tr.E{"err": true, "ms": []int{}}, "obs": quiet()}, nil)
			continue
		}
		ms := membersOf(x.own)
		r.put(tr.E{"ev": "call", "a": x.rec, "r": tr.E{"err": false, "ms": ms}, "obs": tr.E{"cur": [][]int{ms}, "blk": []tr.E{}}}, nil)
	}
	if panicked != nil {
		r.flush()
		r.w.Emit(tr.E{"ev": "panic", "a": panicked.rec, "msg": panicked.pmsg})
		r.dead = true
	}
}

// repeats: the same values (full, empty, one fixed sparse set, one 64-member set, a full block) are
// encoded and listed again and again in one process, every result overwritten by its owner after use.
// Run at several points of the run, once rendering at once and once late.
func (r *runner) repeats(tag string) {
	full := make([]int, 1024)
	for i := range full {
		full[i] = i
	}
	fixed := []int{0, 7, 63, 64, 500, 1023}
	sixty4 := full[300:364]
	vias := []string{"bit1024", "bigdata", "tipdata"}
	for _, f := range []int{-1, 1} {
		r.force = f
		r.reset(2, "repeat:"+tag)
		for k := 0; k < 3; k++ {
			for j, ms := range [][]int{full, {}, fixed, sixty4, full} {
				r.load(ms)
				buf := r.marshal()
				if (j+k)%2 == 0 {
					r.fresh()
					r.unmarshal(buf, vias[(j+k)%3], false)
				}
			}
			kind := []string{"big", "tip"}[k%2]
			r.bload(1, kind, uint32(k), full)
			r.bload(2, kind, uint32(k+1), fixed)
			r.bgetn(1, []string{"f", "r"}[k%2], 1024)
			r.bgetn(1, []string{"r", "f"}[k%2], 1024)
			r.bgetn(2, "f", 6)
			r.bgetn(2, "f", 6)
			r.lgetn(kind, []int{1, 2}, "f", 1030)
			r.lgetn(kind, []int{1, 2}, "f", 1030)
		}
	}
	r.force = 0
}

// bsetrun: cnt SetI64 / SetU32 calls with the block's own integers of the bits lo, lo+1, ... as ONE
// run-length-encoded event; the reply is the number of calls that were refused (must be 0).
func (r *runner) bsetrun(h, lo, cnt int) {
	b := r.blk[h-1]
	if !b.ok() || lo < 0 || cnt < 0 || lo+cnt > 1024 {
		return
	}
	r.emit(tr.E{"op": "bsetrun", "h": h, "lo": lo, "cnt": cnt}, func() (interface{}, bool) {
		refused := 0
		base := int64(b.start()) * 1024
		for m := lo; m < lo+cnt; m++ {
			var err error
			if b.big != nil {
				err = b.big.SetI64(base + int64(m))
			} else {
				err = b.tip.SetU32(uint32(base + int64(m)))
			}
			if err != nil {
				refused++
			}
		}
		return refused, false
	})
}

// longLists: lists of 255 / 256 / 257 (and a few other lengths) blocks, some of them empty, read in
// both directions with n below, at and above the total; a block filled by a run of 1024 Set calls.
func (r *runner) longLists(kind string) {
	k := []int{255, 256, 257, 2, 64, 65, 300}[r.rng.Intn(7)]
	r.reset(k+1, "longlist")
	hs := make([]int, k)
	starts := make([]uint32, k)
	mss := make([][]int, k)
	total := 0
	base := uint32(r.rng.Intn(1 << 20))
	for i := range hs {
		hs[i] = i + 1
		starts[i] = base + uint32(i)
		switch r.rng.Intn(4) {
		case 0:
			mss[i] = []int{} // an empty block inside the list
		case 1:
			mss[i] = []int{r.rng.Intn(1024)}
		default:
			mss[i] = r.randMembers(1 + r.rng.Intn(3))
		}
		total += len(mss[i])
	}
	for i, h := range hs { // built by the harness (struct literals), one small event each
		r.bload(h, kind, starts[i], mss[i])
	}
	for _, dir := range []string{"f", "r"} {
		r.lgetn(kind, hs, dir, []int{total - 1, total, total + 1, 255, 256, 257, 1}[r.rng.Intn(7)])
	}
	r.lgetn(kind, hs[:1+r.rng.Intn(k)], []string{"f", "r"}[r.rng.Intn(2)], total+3)
	// the spare handle: an empty block, filled to the brim by Set calls, in runs around 255/256/257
	r.bnew0(k+1, kind)
	r.lgetn(kind, []int{k + 1, 1, k + 1}, "f", 5) // empty blocks around a non-empty one
	cut := []int{255, 256, 257, 63, 64, 65, 1023}[r.rng.Intn(7)]
	r.bsetrun(k+1, 0, cut)
	r.bgetn(k+1, []string{"f", "r"}[r.rng.Intn(2)], cut+1)
	r.bsetrun(k+1, cut, 1024-cut)
	r.bgetn(k+1, []string{"f", "r"}[r.rng.Intn(2)], 1025)
	r.brev(k+1, k+1) // emptied: the complement of a full block
	r.bgetn(k+1, "f", 3)
	r.lgetn(kind, []int{k + 1, 2, k + 1}, "r", 7)
}

func main() {
	plans := flag.String("plans", "", "directory of TLC-generated plans")
	out := flag.String("out", "codec.ndjson", "traces")
	seed := flag.Int64("seed", 1, "seed")
	nrt := flag.Int("roundtrips", 30, "random round trips besides the boundary counts")
	per := flag.Int("perlen", 2, "byte strings per length 0..130")
	nblk := flag.Int("blocks", 40, "random block scenarios per kind besides the boundary integers")
	nrace := flag.Int("race", 10, "concurrent read rounds")
	cold := flag.Bool("cold", false, "only one concurrent read round, as the first use of the package in this process")
	flag.Parse()
	rng := rand.New(rand.NewSource(*seed))
	w := tr.Create(*out)
	r := &runner{w: w, rng: rng}

	if *cold {
		r.raceRound("cold", 8, 12)
		r.flush()
		w.Close()
		fmt.Printf("events=%d\n", w.N())
		return
	}

	if *plans != "" {
		files, _ := filepath.Glob(filepath.Join(*plans, "*.ndjson"))
		sort.Strings(files)
		for i, f := range files {
			p := readPlan(f)
			if len(p) == 0 || p[0].Op != "init" {
				tr.Fatal("plan %s does not start with init", f)
			}
			r.reset(p[0].Nh, "plan:"+filepath.Base(f))
			r.runPlan(p[1:], i)
		}
	}
	r.repeats("start")
	r.roundTrips(*nrt)
	r.repeats("middle")
	for i := 0; i < 2+*nblk/30; i++ {
		r.longLists([]string{"big", "tip"}[i%2])
	}
	r.arbitraryBytes(*per)
	for _, v := range bigBoundary {
		r.blockScenario("big", v, "big")
	}
	for _, v := range tipBoundary {
		r.blockScenario("tip", v, "tip")
	}
	for i := 0; i < *nblk; i++ {
		r.blockScenario("big", r.randBig(), "big")
		r.blockScenario("tip", r.randTip(), "tip")
	}
	for i := 0; i < *nrace; i++ {
		r.raceRound("race", 8, 12)
	}
	r.repeats("end")
	r.flush()
	w.Close()
	fmt.Printf("events=%d\n", w.N())
}
