// x05: executes Envelope plans and seeded histories against neptune's mpb (tagged protobuf frames)
// and errorx (error chains), recording one ndjson event per call for validation by TLC
// (specs/envelope/Envelope_Trace.tla).
//
// The harness never consults neptune to decide what to do next: plans come from TLC or from the seeded
// generator below, and the only bookkeeping it keeps is its own (which frames it received, which base
// error it put into which slot).  Facts about protobuf payloads ("these bytes decode as type t to ...")
// are produced with protobuf-go directly, never through mpb.
package main

import (
	"bufio"
	"encoding/binary"
	"encoding/json"
	"flag"
	"fmt"
	"math/rand"
	"os"
	"path/filepath"
	"regexp"
	"sort"
	"strconv"
	"strings"

	"github.com/pinealctx/neptune/errorx"
	"github.com/pinealctx/neptune/mpb"
	spb "google.golang.org/genproto/googleapis/rpc/status"
	"google.golang.org/grpc/codes"
	"google.golang.org/grpc/status"
	"google.golang.org/protobuf/proto"
	"google.golang.org/protobuf/types/known/emptypb"
	"google.golang.org/protobuf/types/known/wrapperspb"

	"verif/harness/internal/tr"
)

const (
	tySTATUS = 100
	tyEMPTY  = 101
	tyNOFP   = 102
	nTypes   = 6
)

// ---------------------------------------------------------------- message type universe
// Six Go message types, each a generated message with a Fingerprint() method bolted on.  The fingerprint
// is a field, so one run can give a type any tag (the configuration of a trace assigns them).
type K1 struct {
	*wrapperspb.StringValue
	fp uint32
}
type K2 struct {
	*wrapperspb.Int64Value
	fp uint32
}
type K3 struct {
	*wrapperspb.BytesValue
	fp uint32
}
type K4 struct {
	*spb.Status
	fp uint32
}
type K5 struct {
	*emptypb.Empty
	fp uint32
}
type K6 struct {
	*wrapperspb.BoolValue
	fp uint32
}

func (k *K1) Fingerprint() uint32 { return k.fp }
func (k *K2) Fingerprint() uint32 { return k.fp }
func (k *K3) Fingerprint() uint32 { return k.fp }
func (k *K4) Fingerprint() uint32 { return k.fp }
func (k *K5) Fingerprint() uint32 { return k.fp }
func (k *K6) Fingerprint() uint32 { return k.fp }

func newInner(t int) proto.Message {
	switch t {
	case 1:
		return &wrapperspb.StringValue{}
	case 2:
		return &wrapperspb.Int64Value{}
	case 3:
		return &wrapperspb.BytesValue{}
	case 4:
		return &spb.Status{}
	case 5:
		return &emptypb.Empty{}
	case 6:
		return &wrapperspb.BoolValue{}
	}
	tr.Fatal("no type %d", t)
	return nil
}

func wrap(t int, in proto.Message, fp uint32) proto.Message {
	switch t {
	case 1:
		return &K1{in.(*wrapperspb.StringValue), fp}
	case 2:
		return &K2{in.(*wrapperspb.Int64Value), fp}
	case 3:
		return &K3{in.(*wrapperspb.BytesValue), fp}
	case 4:
		return &K4{in.(*spb.Status), fp}
	case 5:
		return &K5{in.(*emptypb.Empty), fp}
	case 6:
		return &K6{in.(*wrapperspb.BoolValue), fp}
	}
	tr.Fatal("no type %d", t)
	return nil
}

// classify says which type of the universe a returned message has, and what it contains.
func classify(m proto.Message) (int, []int) {
	switch v := m.(type) {
	case *K1:
		return 1, view(v.StringValue)
	case *K2:
		return 2, view(v.Int64Value)
	case *K3:
		return 3, view(v.BytesValue)
	case *K4:
		return 4, view(v.Status)
	case *K5:
		return 5, view(v.Empty)
	case *K6:
		return 6, view(v.BoolValue)
	case *spb.Status:
		return tySTATUS, view(v)
	case *emptypb.Empty:
		return tyEMPTY, view(v)
	}
	return -1, []int{}
}

// view is the content of a message as canonical bytes (deterministic protobuf-go encoding).
func view(m proto.Message) []int {
	b, err := proto.MarshalOptions{Deterministic: true}.Marshal(m)
	if err != nil {
		tr.Fatal("protobuf-go cannot encode a harness message: %v", err)
	}
	return tr.Ints(b)
}

// content k of type t (k = 0: the zero message); rng != nil: random content
func content(t, k int, rng *rand.Rand) proto.Message {
	in := newInner(t)
	if k == 0 && rng == nil {
		return in
	}
	switch v := in.(type) {
	case *wrapperspb.StringValue:
		if rng != nil {
			v.Value = string(randMsg(rng, 40))
		} else {
			v.Value = []string{"", "a", "bcd"}[k]
		}
	case *wrapperspb.Int64Value:
		if rng != nil {
			v.Value = []int64{0, 1, -1, 127, 128, 300, 1 << 40, -1 << 63, 1<<63 - 1}[rng.Intn(9)]
		} else {
			v.Value = []int64{0, 7, -300}[k]
		}
	case *wrapperspb.BytesValue:
		if rng != nil {
			v.Value = make([]byte, rng.Intn(200))
			rng.Read(v.Value)
		} else {
			v.Value = [][]byte{nil, {0}, {1, 0, 0, 0, 255}}[k]
		}
	case *spb.Status:
		if rng != nil {
			v.Code = int32(rng.Intn(17))
			v.Message = string(randMsg(rng, 12))
		} else {
			v.Code = int32(k)
			v.Message = "s"
		}
	case *emptypb.Empty:
	case *wrapperspb.BoolValue:
		v.Value = true
	}
	return in
}

func decodeAs(t int, pl []byte) tr.E {
	in := newInner(t)
	if err := proto.Unmarshal(pl, in); err != nil {
		return tr.E{"ok": false, "v": []int{}}
	}
	return tr.E{"ok": true, "v": view(in)}
}

func pdOf(pl []byte, nt int) []tr.E {
	r := make([]tr.E, 0, nt)
	for t := 1; t <= nt; t++ {
		r = append(r, decodeAs(t, pl))
	}
	return r
}

func sdOf(pl []byte) tr.E {
	st := &spb.Status{}
	if err := proto.Unmarshal(pl, st); err != nil {
		return tr.E{"ok": false, "code": 0, "m": []int{}, "v": []int{}}
	}
	return tr.E{"ok": true, "code": int(st.Code), "m": tr.Str(st.Message), "v": view(st)}
}

func digits(fp uint32) []int { // most significant first; the specification knows the wire order
	return []int{int(fp >> 24), int(fp >> 16 & 255), int(fp >> 8 & 255), int(fp & 255)}
}

func undigits(d []int) uint32 {
	if len(d) != 4 {
		tr.Fatal("fingerprint %v", d)
	}
	return uint32(d[0])<<24 | uint32(d[1])<<16 | uint32(d[2])<<8 | uint32(d[3])
}

// ---------------------------------------------------------------- error universe
type tagErr struct {
	tag  int
	text string
}

func (e *tagErr) Error() string { return e.text }

type grpcStatuser interface{ GRPCStatus() *status.Status }

// Every stack-attaching call of errorx is made from one of these four functions, so that the first frame
// of the recorded stack says where the stack was attached.
const (
	kNewS = iota
	kNewfS
	kWrapS
	kWrapfS
	kWithS
)

func split(msg string) (string, string) { h := len(msg) / 2; return msg[:h], msg[h:] }

//go:noinline
func site1(k int, err error, msg string) error {
	a, b := split(msg)
	switch k {
	case kNewS:
		return errorx.NewWithStack(msg)
	case kNewfS:
		return errorx.NewfWithStack("%s%s", a, b)
	case kWrapS:
		return errorx.WrapWithStack(err, msg)
	case kWrapfS:
		return errorx.WrapfWithStack(err, "%s%s", a, b)
	case kWithS:
		return errorx.WithStack(err)
	}
	tr.Fatal("attach kind %d", k)
	return nil
}

//go:noinline
func site2(k int, err error, msg string) error {
	a, b := split(msg)
	switch k {
	case kNewS:
		return errorx.NewWithStack(msg)
	case kNewfS:
		return errorx.NewfWithStack("%s%s", a, b)
	case kWrapS:
		return errorx.WrapWithStack(err, msg)
	case kWrapfS:
		return errorx.WrapfWithStack(err, "%s%s", a, b)
	case kWithS:
		return errorx.WithStack(err)
	}
	tr.Fatal("attach kind %d", k)
	return nil
}

//go:noinline
func site3(k int, err error, msg string) error {
	a, b := split(msg)
	switch k {
	case kNewS:
		return errorx.NewWithStack(msg)
	case kNewfS:
		return errorx.NewfWithStack("%s%s", a, b)
	case kWrapS:
		return errorx.WrapWithStack(err, msg)
	case kWrapfS:
		return errorx.WrapfWithStack(err, "%s%s", a, b)
	case kWithS:
		return errorx.WithStack(err)
	}
	tr.Fatal("attach kind %d", k)
	return nil
}

//go:noinline
func site4(k int, err error, msg string) error {
	a, b := split(msg)
	switch k {
	case kNewS:
		return errorx.NewWithStack(msg)
	case kNewfS:
		return errorx.NewfWithStack("%s%s", a, b)
	case kWrapS:
		return errorx.WrapWithStack(err, msg)
	case kWrapfS:
		return errorx.WrapfWithStack(err, "%s%s", a, b)
	case kWithS:
		return errorx.WithStack(err)
	}
	tr.Fatal("attach kind %d", k)
	return nil
}

var sites = []func(int, error, string) error{nil, site1, site2, site3, site4}

var reSite = regexp.MustCompile(`^\[[^\]]*\]:site(\d+)( < |$)`)

// siteOfFull: the site named by the first frame of GetFullStack ("main.site3\n\t/path/main.go:123")
func siteOfFull(full string) int {
	first := strings.SplitN(full, "\n", 2)[0]
	if strings.HasPrefix(first, "main.site") {
		if n, err := strconv.Atoi(first[len("main.site"):]); err == nil {
			return n
		}
	}
	return 0
}

// ---------------------------------------------------------------- actions and the world they run in
type act struct {
	Op   string  `json:"op"`
	P    int     `json:"p"`
	Ty   int     `json:"ty"`
	Gk   string  `json:"gk"`
	V    []int   `json:"v"`
	Api  string  `json:"api"`
	Tag  []int   `json:"tag"`
	Pl   []int   `json:"pl"`
	S    int     `json:"s"`
	D    int     `json:"d"`
	Kind string  `json:"kind"`
	M    []int   `json:"m"`
	Sm   []int   `json:"sm"`
	Code int     `json:"code"`
	Site int     `json:"site"`
	Hm   bool    `json:"hm"`
	He   bool    `json:"he"`
	Hs   bool    `json:"hs"`
	Np   int     `json:"np"`
	Ns   int     `json:"ns"`
	Fps  [][]int `json:"fps"`
	F    int     `json:"f"`

	model bool          // V / Pl are the abstract values of the bounded model (TLC plan)
	cont  proto.Message // concrete content for mar (seeded generator)
	raw   []byte        // concrete input for unm (seeded generator)
	fvar  bool          // use the formatting variant of the errorx call
}

type world struct {
	w              *tr.W
	nt, np, ns     int
	fps            []uint32 // 1-based
	packers        []*mpb.MsgPacker
	global         bool // packer 1 is the package-level default packer
	slots, bases   []error
	frames, copies [][]byte
	origin         []string
	scribbled      []bool
	emptyScrib     bool
	nev            int
}

func bytesOf(xs []int) []byte {
	b := make([]byte, len(xs))
	for i, x := range xs {
		b[i] = byte(x)
	}
	return b
}

func newWorld(w *tr.W, src string, np, ns int, fps []uint32, global bool) *world {
	x := &world{w: w, nt: len(fps), np: np, ns: ns, fps: append([]uint32{0}, fps...), global: global}
	x.packers = make([]*mpb.MsgPacker, np+1)
	for p := 1; p <= np; p++ {
		if !(global && p == 1) {
			x.packers[p] = mpb.NewMsgPacker()
		}
	}
	x.slots = make([]error, ns+1)
	x.bases = make([]error, ns+1)
	ds := make([][]int, 0, len(fps))
	for _, f := range fps {
		ds = append(ds, digits(f))
	}
	w.Emit(tr.E{"ev": "reset", "src": src, "np": np, "ns": ns, "fps": ds, "global": global})
	return x
}

func (x *world) keep(b []byte, origin string) {
	x.frames = append(x.frames, b)
	x.copies = append(x.copies, append([]byte{}, b...))
	x.origin = append(x.origin, origin)
	x.scribbled = append(x.scribbled, false)
}

// finish: the frames the harness did not touch must still hold what they were returned with
func (x *world) finish() {
	ok := true
	for i, f := range x.frames {
		if !x.scribbled[i] && string(f) != string(x.copies[i]) {
			ok = false
		}
	}
	x.w.Emit(tr.E{"ev": "stable", "ok": ok, "frames": len(x.frames), "as": x.emptyScrib})
	for i, f := range x.frames { // hygiene: give scribbled buffers their bytes back
		if x.scribbled[i] {
			for j := range f {
				f[j] ^= 0xA5
			}
		}
	}
}

func splitFrame(b []byte) ([]int, []int) {
	if len(b) < 4 {
		return tr.Ints(b), []int{}
	}
	return tr.Ints(b[:4]), tr.Ints(b[4:])
}

func guard(f func()) (pan bool) {
	defer func() {
		if r := recover(); r != nil {
			pan = true
		}
	}()
	f()
	return false
}

func code32(c codes.Code) int { return int(int32(uint32(c))) }

func (x *world) register(p int, fn func() proto.Message) {
	if x.packers[p] == nil {
		mpb.RegisterGenerator(fn)
	} else {
		x.packers[p].RegisterGenerator(fn)
	}
}

func (x *world) marshal(p int, m proto.Message) ([]byte, error) {
	if x.packers[p] == nil {
		return mpb.MarshalMsg(m)
	}
	return x.packers[p].MarshalMsg(m)
}

// concrete payload for an abstract one of the bounded model
func (x *world) concretePl(pl []int) []byte {
	switch {
	case len(pl) == 0:
		return []byte{}
	case len(pl) == 1 && pl[0] == 99:
		return []byte{0xFF}
	case len(pl) == 2 && pl[0] == 50:
		b, _ := proto.Marshal(&spb.Status{Code: int32(pl[1]), Message: "m"})
		return b
	case len(pl) == 2 && pl[0] > 10 && pl[0] <= 10+x.nt:
		b, _ := proto.Marshal(content(pl[0]-10, pl[1], nil))
		return b
	}
	tr.Fatal("plan payload %v", pl)
	return nil
}

func (x *world) do(a act) {
	x.nev++
	switch a.Op {
	case "reg":
		ty, fp := a.Ty, x.fps[a.Ty]
		var fn func() proto.Message
		switch a.Gk {
		case "good":
			fn = func() proto.Message { return wrap(ty, newInner(ty), fp) }
		case "nil":
			fn = func() proto.Message { return nil }
		case "nilptr":
			fn = func() proto.Message { return (*K1)(nil) }
		case "nofp":
			fn = func() proto.Message { return &wrapperspb.StringValue{} }
		default:
			tr.Fatal("generator kind %q", a.Gk)
		}
		r := "ok"
		if guard(func() { x.register(a.P, fn) }) {
			r = "panic"
		}
		x.w.Emit(tr.E{"ev": "call", "a": tr.E{"op": "reg", "p": a.P, "ty": a.Ty, "gk": a.Gk,
			"rsv": a.Gk == "good" && fp <= 1}, "r": r})
	case "mar":
		var msg, in proto.Message
		v := []int{}
		switch {
		case a.Ty == tyEMPTY:
			msg = &emptypb.Empty{}
		case a.Ty == tyNOFP:
			msg = &wrapperspb.StringValue{Value: "x"}
		default:
			in = a.cont
			if in == nil {
				k := 0
				if len(a.V) > 0 {
					k = a.V[0]
				}
				in = content(a.Ty, k, nil)
			}
			v = view(in)
			msg = wrap(a.Ty, in, x.fps[a.Ty])
		}
		var b []byte
		var err error
		pan := guard(func() { b, err = x.marshal(a.P, msg) })
		tag, pl := splitFrame(b)
		r := tr.E{"pan": pan, "ok": !pan && err == nil, "tag": tag, "pl": pl, "pd": pdOf(bytesOf(pl), x.nt)}
		if !pan && err == nil {
			o := "msg"
			if a.Ty == tyEMPTY {
				o = "empty"
			}
			x.keep(b, o)
		}
		x.w.Emit(tr.E{"ev": "call", "a": tr.E{"op": "mar", "p": a.P, "ty": a.Ty, "v": v, "as": x.emptyScrib}, "r": r})
	case "mempty":
		var b []byte
		pan := guard(func() { b = mpb.MarshalEmpty() })
		tag, pl := splitFrame(b)
		if !pan {
			x.keep(b, "empty")
		}
		x.w.Emit(tr.E{"ev": "call", "a": tr.E{"op": "mempty", "as": x.emptyScrib},
			"r": tr.E{"pan": pan, "ok": !pan, "tag": tag, "pl": pl}})
	case "merr":
		var b []byte
		var err error
		pan := guard(func() { b, err = mpb.MarshalError(x.slots[a.S]) })
		tag, pl := splitFrame(b)
		if !pan && err == nil {
			x.keep(b, "err")
		}
		x.w.Emit(tr.E{"ev": "call", "a": tr.E{"op": "merr", "s": a.S},
			"r": tr.E{"pan": pan, "ok": !pan && err == nil, "tag": tag, "pl": pl, "sd": sdOf(bytesOf(pl))}})
	case "unm":
		b := a.raw
		if a.model {
			b = append(bytesOf(a.Tag), x.concretePl(a.Pl)...)
		}
		x.unmarshal(a, b)
	case "tor", "toe":
		var m proto.Message
		var me, se error
		if a.Hm {
			m = &emptypb.Empty{}
		}
		if a.He {
			me = status.Error(codes.NotFound, "e")
		}
		if a.Hs {
			se = errorx.New("s")
		}
		r := "nil"
		if a.Op == "tor" {
			gm, ge := mpb.ToResponse(m, me, se)
			switch {
			case gm != nil && ge != nil:
				r = "multi"
			case ge != nil && ge == se:
				r = "sys"
			case ge != nil && ge == me:
				r = "err"
			case ge != nil:
				r = "other"
			case gm != nil:
				r = "msg"
			}
			x.w.Emit(tr.E{"ev": "call", "a": tr.E{"op": "tor", "hm": a.Hm, "he": a.He, "hs": a.Hs}, "r": r})
		} else {
			ge := mpb.ToErr(me, se)
			switch {
			case ge != nil && ge == se:
				r = "sys"
			case ge != nil && ge == me:
				r = "err"
			case ge != nil:
				r = "other"
			}
			x.w.Emit(tr.E{"ev": "call", "a": tr.E{"op": "toe", "he": a.He, "hs": a.Hs}, "r": r})
		}
	case "scrib":
		f := x.frames[a.F]
		for j := range f {
			f[j] ^= 0xA5
		}
		x.scribbled[a.F] = !x.scribbled[a.F]
		if x.origin[a.F] == "empty" {
			x.emptyScrib = true
		}
		x.w.Emit(tr.E{"ev": "call", "a": tr.E{"op": "scrib", "f": a.F, "origin": x.origin[a.F]}, "r": 0})
	case "enew", "ewrap":
		x.errop(a)
	default:
		tr.Fatal("unknown op %q", a.Op)
	}
}

func (x *world) unmarshal(a act, b []byte) {
	k, ty, v, code, m := "nil", -1, []int{}, 0, []int{}
	setMsg := func(g proto.Message) { k = "msg"; ty, v = classify(g) }
	setErr := func(e error) {
		c := status.Convert(e)
		k, code, m = "err", code32(c.Code()), tr.Str(c.Message())
	}
	count := func(xs ...bool) int {
		n := 0
		for _, y := range xs {
			if y {
				n++
			}
		}
		return n
	}
	pk := x.packers[a.P]
	pan := guard(func() {
		switch a.Api {
		case "msg":
			var g proto.Message
			var e error
			if pk == nil {
				g, e = mpb.UnmarshalMsg(b)
			} else {
				g, e = pk.UnmarshalMsg(b)
			}
			switch {
			case count(g != nil, e != nil) > 1:
				k = "multi"
			case e != nil:
				k = "sys"
			case g != nil:
				setMsg(g)
			}
		case "resp":
			var g proto.Message
			var me, se error
			if pk == nil {
				g, me, se = mpb.UnmarshalResponse(b)
			} else {
				g, me, se = pk.UnmarshalResponse(b)
			}
			switch {
			case count(g != nil, me != nil, se != nil) > 1:
				k = "multi"
			case se != nil:
				k = "sys"
			case me != nil:
				setErr(me)
			case g != nil:
				setMsg(g)
			}
		case "rpc":
			var g proto.Message
			var e error
			if pk == nil {
				g, e = mpb.UnmarshalRPC(b)
			} else {
				g, e = pk.UnmarshalRPC(b)
			}
			switch {
			case count(g != nil, e != nil) > 1:
				k = "multi"
			case e != nil:
				if _, ok := e.(grpcStatuser); ok {
					setErr(e)
				} else {
					k = "sys"
				}
			case g != nil:
				setMsg(g)
			}
		case "eresp":
			me, se := mpb.UnmarshalEmptyResponse(b)
			switch {
			case me != nil && se != nil:
				k = "multi"
			case se != nil:
				k = "sys"
			case me != nil:
				setErr(me)
			}
		case "erpc":
			e := mpb.UnmarshalEmptyRPC(b)
			if e != nil {
				if _, ok := e.(grpcStatuser); ok {
					setErr(e)
				} else {
					k = "sys"
				}
			}
		default:
			tr.Fatal("api %q", a.Api)
		}
	})
	tag, pl := splitFrame(b)
	cls := "other"
	if len(b) >= 4 && binary.LittleEndian.Uint32(b) <= 1 {
		cls = "rsv"
	}
	x.w.Emit(tr.E{"ev": "call",
		"a": tr.E{"op": "unm", "p": a.P, "api": a.Api, "tag": tag, "pl": pl,
			"pd": pdOf(bytesOf(pl), x.nt), "sd": sdOf(bytesOf(pl)), "tagcls": cls},
		"r": tr.E{"pan": pan, "k": k, "ty": ty, "v": v, "code": code, "m": m}})
}

// ---------------------------------------------------------------- errorx
func (x *world) errop(a act) {
	msg := string(bytesOf(a.M))
	h1, h2 := split(msg)
	var res, src, base error
	rec := tr.E{"op": a.Op, "d": a.D, "kind": a.Kind, "m": tr.Ints(bytesOf(a.M)), "site": a.Site, "f": a.fvar}
	pan := guard(func() {
		if a.Op == "enew" {
			switch a.Kind {
			case "nil":
			case "plain":
				if a.fvar {
					res = errorx.Newf("%s%s", h1, h2)
				} else {
					res = errorx.New(msg)
				}
			case "fund":
				if a.fvar {
					res = sites[a.Site](kNewfS, nil, msg)
				} else {
					res = sites[a.Site](kNewS, nil, msg)
				}
			case "status":
				res = status.Error(codes.Code(a.Code), string(bytesOf(a.Sm)))
				rec["m"] = tr.Str(res.Error()) // the text grpc gives it
			case "typed":
				res = &tagErr{a.Code, msg}
			default:
				tr.Fatal("enew kind %q", a.Kind)
			}
			base = res
			rec["sm"] = tr.Ints(bytesOf(a.Sm))
			rec["code"] = a.Code
			return
		}
		src, base = x.slots[a.S], x.bases[a.S]
		rec["s"] = a.S
		switch a.Kind {
		case "msg":
			if a.fvar {
				res = errorx.Wrapf(src, "%s%s", h1, h2)
			} else {
				res = errorx.Wrap(src, msg)
			}
		case "msgstk":
			if a.fvar {
				res = sites[a.Site](kWrapfS, src, msg)
			} else {
				res = sites[a.Site](kWrapS, src, msg)
			}
		case "stk":
			res = sites[a.Site](kWithS, src, "")
		default:
			tr.Fatal("ewrap kind %q", a.Kind)
		}
	})
	if pan { // recorded as an observation the specification cannot explain
		x.slots[a.D], x.bases[a.D] = nil, nil
		o := x.observe(nil, nil, nil, false)
		o["fbad"] = true
		x.w.Emit(tr.E{"ev": "ecall", "a": rec, "obs": o})
		return
	}
	if res == nil {
		base = nil
	}
	x.slots[a.D], x.bases[a.D] = res, base
	x.w.Emit(tr.E{"ev": "ecall", "a": rec, "obs": x.observe(res, src, base, a.Op == "ewrap")})
}

var verbs = []string{"%s", "%v", "%+v", "%q", "%d", "%x", "%#v", "%+s", "%+q", "%10.3v", "%T"}

func (x *world) observe(e, src, base error, wrapped bool) (o tr.E) {
	isrow := make([]bool, 0, x.ns)
	o = tr.E{"nil": e == nil, "str": []int{}, "chain": [][]int{}, "cause": []int{}, "cb": true, "hs": false,
		"site": 0, "pvsite": 0, "stsite": 0, "pv": []tr.E{}, "asc": -1, "asty": -1, "fs": []int{}, "fv": []int{},
		"fbad": false, "same": wrapped && e == src}
	defer func() {
		if r := recover(); r != nil { // a panic while looking at the value: the spec cannot explain it
			o["fbad"] = true
			o["is"] = []bool{}
		}
	}()
	for j := 1; j <= x.ns; j++ {
		isrow = append(isrow, errorx.Is(e, x.slots[j]))
	}
	o["is"] = isrow
	if e == nil {
		return o
	}
	o["str"] = tr.Str(e.Error())
	chain := [][]int{}
	for c, n := e, 0; c != nil && n < 1000; c, n = errorx.Unwrap(c), n+1 {
		chain = append(chain, tr.Str(c.Error()))
	}
	o["chain"] = chain
	if c := errorx.Cause(e); c != nil {
		o["cause"] = tr.Str(c.Error())
		o["cb"] = c == base
	} else {
		o["cb"] = false
	}
	full := errorx.GetFullStack(e)
	o["hs"] = full != ""
	o["site"] = siteOfFull(full)
	// the exported StackTrace of the first stack-carrying error of the chain: its first frame, printed with
	// %n, names the attaching function; no verb of Frame / StackTrace panics
	for c, n := e, 0; c != nil && n < 1000; c, n = errorx.Unwrap(c), n+1 {
		if st, ok := c.(interface{ StackTrace() errorx.StackTrace }); ok {
			if fr := st.StackTrace(); len(fr) > 0 {
				name := fmt.Sprintf("%n", fr[0])
				if strings.HasPrefix(name, "site") {
					o["stsite"], _ = strconv.Atoi(name[len("site"):])
				}
				txt, _ := fr[0].MarshalText()
				if strings.Contains(fmt.Sprintf("%v|%+v|%s|%#v|%d|%+s", fr, fr, fr, fr, fr[0], fr[0]), "PANIC=") ||
					!strings.HasPrefix(string(txt), "main.site") {
					o["stsite"] = -1
				}
			}
			break
		}
	}
	var gs grpcStatuser
	if errorx.As(e, &gs) {
		o["asc"] = code32(gs.GRPCStatus().Code())
	}
	var te *tagErr
	if errorx.As(e, &te) {
		o["asty"] = te.tag
	}
	bad := false
	for _, vb := range verbs {
		if strings.Contains(fmt.Sprintf(vb, e), "PANIC=") {
			bad = true
		}
	}
	o["fbad"] = bad
	o["fs"] = tr.Str(fmt.Sprintf("%s", e))
	o["fv"] = tr.Str(fmt.Sprintf("%v", e))
	// "%+v": one line per message, the stack (",stack: f1 < f2 < ...") right behind a message
	pv := []tr.E{}
	pvsite := 0
	for _, line := range strings.Split(fmt.Sprintf("%+v", e), "\n") {
		n := strings.Count(line, ",stack: ")
		if i := strings.Index(line, ",stack: "); i >= 0 {
			if m := reSite.FindStringSubmatch(firstFrame(line[i+len(",stack: "):])); m != nil && pvsite == 0 {
				pvsite, _ = strconv.Atoi(m[1])
			}
			line = line[:i]
		}
		pv = append(pv, tr.E{"m": tr.Str(line), "st": n})
	}
	o["pv"] = pv
	o["pvsite"] = pvsite
	return o
}

func firstFrame(s string) string {
	if i := strings.Index(s, " < "); i >= 0 {
		return s[:i]
	}
	return s
}

// ---------------------------------------------------------------- plans and seeded histories
func readPlan(path string) []act {
	f, err := os.Open(path)
	if err != nil {
		tr.Fatal("%v", err)
	}
	defer f.Close()
	var out []act
	sc := bufio.NewScanner(f)
	sc.Buffer(make([]byte, 1<<20), 1<<20)
	for sc.Scan() {
		var a act
		if err := json.Unmarshal(sc.Bytes(), &a); err != nil {
			tr.Fatal("plan %s: %v", path, err)
		}
		a.model = true
		out = append(out, a)
	}
	return out
}

func runPlan(w *tr.W, name string, p []act, rng *rand.Rand) {
	if len(p) == 0 || p[0].Op != "init" {
		tr.Fatal("plan %s does not start with init", name)
	}
	fps := make([]uint32, 0, len(p[0].Fps))
	for _, d := range p[0].Fps {
		fps = append(fps, undigits(d))
	}
	x := newWorld(w, "plan", p[0].Np, p[0].Ns, fps, false)
	for _, a := range p[1:] {
		a.fvar = rng.Intn(2) == 0
		x.do(a)
	}
	x.finish()
}

var alphabet = []string{"a", "b", "c", "x", "y", "Z", " ", ":", ": ", "%", "%s", "=", "é", "世", "0", "-", "(", "\t", "\""}

func randMsg(rng *rand.Rand, max int) []byte {
	n := rng.Intn(max + 1)
	if rng.Intn(6) == 0 {
		n = 0
	}
	var b []byte
	for len(b) < n {
		b = append(b, alphabet[rng.Intn(len(alphabet))]...)
	}
	return b
}

var fpPool = []uint32{2, 3, 255, 256, 257, 0x100, 0x10000, 0x1000000, 0x1000001, 0x10001, 0x7fffffff,
	0x80000000, 0xfffffffe, 0xffffffff, 0x01020304, 0x04030201, 0xdeadbeef, 0x00ff00ff, 0x02000000, 0x00000200}

func randFps(rng *rand.Rand, nt int) []uint32 {
	fps := make([]uint32, nt)
	for i := range fps {
		if rng.Intn(3) == 0 {
			fps[i] = rng.Uint32()
			if fps[i] <= 1 {
				fps[i] = 2
			}
		} else {
			fps[i] = fpPool[rng.Intn(len(fpPool))]
		}
	}
	if rng.Intn(4) == 0 { // two types with one fingerprint
		fps[rng.Intn(nt)] = fps[rng.Intn(nt)]
	}
	return fps
}

func le(fp uint32) []byte { var h [4]byte; binary.LittleEndian.PutUint32(h[:], fp); return h[:] }

// an input for the Unmarshal family: a frame received earlier (as is, cut, re-tagged, extended) or one put
// together from a tag and a payload that may or may not belong to it
func (x *world) randInput(rng *rand.Rand) []byte {
	tagOf := func() []byte {
		switch rng.Intn(8) {
		case 0:
			return le(0)
		case 1:
			return le(1)
		case 2:
			return le(rng.Uint32())
		}
		return le(x.fps[1+rng.Intn(x.nt)])
	}
	if len(x.frames) > 0 && rng.Intn(2) == 0 {
		i := rng.Intn(len(x.frames))
		b := append([]byte{}, x.copies[i]...)
		switch rng.Intn(10) {
		case 0, 1:
			b = b[:rng.Intn(len(b)+1)]
		case 2, 3:
			if len(b) >= 4 {
				copy(b, tagOf())
			}
		case 4:
			for n := 1 + rng.Intn(3); n > 0; n-- {
				b = append(b, byte(rng.Intn(256)))
			}
		}
		return b
	}
	var pl []byte
	switch rng.Intn(6) {
	case 0:
	case 1:
		pl = make([]byte, 1+rng.Intn(12))
		rng.Read(pl)
	case 2:
		pl, _ = proto.Marshal(&spb.Status{Code: int32(rng.Intn(18) - 1), Message: string(randMsg(rng, 10))})
	default:
		pl, _ = proto.Marshal(content(1+rng.Intn(x.nt), 0, rng))
	}
	b := append(tagOf(), pl...)
	if rng.Intn(12) == 0 {
		b = b[:rng.Intn(4)]
	}
	return b
}

var apis = []string{"msg", "resp", "rpc", "eresp", "erpc", "msg", "resp", "rpc"}

func randTrace(w *tr.W, rng *rand.Rand, src string, global bool, nops int) {
	nt := nTypes
	np, ns := 1+rng.Intn(3), 2+rng.Intn(4)
	if global {
		np = 1
	}
	x := newWorld(w, src, np, ns, randFps(rng, nt), global)
	for i := 0; i < nops; i++ {
		a := act{P: 1 + rng.Intn(np), Ty: 1 + rng.Intn(nt), S: 1 + rng.Intn(ns), D: 1 + rng.Intn(ns),
			Site: 1 + rng.Intn(4), fvar: rng.Intn(2) == 0, Sm: []int{}, M: []int{}}
		switch c := rng.Intn(100); {
		case c < 16:
			a.Op, a.Gk = "reg", "good"
		case c < 18:
			a.Op, a.Gk = "reg", []string{"nil", "nilptr", "nofp"}[rng.Intn(3)]
		case c < 36:
			a.Op = "mar"
			if rng.Intn(8) == 0 {
				a.Ty = []int{tyEMPTY, tyNOFP}[rng.Intn(2)]
			} else {
				a.cont = content(a.Ty, 0, rng)
			}
		case c < 38:
			a.Op = "mempty"
		case c < 47:
			a.Op = "merr"
		case c < 72:
			a.Op, a.Api, a.raw = "unm", apis[rng.Intn(len(apis))], x.randInput(rng)
		case c < 74:
			a.Op, a.Hm, a.He, a.Hs = []string{"tor", "toe"}[rng.Intn(2)], rng.Intn(2) == 0, rng.Intn(2) == 0, rng.Intn(2) == 0
		case c < 76: // write into a frame the harness owns (never an Empty frame here, see the alias traces)
			var own []int
			for f, o := range x.origin {
				if o != "empty" && !x.scribbled[f] {
					own = append(own, f)
				}
			}
			if len(own) == 0 {
				continue
			}
			a.Op, a.F = "scrib", own[rng.Intn(len(own))]
		case c < 86:
			a.Op, a.M = "enew", tr.Ints(randMsg(rng, 8))
			switch k := rng.Intn(10); {
			case k < 1:
				a.Kind = "nil"
				a.M = []int{}
			case k < 4:
				a.Kind = "plain"
			case k < 6:
				a.Kind = "fund"
			case k < 9:
				a.Kind, a.Code, a.Sm = "status", 1+rng.Intn(16), tr.Ints(randMsg(rng, 8))
			default:
				a.Kind, a.Code = "typed", rng.Intn(1000)
			}
		default:
			a.Op, a.M = "ewrap", tr.Ints(randMsg(rng, 6))
			a.Kind = []string{"msg", "msg", "msgstk", "stk"}[rng.Intn(4)]
			if a.Kind == "stk" {
				a.M = []int{}
			}
		}
		x.do(a)
	}
	x.finish()
}

// Dedicated traces for two input classes that are kept apart from everything else, because one trace of
// such a class ends at its first inexplicable event:
//
//	reserved: a message type whose fingerprint is 0 (ErrMark) or 1 (EmptyMark) is registered
//	alias:    the caller writes into an Empty frame it was given, then asks for another Empty frame
func reservedTraces(w *tr.W) {
	for _, fp := range []uint32{0, 1} {
		for _, np := range []int{1, 2} {
			x := newWorld(w, "reserved", np, 1, []uint32{fp, 0x10203}, false)
			x.do(act{Op: "reg", P: np, Ty: 2, Gk: "good"})
			x.do(act{Op: "mar", P: np, Ty: 2, cont: content(2, 1, nil)})
			x.do(act{Op: "reg", P: np, Ty: 1, Gk: "good"})
			c := content(1, 1, nil)
			x.do(act{Op: "mar", P: np, Ty: 1, cont: c})
			b, _ := proto.Marshal(c)
			x.do(act{Op: "unm", P: np, Api: "msg", raw: append(le(fp), b...)})
			x.finish()
		}
	}
}

func aliasTraces(w *tr.W) {
	fps := []uint32{7, 8}
	x := newWorld(w, "alias", 1, 1, fps, false)
	x.do(act{Op: "mempty"})
	x.do(act{Op: "scrib", F: 0})
	x.do(act{Op: "mempty"})
	x.finish()
	x = newWorld(w, "alias", 1, 1, fps, false)
	x.do(act{Op: "mar", P: 1, Ty: tyEMPTY})
	x.do(act{Op: "scrib", F: 0})
	x.do(act{Op: "unm", P: 1, Api: "resp", raw: le(1)})
	x.do(act{Op: "mar", P: 1, Ty: tyEMPTY})
	x.finish()
	x = newWorld(w, "alias", 1, 1, fps, false)
	x.do(act{Op: "mempty"})
	x.do(act{Op: "mar", P: 1, Ty: tyEMPTY})
	x.do(act{Op: "scrib", F: 1})
	x.finish()
}

func main() {
	plans := flag.String("plans", "", "directory of TLC-generated plans")
	out := flag.String("out", "", "trace file")
	seed := flag.Int64("seed", 1, "seed")
	nrand := flag.Int("rand", 150, "seeded random traces")
	maxops := flag.Int("maxops", 60, "max operations per random trace")
	nglobal := flag.Int("nglobal", 250, "operations on the package-level default packer")
	flag.Parse()
	if *out == "" {
		tr.Fatal("-out required")
	}
	rng := rand.New(rand.NewSource(*seed))
	w := tr.Create(*out)
	// the default packer lives as long as the process: one trace, first
	randTrace(w, rng, "global", true, *nglobal)
	nplans := 0
	if *plans != "" {
		files, _ := filepath.Glob(filepath.Join(*plans, "*.ndjson"))
		sort.Strings(files)
		for _, f := range files {
			runPlan(w, filepath.Base(f), readPlan(f), rng)
			nplans++
		}
	}
	for i := 0; i < *nrand; i++ {
		randTrace(w, rng, "rand", false, 10+rng.Intn(*maxops))
	}
	reservedTraces(w)
	aliasTraces(w)
	w.Close()
	fmt.Printf("plans=%d random=%d events=%d\n", nplans, *nrand, w.N())
}
