// steps2: long runs (lock/unlock cycles, nested read locks) and free-running rounds in which several
// holders leave at one instant.
package main

import (
	"math/rand"
	"runtime"
	"sync"
	"sync/atomic"
	"time"

	"verif/harness/internal/tr"
)

type runReply struct{ ok int }

// runOK: a run is issued only where every lock call of it must return at once, by what the harness
// itself has issued and seen come back: none of its keys is listed by a parked caller or by a writer,
// and a writing run needs its keys to itself.
func (wd *world) runOK(a act) bool {
	if a.P < 1 || a.P > len(wd.ps) || a.N < 1 || len(a.Ks) == 0 || wd.dead {
		return false
	}
	if wd.ps[a.P-1].status != "idle" || (a.Nest && a.M != "r") {
		return false
	}
	if _, chained := wd.chain[a.P]; chained || wd.succOf(a.P) != 0 {
		return false
	}
	for i, q := range wd.ps {
		if i == a.P-1 || q.status == "idle" {
			continue
		}
		for _, k := range q.ks {
			for _, mine := range a.Ks {
				if k == mine && (q.status != "held" || q.m != "r" || a.M != "r") {
					return false
				}
			}
		}
	}
	return true
}

// run: a.N lock/unlock cycles of one call (one event; the locker is left as it was), or a.N nested
// read locks of one call by one goroutine that stay held (readers of a key are counted: the count
// passes the widths it may have been narrowed to) and are given back by the worker's unlock step.
func (wd *world) run(a act, rng *rand.Rand) (act, bool) {
	if !wd.l.multi() {
		a.Ks = a.Ks[:1]
	}
	if !wd.runOK(a) {
		return a, false
	}
	p := wd.ps[a.P-1]
	p.ks, p.m, p.multi, p.status, p.nest = append([]int{}, a.Ks...), a.M, rng.Intn(2) == 0, "parked", 0
	l, ks, m, multi, n, nest := wd.l, p.ks, a.M, p.multi, a.N, a.Nest
	var done int32
	wd.x.Issue(a.P, func() interface{} {
		r := guard(func() {
			for i := 0; i < n; i++ {
				l.lock(ks, m, multi)
				if !nest {
					l.unlock(ks, m, multi)
				}
				atomic.AddInt32(&done, 1)
			}
		})
		if s, bad := r.(string); bad {
			return s
		}
		return runReply{int(atomic.LoadInt32(&done))}
	})
	if err := wd.x.Settle(); err != nil {
		tr.Fatal("%v", err)
	}
	wd.lastRunOK = int(atomic.LoadInt32(&done))
	if r, ok := wd.x.Take(a.P); ok {
		if s, bad := r.(string); bad {
			p.status = s
			wd.dead = true
		} else if nest {
			p.status, p.nest = "held", n
		} else {
			p.status, p.ks = "idle", nil
		}
		return a, true
	}
	wd.dead = true // parked inside the run: the event says so, nothing more is issued here
	return a, true
}

func (wd *world) emitRun(w *tr.W, a act) {
	st := make([]string, len(wd.ps))
	for i, p := range wd.ps {
		st[i] = p.status
	}
	w.Emit(tr.E{"ev": "run", "a": tr.E{"op": "call", "p": a.P, "ks": a.Ks, "m": a.M}, "n": a.N, "ok": wd.lastRunOK,
		"nest": a.Nest, "st": st, "entries": wd.l.entries()})
}

var runNs = []int{255, 256, 257, 65535, 65536, 65537}

// longPlan: runs around counter widths in the situations in which every call returns at once - keys
// nobody uses (the entries are made and freed by every cycle), keys read-held by others (the entries
// stay, the reader counts go up and down), nested read locks that stay - then writers queue behind the
// readers and everything is given back.
func longPlan(rng *rand.Rand) []act {
	n := func() int {
		if rng.Intn(4) == 0 {
			return 2 + rng.Intn(600)
		}
		return runNs[rng.Intn(len(runNs))]
	}
	md := func() string { return []string{"r", "w"}[rng.Intn(2)] }
	plan := []act{
		{Op: "run", P: 1, Ks: []int{1, 2}, M: md(), N: n()},
		{Op: "call", P: 2, Ks: []int{1}, M: "r"},
		{Op: "run", P: 1, Ks: []int{1}, M: "r", N: n()},
		{Op: "run", P: 3, Ks: []int{1, 3}, M: "r", N: n(), Nest: true},
		{Op: "run", P: 1, Ks: []int{2}, M: md(), N: n()},
		{Op: "run", P: 4, Ks: []int{1, 3}, M: "r", N: n()},
	}
	writer := act{Op: "call", P: 1, Ks: []int{1, 2}, M: "w"} // parks behind the readers of 1
	leave := act{Op: "unlock", P: 2}                         // the plain reader leaves, the nested ones stay
	if rng.Intn(2) == 0 {
		plan = append(plan, writer, act{Op: "run", P: 4, Ks: []int{3}, M: "r", N: n()}, leave)
	} else {
		plan = append(plan, leave, act{Op: "run", P: 4, Ks: []int{3}, M: "r", N: n()}, writer)
	}
	return append(plan,
		act{Op: "unlock", P: 3}, // gives back every nested lock: the writer gets in
		act{Op: "run", P: 2, Ks: []int{3}, M: "w", N: n()},
		act{Op: "unlock", P: 1},
		act{Op: "run", P: 3, Ks: []int{1, 2, 3}, M: "w", N: n()})
}

var simStuck int

// runSimU: free-running rounds in which several holders leave at one instant.  k read holders of key 1
// (or one write holder), callers parked behind them (a writer; readers behind it; lists [1 2]); then
// every holder unlocks at the same instant - one barrier - while newcomers arrive.  The entry of the
// key is freed or kept or made again right then.  Everybody must come back, the critical sections must
// exclude each other, nothing may be retained.  At most five participants (the contract's processes).
func runSimU(w *tr.W, rng *rand.Rand, variant string, shards int) {
	l := newLocker(variant, shards)
	var mu sync.Mutex
	evs := make([]tr.E, 0, 32)
	logf := func(e tr.E) {
		mu.Lock()
		evs = append(evs, e)
		mu.Unlock()
	}
	k, hm := 1, "w"
	if rng.Intn(3) != 0 {
		k, hm = 2+rng.Intn(2), "r"
	}
	hmulti := rng.Intn(2) == 0
	for i := 0; i < k; i++ {
		l.lock([]int{1}, hm, hmulti)
		logf(tr.E{"ev": "mon", "kind": "in", "p": i + 1, "ks": []int{1}, "m": hm})
	}
	var wg sync.WaitGroup
	var finished, ready, open int32
	total := 0
	spin := 30 + rng.Intn(3000) // length of the newcomers' critical sections: some outlast the holders' unlocks
	caller := func(id int, ks []int, m string, multi, atBarrier bool) {
		defer wg.Done()
		if atBarrier {
			atomic.AddInt32(&ready, 1)
			for atomic.LoadInt32(&open) == 0 {
			}
		}
		r := guard(func() {
			l.lock(ks, m, multi)
			logf(tr.E{"ev": "mon", "kind": "in", "p": id, "ks": ks, "m": m})
			for j := 0; j < spin; j++ {
				_ = j
			}
			logf(tr.E{"ev": "mon", "kind": "out", "p": id})
			l.unlock(ks, m, multi)
		})
		if s, bad := r.(string); bad {
			logf(tr.E{"ev": "panic", "p": id, "r": s})
		}
		atomic.AddInt32(&finished, 1)
	}
	others := 1 + rng.Intn(5-k)
	atBar := 0
	for j := 0; j < others; j++ {
		ks := []int{1}
		if l.multi() && rng.Intn(3) == 0 {
			ks = []int{1, 2}
		}
		m := []string{"w", "r"}[rng.Intn(2)]
		if j == 0 {
			m = "w"
		}
		late := rng.Intn(3) == 0 // arrives when the holders leave instead of waiting for them
		if late {
			atBar++
		}
		wg.Add(1)
		total++
		go caller(k+1+j, ks, m, rng.Intn(2) == 0 || len(ks) > 1, late)
		if !late {
			for g := 0; g < 40; g++ { // time to get registered and parked (either way is a legitimate round)
				runtime.Gosched()
			}
		}
	}
	for i := 0; i < k; i++ {
		logf(tr.E{"ev": "mon", "kind": "out", "p": i + 1})
	}
	for i := 0; i < k; i++ {
		wg.Add(1)
		total++
		go func() {
			defer wg.Done()
			atomic.AddInt32(&ready, 1)
			for atomic.LoadInt32(&open) == 0 {
			}
			if s, bad := guard(func() { l.unlock([]int{1}, hm, hmulti) }).(string); bad {
				logf(tr.E{"ev": "panic", "r": s})
			}
			atomic.AddInt32(&finished, 1)
		}()
	}
	for atomic.LoadInt32(&ready) < int32(k+atBar) {
		runtime.Gosched()
	}
	atomic.StoreInt32(&open, 1)
	done := make(chan struct{})
	go func() { wg.Wait(); close(done) }()
	stuck := 0
	select {
	case <-done:
	case <-time.After(5 * time.Second):
		stuck = total - int(atomic.LoadInt32(&finished))
		simStuck++
	}
	mu.Lock()
	defer mu.Unlock()
	w.Emit(tr.E{"ev": "reset", "variant": variant, "shards": shards, "src": "sim"})
	for _, e := range evs {
		w.Emit(e)
	}
	w.Emit(tr.E{"ev": "end", "entries": l.entries(), "stuck": stuck})
}
