// c02: executes key-locker schedules step by step on real goroutines (global quiescence after each
// step) and records the status of every worker for validation by TLC (specs/keylock/KeyLockObs.tla).
package main

import (
	"bufio"
	"encoding/json"
	"flag"
	"fmt"
	"math/rand"
	"os"
	"path/filepath"
	"runtime"
	"sort"
	"strings"
	"sync"
	"sync/atomic"
	"time"

	"github.com/pinealctx/neptune/remap"
	"github.com/pinealctx/neptune/syncx/keylock"

	"verif/harness/internal/qx"
	"verif/harness/internal/tr"
)

type act struct {
	Op   string `json:"op"`
	P    int    `json:"p"`
	Ks   []int  `json:"ks"`
	M    string `json:"m"`
	N    int    `json:"n"`    // op "run": repetitions
	Nest bool   `json:"nest"` // op "run": n nested read locks that stay held (else n lock/unlock cycles)
}

// locker hides the nine concrete variants.
type locker interface {
	lock(ks []int, m string, multiAPI bool)
	unlock(ks []int, m string, multiAPI bool)
	entries() int
	multi() bool
}

func skey(k int) string { return fmt.Sprintf("key/%d", k) }

type anyLocker struct {
	l      keylock.Locker
	str    bool
	mix    bool // distinct keys that are the same number in different integer types (and a string)
	unread bool // the entry count could not be read once (see watched): not tried again
	odd    int  // 1..3: keys of unusual dynamic kinds (kinds.go: un-sharded / SimpleIndex / XHashIndex table)
	off    int
}

func (a *anyLocker) key(k int) interface{} {
	if a.odd > 0 {
		return oddKey(a.odd-1, k, a.off)
	}
	if a.mix {
		// interface{} keys are equal only if type and value are equal: these are all different keys
		switch k % 8 {
		case 0:
			return int(7)
		case 1:
			return int64(7)
		case 2:
			return uint32(7)
		case 3:
			return int8(7)
		case 4:
			return uint64(7)
		case 5:
			return "7"
		case 6:
			return int64(-1)
		default:
			return uint64(1<<64 - 1)
		}
	}
	if a.str {
		return skey(k)
	}
	return k
}
func (a *anyLocker) lock(ks []int, m string, _ bool) {
	if m == "w" {
		a.l.Lock(a.key(ks[0]))
	} else {
		a.l.RLock(a.key(ks[0]))
	}
}
func (a *anyLocker) unlock(ks []int, m string, _ bool) {
	if m == "w" {
		a.l.Unlock(a.key(ks[0]))
	} else {
		a.l.RUnlock(a.key(ks[0]))
	}
}
func (a *anyLocker) entries() int {
	return watched(&a.unread, func() int { return keylock.VerifEntries(a.l) })
}
func (a *anyLocker) multi() bool { return false }

type tLocker[T comparable] struct {
	l      keylock.TLocker[T]
	mk     func(int) T
	unread bool
	bmu    sync.Mutex
	free   [][]T // buffers the callers use again
}

var nilLists int

func (t *tLocker[T]) keys(ks []int) []T {
	if len(ks) == 0 {
		if nilLists++; nilLists%2 == 0 {
			return nil // "no keys" is spelled nil as often as empty
		}
	}
	// callers reuse their buffers: a list is built in a buffer an earlier call was given (and has
	// written over since), so a locker that remembers lists by where they live meets other contents
	t.bmu.Lock()
	var out []T
	if n := len(t.free); n > 0 && cap(t.free[n-1]) >= len(ks)+2 {
		out, t.free = t.free[n-1][:0], t.free[:n-1]
	} else {
		out = make([]T, 0, 42)
	}
	t.bmu.Unlock()
	for _, k := range ks {
		out = append(out, t.mk(k))
	}
	return out
}

// scribble: the list is the caller's again once the call has returned - it is written over and appended
// to (a locker that kept it would now unlock something else)
func (t *tLocker[T]) scribble(kk []T) {
	for i := range kk {
		kk[i] = t.mk(39)
	}
	_ = append(kk, t.mk(38), t.mk(37))
	if cap(kk) > 0 {
		t.bmu.Lock()
		t.free = append(t.free, kk)
		t.bmu.Unlock()
	}
}
func (t *tLocker[T]) lock(ks []int, m string, multiAPI bool) {
	switch {
	case len(ks) == 1 && !multiAPI && m == "w":
		t.l.Lock(t.mk(ks[0]))
	case len(ks) == 1 && !multiAPI:
		t.l.RLock(t.mk(ks[0]))
	case m == "w":
		kk := t.keys(ks)
		t.l.Locks(kk)
		t.scribble(kk)
	default:
		kk := t.keys(ks)
		t.l.RLocks(kk)
		t.scribble(kk)
	}
}
func (t *tLocker[T]) unlock(ks []int, m string, multiAPI bool) {
	switch {
	case len(ks) == 1 && !multiAPI && m == "w":
		t.l.Unlock(t.mk(ks[0]))
	case len(ks) == 1 && !multiAPI:
		t.l.RUnlock(t.mk(ks[0]))
	case m == "w":
		kk := t.keys(ks)
		t.l.Unlocks(kk)
		t.scribble(kk)
	default:
		kk := t.keys(ks)
		t.l.RUnlocks(kk)
		t.scribble(kk)
	}
}
func (t *tLocker[T]) entries() int {
	return watched(&t.unread, func() int { return keylock.VerifEntriesT(t.l) })
}
func (t *tLocker[T]) multi() bool { return true }

// watched: the entry count is read under the locker's table mutex.  A call that panicked inside the
// locker (recovered by guard, reported as that worker's status) may have left the mutex locked for
// good; the reader then never comes back.  That is an observation (-2: "could not be read"), not the
// end of the harness - Go's "all goroutines are asleep" detector must not be what ends it.
func watched(unread *bool, f func() int) int {
	if *unread {
		return -2
	}
	ch := make(chan int, 1)
	go func() { ch <- f() }()
	select {
	case n := <-ch:
		return n
	case <-time.After(3 * time.Second):
		*unread = true
		return -2
	}
}

var variants = []string{"kl-int", "kl-str", "klg-int", "klgx-str", "kl-mix", "klg-mix", "klgx-mix", "tk-int", "tk-str", "tkg-int", "tkg-str", "tkgx-int", "tkgx-str",
	"kl-odd", "klg-odd", "klgx-odd", "tk-struct", "tk-arr", "tk-ptr", "tkg-bs", "tkgx-bs", "tkg-hit", "tkg-u8"}

var lockerCount int

func newLocker(variant string, shards int) locker {
	opt := remap.WithPrime(uint64(shards))
	id := func(k int) int { return k }
	lockerCount++
	switch variant {
	case "kl-odd":
		return &anyLocker{l: keylock.NewKeyLocker(), odd: 1, off: lockerCount}
	case "klg-odd":
		return &anyLocker{l: keylock.NewKeyLockeGrp(opt), odd: 2, off: lockerCount}
	case "klgx-odd":
		return &anyLocker{l: keylock.NewXHashKeyLockeGrp(opt), odd: 3, off: lockerCount}
	case "tk-struct":
		return &tLocker[pk]{l: keylock.NewTKeyLocker[pk](), mk: func(k int) pk { return pk{k % 3, fmt.Sprint(k / 3)} }}
	case "tk-arr":
		return &tLocker[[2]int]{l: keylock.NewTKeyLocker[[2]int](), mk: func(k int) [2]int { return [2]int{k % 2, k / 2} }}
	case "tk-ptr":
		return &tLocker[*int]{l: keylock.NewTKeyLocker[*int](), mk: func(k int) *int { return ptrKeys[k%len(ptrKeys)] }}
	case "tkg-bs":
		return &tLocker[bsKey]{l: keylock.NewTKeyLockeGrp[bsKey](opt), mk: func(k int) bsKey { return bsKey{k} }}
	case "tkgx-bs":
		return &tLocker[bsKey]{l: keylock.NewTXHashTKeyLockeGrp[bsKey](opt), mk: func(k int) bsKey { return bsKey{k} }}
	case "tkg-hit":
		return &tLocker[hitKey]{l: keylock.NewTKeyLockeGrp[hitKey](opt), mk: func(k int) hitKey { return hitKey{k} }}
	case "tkg-u8":
		return &tLocker[uint8]{l: keylock.NewTKeyLockeGrp[uint8](opt), mk: func(k int) uint8 { return uint8(k) }}
	case "kl-int":
		return &anyLocker{l: keylock.NewKeyLocker()}
	case "kl-str":
		return &anyLocker{l: keylock.NewKeyLocker(), str: true}
	case "klg-int":
		return &anyLocker{l: keylock.NewKeyLockeGrp(opt)}
	case "klgx-str":
		return &anyLocker{l: keylock.NewXHashKeyLockeGrp(opt), str: true}
	case "kl-mix":
		return &anyLocker{l: keylock.NewKeyLocker(), mix: true}
	case "klg-mix":
		return &anyLocker{l: keylock.NewKeyLockeGrp(opt), mix: true}
	case "klgx-mix":
		return &anyLocker{l: keylock.NewXHashKeyLockeGrp(opt), mix: true}
	case "tk-int":
		return &tLocker[int]{l: keylock.NewTKeyLocker[int](), mk: id}
	case "tk-str":
		return &tLocker[string]{l: keylock.NewTKeyLocker[string](), mk: skey}
	case "tkg-int":
		return &tLocker[int]{l: keylock.NewTKeyLockeGrp[int](opt), mk: id}
	case "tkg-str":
		return &tLocker[string]{l: keylock.NewTKeyLockeGrp[string](opt), mk: skey}
	case "tkgx-int":
		return &tLocker[int]{l: keylock.NewTXHashTKeyLockeGrp[int](opt), mk: id}
	case "tkgx-str":
		return &tLocker[string]{l: keylock.NewTXHashTKeyLockeGrp[string](opt), mk: skey}
	}
	tr.Fatal("variant %s", variant)
	return nil
}

type proc struct {
	status string // idle | held | parked
	ks     []int
	m      string
	multi  bool
	unl    bool // an unlock call is outstanding
	nest   int  // > 0: holds that many nested read locks of its call (a run with Nest)
}

type world struct {
	l  locker
	x  *qx.Exec
	ps []*proc
	// chain[p] = q: worker p continues the goroutine of worker q - "the goroutine that holds q's keys
	// asks for more".  sync.RWMutex has no owner, so for the locker one goroutine that holds the keys of
	// two calls is two workers with two constraints: p calls only while q holds and only keys above all
	// of q's (the goroutine respects the global key order), and q unlocks only when p is idle again.
	chain     map[int]int
	dead      bool // a worker is parked inside a run or panicked: nothing more is issued in this world
	lastRunOK int
}

func (wd *world) succOf(q int) int {
	for p, pq := range wd.chain {
		if pq == q {
			return p
		}
	}
	return 0
}

func (wd *world) mayUnlock(q int) bool {
	if wd.ps[q-1].status != "held" || wd.ps[q-1].unl {
		return false // (an unlock that has not come back stays outstanding: judged as stuck at the end)
	}
	if p := wd.succOf(q); p != 0 && wd.ps[p-1].status != "idle" {
		return false
	}
	return true
}

func (wd *world) poll() {
	for i, p := range wd.ps {
		if r, ok := wd.x.Take(i + 1); ok {
			if s, bad := r.(string); bad {
				p.status = s // "panic: ..." - the spec cannot explain it
			} else if p.unl {
				p.status, p.unl, p.ks, p.nest = "idle", false, nil, 0
			} else {
				p.status = "held"
			}
		}
	}
}

func guard(f func()) (r interface{}) {
	defer func() {
		if e := recover(); e != nil {
			r = fmt.Sprintf("panic: %v", e)
		}
	}()
	f()
	return 0
}

func (wd *world) step(a act, rng *rand.Rand) (act, bool) {
	if a.P < 1 || a.P > len(wd.ps) {
		return a, false
	}
	p := wd.ps[a.P-1]
	if wd.dead {
		return a, false
	}
	switch a.Op {
	case "run":
		return wd.run(a, rng)
	case "call":
		if p.status != "idle" {
			return a, false
		}
		ks := append([]int{}, a.Ks...)
		if len(ks) == 0 && !wd.l.multi() {
			return a, false // the single-key lockers have no call that takes a list
		}
		if !wd.l.multi() {
			ks = ks[:1]
		}
		if q, ok := wd.chain[a.P]; ok {
			pq := wd.ps[q-1]
			if pq.status != "held" {
				return a, false
			}
			for _, hk := range pq.ks {
				if len(ks) > 0 && hk >= ks[0] {
					return a, false
				}
			}
		}
		a.Ks = ks
		p.ks, p.m, p.multi, p.status = ks, a.M, rng.Intn(2) == 0 || len(ks) == 0, "parked"
		l, m, multi := wd.l, a.M, p.multi
		wd.x.Issue(a.P, func() interface{} { return guard(func() { l.lock(ks, m, multi) }) })
	case "unlock":
		if !wd.mayUnlock(a.P) {
			return a, false
		}
		p.unl = true
		l, ks, m, multi, times := wd.l, p.ks, p.m, p.multi, p.nest
		if times < 1 {
			times = 1
		}
		wd.x.Issue(a.P, func() interface{} {
			return guard(func() {
				for i := 0; i < times; i++ {
					l.unlock(ks, m, multi)
				}
			})
		})
	default:
		return a, false
	}
	if err := wd.x.Settle(); err != nil {
		tr.Fatal("%v", err)
	}
	wd.poll()
	return a, true
}

func (wd *world) emit(w *tr.W, a act) {
	if a.Op == "run" {
		wd.emitRun(w, a)
		return
	}
	st := make([]string, len(wd.ps))
	for i, p := range wd.ps {
		st[i] = p.status
	}
	rec := tr.E{"op": a.Op, "p": a.P}
	if a.Op == "call" {
		rec["ks"], rec["m"] = a.Ks, a.M
	}
	w.Emit(tr.E{"ev": "step", "a": rec, "st": st, "entries": wd.l.entries()})
}

func runPlan(w *tr.W, rng *rand.Rand, src, variant string, shards, nprocs int, plan []act) {
	runChainPlan(w, rng, src, variant, shards, nprocs, nil, plan)
}

func runChainPlan(w *tr.W, rng *rand.Rand, src, variant string, shards, nprocs int, chain map[int]int, plan []act) {
	wd := &world{l: newLocker(variant, shards), x: qx.New(nprocs), chain: chain}
	for i := 0; i < nprocs; i++ {
		wd.ps = append(wd.ps, &proc{status: "idle"})
	}
	w.Emit(tr.E{"ev": "reset", "variant": variant, "shards": shards, "src": src})
	var skipped []act
	for _, a := range plan {
		if b, ok := wd.step(a, rng); ok {
			wd.emit(w, b)
		} else if chain != nil {
			skipped = append(skipped, a)
		}
	}
	// with chains a step may have come before the step it depends on: one more try, in order
	for _, a := range skipped {
		if b, ok := wd.step(a, rng); ok {
			wd.emit(w, b)
		}
	}
	// drain: unlock whoever holds until nobody does; anybody still parked then is deadlocked
	for round := 0; round < 8*nprocs && !wd.dead; round++ {
		done := true
		for i := range wd.ps {
			if wd.mayUnlock(i + 1) {
				if b, ok := wd.step(act{Op: "unlock", P: i + 1}, rng); ok {
					wd.emit(w, b)
				}
				done = false
				break
			}
		}
		if done {
			break
		}
	}
	stuck := 0
	for _, p := range wd.ps {
		if p.status != "idle" {
			stuck++
		}
	}
	w.Emit(tr.E{"ev": "end", "entries": wd.l.entries(), "stuck": stuck})
	wd.x.Stop()
}

// lock-order probes for long multi-key lists: for a long ordered list L and a pair a < b of its keys
//
//	P3 Lock(a);  P1 Locks(L) (parks on a, holding whatever precedes a in its internal order);
//	P2 RLocks([a,b]) (parks on a);  P3 Unlock(a)  -> the pending reader P2 gets a and goes for b.
//
// If P1's internal order had b before a although the caller's list has a before b, P1 and P2 now
// wait for each other: two callers with consistently ordered duplicate-free lists are deadlocked.
func runProbes(w *tr.W, rng *rand.Rand, variant string, shards, listLen, universe, maxPairs int) {
	perm := rng.Perm(universe)[:listLen]
	sort.Ints(perm)
	L := make([]int, listLen)
	for i, k := range perm {
		L[i] = k + 1
	}
	type pair struct{ a, b int }
	var pairs []pair
	for i := 0; i < listLen; i++ {
		for j := i + 1; j < listLen; j++ {
			pairs = append(pairs, pair{L[i], L[j]})
		}
	}
	rng.Shuffle(len(pairs), func(i, j int) { pairs[i], pairs[j] = pairs[j], pairs[i] })
	if len(pairs) > maxPairs {
		pairs = pairs[:maxPairs]
	}
	for _, pr := range pairs {
		plan := []act{
			{Op: "call", P: 3, Ks: []int{pr.a}, M: "w"},
			{Op: "call", P: 1, Ks: L, M: "w"},
			{Op: "call", P: 2, Ks: []int{pr.a, pr.b}, M: "r"},
			{Op: "unlock", P: 3},
		}
		runPlan(w, rng, "probe", variant, shards, 3, plan)
	}
}

// nested probes: goroutines that hold the keys of more than one call.  Worker 3 continues worker 1 (see
// world.chain).  Over two keys a < b, in every order that keeps G0' behind G0:
//
//	H  = worker 4: RLocks/Locks [b] and its unlock   (creates b's entry before or after a's)
//	G0 = worker 1: call [a]          G0' = worker 3: call [b]   (one goroutine, ascending)
//	G1 = worker 2: call [a, b]
//
// All lists are ascending and duplicate free, so on a locker that takes the keys of one call in an order
// compatible with the callers' key order nobody may be left parked at the end.
func runNestProbes(w *tr.W, rng *rand.Rand, variant string, n int) {
	for i := 0; i < n; i++ {
		a := 1 + rng.Intn(6)
		b := a + 1 + rng.Intn(6)
		md := func() string {
			if rng.Intn(2) == 0 {
				return "r"
			}
			return "w"
		}
		steps := []act{
			{Op: "call", P: 4, Ks: []int{b}, M: md()},
			{Op: "call", P: 1, Ks: []int{a}, M: md()},
			{Op: "call", P: 2, Ks: []int{a, b}, M: md()},
			{Op: "call", P: 3, Ks: []int{b}, M: md()},
			{Op: "unlock", P: 4},
		}
		if rng.Intn(3) == 0 { // a third key between: longer lists, more entries
			c := b + 1 + rng.Intn(3)
			steps[2].Ks = []int{a, b, c}
			if rng.Intn(2) == 0 {
				steps[3].Ks = []int{b, c}
			}
		}
		rng.Shuffle(len(steps), func(i, j int) { steps[i], steps[j] = steps[j], steps[i] })
		runChainPlan(w, rng, "nest", variant, 1, 4, map[int]int{3: 1}, steps)
	}
}

func orderedSublist(rng *rand.Rand, nkeys int) []int {
	var ks []int
	for len(ks) == 0 {
		ks = ks[:0]
		for k := 1; k <= nkeys; k++ {
			if rng.Intn(3) == 0 {
				ks = append(ks, k)
			}
		}
	}
	return ks
}

func randPlan(rng *rand.Rand, nprocs, nkeys, n int) []act {
	var out []act
	for i := 0; i < n; i++ {
		p := rng.Intn(nprocs) + 1
		if rng.Intn(100) < 55 {
			m := "r"
			if rng.Intn(5) < 2 {
				m = "w"
			}
			ks := orderedSublist(rng, nkeys)
			if rng.Intn(2) == 0 {
				ks = ks[:1]
			}
			if rng.Intn(25) == 0 {
				ks = []int{} // a list that filtered down to nothing: holds nothing, must return, must not matter
			}
			if len(ks) > 0 && rng.Intn(30) == 0 { // a run of this call (skipped where it might have to wait)
				out = append(out, act{Op: "run", P: p, Ks: ks, M: m, N: []int{2, 255, 256, 257, 65536, 700}[rng.Intn(6)], Nest: m == "r" && rng.Intn(2) == 0})
				continue
			}
			out = append(out, act{Op: "call", P: p, Ks: ks, M: m})
		} else {
			out = append(out, act{Op: "unlock", P: p})
		}
	}
	return out
}

func readPlan(path string) []act {
	f, err := os.Open(path)
	if err != nil {
		tr.Fatal("%v", err)
	}
	defer f.Close()
	var out []act
	sc := bufio.NewScanner(f)
	for sc.Scan() {
		var a act
		if err := json.Unmarshal(sc.Bytes(), &a); err != nil {
			tr.Fatal("plan %s: %v", path, err)
		}
		out = append(out, a)
	}
	return out
}

// stress: free-running goroutines, consistently ordered duplicate-free lists; monitor events are
// logged inside the critical sections.  A run that does not finish is a deadlock fact if every
// worker is parked in a runtime wait state.
func runStress(w *tr.W, rng *rand.Rand, variant string, shards, nthreads, nkeys, opsPer int, cold bool) {
	l := newLocker(variant, shards)
	var mu sync.Mutex
	evs := make([]tr.E, 0, 1024)
	logf := func(e tr.E) {
		mu.Lock()
		evs = append(evs, e)
		mu.Unlock()
	}
	seeds := make([]int64, nthreads)
	for i := range seeds {
		seeds[i] = rng.Int63()
	}
	var wg sync.WaitGroup
	var finished int32
	var ready, goFlag int32
	var fm sync.Mutex
	for t := 0; t < nthreads; t++ {
		wg.Add(1)
		go func(t int) {
			defer wg.Done()
			r := rand.New(rand.NewSource(seeds[t]))
			if cold {
				// cold start: everybody touches the fresh locker at the same instant
				atomic.AddInt32(&ready, 1)
				for atomic.LoadInt32(&goFlag) == 0 {
				}
			}
			for i := 0; i < opsPer; i++ {
				ks := orderedSublist(r, nkeys)
				if !l.multi() || r.Intn(2) == 0 {
					ks = ks[:1]
				}
				m := "r"
				if r.Intn(3) == 0 {
					m = "w"
				}
				multi := r.Intn(2) == 0
				l.lock(ks, m, multi)
				logf(tr.E{"ev": "mon", "kind": "in", "p": t + 1, "ks": ks, "m": m})
				for j := 0; j < r.Intn(300); j++ {
					_ = j
				}
				logf(tr.E{"ev": "mon", "kind": "out", "p": t + 1})
				l.unlock(ks, m, multi)
			}
			fm.Lock()
			finished++
			fm.Unlock()
		}(t)
	}
	if cold {
		for atomic.LoadInt32(&ready) < int32(nthreads) {
			runtime.Gosched()
		}
		atomic.StoreInt32(&goFlag, 1)
	}
	done := make(chan struct{})
	go func() { wg.Wait(); close(done) }()
	stuck := 0
	select {
	case <-done:
	case <-time.After(60 * time.Second):
		fm.Lock()
		stuck = nthreads - int(finished)
		fm.Unlock()
	}
	mu.Lock()
	defer mu.Unlock()
	src := "stress"
	if cold {
		src = "cold"
	}
	w.Emit(tr.E{"ev": "reset", "variant": variant, "shards": shards, "src": src})
	for _, e := range evs {
		w.Emit(e)
	}
	if stuck > 0 {
		// workers still inside critical sections keep the spec's st non-idle: close them for the
		// log so that the end event is judged on `stuck`
		w.Emit(tr.E{"ev": "end", "entries": l.entries(), "stuck": stuck})
		return
	}
	w.Emit(tr.E{"ev": "end", "entries": l.entries(), "stuck": 0})
}

func main() {
	plans := flag.String("plans", "", "directory of TLC-generated plans")
	out := flag.String("out", "steps.ndjson", "step traces")
	stress := flag.String("stress", "stress.ndjson", "stress traces")
	seed := flag.Int64("seed", 1, "seed")
	nrand := flag.Int("rand", 100, "random schedules")
	nstress := flag.Int("nstress", 10, "stress runs")
	nprobe := flag.Int("nprobe", 5, "long-list lock-order probe families")
	ncold := flag.Int("ncold", 300, "cold-start rounds (first use of a fresh locker under contention)")
	nnest := flag.Int("nnest", 200, "nested-hold probes (a goroutine holding the keys of two calls)")
	probePairs := flag.Int("probepairs", 60, "pairs probed per long list")
	nlong := flag.Int("nlong", 0, "plans with long runs (lock/unlock cycles, nested read locks) around counter widths")
	nretain := flag.Int("nretain", 0, "retention probes (heap kept per key after lock/unlock of many distinct keys)")
	nsim := flag.Int("nsim", 0, "free-running rounds in which several holders unlock at one instant")
	only := flag.String("only", "", "restrict to variants containing one of these comma-separated fragments (e.g. \"g-,gx-\" = sharded groups only)")
	flag.Parse()
	if *only != "" {
		var keep []string
		for _, v := range variants {
			for _, frag := range strings.Split(*only, ",") {
				if strings.Contains(v, frag) {
					keep = append(keep, v)
					break
				}
			}
		}
		variants = keep
	}
	rng := rand.New(rand.NewSource(*seed))
	shardsL := []int{1, 2, 3, 73}

	w := tr.Create(*out)
	if *plans != "" {
		files, _ := filepath.Glob(filepath.Join(*plans, "*.ndjson"))
		sort.Strings(files)
		for i, f := range files {
			p := readPlan(f)
			runPlan(w, rng, "plan:"+filepath.Base(f), variants[i%len(variants)], shardsL[i%4], 5, p[1:])
		}
	}
	for i := 0; i < *nrand; i++ {
		np := rng.Intn(3) + 3
		nk := rng.Intn(3) + 2
		runPlan(w, rng, "rand", variants[rng.Intn(len(variants))], shardsL[rng.Intn(4)], np, randPlan(rng, np, nk, 25+rng.Intn(40)))
	}
	for i := 0; i < *nprobe; i++ {
		tv := []string{"tkg-int", "tkg-str", "tkgx-int", "tkgx-str", "tk-int"}[i%5]
		if *only != "" && tv == "tk-int" {
			tv = "tkgx-int"
		}
		runProbes(w, rng, tv, []int{73, 3, 2, 73, 1}[i%5], []int{13, 16, 24, 20, 14}[i%5], 36, *probePairs)
	}
	// goroutines holding the keys of several calls (un-sharded lockers: there the callers' key order is
	// the only order there is; a sharded group takes the keys of one call shard by shard)
	unsh := []string{"tk-int", "tk-str", "kl-int", "kl-str", "kl-mix", "kl-odd", "tk-struct", "tk-ptr"}
	if *only == "" {
		for i := 0; i < *nnest; i++ {
			runNestProbes(w, rng, unsh[i%2], 1)
		}
		if *plans != "" {
			files, _ := filepath.Glob(filepath.Join(*plans, "*.ndjson"))
			sort.Strings(files)
			for i, f := range files {
				p := readPlan(f)
				runChainPlan(w, rng, "chainplan:"+filepath.Base(f), unsh[i%len(unsh)], 1, 5, map[int]int{3: 2, 4: 1}, p[1:])
			}
		}
		for i := 0; i < *nrand/2; i++ {
			np := 4 + rng.Intn(2)
			nk := rng.Intn(3) + 3
			runChainPlan(w, rng, "chainrand", unsh[rng.Intn(len(unsh))], 1, np, map[int]int{3: 1, 4: 2}, randPlan(rng, np, nk, 30+rng.Intn(40)))
		}
	}
	for i := 0; i < *nlong && len(variants) > 0; i++ {
		runPlan(w, rng, "long", variants[(i*5+int(*seed))%len(variants)], shardsL[rng.Intn(4)], 4, longPlan(rng))
	}
	for i := 0; i < *nretain; i++ {
		v := retainVariants[(i+int(*seed))%len(retainVariants)]
		if *only != "" && !strings.Contains(strings.Join(variants, ","), v) {
			continue
		}
		runRetain(w, rng, v, shardsL[rng.Intn(4)], 40000)
	}
	w.Close()
	sw := tr.Create(*stress)
	for i := 0; i < *nstress; i++ {
		runStress(sw, rng, variants[i%len(variants)], shardsL[rng.Intn(4)], 5, 4, 80, false)
	}
	// cold-start rounds: what a locker sets up on first use (a shard, an entry) is set up under contention
	for i := 0; i < *ncold; i++ {
		runStress(sw, rng, variants[rng.Intn(len(variants))], shardsL[rng.Intn(4)], 2+rng.Intn(3), 1+rng.Intn(2), 1+rng.Intn(2), true)
	}
	for i := 0; i < *nsim && simStuck < 3 && len(variants) > 0; i++ {
		runSimU(sw, rng, variants[rng.Intn(len(variants))], shardsL[rng.Intn(4)])
	}
	sw.Close()
	fmt.Printf("step_events=%d stress_events=%d\n", w.N(), sw.N())
}
