// kinds: the interface{}-keyed lockers take every comparable dynamic kind as a key (nil and typed nil
// pointers included); the sharded groups route keys through remap, which takes the integer kinds,
// strings and types that say themselves where they belong (remap.Bs, remap.HitGroup).  The generic
// lockers are instantiated with struct, array, pointer and narrow integer key types as well.
package main

import "errors"

type pk struct {
	A int
	B string
}
type bsKey struct{ n int }   // remap.Bs
type hitKey struct{ n int }  // remap.HitGroup
type hitBs struct{ n uint8 } // both

func (b bsKey) ToBytes() []byte { return []byte{byte(b.n), byte(b.n >> 8), 'b'} }
func (h hitKey) Hit() uint64    { return uint64(h.n) }
func (h hitBs) Hit() uint64     { return uint64(h.n) }
func (h hitBs) ToBytes() []byte { return []byte{h.n} }

type hitP struct{ n int }

func (h *hitP) Hit() uint64 { return 7 }

var hitPtr hitP
var oddA, oddB = &pk{7, ""}, &pk{7, ""} // equal contents, different keys
var oddChan = make(chan struct{})

var oddNils = []interface{}{nil, (*int)(nil), (*pk)(nil)}

var oddSingle = []interface{}{
	struct{}{}, pk{7, ""}, oddA, oddB, [2]int{7, 0}, false, float64(7), "",
	int8(7), [1]interface{}{nil}, struct{ X interface{} }{7}, oddChan, complex64(7), uintptr(7), true, [0]int{},
	pk{7, "7"}, bsKey{7}, hitKey{7}, errors.New("7"),
}

// what SimpleIndex can place (integer kinds and HitGroup directly, the rest through the hash)
var oddWide = []interface{}{
	int8(7), uint16(7), int32(7), byte(7), uint(7), "", "7", bsKey{7}, hitKey{7}, hitBs{7}, int16(7), int64(7),
	uint64(7), int(7), hitKey{80}, bsKey{80}, uint32(7), &hitPtr,
}

// what XHashIndex can place (everything goes through ToBytes)
var oddWideX = []interface{}{
	int8(7), uint16(7), int32(7), byte(7), uint(7), "", "7", bsKey{7}, hitBs{7}, int16(7), int64(7), uint64(7),
	int(7), bsKey{80}, uint32(7), hitBs{0},
}

// oddKey: tab 0 = un-sharded, 1 = SimpleIndex group, 2 = XHashIndex group.  Keys beyond the table (long
// lists) are structs / Bs values of their own.
func oddKey(tab, k, off int) interface{} {
	t := oddSingle
	switch tab {
	case 1:
		t = oddWide
	case 2:
		t = oddWideX
	default:
		if k == 1 && off%2 == 0 {
			return oddNils[(off/2)%3]
		}
	}
	if k > len(t) {
		return bsKey{1000 + k}
	}
	return t[(k+off)%len(t)]
}

var ptrKeys = func() []*int {
	ps := make([]*int, 64)
	for i := range ps {
		ps[i] = new(int) // all point to 0: equal contents, different keys
	}
	return ps
}()
