// retention probes: "when every lock has been released the locker retains no per-key state".  The entry
// count the verif accessor reads covers the lock tables; whatever else a locker might remember per key
// (a cache beside the tables, a list of keys seen) shows only in what the heap keeps.  One goroutine
// locks and unlocks n distinct keys one after the other (so no table ever holds more than one entry),
// the harness keeps none of the keys, and the heap is measured after collections before and after.  The
// trace carries the bytes kept per 1000 keys (the smaller of two rounds over disjoint key ranges); the
// trace spec holds the bound.
package main

import (
	"math/rand"
	"runtime"

	"verif/harness/internal/tr"
)

// variants whose key maps are injective on the probed range
var retainVariants = []string{"kl-int", "kl-str", "klg-int", "klgx-str", "tk-int", "tk-str", "tkg-int", "tkg-str",
	"tkgx-int", "tkgx-str", "tk-struct", "tk-arr"}

func heapNow() int64 {
	var m runtime.MemStats
	runtime.GC()
	runtime.GC()
	runtime.ReadMemStats(&m)
	return int64(m.HeapAlloc)
}

func retainRound(l locker, base, n int, rng *rand.Rand) (kept int64, crashed bool) {
	ks := make([]int, 1)
	h0 := heapNow()
	if r := guard(func() {
		for i := 0; i < n; i++ {
			ks[0] = base + i
			m := "w"
			if i%3 == 1 {
				m = "r"
			}
			api := l.multi() && i%2 == 0
			l.lock(ks, m, api)
			l.unlock(ks, m, api)
		}
	}); r != 0 {
		return 0, true
	}
	kept = heapNow() - h0
	runtime.KeepAlive(l)
	return kept, false
}

func runRetain(w *tr.W, rng *rand.Rand, variant string, shards, n int) {
	l := newLocker(variant, shards)
	w.Emit(tr.E{"ev": "reset", "variant": variant, "shards": shards, "src": "retain"})
	// a first small round lets the locker build what it builds once (shards, tables)
	if _, crashed := retainRound(l, 1000, 64, rng); crashed {
		w.Emit(tr.E{"ev": "retain", "n": 64, "per1k": -1, "entries": -1})
		return
	}
	k1, c1 := retainRound(l, 100000, n, rng)
	k2, c2 := retainRound(l, 400000, n, rng)
	if c1 || c2 {
		w.Emit(tr.E{"ev": "retain", "n": n, "per1k": -1, "entries": -1})
		return
	}
	if k2 < k1 {
		k1 = k2
	}
	if k1 < 0 {
		k1 = 0
	}
	per := k1 * 1000 / int64(n)
	if per > 1<<30 {
		per = 1 << 30
	}
	w.Emit(tr.E{"ev": "retain", "n": n, "per1k": int(per), "entries": l.entries()})
	runtime.KeepAlive(l)
}
